(* cmd_doc.ml — commands about whole documents: serializers, buffers, MessagePack *)
open Model
open Util

(* parser of the canonical dump (inverse of Util.dump) *)
let parse_dump (cf : cfg) (d : string) : jv =
  let i = ref 0 in
  let n = String.length d in
  let token () =
    let j = ref !i in
    while !j < n && not (List.mem d.[!j] [','; ']'; '}'; ':']) do incr j done;
    let t = String.sub d !i (!j - !i) in
    i := !j; t in
  let rec value () : jv =
    match d.[!i] with
    | '[' ->
        incr i;
        if d.[!i] = ']' then (incr i; JArr [])
        else begin
          let acc = ref [] in
          let continue = ref true in
          while !continue do
            acc := value () :: !acc;
            if d.[!i] = ',' then incr i else (incr i; continue := false)
          done;
          JArr (List.rev !acc)
        end
    | '{' ->
        incr i;
        if d.[!i] = '}' then (incr i; JObj [])
        else begin
          let acc = ref [] in
          let continue = ref true in
          while !continue do
            let k = bytes_of_hex (token ()) in
            incr i;  (* ':' *)
            let v = value () in
            (* obj[key] through the API: a repeated key designates the existing member *)
            acc := assoc_set k v !acc;
            if d.[!i] = ',' then incr i else (incr i; continue := false)
          done;
          JObj !acc
        end
    | _ ->
        let t = token () in
        if t = "n" then JNull else if t = "t" then JBool true else if t = "f" then JBool false
        else if t = "Fnan" then JFloat S754_nan
        else if t = "Dnan" then jv_of_double cf.use_double S754_nan
        else match t.[0] with
          | 'i' -> JInt (z_of_dec (String.sub t 1 (String.length t - 1)))
          | 'F' -> JFloat (sf_of_bits f32 (z_of_hex (String.sub t 1 (String.length t - 1))))
          | 'D' -> jv_of_double cf.use_double (sf_of_bits f64 (z_of_hex (String.sub t 1 (String.length t - 1))))
          | 's' -> JStr (bytes_of_hex (String.sub t 1 (String.length t - 1)))
          | 'r' -> JRaw (bytes_of_hex (String.sub t 1 (String.length t - 1)))
          | _ -> failwith ("dump token " ^ t)
  in
  value ()

let ser_fmt (cf : cfg) (fmt : int) (v : jv) : n list =
  match fmt with
  | 0 -> ser cf v
  | 1 -> ser_pretty cf Z0 v
  | _ -> mp_ser v

let handle (cf : cfg) (line : string) : string option =
  match String.split_on_char ' ' line with
  (* CPB <b> <hex JSON text> : Model/CopyBudget.v — copy of the value with b slots available *)
  | ["CPB"; b; h] ->
      let o = json_run cf None (nat_of_int 50) (bytes_of_hex h) in
      let ((pv, rem), ok) = copy_budget o.j_doc (nat_of_int (int_of_string b)) in
      Some (Printf.sprintf "%s %s %d" (if ok then "true" else "false") (dump pv) (int_of_nat rem))
  (* DSB <J|M> <slots> <hex input> : Model/CopyBudget.v read_budget — the document left by a reader that can have only that many slots *)
  | ["DSB"; fmtc; b; h] ->
      let doc = if fmtc = "J" then (json_run cf None (nat_of_int 50) (bytes_of_hex h)).j_doc
                else (mp_run cf None (nat_of_int 50) (bytes_of_hex h)).mp_doc in
      let ((pv, _), ok) = read_budget doc (nat_of_int (int_of_string b)) in
      Some (Printf.sprintf "%s %s" (if ok then "Ok" else "NoMemory") (dump pv))
  | ["S"; fmt; d] ->
      let v = parse_dump cf d in
      let out = ser_fmt cf (int_of_string fmt) v in
      let n = List.length out in
      Some (Printf.sprintf "%s %d %d %s" (hex_of_bytes out) n n (dump v))
  | ["BIG"; shape; n] ->
      let n = int_of_string n in
      let v = match shape with
        | "arr-nil" -> JArr (List.init n (fun _ -> JNull))
        | "arr-int" -> JArr (List.init n (fun i -> JInt (z_of_int (i mod 7))))
        | "map-int" -> JObj (List.init n (fun i -> (List.map (fun c -> n_of_int (Char.code c)) (List.of_seq (String.to_seq ("k" ^ string_of_int i))), JInt (z_of_int (i mod 7)))))
        | _ -> failwith "bad shape" in
      let summary out =
        let h = ref 0xcbf29ce484222325L in
        List.iter (fun b -> h := Int64.mul (Int64.logxor !h (Int64.of_int (int_of_n b))) 0x100000001b3L) out;
        let rec take k l = match l with x :: r when k > 0 -> x :: take (k - 1) r | _ -> [] in
        Printf.sprintf "%s %d %s" (hex_of_bytes (take 8 out)) (List.length out) (Printf.sprintf "%Lu" !h) in
      Some (Printf.sprintf "%s %s size=%d" (summary (ser_fmt cf 2 v)) (summary (ser_fmt cf 0 v)) n)
  | ["RX"; h] ->
      let raw = bytes_of_hex h in
      let b = (match mp_binary_of_raw raw with Some p -> "s" ^ hex_of_bytes p | None -> "-") in
      let e = (match mp_extension_of_raw raw with Some (ty, p) -> Printf.sprintf "%d:s%s" (int_of_n ty) (hex_of_bytes p) | None -> "-") in
      Some (Printf.sprintf "bin=%s ext=%s" b e)
  | ["TB"; h] ->
      let p = bytes_of_hex h in
      let v = (match mp_binary_raw p with Some raw -> JRaw raw | None -> JNull) in
      let out = ser_fmt cf 2 v in
      let back = (match v with JRaw raw -> (match mp_binary_of_raw raw with Some q -> "s" ^ hex_of_bytes q | None -> "-") | _ -> "-") in
      Some (Printf.sprintf "%s %s %d %d back=%s" (dump v) (hex_of_bytes out) (List.length out) (List.length out) back)
  | ["TX"; ty; h] ->
      let p = bytes_of_hex h in
      let t = int_of_string ty in
      let tb = n_of_int (if t < 0 then t + 256 else t) in
      let v = (match mp_extension_raw tb p with Some raw -> JRaw raw | None -> JNull) in
      let out = ser_fmt cf 2 v in
      let back = (match v with JRaw raw -> (match mp_extension_of_raw raw with Some (ty2, q) -> Printf.sprintf "%d:s%s" (int_of_n ty2) (hex_of_bytes q) | None -> "-") | _ -> "-") in
      Some (Printf.sprintf "%s %s %d %d back=%s" (dump v) (hex_of_bytes out) (List.length out) (List.length out) back)
  | ["B"; fmt; cap; d] ->
      let fmt = int_of_string fmt in
      let v = parse_dump cf d in
      let out = ser_fmt cf fmt v in
      let ((stored, count), nul) = write_to_buffer (fmt <> 2) (nat_of_int (int_of_string cap)) out in
      (* the C++ returns the number of bytes produced = stored *)
      Some (Printf.sprintf "%s %d %s" (hex_of_bytes stored) (int_of_nat count) (if nul then "nul" else "nonul"))
  | ["M"; l; f; i] ->
      let flt = if f = "-" then None
                else Some (json_run cf None (nat_of_int 50) (bytes_of_hex f)).j_doc in
      let o = mp_run cf flt (nat_of_int (int_of_string l)) (bytes_of_hex i) in
      Some (Printf.sprintf "%s %d %s" (code_name o.mp_err) (int_of_n o.mp_rd.m_reads) (dump o.mp_doc))
  | [("JS" | "MS") as k; i] ->
      let rs = (if k = "JS" then json_stream else mp_stream) cf (nat_of_int 10) (nat_of_int 40) N0 (bytes_of_hex i) in
      Some (String.concat "" (List.map (fun r ->
        Printf.sprintf "%s@%d:%s " (code_name r.c_err) (int_of_n r.c_pos) (dump r.c_doc)) rs))
  | ["MR"; i] ->
      let o = mp_run cf None (nat_of_int 50) (bytes_of_hex i) in
      Some (Printf.sprintf "%s %s" (code_name o.mp_err) (hex_of_bytes (mp_ser o.mp_doc)))
  | _ -> None
