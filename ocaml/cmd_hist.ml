(* cmd_hist.ml — API histories: random generation driven by the extracted tree model (which knows which
   handles are still alive), and their expected observable results.  Trusted glue: the generator. *)
open Model
open Util

(* deterministic PRNG (one state, derived from the seed) *)
let state = ref 1
let rand n =
  state := (!state * 1103515245 + 12345) land 0x3fffffff;
  if n <= 0 then 0 else (!state lsr 8) mod n
let pick l = List.nth l (rand (List.length l))

let dump_scalar = function
  | SNull -> "n" | SBool true -> "t" | SBool false -> "f" | SInt z -> "i" ^ z_to_dec z
  | SFloat f -> dump_f32 f | SDouble f -> dump_f64 f
  | SStr s -> "s" ^ hex_of_bytes s | SRaw s -> "r" ^ hex_of_bytes s

let keys = List.map (fun s -> List.map (fun c -> n_of_int (Char.code c)) (List.of_seq (String.to_seq s)))
    ["a"; "b"; "c"; "ab"; ""; "a\000b"; "key"; "k1"; "k2"; "*"]

let rand_scalar () : scalar =
  match rand 12 with
  | 0 -> SNull | 1 -> SBool (rand 2 = 0)
  | 2 | 3 -> SInt (z_of_int (rand 2000 - 1000))
  | 4 -> SInt (z_of_dec (pick ["2147483647"; "2147483648"; "-2147483649"; "4294967296"; "9223372036854775807"; "18446744073709551615"; "-9223372036854775808"]))
  | 5 -> SFloat (sf_of_bits f32 (z_of_hex (pick ["3fc00000"; "40490fdb"; "00000000"; "bf800000"; "7f7fffff"])))
  | 6 -> SDouble (sf_of_bits f64 (z_of_hex (pick ["400921fb54442d18"; "3ff8000000000000"; "3fb999999999999a"; "7fefffffffffffff"; "c0c3880000000000"])))
  | 7 | 8 | 9 -> SStr (pick keys @ (if rand 3 = 0 then pick keys else []))
  | 10 -> SStr (List.init (rand 40) (fun _ -> n_of_int (97 + rand 26)))
  | _ -> SRaw (List.map (fun c -> n_of_int (Char.code c)) (List.of_seq (String.to_seq (pick ["1"; "[1,2]"; "\"x\""; "null";
            (* raw values that are MessagePack bin / ext objects (given through MsgPackBinary / MsgPackExtension by the harness): equal sizes, different bytes *)
            "\xc4\x02\x01\x02"; "\xc4\x02\x03\x04"; "\xc4\x02\x03\x04"; "\xc4\x00"; "\xc4\x03abc"; "\xd5\x07\x01\x02"; "\xd5\x07\x03\x04"]))))

let texts = ["[1,2,3]"; "{\"a\":1,\"b\":[true,null]}"; "\"str\""; "42"; "[[[]]]"; "{\"a\":{\"b\":{\"c\":1}}}"; "[1,"; "{\"k\":"; ""; "nul";
             "[1.5,\"x\",{\"k\":[]}]"; "{\"a\":1,\"a\":2}"; "  [ ]  "; "[1]garbage"]

(* is a an ancestor-or-self of b in the world? *)
let rec subtree_ids w i = match get w i with
  | None -> []
  | Some c -> ids (Node (i, c))

let related w a b =
  let ia = subtree_ids w a and ib = subtree_ids w b in
  List.exists (fun x -> x = b) ia || List.exists (fun x -> x = a) ib

let rec dump_content w (c : content) = Util.dump (to_jv (Node (N0, c)))

let result_string = function
  | RBool true -> "true" | RBool false -> "false"
  | RRef (Some _) -> "bound" | RRef None -> "unbound" | RUnit -> "-"


(* proxy chains  r[p1][p2]...[pn] : Model/Chain.v (every level is the model's own step; the chain is a sequence of steps) *)
let path_string (p : pel list) =
  String.concat "/" (List.map (function PKey k -> "k" ^ hex_of_bytes k | PIdx i -> "i" ^ string_of_int (int_of_nat i)) p)
let path_of_string (s : string) : pel list =
  List.map (fun t -> if t.[0] = 'k' then PKey (bytes_of_hex (String.sub t 1 (String.length t - 1)))
                     else PIdx (nat_of_int (int_of_string (String.sub t 1 (String.length t - 1))))) (String.split_on_char '/' s)

(* profile: 0 = general, 1 = no document-level ops (for fault enumeration), 2 = small *)
let gen_history (seed : int) (nops : int) (ndocs : int) (profile : int) : string =
  state := seed * 7919 + 17;
  let w = ref (init_world (nat_of_int ndocs)) in
  let handles : n option array = Array.make 24 None in
  for d = 0 to ndocs - 1 do handles.(d) <- Some (n_of_int d) done;
  let nh = ref ndocs in
  let live_handles () =
    List.filter (fun h -> match handles.(h) with Some i -> live !w i | None -> false) (List.init !nh (fun h -> h)) in
  let out = Buffer.create 4096 in
  let new_handle () = if !nh < 24 then (let h = !nh in incr nh; h) else (let h = ndocs + rand (24 - ndocs) in h) in
  for _step = 1 to nops do
    let lh = live_handles () in
    let h = pick lh in
    let r = match handles.(h) with Some i -> i | None -> N0 in
    let k = pick keys in
    let idx = pick [0; 0; 1; 1; 2; 3; 5] in
    (* read / remove far beyond the end, at and around the powers of two where an index could be truncated to a
       narrower integer (8-, 16-, 32-bit): nothing there *)
    let idx_far = if rand 6 = 0 then pick [255; 256; 257; 65535; 65536; 65537; 4294967296; 4294967297] else idx in
    let choice = rand (if profile = 1 then 86 else 100) in
    let (line, o, bind) =
      if choice < 12 then (Printf.sprintf "set %d %s" h (dump_scalar (let x = rand_scalar () in state := !state; x)), None, None)
      else (("", None, None)) in
    ignore (line, o, bind);
    (* build the op *)
    let x = rand_scalar () in
    let nhd = new_handle () in
    let custom : (world -> world * result) option ref = ref None in
    let pending_passign : (int * n * pel * pel) option ref = ref None in
    let rand_path () = List.init (2 + rand 2) (fun _ -> if rand 3 = 0 then PIdx (nat_of_int (pick [0; 1; 2])) else PKey (pick keys)) in
    let (text, o, bind) : string * op * int option =
      if profile <> 1 && rand 9 = 0 then begin
        (* a chain of proxies, written or read in one expression *)
        let path = rand_path () in
        if rand 3 = 0 then begin
          custom := Some (fun w -> chain_get w r path);
          (Printf.sprintf "chainget %d %s %d" h (path_string path) nhd, OGetElem (r, O), Some nhd)
        end else begin
          custom := Some (fun w -> chain_set w r path x);
          (Printf.sprintf "chainset %d %s %s" h (path_string path) (dump_scalar x), OSet (r, x), None)
        end
      end else
      if profile <> 1 && rand 16 = 0 && (
           (* dst[p1] = src[p2]: only when the destination resolves and the source is neither inside nor around it *)
           let pe () = if rand 3 = 0 then PIdx (nat_of_int (pick [0; 1; 2])) else PKey (pick keys) in
           let p1 = pe () and p2 = pe () in
           let lhs = live_handles () in
           let h2 = pick lhs in
           (match handles.(h2) with
            | Some r2 ->
                let (w1, dst) = get_or_add_level !w r p1 in
                (match dst with
                 | Some d ->
                     let okk = (match get_level w1 r2 p2 with Some s_ -> not (related w1 d s_) | None -> true) in
                     if okk then begin pending_passign := Some (h2, r2, p1, p2); true end else false
                 | None -> false)
            | None -> false)) then begin
        match !pending_passign with
        | Some (h2, r2, p1, p2) ->
            pending_passign := None;
            custom := Some (fun w -> proxy_assign w r p1 r2 p2);
            (Printf.sprintf "passign %d %s %d %s" h (path_string [p1]) h2 (path_string [p2]), OSet (r, SNull), None)
        | None -> failwith "passign"
      end else
      if rand 14 = 0 then begin
        (* add<JsonArray>() / add<JsonObject>() / r[k].to<JsonArray>() / createNested...: two model steps in one call (Model/Chain.v) *)
        let arr = rand 2 = 0 in
        if rand 2 = 0 then begin
          custom := Some (fun w -> add_typed w r arr);
          (Printf.sprintf "%s %d %d" (if arr then "addarr" else "addobj") h nhd, OAddNew r, Some nhd)
        end else begin
          custom := Some (fun w -> nest_typed w r k arr);
          (Printf.sprintf "%s %d %s %d" (if arr then "nestarr" else "nestobj") h (hex_of_bytes k) nhd, OMakeMember (r, k), Some nhd)
        end
      end else
      if choice < 12 then (Printf.sprintf "set %d %s" h (dump_scalar x), OSet (r, x), None)
      else if choice < 16 then (Printf.sprintf "toarr %d" h, OToArr r, None)
      else if choice < 20 then (Printf.sprintf "toobj %d" h, OToObj r, None)
      else if choice < 22 then (Printf.sprintf "clear %d" h, OClear r, None)
      else if choice < 32 then (Printf.sprintf "addnew %d %d" h nhd, OAddNew r, Some nhd)
      else if choice < 40 then (Printf.sprintf "addval %d %s" h (dump_scalar x), OAddVal (r, x), None)
      else if choice < 45 then (Printf.sprintf "getelem %d %d %d" h idx_far nhd, OGetElem (r, nat_of_int (min idx_far 70000)), Some nhd)
      else if choice < 52 then (Printf.sprintf "makeelem %d %d %d" h idx nhd, OMakeElem (r, nat_of_int idx), Some nhd)
      else if choice < 57 then (Printf.sprintf "setelem %d %d %s" h idx (dump_scalar x), OSetElem (r, nat_of_int idx, x), None)
      else if choice < 62 then (Printf.sprintf "getmember %d %s %d" h (hex_of_bytes k) nhd, OGetMember (r, k), Some nhd)
      else if choice < 70 then (Printf.sprintf "makemember %d %s %d" h (hex_of_bytes k) nhd, OMakeMember (r, k), Some nhd)
      else if choice < 76 then (Printf.sprintf "setmember %d %s %s" h (hex_of_bytes k) (dump_scalar x), OSetMember (r, k, x), None)
      else if choice < 80 then (Printf.sprintf "rmidx %d %d" h idx_far, ORemoveIdx (r, nat_of_int (min idx_far 70000)), None)
      else if choice < 84 then (Printf.sprintf "rmkey %d %s" h (hex_of_bytes k), ORemoveKey (r, k), None)
      else if choice < 86 then begin
        let t = pick texts in
        (Printf.sprintf "deser %d %s" h (hex_of_bytes (List.map (fun c -> n_of_int (Char.code c)) (List.of_seq (String.to_seq t)))),
         ODeser (r, List.map (fun c -> n_of_int (Char.code c)) (List.of_seq (String.to_seq t))), None)
      end
      else if choice < 92 then begin
        (* assignment from a value that is neither inside nor around the destination *)
        let cands = List.filter (fun h2 -> match handles.(h2) with Some j -> not (related !w r j) | None -> false) lh in
        if rand 7 = 0 then
          (* the source is a reference that designates nothing (handle 99 is never bound): the destination becomes null *)
          (Printf.sprintf "assign %d 99" h, OSet (r, SNull), None)
        else
        match cands with
        | [] -> (Printf.sprintf "clear %d" h, OClear r, None)
        | _ -> let h2 = pick cands in
               let j = match handles.(h2) with Some j -> j | None -> N0 in
               (Printf.sprintf "assign %d %d" h h2, OAssign (r, j), None)
      end
      else begin
        let d = rand ndocs and s = rand ndocs in
        match rand 5 with
        | 4 when d <> s ->
            (* d = std::move(s): d receives s's content, s is left empty (two model steps; handles of both are stale) *)
            custom := Some (fun w -> doc_move w (nat_of_int d) (nat_of_int s));
            (Printf.sprintf "dmove %d %d" d s, ODocSwap (nat_of_int d, nat_of_int s), None)
        | 0 -> (Printf.sprintf "dclear %d" d, ODocClear (nat_of_int d), None)
        | 1 -> if d = s && rand 2 = 0 then (Printf.sprintf "dshrink %d" d, ODocShrink (nat_of_int d), None)
               else (Printf.sprintf "dcopy %d %d" d s, ODocCopy (nat_of_int d, nat_of_int s), None)      (* d = s: a document assigned to itself keeps its value *)
        | 2 -> if d = s then (Printf.sprintf "dshrink %d" d, ODocShrink (nat_of_int d), None)
               else (Printf.sprintf "dswap %d %d" d s, ODocSwap (nat_of_int d, nat_of_int s), None)
        | 3 when d <> s ->
            (* copy / move construction of temporaries from document s: observers only, nothing changes *)
            custom := Some (fun w -> (w, RUnit));
            (Printf.sprintf "dcopyctor %d %d" d s, OGetElem (n_of_int s, O), None)
        | _ -> (Printf.sprintf "dshrink %d" d, ODocShrink (nat_of_int d), None)
      end in
    (* which non-root handles become stale in the C++ (not in the tree model) *)
    let stale_docs = List.map int_of_nat (invalidates_handles o) in
    let doc_of_handle h' = match handles.(h') with Some i -> (match doc_of !w i with Some d -> int_of_nat d | None -> -1) | None -> -1 in
    let stale = List.filter (fun h' -> h' >= ndocs && List.mem (doc_of_handle h') stale_docs) (List.init !nh (fun x -> x)) in
    let target_docs = match o with
      | ODocClear d | ODocShrink d -> [int_of_nat d]
      | ODocCopy (d, _) -> [int_of_nat d]
      | ODocSwap (d, s) -> [int_of_nat d; int_of_nat s]
      | _ -> [] in
    let is_doc_op = match o with ODocClear _ | ODocShrink _ | ODocCopy _ | ODocSwap _ -> true | _ -> false in
    let unrelated = String.concat "," (List.map string_of_int (List.filter (fun h' ->
        match handles.(h') with
        | Some j -> if is_doc_op then not (List.mem (doc_of_handle h') target_docs) else not (related !w r j)
        | None -> false) lh)) in
    let (w', res) = (match !custom with Some f -> f !w | None -> step !w o) in
    w := w';
    List.iter (fun h' -> handles.(h') <- None) stale;
    (match bind, res with
     | Some hn, RRef (Some i) -> handles.(hn) <- Some i
     | Some hn, _ -> handles.(hn) <- None
     | None, _ -> ());
    let lh' = live_handles () in
    let docs_dump = String.concat "|" (List.map (fun d -> Util.dump (to_jv d)) (!w).docs) in
    let hdump = String.concat "," (List.map (fun h' ->
        match handles.(h') with
        | Some i -> (match get !w i with Some c -> Printf.sprintf "%d=%s" h' (dump_content !w c) | None -> "")
        | None -> "") lh') in
    let watch = String.concat "," (List.map string_of_int lh') in
    (* handles that the operation must leave untouched: not inside its target, not around it (computed before the step) *)
    Buffer.add_string out (Printf.sprintf "%s %%%s @%s ## %s|%s|%s ;; " text unrelated watch (result_string res) docs_dump hdump)
  done;
  Buffer.contents out

(* ---- expected results of a scripted history (the script names its handles itself) ---- *)
let scalar_of_dump (d : string) : scalar =
  if d = "n" then SNull else if d = "t" then SBool true else if d = "f" then SBool false
  else match d.[0] with
    | 'i' -> SInt (z_of_dec (String.sub d 1 (String.length d - 1)))
    | 'F' -> SFloat (if d = "Fnan" then S754_nan else sf_of_bits f32 (z_of_hex (String.sub d 1 (String.length d - 1))))
    | 'D' -> SDouble (if d = "Dnan" then S754_nan else sf_of_bits f64 (z_of_hex (String.sub d 1 (String.length d - 1))))
    | 's' -> SStr (bytes_of_hex (String.sub d 1 (String.length d - 1)))
    | _ -> SRaw (bytes_of_hex (String.sub d 1 (String.length d - 1)))

let run_script (ndocs : int) (script : string) : string =
  let w = ref (init_world (nat_of_int ndocs)) in
  let handles : n option array = Array.make 64 None in
  for d = 0 to ndocs - 1 do handles.(d) <- Some (n_of_int d) done;
  let out = Buffer.create 4096 in
  let steps = List.filter (fun s -> String.trim s <> "") (Str.split (Str.regexp_string " ;; ") script) in
  List.iter (fun st ->
    let st = match Str.bounded_split (Str.regexp_string " ## ") st 2 with x :: _ -> x | [] -> st in
    let toks = List.filter (fun t -> t <> "") (String.split_on_char ' ' st) in
    let watch, toks = match List.rev toks with
      | w :: rest when String.length w > 0 && w.[0] = '@' -> (String.sub w 1 (String.length w - 1), List.rev rest)
      | _ -> ("", toks) in
    let hid s = match handles.(int_of_string s) with Some i -> i | None -> n_of_int 999999 in
    let nat s = nat_of_int (min (int_of_string s) 70000) in   (* no array of a history is that long: same meaning, bounded unary number *)
    let (o, bind) : op * int option = match toks with
      | ["set"; h; x] -> (OSet (hid h, scalar_of_dump x), None)
      | ["toarr"; h] -> (OToArr (hid h), None)
      | ["toobj"; h] -> (OToObj (hid h), None)
      | ["clear"; h] -> (OClear (hid h), None)
      | ["addnew"; h; nh] -> (OAddNew (hid h), Some (int_of_string nh))
      | ["addval"; h; x] -> (OAddVal (hid h, scalar_of_dump x), None)
      | ["getelem"; h; i; nh] -> (OGetElem (hid h, nat i), Some (int_of_string nh))
      | ["makeelem"; h; i; nh] -> (OMakeElem (hid h, nat i), Some (int_of_string nh))
      | ["setelem"; h; i; x] -> (OSetElem (hid h, nat i, scalar_of_dump x), None)
      | ["getmember"; h; k; nh] -> (OGetMember (hid h, bytes_of_hex k), Some (int_of_string nh))
      | ["makemember"; h; k; nh] -> (OMakeMember (hid h, bytes_of_hex k), Some (int_of_string nh))
      | ["setmember"; h; k; x] -> (OSetMember (hid h, bytes_of_hex k, scalar_of_dump x), None)
      | ["rmidx"; h; i] -> (ORemoveIdx (hid h, nat i), None)
      | ["rmkey"; h; k] -> (ORemoveKey (hid h, bytes_of_hex k), None)
      | ["assign"; a; "99"] -> (OSet (hid a, SNull), None)
      | ["assign"; a; b] -> (OAssign (hid a, hid b), None)
      | ["dclear"; d] -> (ODocClear (nat d), None)
      | ["dcopy"; d; s] -> (ODocCopy (nat d, nat s), None)
      | ["dswap"; d; s] -> (ODocSwap (nat d, nat s), None)
      | ["dshrink"; d] -> (ODocShrink (nat d), None)
      | ["deser"; h; t] -> (ODeser (hid h, bytes_of_hex t), None)
      | ["dmove"; d; s2] -> (ODocSwap (nat d, nat s2), None)
      | ["dcopyctor"; _; s2] -> (OGetElem (n_of_int (int_of_string s2), O), None)
      | ["addarr"; h; nh] | ["addobj"; h; nh] -> (OAddNew (hid h), Some (int_of_string nh))
      | ["nestarr"; h; k; nh] | ["nestobj"; h; k; nh] -> (OMakeMember (hid h, bytes_of_hex k), Some (int_of_string nh))
      | ["passign"; h; _; _; _] -> (OSet (hid h, SNull), None)
      | ["chainget"; h; _; nh] -> (OGetElem (hid h, O), Some (int_of_string nh))
      | ["chainset"; h; _; x] -> (OSet (hid h, scalar_of_dump x), None)
      | _ -> failwith ("bad step: " ^ st) in
    let (w', res) = (match toks with
      | ["dmove"; d; s2] -> doc_move !w (nat d) (nat s2)
      | ["dcopyctor"; _; _] -> (!w, RUnit)
      | ["passign"; h; p1; h2; p2] -> proxy_assign !w (hid h) (List.hd (path_of_string p1)) (hid h2) (List.hd (path_of_string p2))
      | [("addarr" | "addobj") as t; h; _] -> add_typed !w (hid h) (t = "addarr")
      | [("nestarr" | "nestobj") as t; h; k; _] -> nest_typed !w (hid h) (bytes_of_hex k) (t = "nestarr")
      | ["chainget"; h; p; _] -> chain_get !w (hid h) (path_of_string p)
      | ["chainset"; h; p; x] -> chain_set !w (hid h) (path_of_string p) (scalar_of_dump x)
      | _ -> step !w o) in
    w := w';
    (match bind, res with
     | Some hn, RRef (Some i) -> handles.(hn) <- Some i
     | Some hn, _ -> handles.(hn) <- None
     | None, _ -> ());
    let docs_dump = String.concat "|" (List.map (fun d -> Util.dump (to_jv d)) (!w).docs) in
    let hs = List.filter (fun t -> t <> "") (String.split_on_char ',' watch) in
    let hdump = String.concat "," (List.map (fun h' ->
        match handles.(int_of_string h') with
        | Some i -> (match get !w i with Some c -> Printf.sprintf "%s=%s" h' (dump_content !w c) | None -> h' ^ "=DEAD")
        | None -> h' ^ "=n") hs) in
    Buffer.add_string out (Printf.sprintf "%s|%s|%s ;; " (result_string res) docs_dump hdump)) steps;
  Buffer.contents out

let handle (_cf : cfg) (line : string) : string option =
  match String.split_on_char ' ' line with
  | ["HGEN"; seed; nops; ndocs; profile] ->
      Some (gen_history (int_of_string seed) (int_of_string nops) (int_of_string ndocs) (int_of_string profile))
  | "HEXP" :: ndocs :: rest -> Some (run_script (int_of_string ndocs) (String.concat " " rest))
  | _ -> None
