(* util.ml — conversions between OCaml ints/strings and the extracted binary integers, hex, canonical dump *)
open Model

let rec pos_of_int (i : int) : positive =
  if i = 1 then XH else if i land 1 = 0 then XO (pos_of_int (i lsr 1)) else XI (pos_of_int (i lsr 1))
let n_of_int i = if i = 0 then N0 else Npos (pos_of_int i)
let z_of_int i = if i = 0 then Z0 else if i > 0 then Zpos (pos_of_int i) else Zneg (pos_of_int (-i))
let rec int_of_pos = function XH -> 1 | XO p -> 2 * int_of_pos p | XI p -> 2 * int_of_pos p + 1
let int_of_n = function N0 -> 0 | Npos p -> int_of_pos p
let int_of_z = function Z0 -> 0 | Zpos p -> int_of_pos p | Zneg p -> - (int_of_pos p)
let rec nat_of_int i = if i <= 0 then O else S (nat_of_int (i - 1))
let rec int_of_nat = function O -> 0 | S n -> 1 + int_of_nat n

(* decimal / hex strings for arbitrarily large extracted numbers, via the model's own division *)
let n10 = n_of_int 10 and n16 = n_of_int 16
let rec n_to_base base digits (x : n) : string =
  match x with
  | N0 -> ""
  | _ -> let (q, r) = N.div_eucl x base in n_to_base base digits q ^ String.make 1 digits.[int_of_n r]
let n_to_dec x = match x with N0 -> "0" | _ -> n_to_base n10 "0123456789" x
let n_to_hex x = match x with N0 -> "0" | _ -> n_to_base n16 "0123456789abcdef" x
let z_to_dec = function Z0 -> "0" | Zpos p -> n_to_dec (Npos p) | Zneg p -> "-" ^ n_to_dec (Npos p)
let pad w s = if String.length s >= w then s else String.make (w - String.length s) '0' ^ s

(* big numbers from decimal / hex strings *)
let n_of_digits base (s : string) : n =
  let acc = ref N0 in
  String.iter (fun c ->
    let d = if c >= '0' && c <= '9' then Char.code c - 48
            else if c >= 'a' && c <= 'f' then Char.code c - 87
            else if c >= 'A' && c <= 'F' then Char.code c - 55 else failwith "digit" in
    acc := N.add (N.mul !acc base) (n_of_int d)) s;
  !acc
let z_of_dec (s : string) : z =
  if String.length s > 0 && s.[0] = '-' then Z.opp (Z.of_N (n_of_digits n10 (String.sub s 1 (String.length s - 1))))
  else Z.of_N (n_of_digits n10 s)
let z_of_hex s = Z.of_N (n_of_digits n16 s)

let bytes_of_hex (h : string) : n list =
  let h = if h = "-" then "" else h in
  let l = String.length h / 2 in
  List.init l (fun i -> n_of_int (int_of_string ("0x" ^ String.sub h (2 * i) 2)))
let hex_of_bytes (b : n list) : string =
  if b = [] then "-" else String.concat "" (List.map (fun x -> Printf.sprintf "%02x" (int_of_n x)) b)

let code_name = function
  | Ok -> "Ok" | EmptyInput -> "EmptyInput" | IncompleteInput -> "IncompleteInput"
  | InvalidInput -> "InvalidInput" | NoMemory -> "NoMemory" | TooDeep -> "TooDeep"
  | OutOfFuel -> "OutOfFuel"

let dump_f32 f = match f with S754_nan -> "Fnan" | _ -> "F" ^ pad 8 (n_to_hex (Z.to_N (bits_of_sf f32 f)))
let dump_f64 f = match f with S754_nan -> "Dnan" | _ -> "D" ^ pad 16 (n_to_hex (Z.to_N (bits_of_sf f64 f)))

let rec dump (v : jv) : string =
  match v with
  | JNull -> "n"
  | JBool true -> "t"
  | JBool false -> "f"
  | JInt z -> "i" ^ z_to_dec z
  | JFloat f -> dump_f32 f
  | JDouble f -> dump_f64 f
  | JStr s -> "s" ^ hex_of_bytes s
  | JRaw s -> "r" ^ hex_of_bytes s
  | JArr l -> "[" ^ String.concat "," (List.map dump l) ^ "]"
  | JObj l -> "{" ^ String.concat "," (List.map (fun (k, v) -> hex_of_bytes k ^ ":" ^ dump v) l) ^ "}"

let bool_of_char c = c = '1'
(* cfg string: 5 chars of 0/1 = decode_unicode comments nan inf use_double *)
let cfg_of_string (s : string) : cfg =
  { decode_unicode = bool_of_char s.[0]; enable_comments = bool_of_char s.[1];
    enable_nan = bool_of_char s.[2]; enable_inf = bool_of_char s.[3]; use_double = bool_of_char s.[4] }

let dump_number = function
  | NumInvalid -> "invalid" | NumFault -> "fault"
  | NumUInt z -> "u" ^ z_to_dec z | NumSInt z -> "i" ^ z_to_dec z
  | NumFloat f -> dump_f32 f | NumDouble f -> dump_f64 f

