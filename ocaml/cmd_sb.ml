(* cmd_sb.ml — the string builder / string pool model (Model/StrBuild.v) on a scripted sequence of strings:
   SB <hdr> <maxlen> <answers: string of 0/1, or -> <op> ...   with op = s<hex> (store through the builder) | d<hex> (dereference)
   prints per op:  <result>/<allocator events>  where result = len:refs:hex | NoMemory | -  and events = a<size><+|-> r<old>><new><+|-> f<size> *)
open Model
open Util

let ev_string = function
  | EvAlloc (n, ok) -> Printf.sprintf "a%d%s" (int_of_n n) (if ok then "+" else "-")
  | EvRealloc (o, n, ok) -> Printf.sprintf "r%d>%d%s" (int_of_n o) (int_of_n n) (if ok then "+" else "-")
  | EvFree n -> Printf.sprintf "f%d" (int_of_n n)

let handle (_cf : cfg) (line : string) : string option =
  match String.split_on_char ' ' line with
  | "SB" :: hdr :: mx :: answers :: ops ->
      let g = { s_hdr = n_of_int (int_of_string hdr); s_max = n_of_int (int_of_string mx) } in
      let ans = ref (if answers = "-" then [] else List.init (String.length answers) (fun i -> answers.[i] = '1')) in
      let st = ref sb_init in
      let out = Buffer.create 4096 in
      List.iter (fun op ->
        if op <> "" then begin
          let body = String.sub op 1 (String.length op - 1) in
          let o = if op.[0] = 's' then SStore (bytes_of_hex body) else SDeref (bytes_of_hex body) in
          let (((st', ans'), evs), r) = sb_step g !st !ans o in
          st := st'; ans := ans';
          let rs = match r with
            | Some x -> Printf.sprintf "%d:%d:%s" (int_of_n x.n_len) (int_of_n x.n_refs) (hex_of_bytes (n_content x))
            | None -> if op.[0] = 's' then "NoMemory" else "-" in
          Buffer.add_string out (Printf.sprintf "%s/%s " rs (String.concat "," (List.map ev_string evs)))
        end) ops;
      let has = (match (!st).sb_scratch with Some _ -> true | None -> false) in
      Buffer.add_string out (Printf.sprintf "live=%d scratch=%s" (List.length (!st).sb_pool + (if has then 1 else 0)) (if has then "yes" else "-"));
      Some (Buffer.contents out)
  | "SBF" :: hdr :: mx :: answers :: ops ->
      let g = { s_hdr = n_of_int (int_of_string hdr); s_max = n_of_int (int_of_string mx) } in
      let ans = ref (if answers = "-" then [] else List.init (String.length answers) (fun i -> answers.[i] = '1')) in
      let st = ref bf_init in
      let out = Buffer.create 4096 in
      List.iter (fun op ->
        if op <> "" then begin
          let body = String.sub op 1 (String.length op - 1) in
          let o = if op.[0] = 's' then SStore (bytes_of_hex body) else SDeref (bytes_of_hex body) in
          let (((st', ans'), evs), r) = bf_step g !st !ans o in
          st := st'; ans := ans';
          let rs = match r with
            | Some x -> Printf.sprintf "%d:%d:%s" (int_of_n x.n_len) (int_of_n x.n_refs) (hex_of_bytes (n_content x))
            | None -> if op.[0] = 's' then "NoMemory" else "-" in
          Buffer.add_string out (Printf.sprintf "%s/%s " rs (String.concat "," (List.map ev_string evs)))
        end) ops;
      let has = (match (!st).bf_node with Some _ -> true | None -> false) in
      Buffer.add_string out (Printf.sprintf "live=%d scratch=%s" (List.length (!st).bf_pool + (if has then 1 else 0)) (if has then "yes" else "-"));
      Some (Buffer.contents out)
  | _ -> None
