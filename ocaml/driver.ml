(* driver.ml — runs the extracted model on case lines (stdin) and prints one canonical result
   line per case (stdout).  Trusted glue: conversions between OCaml ints/strings and the
   extracted binary integers, hex decoding, the canonical dump. *)
open Model

open Util

let the_cfg = ref default_cfg

let filter_of (cf : cfg) (h : string) : jv option =
  if h = "-" then None
  else
    let o = json_run cf None (nat_of_int 50) (bytes_of_hex h) in
    Some o.j_doc

let handle (line : string) : string =
  match String.split_on_char ' ' line with
  | ["CFG"; c] -> the_cfg := cfg_of_string c; "cfg"
  (* J <L> <filterhex|-> <inputhex> *)
  | ["J"; l; f; i] ->
      let cf = !the_cfg in
      let o = json_run cf (filter_of cf f) (nat_of_int (int_of_string l)) (bytes_of_hex i) in
      Printf.sprintf "%s %d %s %s" (code_name o.j_err) (int_of_n o.j_st.reads)
        (if o.j_st.fault then "FAULT" else "ok") (dump o.j_doc)
  (* N <hex of C string> : parseNumber *)
  | ["N"; h] -> dump_number (parse_number !the_cfg (bytes_of_hex h))
  (* U8 <cp decimal> : Utf8::encodeCodepoint *)
  | ["U8"; cp] -> hex_of_bytes (encode_codepoint (n_of_int (int_of_string cp)))
  (* WS <hex> : TextFormatter::writeString *)
  | ["WS"; h] -> hex_of_bytes (write_string (bytes_of_hex h))
  | _ -> "?"

let () =
  Extra.register handle;
  Extra.add (fun line -> Cmd_doc.handle !the_cfg line);
  Extra.add (fun line -> Cmd_num.handle !the_cfg line);
  Extra.add (fun line -> Cmd_hist.handle !the_cfg line);
  Extra.add (fun line -> Cmd_pool.handle !the_cfg line);
  Extra.add (fun line -> Cmd_coll.handle !the_cfg line);
  Extra.add (fun line -> Cmd_sb.handle !the_cfg line);
  try
    while true do
      let line = input_line stdin in
      if line <> "" then print_endline (Extra.dispatch line)
    done
  with End_of_file -> ()
