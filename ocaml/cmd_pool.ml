(* cmd_pool.ml — the slot allocator model on a scripted history *)
open Model
open Util

let handle (_cf : cfg) (line : string) : string option =
  match String.split_on_char ' ' line with
  | "PRUN" :: idb :: cap :: ipc :: ops ->
      let g = { id_bits = n_of_int (int_of_string idb); pool_cap = n_of_int (int_of_string cap);
                inline_pools = n_of_int (int_of_string ipc) } in
      let s = ref (ps0 g) in
      let out = Buffer.create 1024 in
      List.iter (fun op ->
        if op <> "" then begin
          let o =
            match op.[0] with
            | 'a' ->
                let mask = int_of_string (String.sub op 1 (String.length op - 1)) in
                let p = (!s).pl in
                (* does this allocation have to grow the pool table first? then the first allocator call is the table's *)
                let needs_pool = p.free_list = [] && alloc_from_last g p = None in
                let cnt = count p in
                let needs_table = needs_pool && int_of_n cnt < int_of_n (max_pools g) && cnt = p.table_cap
                                  && p.table_cap <> max_pools g in
                let ok_table = (mask land 1) = 0 in
                let ok_pool = if needs_table then (mask land 2) = 0 else (mask land 1) = 0 in
                PAlloc (ok_table, ok_pool)
            | 'f' -> PFreeNth (nat_of_int (int_of_string (String.sub op 1 (String.length op - 1))))
            | 's' -> PShrink
            | _ -> PClear in
          let (s', r) = pstep g !s o in
          s := s';
          (match o, r with
           | PAlloc _, Some id -> Buffer.add_string out (string_of_int (int_of_n id) ^ " ")
           | PAlloc _, None -> Buffer.add_string out "x "
           | PFreeNth _, Some id -> Buffer.add_string out (string_of_int (int_of_n id) ^ " ")
           | _, _ -> Buffer.add_string out "- ")
        end) ops;
      Buffer.add_string out (Printf.sprintf "ov=%s" (if (!s).overflowed then "1" else "0"));
      Some (Buffer.contents out)
  | _ -> None
