(* extra.ml — dispatch hook so that further command families can be added in their own files *)
let base : (string -> string) ref = ref (fun _ -> "?")
let extras : (string -> string option) list ref = ref []
let register f = base := f
let add f = extras := f :: !extras
let dispatch line =
  let rec go = function
    | [] -> !base line
    | f :: t -> (match f line with Some r -> r | None -> go t) in
  go !extras
