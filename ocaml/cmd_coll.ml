(* cmd_coll.ml — one array / one object as a linked list of slots over the slot allocator, on a scripted history *)
open Model
open Util

let fails_of_mask (m : int) : bool list = List.init 400 (fun k -> k < 8 && (m lsr k) land 1 = 1)

let handle (_cf : cfg) (line : string) : string option =
  match String.split_on_char ' ' line with
  | "ARUN" :: idb :: cap :: ipc :: ops ->
      let g = { id_bits = n_of_int (int_of_string idb); pool_cap = n_of_int (int_of_string cap);
                inline_pools = n_of_int (int_of_string ipc) } in
      let s = ref (a_init g) in
      let out = Buffer.create 4096 in
      let num op = int_of_string (String.sub op 1 (String.length op - 1)) in
      List.iter (fun op ->
        if op <> "" then begin
          let o =
            match op.[0] with
            | 'a' -> AAdd (fails_of_mask (num op))
            | 'g' -> (match String.split_on_char ':' (String.sub op 1 (String.length op - 1)) with
                      | [k; m] -> AGetOrAdd (nat_of_int (int_of_string k), fails_of_mask (int_of_string m))
                      | _ -> failwith "bad g op")
            | 'r' -> ARemove (nat_of_int (num op))
            | 'o' -> OAdd (fails_of_mask (num op))
            | 'p' -> ORemove (nat_of_int (num op))
            | 's' -> AShrink
            | _ -> AClear in
          let ((s', r), calls) = astep g !s o in
          s := s';
          let rs = match r with Some id -> string_of_int (int_of_n id) | None -> "x" in
          let chain = String.concat "," (List.map (fun id -> string_of_int (int_of_n id)) (elements g s')) in
          Buffer.add_string out (Printf.sprintf "%s/%d/%s " rs (int_of_nat calls) chain)
        end) ops;
      Buffer.add_string out (Printf.sprintf "ov=%s" (if (!s).a_ps.overflowed then "1" else "0"));
      Some (Buffer.contents out)
  | _ -> None
