(* cmd_num.ml — typed extraction and comparison commands *)
open Model
open Util

let b2c b = if b then '1' else '0'

let handle (cf : cfg) (line : string) : string option =
  match String.split_on_char ' ' line with
  | ["AS"; _kind; d] ->
      let v = Cmd_doc.parse_dump cf d in
      let i t = z_to_dec (as_int cf t v) in
      let is = String.init 10 (fun k ->
        match k with
        | 0 -> b2c (is_int i8 v) | 1 -> b2c (is_int u8 v) | 2 -> b2c (is_int i16 v)
        | 3 -> b2c (is_int u16 v) | 4 -> b2c (is_int i32 v) | 5 -> b2c (is_int u32 v)
        | 6 -> b2c (is_int i64 v) | 7 -> b2c (is_int u64 v)
        | _ -> b2c (is_float v)) in
      Some (Printf.sprintf "i8=%s u8=%s i16=%s u16=%s i32=%s u32=%s i64=%s u64=%s f32=%s f64=%s is=%s"
              (i i8) (i u8) (i i16) (i u16) (i i32) (i u32) (i i64) (i u64)
              (dump_f32 (as_float cf f32 v)) (dump_f64 (as_float cf f64 v)) is)
  | ["CA1"; ty; len; d] ->
      let v = Cmd_doc.parse_dump cf d in
      let t = (match ty with "i32" -> i32 | "u8" -> u8 | _ -> i64) in
      let (dst, n) = copy_array_1d cf t v (List.init (int_of_string len) (fun _ -> z_of_int 90)) in
      Some (Printf.sprintf "%d [%s]" (int_of_nat n) (String.concat "," (List.map z_to_dec dst)))
  | ["CA2"; shape; d] ->
      let v = Cmd_doc.parse_dump cf d in
      let (n1, n2) = (match String.split_on_char 'x' shape with [x; y] -> (int_of_string x, int_of_string y) | _ -> failwith "shape") in
      let (rows, n) = copy_array_2d cf i32 v (List.init n1 (fun _ -> List.init n2 (fun _ -> z_of_int 90))) in
      Some (Printf.sprintf "%d [%s]" (int_of_nat n)
              (String.concat "," (List.map (fun r -> "[" ^ String.concat "," (List.map z_to_dec r) ^ "]") rows)))
  | ["CAS"; n; d] ->
      let v = Cmd_doc.parse_dump cf d in
      Some ("1 " ^ hex_of_bytes (copy_string v (List.init (int_of_string n) (fun _ -> n_of_int 0x5A))))
  | ["CMP"; da; db] ->
      (* an unbound reference behaves as null in comparisons *)
      let pv d = if d = "U" then JNull else Cmd_doc.parse_dump cf d in
      let a = pv da and b = pv db in
      let six x y = [op_eq x y; op_ne x y; op_lt x y; op_le x y; op_gt x y; op_ge x y] in
      Some (String.concat "" (List.map (fun x -> String.make 1 (b2c x)) (six a b @ six b a)))
  | ["CMPM"; ia; ib] ->
      let a = (mp_run cf None (nat_of_int 10) (bytes_of_hex ia)).mp_doc and b = (mp_run cf None (nat_of_int 10) (bytes_of_hex ib)).mp_doc in
      let six x y = [op_eq x y; op_ne x y; op_lt x y; op_le x y; op_gt x y; op_ge x y] in
      Some (String.concat "" (List.map (fun x -> String.make 1 (b2c x)) (six a b @ six b a)))
  | _ -> None
