(* Properties_C04.v — C04: the document is the tree its API describes, after every history.
   The ordered-tree model (Model/Tree.v) IS the abstract model the property names; the library is compared
   with it after every operation of generated histories (results, dumps of all documents and of every live
   handle).  The theorems below are about that model: its invariant over every history, and the locality,
   liveness and deep-copy clauses of the property. *)
From Coq Require Import NArith ZArith List Bool.
From AJ Require Import Model.Base Model.Value Model.Tree Proofs.TreeProofs.
From AJ Require Import Model.Chain Proofs.ChainProofs.
From AJ Require Import Model.Pool Model.Collection Proofs.PoolProofs Proofs.CollProofs.
Local Open Scope N_scope.

(* slot identities are unique across all documents after ANY history from the initial world *)
Theorem C04_invariant_reachable : forall n ops, wfw (run (init_world n) ops).
Proof. exact reachable_wfw. Qed.
Print Assumptions C04_invariant_reachable.

Theorem C04_invariant_step : forall w o w' r, wfw w -> step w o = (w', r) -> wfw w'.
Proof. exact step_wfw. Qed.
Print Assumptions C04_invariant_step.

(* a mutation changes only its target: every other live value that is neither inside the target nor around
   it keeps exactly its content (whole subtree), for all 14 slot-targeted operations (set, to<>, clear, add,
   operator[] create/assign incl. padding beyond the end, remove, assignment, deserialization into a value) *)
Theorem C04_mutation_changes_only_its_target : forall w o w' res r j c,
  wfw w -> targets o = Some r -> step w o = (w', res) ->
  get w j = Some c -> ~ inside_w w r j -> ~ inside_w w j r ->
  get w' j = Some c.
Proof. exact frame. Qed.
Print Assumptions C04_mutation_changes_only_its_target.

(* references to other still-existing values remain valid: whatever is not strictly below the target is
   still in the tree with the same identity — in particular across later insertions and removals elsewhere *)
Theorem C04_references_stay_valid : forall w o w' res r j,
  wfw w -> targets o = Some r -> step w o = (w', res) ->
  live w j = true -> (forall cr, get w r = Some cr -> ~ In j (cids cr)) ->
  live w' j = true.
Proof. exact outside_stays_live. Qed.
Print Assumptions C04_references_stay_valid.

(* other documents are untouched by an operation on one document *)
Theorem C04_other_documents_untouched : forall w o w' res r d k,
  wfw w -> targets o = Some r -> step w o = (w', res) ->
  doc_of w r = Some d -> k <> d -> nth_error (docs w') k = nth_error (docs w) k.
Proof. exact step_other_doc. Qed.
Print Assumptions C04_other_documents_untouched.

(* copies are deep: the copy consists of fresh slots only, and denotes the source's value *)
Theorem C04_copy_is_deep : forall w dst src w' r c cd,
  wfw w -> step w (OAssign dst src) = (w', r) -> get w src = Some c -> get w dst = Some cd ->
  exists c',
    get w' dst = Some c' /\
    (forall x, In x (cids c') -> next_id w <= x < next_id w') /\
    (forall x, In x (cids c') -> ~ In x (flat_map ids (docs w))) /\
    to_jv (Node dst c') = normalize_copy (to_jv (Node src c)) /\
    r = RBool true.
Proof. exact assign_fresh_ids. Qed.
Print Assumptions C04_copy_is_deep.

(* ... and independent of its source: later mutations of either leave the other unchanged (source not
   aliasing the destination — the aliasing case is the recorded known finding) *)
Theorem C04_copy_is_independent : forall w dst src w1 r1 c cd,
  wfw w -> step w (OAssign dst src) = (w1, r1) -> get w src = Some c -> get w dst = Some cd ->
  ~ inside_w w dst src -> ~ inside_w w src dst ->
  exists c',
    get w1 src = Some c /\ get w1 dst = Some c' /\
    (forall o t w2 r2, targets o = Some t -> inside_w w1 dst t -> step w1 o = (w2, r2) -> get w2 src = Some c) /\
    (forall o t w2 r2, targets o = Some t -> inside_w w1 src t -> step w1 o = (w2, r2) -> get w2 dst = Some c').
Proof. exact copy_independent. Qed.
Print Assumptions C04_copy_is_independent.

(* swap exchanges the contents of two documents and nothing else *)
Theorem C04_swap : forall w d s w' res i ci j cj,
  wfw w -> nth_error (docs w) d = Some (Node i ci) -> nth_error (docs w) s = Some (Node j cj) ->
  d <> s -> step w (ODocSwap d s) = (w', res) ->
  nth_error (docs w') d = Some (Node i cj) /\ nth_error (docs w') s = Some (Node j ci) /\
  forall k, k <> d -> k <> s -> nth_error (docs w') k = nth_error (docs w) k.
Proof. exact doc_swap_spec. Qed.
Print Assumptions C04_swap.

(* read-only operations change nothing: in the model they are functions of the world (get, to_jv), not steps *)

(* ---- one level down: the representation.  An array (an object) is a singly linked chain of slots with a head and a
   tail identifier, on top of the slot allocator with its free list and pools (Model/Collection.v mirrors
   CollectionData / ArrayData / ObjectData routine by routine; it is run against the library's actual slot chains).
   Whatever the history — slot reuse after removals, tail maintenance, pool boundaries, free-list order, allocator
   failures at any call — the chain is the plain list the tree model assumes. ---- *)

(* every reachable state of an array: well formed (acyclic, tail = last, links consistent with the allocator) *)
Theorem C04_array_chain_invariant : forall g ops, good_geom g -> Forall array_op ops ->
  WF g (fst (arun g ops)) /\
  NoDup (elements g (fst (arun g ops))) /\ forall id, In id (elements g (fst (arun g ops))) -> id < null_slot g.
Proof. intros g ops Hg Ha. split; [exact (arun_wf_array g ops Hg Ha) | exact (arun_elements_distinct_valid_array g ops Hg Ha)]. Qed.
Print Assumptions C04_array_chain_invariant.

(* every reachable state of an object: well formed, and made of whole key/value pairs *)
Theorem C04_object_chain_invariant : forall g ops, good_geom g -> Forall object_op ops ->
  WF g (fst (arun g ops)) /\ Nat.Even (length (elements g (fst (arun g ops)))) /\
  NoDup (elements g (fst (arun g ops))).
Proof.
  intros g ops Hg Ho. destruct (arun_wf_object g ops Hg Ho) as [W E].
  split; [exact W | split; [exact E | exact (proj1 (arun_elements_distinct_valid_object g ops Hg Ho))]].
Qed.
Print Assumptions C04_object_chain_invariant.

(* add appends at the end, with a slot that no live value uses: every other element keeps its slot, hence every
   reference to another value keeps designating it *)
Theorem C04_add_appends : forall g s fails s' id n, good_geom g -> WF g s ->
  astep g s (AAdd fails) = (s', Some id, n) ->
  elements g s' = elements g s ++ [id] /\ ~ In id (lv (a_ps s)) /\ id < null_slot g.
Proof. exact add_appends. Qed.
Print Assumptions C04_add_appends.

(* remove(k) closes the gap and touches nothing else; beyond the end it is a no-op *)
Theorem C04_remove_closes_gap : forall g s k, good_geom g -> WF g s -> (k < length (elements g s))%nat ->
  elements g (fst (fst (astep g s (ARemove k)))) = remove_at k (elements g s)
  /\ snd (fst (astep g s (ARemove k))) = nth_error (elements g s) k.
Proof. exact remove_closes_gap. Qed.
Print Assumptions C04_remove_closes_gap.

Theorem C04_remove_beyond_end_noop : forall g s k, (length (elements g s) <= k)%nat ->
  astep g s (ARemove k) = (s, None, O).
Proof. exact remove_beyond_end_noop. Qed.
Print Assumptions C04_remove_beyond_end_noop.

(* insertion beyond the end ( array[k] = ... ) pads: the old elements stay a prefix, element k then exists *)
Theorem C04_insert_beyond_end_pads : forall g s k fails s' r n, good_geom g -> WF g s ->
  astep g s (AGetOrAdd k fails) = (s', r, n) ->
  exists added, elements g s' = elements g s ++ added /\
    (forall id, In id added -> ~ In id (lv (a_ps s))) /\
    (r <> None -> nth_error (elements g s') k = r /\
                  length (elements g s') = Nat.max (length (elements g s)) (S k)).
Proof. exact get_or_add_pads. Qed.
Print Assumptions C04_insert_beyond_end_pads.

(* objects: a new member appends its key slot and its value slot; removing the k-th member removes exactly those two *)
Theorem C04_member_add_appends_pair : forall g s fails s' v n, good_geom g -> WF g s ->
  astep g s (OAdd fails) = (s', Some v, n) ->
  exists key, elements g s' = elements g s ++ [key; v] /\ key <> v /\
              ~ In key (lv (a_ps s)) /\ ~ In v (lv (a_ps s)).
Proof. exact oadd_appends_pair. Qed.
Print Assumptions C04_member_add_appends_pair.

Theorem C04_member_remove_removes_pair : forall g s k, good_geom g -> WF g s -> (2 * k + 1 < length (elements g s))%nat ->
  elements g (fst (fst (astep g s (ORemove k)))) = remove_at (2 * k) (remove_at (2 * k) (elements g s)).
Proof. exact oremove_removes_pair. Qed.
Print Assumptions C04_member_remove_removes_pair.

(* clear() empties the collection and gives every slot back to the free list; shrinkToFit changes no chain *)
Theorem C04_clear_empties : forall g s, good_geom g -> WF g s ->
  elements g (fst (fst (astep g s AClear))) = []
  /\ (forall id, In id (elements g s) -> In id (free_list (pl (a_ps (fst (fst (astep g s AClear))))))).
Proof. exact clear_empties. Qed.
Print Assumptions C04_clear_empties.

Theorem C04_shrink_keeps_chain : forall g s, elements g (fst (fst (astep g s AShrink))) = elements g s.
Proof. exact shrink_keeps. Qed.
Print Assumptions C04_shrink_keeps_chain.

(* ---- proxy chains  r[p1]...[pn] = x  /  r[p1]...[pn]  written in one expression ("operator[] at any depth") ----
   Model/Chain.v composes them from the model's own steps (a lookup per level; for a write getOrAddMember /
   getOrAddElement per level, then the set); the correspondence run executes exactly these extracted functions. *)

(* a chained write is a run of steps — creations of missing levels followed by one set — and a chained read changes
   nothing: every theorem about histories of steps therefore covers histories that use chains *)
Theorem C04_chain_is_steps : forall w r path x,
  exists ops, fst (chain_set w r path x) = run w ops /\
    (ops = [] \/ exists cs e, ops = cs ++ [OSet e x] /\ Forall is_create cs).
Proof. exact chain_set_is_run_strong. Qed.
Print Assumptions C04_chain_is_steps.

Theorem C04_chain_read_changes_nothing : forall w r path, fst (chain_get w r path) = w.
Proof. exact chain_get_world. Qed.
Print Assumptions C04_chain_read_changes_nothing.

Theorem C04_invariant_reachable_with_chains : forall n hs, wfw (hrun (init_world n) hs).
Proof. exact hreachable_wfw. Qed.
Print Assumptions C04_invariant_reachable_with_chains.

(* read your write, at any depth, through any mixture of keys and indices (missing levels are created, arrays padded):
   either some existing level has the wrong kind — then nothing at all changes and the write reports what set() reports
   on an unbound reference — or the write succeeds and the same path read back designates a value holding x *)
Theorem C04_chain_read_your_write : forall w r path x, wfw w -> live w r = true ->
  (chain_set w r path x = (w, RBool (set_on_unbound x)) /\ snd (chain_resolve w (Some r) path) = None) \/
  (exists e, snd (chain_set w r path x) = RBool true /\
             snd (chain_get (fst (chain_set w r path x)) r path) = RRef (Some e) /\
             get (fst (chain_set w r path x)) e = Some (content_of_scalar x)).
Proof. exact chain_set_then_get. Qed.
Print Assumptions C04_chain_read_your_write.

(* a chained write changes only its target: values neither inside nor around the starting reference keep their content,
   and the other documents are untouched *)
Theorem C04_chain_changes_only_its_target : forall w r path x j c, wfw w ->
  get w j = Some c -> ~ inside_w w r j -> ~ inside_w w j r ->
  get (fst (chain_set w r path x)) j = Some c.
Proof. exact chain_set_frame. Qed.
Print Assumptions C04_chain_changes_only_its_target.

Theorem C04_chain_other_documents_untouched : forall w r path x d k, wfw w ->
  doc_of w r = Some d -> k <> d ->
  nth_error (docs (fst (chain_set w r path x))) k = nth_error (docs w) k.
Proof. exact chain_set_other_doc. Qed.
Print Assumptions C04_chain_other_documents_untouched.

(* the other API calls that are two steps in one expression — add<JsonArray>() / add<JsonObject>() / createNested*(),
   r[k].to<JsonArray>() / createNested*(k), and d = std::move(s) — are runs of steps of the model as well *)
Theorem C04_typed_add_is_steps : forall w r arr, exists ops, fst (add_typed w r arr) = run w ops.
Proof. exact add_typed_is_run. Qed.
Print Assumptions C04_typed_add_is_steps.

Theorem C04_typed_member_is_steps : forall w r k arr, exists ops, fst (nest_typed w r k arr) = run w ops.
Proof. exact nest_typed_is_run. Qed.
Print Assumptions C04_typed_member_is_steps.

Theorem C04_move_is_copy_then_clear : forall w d s, fst (doc_move w d s) = run w [ODocCopy d s; ODocClear s].
Proof. exact doc_move_is_run. Qed.
Print Assumptions C04_move_is_copy_then_clear.

Example C04_chain_write_example :   (* doc0["a"][1]["b"] = 5 on an empty document *)
  map to_jv (docs (fst (chain_set (init_world 1) 0 [PKey [97]; PIdx 1; PKey [98]] (SInt 5))))
  = [JObj [([97], JArr [JNull; JObj [([98], JInt 5)]])]].
Proof. vm_compute. reflexivity. Qed.

(* the well-formedness hypothesis is met by a non-trivial reachable state: slot 1 removed and reused, a pool boundary crossed *)
Example C04_chain_example :
  let g := {| id_bits := 8; pool_cap := 4; inline_pools := 2 |} in
  elements g (fst (arun g [AAdd []; AAdd []; AAdd []; ARemove 1; AAdd []; AAdd []; AAdd []])) = [0; 2; 1; 3; 4].
Proof. vm_compute. reflexivity. Qed.

Example C04_example :   (* doc[5] = true on an empty document pads with nulls; removing index 1 shifts *)
  let w0 := init_world 1 in
  let '(w1, _) := step w0 (OSetElem 0 3 (SBool true)) in
  let '(w2, _) := step w1 (ORemoveIdx 0 1) in
  map to_jv (docs w2) = [JArr [JNull; JNull; JBool true]].
Proof. vm_compute. reflexivity. Qed.
