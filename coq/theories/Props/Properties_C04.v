(* Properties_C04.v — C04: the document is the tree its API describes, after every history.
   The ordered-tree model (Model/Tree.v) IS the abstract model the property names; the library is compared
   with it after every operation of generated histories (results, dumps of all documents and of every live
   handle).  The theorems below are about that model: its invariant over every history, and the locality,
   liveness and deep-copy clauses of the property. *)
From Coq Require Import NArith ZArith List Bool.
From AJ Require Import Model.Base Model.Value Model.Tree Proofs.TreeProofs.
Local Open Scope N_scope.

(* slot identities are unique across all documents after ANY history from the initial world *)
Theorem C04_invariant_reachable : forall n ops, wfw (run (init_world n) ops).
Proof. exact reachable_wfw. Qed.
Print Assumptions C04_invariant_reachable.

Theorem C04_invariant_step : forall w o w' r, wfw w -> step w o = (w', r) -> wfw w'.
Proof. exact step_wfw. Qed.
Print Assumptions C04_invariant_step.

(* a mutation changes only its target: every other live value that is neither inside the target nor around
   it keeps exactly its content (whole subtree), for all 14 slot-targeted operations (set, to<>, clear, add,
   operator[] create/assign incl. padding beyond the end, remove, assignment, deserialization into a value) *)
Theorem C04_mutation_changes_only_its_target : forall w o w' res r j c,
  wfw w -> targets o = Some r -> step w o = (w', res) ->
  get w j = Some c -> ~ inside_w w r j -> ~ inside_w w j r ->
  get w' j = Some c.
Proof. exact frame. Qed.
Print Assumptions C04_mutation_changes_only_its_target.

(* references to other still-existing values remain valid: whatever is not strictly below the target is
   still in the tree with the same identity — in particular across later insertions and removals elsewhere *)
Theorem C04_references_stay_valid : forall w o w' res r j,
  wfw w -> targets o = Some r -> step w o = (w', res) ->
  live w j = true -> (forall cr, get w r = Some cr -> ~ In j (cids cr)) ->
  live w' j = true.
Proof. exact outside_stays_live. Qed.
Print Assumptions C04_references_stay_valid.

(* other documents are untouched by an operation on one document *)
Theorem C04_other_documents_untouched : forall w o w' res r d k,
  wfw w -> targets o = Some r -> step w o = (w', res) ->
  doc_of w r = Some d -> k <> d -> nth_error (docs w') k = nth_error (docs w) k.
Proof. exact step_other_doc. Qed.
Print Assumptions C04_other_documents_untouched.

(* copies are deep: the copy consists of fresh slots only, and denotes the source's value *)
Theorem C04_copy_is_deep : forall w dst src w' r c cd,
  wfw w -> step w (OAssign dst src) = (w', r) -> get w src = Some c -> get w dst = Some cd ->
  exists c',
    get w' dst = Some c' /\
    (forall x, In x (cids c') -> next_id w <= x < next_id w') /\
    (forall x, In x (cids c') -> ~ In x (flat_map ids (docs w))) /\
    to_jv (Node dst c') = normalize_copy (to_jv (Node src c)) /\
    r = RBool true.
Proof. exact assign_fresh_ids. Qed.
Print Assumptions C04_copy_is_deep.

(* ... and independent of its source: later mutations of either leave the other unchanged (source not
   aliasing the destination — the aliasing case is the recorded known finding) *)
Theorem C04_copy_is_independent : forall w dst src w1 r1 c cd,
  wfw w -> step w (OAssign dst src) = (w1, r1) -> get w src = Some c -> get w dst = Some cd ->
  ~ inside_w w dst src -> ~ inside_w w src dst ->
  exists c',
    get w1 src = Some c /\ get w1 dst = Some c' /\
    (forall o t w2 r2, targets o = Some t -> inside_w w1 dst t -> step w1 o = (w2, r2) -> get w2 src = Some c) /\
    (forall o t w2 r2, targets o = Some t -> inside_w w1 src t -> step w1 o = (w2, r2) -> get w2 dst = Some c').
Proof. exact copy_independent. Qed.
Print Assumptions C04_copy_is_independent.

(* swap exchanges the contents of two documents and nothing else *)
Theorem C04_swap : forall w d s w' res i ci j cj,
  wfw w -> nth_error (docs w) d = Some (Node i ci) -> nth_error (docs w) s = Some (Node j cj) ->
  d <> s -> step w (ODocSwap d s) = (w', res) ->
  nth_error (docs w') d = Some (Node i cj) /\ nth_error (docs w') s = Some (Node j ci) /\
  forall k, k <> d -> k <> s -> nth_error (docs w') k = nth_error (docs w) k.
Proof. exact doc_swap_spec. Qed.
Print Assumptions C04_swap.

(* read-only operations change nothing: in the model they are functions of the world (get, to_jv), not steps *)

Example C04_example :   (* doc[5] = true on an empty document pads with nulls; removing index 1 shifts *)
  let w0 := init_world 1 in
  let '(w1, _) := step w0 (OSetElem 0 3 (SBool true)) in
  let '(w2, _) := step w1 (ORemoveIdx 0 1) in
  map to_jv (docs w2) = [JArr [JNull; JNull; JBool true]].
Proof. vm_compute. reflexivity. Qed.
