(* Properties_C06.v — C06: every block comes from and returns to the user's allocator exactly once.
   Theorems: the bookkeeping that the property rests on (slot allocator and string pool models).  The ledger of
   actual allocator calls is observed on the library by the instrumented-allocator run of this check. *)
From Coq Require Import NArith List Bool.
From AJ Require Import Model.Base Model.Pool Proofs.PoolProofs Model.Collection Proofs.CollProofs.
From AJ Require Import Model.Value Model.JsonParse Model.MsgPack Proofs.ResourceBound.
Local Open Scope N_scope.

(* when no allocation fails — and also when some do — slots released by a removal are reused by later insertions
   before a new pool is requested: the free list is served first, with no allocator call (the result does not
   depend on what the allocator would answer) and without touching the pools *)
Theorem C06_freed_slots_reused_first : forall g a b p id rest, free_list p = id :: rest ->
  alloc_slot g a b p = (Some id, {| pools := pools p; table_cap := table_cap p; on_heap := on_heap p; free_list := rest |}).
Proof. exact reuse_before_new_pool. Qed.
Print Assumptions C06_freed_slots_reused_first.

(* equal copied strings are stored once: adding an existing string only counts one more user ... *)
Theorem C06_equal_strings_stored_once : forall s p, sp_refs s (sp_add s p) = sp_refs s p + 1.
Proof. exact sp_add_refs. Qed.
Print Assumptions C06_equal_strings_stored_once.

Theorem C06_other_strings_untouched : forall s t p, s <> t ->
  sp_refs t (sp_add s p) = sp_refs t p /\ sp_refs t (sp_deref s p) = sp_refs t p.
Proof. intros s t p H. split; [apply sp_add_other | apply sp_deref_other]; exact H. Qed.
Print Assumptions C06_other_strings_untouched.

(* ... and the node is released exactly when the last value using it disappears *)
Theorem C06_released_with_last_user : forall s p, sp_wf p -> sp_refs s p = 1 -> ~ In s (map fst (sp_deref s p)).
Proof. exact sp_released_with_last_user. Qed.
Print Assumptions C06_released_with_last_user.

Theorem C06_kept_while_used : forall s p, sp_wf p -> 1 <= sp_refs s p ->
  sp_refs s (sp_deref s p) = sp_refs s p - 1.
Proof. exact sp_deref_refs. Qed.
Print Assumptions C06_kept_while_used.

Theorem C06_string_pool_invariant : forall s p, sp_wf p -> sp_wf (sp_add s p) /\ sp_wf (sp_deref s p).
Proof. exact sp_wf_preserved. Qed.
Print Assumptions C06_string_pool_invariant.

(* after clear() the slot allocator is back in its initial state (no pool, inline table) *)
Theorem C06_clear_returns_everything : forall g p, pl_clear g p = pl_init g.
Proof. exact clear_resets. Qed.
Print Assumptions C06_clear_returns_everything.

(* calls to the user's allocator (Model/Collection.v: alloc_with says which calls allocSlot makes; the call counts are
   compared with the library's on every operation of the correspondence run) *)
Theorem C06_reuse_makes_no_allocator_call : forall g fails p id rest, free_list p = id :: rest ->
  alloc_with g fails p = (alloc_slot g true true p, fails) /\ fst (alloc_slot g true true p) = Some id.
Proof. exact reuse_makes_no_allocator_call. Qed.
Print Assumptions C06_reuse_makes_no_allocator_call.

Theorem C06_at_most_two_calls_per_slot : forall g fails p r fl, alloc_with g fails p = (r, fl) ->
  exists used, fails = used ++ fl /\ (length used <= 2)%nat.
Proof. exact alloc_with_calls_bounded. Qed.
Print Assumptions C06_at_most_two_calls_per_slot.

Theorem C06_removals_make_no_call : forall g s k,
  snd (astep g s (ARemove k)) = O /\ snd (astep g s (ORemove k)) = O
  /\ snd (astep g s AClear) = O /\ snd (astep g s AShrink) = O.
Proof. exact read_only_ops_make_no_call. Qed.
Print Assumptions C06_removals_make_no_call.

(* what a deserializer builds is linear in what it READ, for every input, filter, limit and outcome — whatever a header
   announces (array 32 of 2^32-1 elements, str 32 of 4 GB): the document held after the call (also after an error)
   needs at most one slot per byte consumed (slots: 1 per array element, 2 per object member) and at most one string
   byte per byte consumed.  With the scratch string (at most one maximum-size string) this is the property's bound. *)
Theorem C06_json_document_linear_in_bytes_read : forall cf f L i, let o := json_run cf f L i in
  (slots (j_doc o) <= N.to_nat (reads (j_st o)))%nat /\ (str_bytes (j_doc o) <= N.to_nat (reads (j_st o)))%nat.
Proof. exact json_doc_linear. Qed.
Print Assumptions C06_json_document_linear_in_bytes_read.

Theorem C06_msgpack_document_linear_in_bytes_read : forall cf f L i, let o := mp_run cf f L i in
  (slots (mp_doc o) <= N.to_nat (m_reads (mp_rd o)))%nat /\ (str_bytes (mp_doc o) <= N.to_nat (m_reads (mp_rd o)))%nat.
Proof. exact mp_doc_linear. Qed.
Print Assumptions C06_msgpack_document_linear_in_bytes_read.

Example C06_example : sp_wf (sp_add [97] (sp_add [98] (sp_add [97] []))) /\
                      sp_refs [97] (sp_add [97] (sp_add [98] (sp_add [97] []))) = 2.
Proof. split; [|reflexivity]. apply sp_wf_preserved, sp_wf_preserved, sp_wf_preserved, sp_wf_nil. Qed.
