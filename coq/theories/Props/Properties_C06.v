(* Properties_C06.v — C06: every block comes from and returns to the user's allocator exactly once.
   Theorems: the bookkeeping that the property rests on (slot allocator and string pool models).  The ledger of
   actual allocator calls is observed on the library by the instrumented-allocator run of this check. *)
From Coq Require Import NArith List Bool.
From AJ Require Import Model.Base Model.Pool Proofs.PoolProofs Model.Collection Proofs.CollProofs.
From AJ Require Import Model.Value Model.JsonParse Model.MsgPack Proofs.ResourceBound.
From AJ Require Import Model.StrBuild Proofs.StrBuildProofs Proofs.StrBufProofs.
From AJ Require Gen.Config.
From Coq Require Import ZArith.
Local Open Scope N_scope.

(* when no allocation fails — and also when some do — slots released by a removal are reused by later insertions
   before a new pool is requested: the free list is served first, with no allocator call (the result does not
   depend on what the allocator would answer) and without touching the pools *)
Theorem C06_freed_slots_reused_first : forall g a b p id rest, free_list p = id :: rest ->
  alloc_slot g a b p = (Some id, {| pools := pools p; table_cap := table_cap p; on_heap := on_heap p; free_list := rest |}).
Proof. exact reuse_before_new_pool. Qed.
Print Assumptions C06_freed_slots_reused_first.

(* equal copied strings are stored once: adding an existing string only counts one more user ... *)
Theorem C06_equal_strings_stored_once : forall s p, sp_refs s (sp_add s p) = sp_refs s p + 1.
Proof. exact sp_add_refs. Qed.
Print Assumptions C06_equal_strings_stored_once.

Theorem C06_other_strings_untouched : forall s t p, s <> t ->
  sp_refs t (sp_add s p) = sp_refs t p /\ sp_refs t (sp_deref s p) = sp_refs t p.
Proof. intros s t p H. split; [apply sp_add_other | apply sp_deref_other]; exact H. Qed.
Print Assumptions C06_other_strings_untouched.

(* ... and the node is released exactly when the last value using it disappears *)
Theorem C06_released_with_last_user : forall s p, sp_wf p -> sp_refs s p = 1 -> ~ In s (map fst (sp_deref s p)).
Proof. exact sp_released_with_last_user. Qed.
Print Assumptions C06_released_with_last_user.

Theorem C06_kept_while_used : forall s p, sp_wf p -> 1 <= sp_refs s p ->
  sp_refs s (sp_deref s p) = sp_refs s p - 1.
Proof. exact sp_deref_refs. Qed.
Print Assumptions C06_kept_while_used.

Theorem C06_string_pool_invariant : forall s p, sp_wf p -> sp_wf (sp_add s p) /\ sp_wf (sp_deref s p).
Proof. exact sp_wf_preserved. Qed.
Print Assumptions C06_string_pool_invariant.

(* after clear() the slot allocator is back in its initial state (no pool, inline table) *)
Theorem C06_clear_returns_everything : forall g p, pl_clear g p = pl_init g.
Proof. exact clear_resets. Qed.
Print Assumptions C06_clear_returns_everything.

(* calls to the user's allocator (Model/Collection.v: alloc_with says which calls allocSlot makes; the call counts are
   compared with the library's on every operation of the correspondence run) *)
Theorem C06_reuse_makes_no_allocator_call : forall g fails p id rest, free_list p = id :: rest ->
  alloc_with g fails p = (alloc_slot g true true p, fails) /\ fst (alloc_slot g true true p) = Some id.
Proof. exact reuse_makes_no_allocator_call. Qed.
Print Assumptions C06_reuse_makes_no_allocator_call.

Theorem C06_at_most_two_calls_per_slot : forall g fails p r fl, alloc_with g fails p = (r, fl) ->
  exists used, fails = used ++ fl /\ (length used <= 2)%nat.
Proof. exact alloc_with_calls_bounded. Qed.
Print Assumptions C06_at_most_two_calls_per_slot.

Theorem C06_removals_make_no_call : forall g s k,
  snd (astep g s (ARemove k)) = O /\ snd (astep g s (ORemove k)) = O
  /\ snd (astep g s AClear) = O /\ snd (astep g s AShrink) = O.
Proof. exact read_only_ops_make_no_call. Qed.
Print Assumptions C06_removals_make_no_call.

(* what a deserializer builds is linear in what it READ, for every input, filter, limit and outcome — whatever a header
   announces (array 32 of 2^32-1 elements, str 32 of 4 GB): the document held after the call (also after an error)
   needs at most one slot per byte consumed (slots: 1 per array element, 2 per object member) and at most one string
   byte per byte consumed.  With the scratch string (at most one maximum-size string) this is the property's bound. *)
Theorem C06_json_document_linear_in_bytes_read : forall cf f L i, let o := json_run cf f L i in
  (slots (j_doc o) <= N.to_nat (reads (j_st o)))%nat /\ (str_bytes (j_doc o) <= N.to_nat (reads (j_st o)))%nat.
Proof. exact json_doc_linear. Qed.
Print Assumptions C06_json_document_linear_in_bytes_read.

Theorem C06_msgpack_document_linear_in_bytes_read : forall cf f L i, let o := mp_run cf f L i in
  (slots (mp_doc o) <= N.to_nat (m_reads (mp_rd o)))%nat /\ (str_bytes (mp_doc o) <= N.to_nat (m_reads (mp_rd o)))%nat.
Proof. exact mp_doc_linear. Qed.
Print Assumptions C06_msgpack_document_linear_in_bytes_read.

Example C06_example : sp_wf (sp_add [97] (sp_add [98] (sp_add [97] []))) /\
                      sp_refs [97] (sp_add [97] (sp_add [98] (sp_add [97] []))) = 2.
Proof. split; [|reflexivity]. apply sp_wf_preserved, sp_wf_preserved, sp_wf_preserved, sp_wf_nil. Qed.

(* ---- the string builder and the string pool, node by node, with the allocator calls they make (Model/StrBuild.v mirrors
   Memory/StringBuilder.hpp, StringPool.hpp, StringNode.hpp; the library's own length fields, reference counts and its
   exact sequence of allocate / reallocate / deallocate calls are compared with it on every run) ---- *)

(* in every state reached by any sequence of stores and releases under any answers of the allocator: the length field of
   every pooled node is the number of characters it holds, no two nodes hold the same string, every node has a user, the
   scratch node's capacity is one of 31, 63, 127, ... within the length limit *)
Theorem C06_string_nodes_invariant : forall g ops ans,
  SInv g (fst (sb_run g sb_init ans ops)) /\ SCap (fst (sb_run g sb_init ans ops)).
Proof. exact reachable_SInv. Qed.
Print Assumptions C06_string_nodes_invariant.

(* what is stored is what was appended, whatever capacity earlier strings left in the scratch node; and it is stored once *)
Theorem C06_stored_string_is_the_appended_bytes : forall g st ans s st' ans' ev x, SInv g st ->
  sb_store g st ans s = (st', ans', ev, Some x) ->
  n_content x = s /\ n_len x = N.of_nat (length s) /\ n_data x = s /\ In x (sb_pool st') /\ occ s (sb_pool st') = 1%nat.
Proof. exact store_stored. Qed.
Print Assumptions C06_stored_string_is_the_appended_bytes.

(* an equal string is shared: same node with one more reference, no new node, no allocator call from save(), and the scratch
   node is kept so that the next string starts without an allocator call *)
Theorem C06_equal_string_shares_the_node : forall g st ans s k y st' ans' ev x,
  pool_find s (sb_pool st) = Some k -> nth_error (sb_pool st) k = Some y ->
  sb_store g st ans s = (st', ans', ev, Some x) ->
  x = bump y /\ sb_pool st' = pool_addref k (sb_pool st) /\ nth_error (sb_pool st') k = Some x /\
  (forall j, j <> k -> nth_error (sb_pool st') j = nth_error (sb_pool st) j) /\
  length (sb_pool st') = length (sb_pool st) /\
  (exists st1 ans1 e1 st2 e2, sb_start g st ans = (st1, ans1, e1) /\ sb_appends g st1 ans1 s = (st2, ans', e2) /\ ev = e1 ++ e2) /\
  sb_scratch st' <> None /\
  (forall ans2, exists cap, sb_start g st' ans2 = (mk (sb_pool st') (Some (cap, 0, [])), ans2, [])).
Proof. exact store_shared. Qed.
Print Assumptions C06_equal_string_shares_the_node.

(* a store that fails leaves the pool untouched and holds no block; with an allocator that always answers it fails exactly
   for strings longer than the length limit (65535 / 255 characters in the library's configurations) *)
Theorem C06_failed_store_touches_nothing : forall g st ans s st' ans' ev,
  sb_store g st ans s = (st', ans', ev, None) -> sb_pool st' = sb_pool st /\ sb_scratch st' = None.
Proof. exact store_fail_clean. Qed.
Print Assumptions C06_failed_store_touches_nothing.

Theorem C06_store_fails_only_beyond_the_limit : forall g k st ans s, SInv g st -> SCap st -> s_max g = 2 ^ k - 1 -> 5 <= k ->
  alltrue ans -> (snd (sb_store g st ans s) = None <-> s_max g < blen s).
Proof. exact store_alltrue_pow. Qed.
Print Assumptions C06_store_fails_only_beyond_the_limit.

(* allocator traffic of one string is logarithmic in its length, every request is for a capacity within the limit, and a
   new string ends with one reallocation down to exactly its size *)
Theorem C06_store_allocator_calls_logarithmic : forall g st ans s st' ans' ev r, SInv g st ->
  sb_store g st ans s = (st', ans', ev, r) -> (length ev <= 2 * Nat.log2 (length s + 32) + 4)%nat.
Proof. exact store_events_log_nat. Qed.
Print Assumptions C06_store_allocator_calls_logarithmic.

Theorem C06_store_requests_within_limit : forall g st ans s st' ans' ev r, SInv g st ->
  sb_store g st ans s = (st', ans', ev, r) -> Forall (ev_ok g) ev.
Proof. exact store_events_ok. Qed.
Print Assumptions C06_store_requests_within_limit.

Theorem C06_new_string_shrunk_to_size : forall g st ans s st' ans' ev x, SInv g st -> pool_find s (sb_pool st) = None ->
  sb_store g st ans s = (st', ans', ev, Some x) ->
  x = fresh s /\ sb_pool st' = fresh s :: sb_pool st /\ sb_scratch st' = None /\
  exists e12 cap, ev = e12 ++ [EvRealloc (size_for g cap) (size_for g (N.of_nat (length s))) true] /\
                  N.of_nat (length s) <= cap /\ cap <= s_max g /\ 31 <= cap.
Proof. exact store_new_node. Qed.
Print Assumptions C06_new_string_shrunk_to_size.

(* stored n times and released n times: the pool is as before (the last release frees the node, with one deallocation) *)
Theorem C06_store_n_release_n : forall g s n st ans st' ans', SInv g st -> store_n g st ans s n = Some (st', ans') ->
  sb_pool (deref_n g st' s n) = sb_pool st.
Proof. exact store_deref_n. Qed.
Print Assumptions C06_store_n_release_n.

Theorem C06_last_release_frees_the_node : forall g st x, SInv g st -> In x (sb_pool st) -> n_refs x = 1 ->
  exists k, nth_error (sb_pool st) k = Some x /\ sb_deref g st (n_content x) =
    (mk (firstn k (sb_pool st) ++ skipn (S k) (sb_pool st)) (sb_scratch st), [EvFree (size_for g (n_len x))]).
Proof. exact deref_node_last. Qed.
Print Assumptions C06_last_release_frees_the_node.

(* ---- the same for StringBuffer, the MessagePack reader's string storage (reserve(n), fill, save()) ---- *)
Theorem C06_buffer_nodes_invariant : forall g ops ans, BInv g (fst (bf_run g bf_init ans ops)).
Proof. exact reachable_BInv. Qed.
Print Assumptions C06_buffer_nodes_invariant.

Theorem C06_buffer_stores_the_bytes_once : forall g st ans s st' ans' ev x,
  BInv g st -> bf_store g st ans s = (st', ans', ev, Some x) ->
  n_content x = s /\ n_len x = N.of_nat (length s) /\ n_data x = s /\
  In x (bf_pool st') /\ occ s (bf_pool st') = 1%nat.
Proof. exact bstore_stored. Qed.
Print Assumptions C06_buffer_stores_the_bytes_once.

Theorem C06_buffer_failure_touches_nothing : forall g st ans s st' ans' ev,
  bf_store g st ans s = (st', ans', ev, None) -> bf_pool st' = bf_pool st /\ bf_node st' = None.
Proof. exact bstore_fail_clean. Qed.
Print Assumptions C06_buffer_failure_touches_nothing.

(* with an allocator that always answers, a string is refused exactly when it is longer than the length limit *)
Theorem C06_buffer_fails_only_beyond_the_limit : forall g st ans s, BInv g st -> alltrue ans ->
  (snd (bf_store g st ans s) = None <-> s_max g < blen s).
Proof. exact bstore_alltrue_iff. Qed.
Print Assumptions C06_buffer_fails_only_beyond_the_limit.

(* at most two allocator events per string: free + exact allocation, or one shrinking reallocation of a kept node *)
Theorem C06_buffer_at_most_two_calls : forall g st ans s st' ans' ev r,
  bf_store g st ans s = (st', ans', ev, r) -> (length ev <= 2)%nat.
Proof. exact bstore_events_count2. Qed.
Print Assumptions C06_buffer_at_most_two_calls.

Theorem C06_buffer_store_n_release_n : forall g s n st ans st' ans',
  BInv g st -> bstore_n g st ans s n = Some (st', ans') -> bf_pool (bderef_n g st' s n) = bf_pool st.
Proof. exact bstore_deref_n. Qed.
Print Assumptions C06_buffer_store_n_release_n.

(* the two constants of the builder model are the ones in the source (Gen/Config.v is regenerated from
   Memory/StringBuilder.hpp on every run): initial capacity 31, growth to 2 * size + 1 *)
Theorem C06_builder_constants_from_source :
  Gen.Config.gen_sb_initial_capacity = Z.of_N initial_capacity /\
  Gen.Config.gen_sb_growth_mul = 2%Z /\ Gen.Config.gen_sb_growth_add = 1%Z.
Proof. repeat split; reflexivity. Qed.
Print Assumptions C06_builder_constants_from_source.
