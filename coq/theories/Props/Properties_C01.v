(* Properties_C01.v — C01: valid JSON deserializes to exactly the value it denotes.
   Statements only, each closed by `exact`, Print Assumptions beneath. *)
From Coq Require Import NArith ZArith List Bool.
From AJ Require Import Model.Base Model.Value Model.Utf Model.NumParse Model.JsonParse.
From AJ Require Import Spec.Utf8Spec Spec.Rfc8259 Spec.ParseSpec Proofs.Lex Proofs.ParseComplete Proofs.GenAgree.
From AJ Require Proofs.NoMemory.
From AJ Require Gen.Tables Gen.Config.
Local Open Scope N_scope.

(* Every RFC 8259 text (Spec/Rfc8259.v: any whitespace layout, any escape spelling incl. \uXXXX in any
   case and surrogate pairs, any number spelling, any key set) whose syntactic depth is at most the nesting
   limit, whose number literals have at most 63 characters and whose strings and keys decode to at most 65535
   bytes (StringNode::maxLength; the conjunct [string_fits] of [jstring]) is accepted, and the document is the value
   the grammar assigns: same structure and order, strings = UTF-8 of the decoded code points, a repeated
   key keeps its first position and its last value, a number literal denotes what parseNumber computes for
   it (its exactness / accuracy is C12).  The destination does not appear: json_run has no such input. *)
Theorem C01_valid_json_denotes : forall cf, decode_unicode cf = true ->
  forall d i v, jtextD (num_den cf) d i v -> forall L, (d <= L)%nat ->
  j_err (json_run cf None L i) = Ok /\ j_doc (json_run cf None L i) = v.
Proof. exact json_run_complete. Qed.
Print Assumptions C01_valid_json_denotes.

(* the string limit is exact: an RFC 8259 string (any escape spelling) is accepted if and only if it decodes to
   at most 65535 bytes ... *)
Theorem C01_string_limit_is_exact : forall cf, decode_unicode cf = true ->
  forall body str, jchars body str ->
  forall L, (j_err (json_run cf None L ([34] ++ body ++ [34])) = Ok <-> N.of_nat (length str) <= 65535).
Proof. exact NoMemory.rfc_string_accepted_iff_fits. Qed.
Print Assumptions C01_string_limit_is_exact.

(* ... a longer one, wherever it stands at top level, is read up to and including its closing quote and then
   refused with NoMemory (no document; the bytes read are exactly the whitespace and the string) *)
Theorem C01_long_string_is_NoMemory : forall cf, decode_unicode cf = true ->
  forall body str, jchars body str -> 65536 <= N.of_nat (length str) ->
  forall L w rest, ws w ->
    let o := json_run cf None L (w ++ ([34] ++ body ++ [34]) ++ rest) in
    j_err o = NoMemory /\ j_doc o = JNull /\
    reads (j_st o) = N.of_nat (length (w ++ [34] ++ body ++ [34])) /\ stream (j_st o) = rest.
Proof. exact NoMemory.rfc_long_string_is_NoMemory. Qed.
Print Assumptions C01_long_string_is_NoMemory.

(* and no document the reader returns holds a string or a key above the limit (any input, any filter, any outcome) *)
Theorem C01_built_strings_fit : forall cf f L i, NoMemory.strings_fit (j_doc (json_run cf f L i)).
Proof. exact NoMemory.json_run_strings_fit. Qed.
Print Assumptions C01_built_strings_fit.

(* the depth-indexed grammar is the RFC grammar *)
Theorem C01_grammar_is_rfc8259 : forall nd t v, jtext nd t v <-> exists d, jtextD nd d t v.
Proof. exact jtextD_iff. Qed.
Print Assumptions C01_grammar_is_rfc8259.

(* a value inside a larger input: exactly its own text is consumed and what follows does not matter *)
Theorem C01_value_any_context : forall cf, decode_unicode cf = true ->
  forall d t v, jvalueD (num_den cf) d t v ->
  forall L fuel s rest, (d <= L)%nat -> good s -> stream s = t ++ rest ->
    delimiter cf rest -> (length (t ++ rest) < fuel)%nat ->
    exists s', parse_variant cf fuel L None s = (Ok, v, s') /\ post s' rest /\ found s' = true.
Proof. exact parse_variant_complete. Qed.
Print Assumptions C01_value_any_context.

(* the limit is about the depth of the TEXT: with the depth of the resulting value instead, the statement
   is false ({"a":[],"a":1} at limit 1) — kept as a checked refutation so that it is not "simplified" later *)
Theorem C01_value_depth_is_not_enough :
  ~ (forall cf, decode_unicode cf = true ->
     forall i v, jtext (num_den cf) i v -> forall L, (nesting v <= L)%nat ->
     j_err (json_run cf None L i) = Ok /\ j_doc (json_run cf None L i) = v).
Proof. exact json_run_complete_value_depth_refuted. Qed.
Print Assumptions C01_value_depth_is_not_enough.

(* tie T: character classes and escape tables used by the reader are those of the current source *)
Theorem C01_source_agrees :
  (forall c, c < 256 -> b2n (can_be_in_number default_cfg c) = tab Gen.Tables.gen_can_be_in_number c) /\
  (forall c, c < 256 -> b2n (is_quote c) = tab Gen.Tables.gen_is_quote c) /\
  (forall c, c < 256 -> unescape_char c = tab Gen.Tables.gen_unescape_char c) /\
  (forall c, c < 256 -> decode_hex c = tab Gen.Tables.gen_decode_hex c) /\
  Gen.Config.gen_number_buffer_size = 64%Z.
Proof.
  exact (conj can_be_in_number_gen (conj is_quote_gen (conj unescape_char_gen (conj decode_hex_gen
         (proj1 parse_constants_gen))))).
Qed.
Print Assumptions C01_source_agrees.

(* non-vacuity: a concrete text with whitespace, escapes, a surrogate pair, duplicate and prefix keys *)
Example C01_example :
  let i := [32; 123; 34; 97; 34; 58; 91; 49; 44; 32; 34; 92; 117; 68; 56; 51; 68; 92; 117; 100; 101; 48; 48; 34; 93;
            44; 34; 97; 98; 34; 58; 110; 117; 108; 108; 44; 34; 97; 34; 58; 45; 50; 125; 10] in
  j_err (json_run default_cfg None 10 i) = Ok /\
  j_doc (json_run default_cfg None 10 i) = JObj [([97], JInt (-2)); ([97; 98], JNull)].
Proof. split; vm_compute; reflexivity. Qed.
