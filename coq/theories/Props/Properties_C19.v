(* Properties_C19.v — C19: capacity limits are clean edges and semantics do not depend on pool geometry. *)
From Coq Require Import NArith List Bool.
From AJ Require Import Model.Base Model.Pool Proofs.PoolProofs.
From AJ Require Gen.Config.
Local Open Scope N_scope.

(* good_geom: slot ids of any width >= 1 bit, pool capacity from 2 up to 2^bits (dividing it or not), at least
   one inline pool (also more inline pools than maxPools).  Every theorem holds for EVERY pattern of allocator
   failures and every interleaving of shrinkToFit and clear. *)

(* slot identifiers never wrap and never equal NULL_SLOT *)
Theorem C19_ids_never_wrap : forall g ops, good_geom g ->
  forall id, In (Some id) (snd (prun g ops)) -> id < null_slot g.
Proof. exact alloc_below_null. Qed.
Print Assumptions C19_ids_never_wrap.

(* no slot is handed out twice while it is live *)
Theorem C19_live_slots_distinct : forall g ops, good_geom g -> NoDup (lv (fst (prun g ops))).
Proof. exact live_distinct. Qed.
Print Assumptions C19_live_slots_distinct.

(* at most 2^(8*size)-1 slots, and the pool table never outgrows maxPools (whatever shrinkToFit did to it) *)
Theorem C19_at_most_null_slot_slots : forall g ops, good_geom g ->
  N.of_nat (length (lv (fst (prun g ops)))) <= null_slot g.
Proof. exact capacity_reached_cleanly. Qed.
Print Assumptions C19_at_most_null_slot_slots.

Theorem C19_pool_count_bounded : forall g ops, good_geom g -> count (pl (fst (prun g ops))) <= max_pools g.
Proof. exact count_bounded. Qed.
Print Assumptions C19_pool_count_bounded.

(* reaching the limit fails cleanly: a failed allocation changes no existing pool and not the free list *)
Theorem C19_failure_is_clean : forall g a b p p', alloc_slot g a b p = (None, p') ->
  free_list p' = free_list p /\ (forall k pk, nth_error (pools p) k = Some pk -> nth_error (pools p') k = Some pk).
Proof. exact failed_alloc_keeps_slots. Qed.
Print Assumptions C19_failure_is_clean.

(* usable again after values are removed (freed slots are handed out first) or after clear() *)
Theorem C19_usable_after_remove : forall g a b p id rest, free_list p = id :: rest ->
  alloc_slot g a b p = (Some id, {| pools := pools p; table_cap := table_cap p; on_heap := on_heap p; free_list := rest |}).
Proof. exact reuse_before_new_pool. Qed.
Print Assumptions C19_usable_after_remove.

Theorem C19_clear_resets : forall g p, pl_clear g p = pl_init g.
Proof. exact clear_resets. Qed.
Print Assumptions C19_clear_resets.

(* reference counts of copied strings never exceed the number of users (hence never wrap: users are slots) *)
Theorem C19_string_refs_count_users : forall s p, sp_refs s (sp_add s p) = sp_refs s p + 1.
Proof. exact sp_add_refs. Qed.
Print Assumptions C19_string_refs_count_users.

(* semantics independent of geometry: the tree model (Model/Tree.v) that the library is compared with under the
   whole geometry matrix has no geometry parameter at all *)

Example C19_example :   (* 3-bit ids, capacity 3 (does not divide 8), 4 inline pools: 7 slots then clean failure *)
  let g := {| id_bits := 3; pool_cap := 3; inline_pools := 4 |} in
  snd (prun g (repeat (PAlloc true true) 9)) =
  [Some 0; Some 1; Some 2; Some 3; Some 4; Some 5; Some 6; None; None].
Proof. vm_compute. reflexivity. Qed.
