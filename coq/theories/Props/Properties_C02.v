(* Properties_C02.v — C02: serializeJson emits exactly the document, on every kind of destination. *)
From Coq Require Import NArith ZArith List Bool.
From AJ Require Import Model.Base Model.Value Model.Utf Model.NumParse Model.JsonParse Model.JsonSer.
From AJ Require Import Spec.ParseSpec Proofs.Lex Proofs.StringRT Proofs.UtfProofs Proofs.GenAgree Proofs.JsonSerRT.
From AJ Require Gen.Tables Gen.Config.
From Coq Require Import Reals.
From AJ Require Proofs.FloatRT Proofs.PrintErr.
Local Open Scope Z_scope.

(* the text denotes exactly the document: reading it back with the (proved RFC-complete) reader gives the
   document — every string byte, every integer digit, members in order; float-free documents here, the
   floating-point leaves are C12's subject (their printing is tied bit-exactly to the code by correspondence).
   [nofloat] asks every string and key to be storable: at most 65535 bytes (C02_nofloat_strings below) — the
   reader refuses a longer one with NoMemory (C17_roundtrip_too_long) *)
Theorem C02_text_denotes_document : forall cf, decode_unicode cf = true ->
  forall v, nofloat v -> forall L, (nesting v <= L)%nat ->
  j_err (json_run cf None L (ser cf v)) = Ok /\ j_doc (json_run cf None L (ser cf v)) = v.
Proof. exact json_run_ser. Qed.
Print Assumptions C02_text_denotes_document.

Theorem C02_nofloat_strings : forall s,
  nofloat (JStr s) <-> (Forall (fun b => b < 256)%N s /\ (N.of_nat (length s) <= 65535)%N).
Proof. intro s. exact (iff_refl _). Qed.
Print Assumptions C02_nofloat_strings.

(* serializeJsonPretty differs only in insignificant whitespace: it reads back to the same document, at
   any starting indentation level (the 8-bit nesting counter may wrap: the text is still whitespace) *)
Theorem C02_pretty_denotes_same : forall cf, decode_unicode cf = true ->
  forall v nest, nofloat v -> forall L, (nesting v <= L)%nat ->
  j_err (json_run cf None L (ser_pretty cf nest v)) = Ok /\ j_doc (json_run cf None L (ser_pretty cf nest v)) = v.
Proof. exact json_run_ser_pretty. Qed.
Print Assumptions C02_pretty_denotes_same.

(* every integer is printed digit-exact: digits only, no leading zero, value preserved, at most 20 digits *)
Theorem C02_integers_digit_exact : forall z, 0 <= z < 2 ^ 64 ->
  digits_value (write_uint z) = z /\ Forall is_digit_byte (write_uint z) /\ write_uint z <> [] /\
  (z <> 0 -> hd 0%N (write_uint z) <> 48%N) /\ (length (write_uint z) <= 20)%nat.
Proof. exact write_uint_value. Qed.
Print Assumptions C02_integers_digit_exact.

Theorem C02_negative_integers : forall z, - 2 ^ 63 <= z < 2 ^ 64 ->
  write_int z = (if z <? 0 then [45%N] else []) ++ write_uint (Z.abs z).
Proof. exact write_int_spec. Qed.
Print Assumptions C02_negative_integers.

(* a buffer of capacity n receives exactly the first min(n, length) bytes, the returned count is that
   number, and the NUL is stored iff length < n; measureJson = length of the text by definition of the
   counting writer *)
Theorem C02_bounded_buffer : forall pt n t,
  write_to_buffer pt n t = (firstn n t, Nat.min n (length t), pt && Nat.ltb (length t) n).
Proof. exact write_to_buffer_spec. Qed.
Print Assumptions C02_bounded_buffer.

(* bytes other than the named ones are never changed *)
Theorem C02_string_bytes_preserved : forall c, (c < 256)%N -> named c = false -> write_char c = [c].
Proof. exact write_char_verbatim. Qed.
Print Assumptions C02_string_bytes_preserved.

(* tie T: escape table and exponentiation thresholds come from the current source *)
Theorem C02_source_agrees :
  (forall c, (c < 256)%N -> write_char c = nth (N.to_nat c) Gen.Tables.gen_write_char []) /\
  Gen.Config.gen_pos_exp_threshold_bits = 0x416312D000000000 /\
  Gen.Config.gen_neg_exp_threshold_bits = 0x3EE4F8B588E368F1 /\
  Gen.Tables.gen_tab = tab_bytes.
Proof. repeat split; try reflexivity. exact write_char_gen. Qed.
Print Assumptions C02_source_agrees.

(* documents with floating-point values: the compact and the pretty text are texts of the RFC grammar (every printed
   number is a `jnumber`) that read back to a document of the same shape whose floating-point leaves are within C12's
   printing tolerance (FloatRT.close); a zero of either sign prints as 0 *)
Theorem C02_text_denotes_document_with_floats : forall cf, decode_unicode cf = true -> use_double cf = true ->
  forall v, FloatRT.ser_ok_floats v -> forall L, (nesting v <= L)%nat ->
  exists w, j_err (json_run cf None L (ser cf v)) = Ok /\
            j_doc (json_run cf None L (ser cf v)) = w /\ FloatRT.close v w.
Proof. exact FloatRT.json_roundtrip_close. Qed.
Print Assumptions C02_text_denotes_document_with_floats.

Theorem C02_pretty_denotes_same_with_floats : forall cf, decode_unicode cf = true -> use_double cf = true ->
  forall v nest, FloatRT.ser_ok_floats v -> forall L, (nesting v <= L)%nat ->
  exists w, j_err (json_run cf None L (ser_pretty cf nest v)) = Ok /\
            j_doc (json_run cf None L (ser_pretty cf nest v)) = w /\ FloatRT.close v w.
Proof. exact FloatRT.json_pretty_roundtrip_close. Qed.
Print Assumptions C02_pretty_denotes_same_with_floats.

Example C02_example :
  ser default_cfg (JObj [([97]%N, JArr [JInt (-5); JStr [34; 0; 200]%N; JNull]); ([], JBool true)])
  = [123; 34; 97; 34; 58; 91; 45; 53; 44; 34; 92; 34; 92; 117; 48; 48; 48; 48; 200; 34; 44; 110; 117; 108; 108; 93; 44; 34; 34; 58; 116; 114; 117; 101; 125]%N.
Proof. vm_compute. reflexivity. Qed.
