(* Properties_C13.v — C13: typed extraction is exact when it fits and zero otherwise, never undefined. *)
From Coq Require Import NArith ZArith QArith List Bool.
From Coq Require Import Floats.SpecFloat.
From AJ Require Import Model.Base Model.FloatModel Model.Value Model.NumParse Model.Convert.
From AJ Require Import Proofs.NumProofs Proofs.CopyArrayProofs.
From AJ Require Gen.Config.
From Coq Require Import Reals.
From Flocq Require Import Core.
From Flocq Require BinarySingleNaN.
From AJ Require Import Proofs.FloatErr.
From AJ Require Proofs.FloatConv.
Local Open Scope Z_scope.

(* integer stored, integral target: the value when it fits, 0 otherwise — all 8 widths/signednesses *)
Theorem C13_int_to_int : forall t z, conv_int_int t z = if fits t z then z else 0.
Proof. exact conv_int_exact. Qed.
Print Assumptions C13_int_to_int.

(* is<T>() => as<T>() returns the value exactly, and agrees with as<U>() for every wider U *)
Theorem C13_is_then_as : forall c t z, is_int t (JInt z) = true -> as_int c t (JInt z) = z.
Proof. exact is_then_as. Qed.
Print Assumptions C13_is_then_as.

Theorem C13_wider_agrees : forall c t u z, is_int t (JInt z) = true ->
  ity_lo u <= ity_lo t -> ity_hi t <= ity_hi u -> as_int c u (JInt z) = z.
Proof. exact wider_agrees. Qed.
Print Assumptions C13_wider_agrees.

(* never undefined: the float -> integer cast is only evaluated when its result is representable (no
   float-cast-overflow), for float and double sources and all 8 integral targets *)
Theorem C13_float_cast_defined : forall f t v, (f = F32 \/ f = F64) -> ity_ok t -> valid f v ->
  can_conv_float_int f t v = true -> ity_lo t <= f_trunc v <= ity_hi t.
Proof. exact float_cast_defined. Qed.
Print Assumptions C13_float_cast_defined.

(* every stored bit pattern is a valid value, so the hypothesis above is met by what a document holds *)
Theorem C13_stored_values_valid : forall f x, (f = F32 \/ f = F64) -> valid f (sf_of_bits f x).
Proof. exact sf_of_bits_valid. Qed.
Print Assumptions C13_stored_values_valid.

(* exact when it fits: a finite value whose (rational) value lies within the range of T is converted, and
   the result is its truncation toward zero *)
Theorem C13_float_in_range_truncates : forall f t v, (f = F32 \/ f = F64) -> ity_ok t -> valid f v ->
  is_finite v = true ->
  (inject_Z (ity_lo t) <= sf_Q v)%Q -> (sf_Q v <= inject_Z (ity_hi t))%Q ->
  can_conv_float_int f t v = true /\ conv_float_int f t v = f_trunc v.
Proof. exact float_cast_complete_Q. Qed.
Print Assumptions C13_float_in_range_truncates.

(* zero otherwise: whatever comes out is inside the range of T; NaN and infinities are never cast *)
Theorem C13_result_in_range : forall f t v, (f = F32 \/ f = F64) -> ity_ok t -> valid f v ->
  ity_lo t <= conv_float_int f t v <= ity_hi t.
Proof. exact conv_float_int_in_range. Qed.
Print Assumptions C13_result_in_range.

Theorem C13_nan_is_zero : forall f t, conv_float_int f t S754_nan = 0.
Proof. intros. unfold conv_float_int. rewrite can_conv_nan. reflexivity. Qed.
Print Assumptions C13_nan_is_zero.

(* as<double>() / as<float>() of a stored integer is the IEEE-754 round-to-nearest-even value of that integer
   (BinarySingleNaN.SF2R radix2 r = the real value of r; these two theorems are over the reals and depend on the standard library's Reals
   axioms), and exact whenever the integer fits the significand *)
Theorem C13_int_to_double_correctly_rounded : forall c z, 0 <= z < 2 ^ 64 ->
  BinarySingleNaN.SF2R radix2 (as_float c F64 (JInt z)) = round radix2 (FLT_exp (-1074) 53) ZnearestE (IZR z) /\
  exists d, (Rabs d <= bpow radix2 (-53))%R /\ BinarySingleNaN.SF2R radix2 (as_float c F64 (JInt z)) = (IZR z * (1 + d))%R.
Proof. intros c z Hz. exact (f_of_Z64_rel z Hz). Qed.
Print Assumptions C13_int_to_double_correctly_rounded.

Theorem C13_int_to_float_exact_when_it_fits : forall c f z, (f = F32 \/ f = F64) -> Z.abs z < 2 ^ prec f ->
  BinarySingleNaN.SF2R radix2 (as_float c f (JInt z)) = IZR z /\ valid f (as_float c f (JInt z)) /\
  FloatModel.is_finite (as_float c f (JInt z)) = true.
Proof.
  intros c f z Hf Hz. cbn [as_float]. apply f_of_Z_exact; [|exact Hz].
  destruct Hf as [-> | ->]; [exact good_F32 | exact good_F64].
Qed.
Print Assumptions C13_int_to_float_exact_when_it_fits.

(* as<float>() of a stored double is the IEEE-754 round-to-nearest-even float of its value, or the infinity of the same
   sign when that rounding leaves the float range (from 2^128 - 2^103 on); as<double>() of a stored float is exact; a
   value read through its own type is unchanged (over the reals, through Flocq: standard library Reals axioms) *)
Theorem C13_double_to_float_correctly_rounded : forall c x, valid F64 x -> FloatModel.is_finite x = true ->
  let r := BinarySingleNaN.SF2R radix2 x in
  if Rlt_bool (Rabs (round radix2 (FLT_exp (-149) 24) ZnearestE r)) (bpow radix2 128)
  then BinarySingleNaN.SF2R radix2 (as_float c F32 (JDouble x)) = round radix2 (FLT_exp (-149) 24) ZnearestE r /\
       valid F32 (as_float c F32 (JDouble x)) /\
       FloatModel.is_finite (as_float c F32 (JDouble x)) = true
  else as_float c F32 (JDouble x) = S754_infinity (BinarySingleNaN.sign_SF x).
Proof. exact FloatConv.as_float_narrow. Qed.
Print Assumptions C13_double_to_float_correctly_rounded.

Theorem C13_double_to_float_overflow_threshold : forall x, valid F64 x -> FloatModel.is_finite x = true ->
  ((Rabs (BinarySingleNaN.SF2R radix2 x) < bpow radix2 128 - bpow radix2 103)%R ->
     BinarySingleNaN.SF2R radix2 (fconv F32 x) = round radix2 (FLT_exp (-149) 24) ZnearestE (BinarySingleNaN.SF2R radix2 x) /\
     valid F32 (fconv F32 x) /\ FloatModel.is_finite (fconv F32 x) = true) /\
  ((bpow radix2 128 - bpow radix2 103 <= Rabs (BinarySingleNaN.SF2R radix2 x))%R ->
     fconv F32 x = S754_infinity (BinarySingleNaN.sign_SF x)).
Proof. exact FloatConv.fconv_narrow_threshold. Qed.
Print Assumptions C13_double_to_float_overflow_threshold.

Theorem C13_float_to_double_exact : forall c x, valid F32 x -> FloatModel.is_finite x = true ->
  BinarySingleNaN.SF2R radix2 (as_float c F64 (JFloat x)) = BinarySingleNaN.SF2R radix2 x /\
  valid F64 (as_float c F64 (JFloat x)) /\ FloatModel.is_finite (as_float c F64 (JFloat x)) = true.
Proof. exact FloatConv.as_float_widen. Qed.
Print Assumptions C13_float_to_double_exact.

Theorem C13_own_type_unchanged : forall c x,
  (valid F32 x -> as_float c F32 (JFloat x) = x) /\ (valid F64 x -> as_float c F64 (JDouble x) = x).
Proof. exact FloatConv.as_float_same. Qed.
Print Assumptions C13_own_type_unchanged.

Theorem C13_float_double_float_roundtrip : forall x, valid F32 x -> fconv F32 (fconv F64 x) = x.
Proof. exact FloatConv.fconv_roundtrip. Qed.
Print Assumptions C13_float_double_float_roundtrip.

(* strings convert by the same rules whatever their length: never a table overrun *)
Theorem C13_strings_any_length : forall cf s, parse_number cf s <> NumFault.
Proof. exact parse_number_no_fault. Qed.
Print Assumptions C13_strings_any_length.

(* copyArray never writes beyond the destination it was given (Model/Convert.v mirrors Array/Utilities.hpp; the
   destination is the list of its current elements): same length afterwards, the first min(size, len) elements are
   as<T>() of the source elements, everything from the returned count on is untouched *)
Theorem C13_copyArray_1d_in_bounds : forall c t src dst,
  length (fst (copy_array_1d c t src dst)) = length dst /\
  snd (copy_array_1d c t src dst) = Nat.min (length (elems_of src)) (length dst) /\
  skipn (snd (copy_array_1d c t src dst)) (fst (copy_array_1d c t src dst)) = skipn (snd (copy_array_1d c t src dst)) dst /\
  (forall i, (i < snd (copy_array_1d c t src dst))%nat ->
     nth_error (fst (copy_array_1d c t src dst)) i = option_map (as_int c t) (nth_error (elems_of src) i)).
Proof.
  intros c t src dst. split; [apply copy_1d_length|]. split; [reflexivity|]. split; [apply copy_1d_tail|].
  intros i Hi. apply copy_1d_head. exact Hi.
Qed.
Print Assumptions C13_copyArray_1d_in_bounds.

(* two-dimensional destination: the number of rows and the length of every row are unchanged, rows beyond the source
   are untouched *)
Theorem C13_copyArray_2d_in_bounds : forall c t src dst,
  length (fst (copy_array_2d c t src dst)) = length dst /\
  map (@length Z) (fst (copy_array_2d c t src dst)) = map (@length Z) dst /\
  skipn (length (elems_of src)) (fst (copy_array_2d c t src dst)) = skipn (length (elems_of src)) dst.
Proof.
  intros c t src dst. unfold copy_array_2d. cbn [fst].
  split; [apply copy_rows_length|]. split; [apply copy_rows_row_lengths|apply copy_rows_tail].
Qed.
Print Assumptions C13_copyArray_2d_in_bounds.

(* char destination of N >= 1 bytes: N bytes afterwards, NUL-terminated within them, a prefix of the string before *)
Theorem C13_copyArray_string_in_bounds : forall src dst, (1 <= length dst)%nat ->
  length (copy_string src dst) = length dst /\
  exists len, (len <= length dst - 1)%nat /\ nth_error (copy_string src dst) len = Some 0%N /\
    firstn len (copy_string src dst) = firstn len (match src with JStr s => s | _ => [] end).
Proof. intros src dst H. split; [apply copy_string_length; exact H | apply copy_string_terminated; exact H]. Qed.
Print Assumptions C13_copyArray_string_in_bounds.

(* tie T: the highest_for constants guarding the casts are those of the source *)
Theorem C13_source_agrees :
  Gen.Config.gen_highest_for_f64_i64 = 0x43DFFFFFFFFFFFFF /\ Gen.Config.gen_highest_for_f64_u64 = 0x43EFFFFFFFFFFFFF /\
  Gen.Config.gen_highest_for_f32_i32 = 0x4EFFFFFF /\ Gen.Config.gen_highest_for_f32_u32 = 0x4F7FFFFF /\
  Gen.Config.gen_highest_for_f32_i64 = 0x5EFFFFFF /\ Gen.Config.gen_highest_for_f32_u64 = 0x5F7FFFFF.
Proof. repeat split; reflexivity. Qed.
Print Assumptions C13_source_agrees.

Example C13_examples :
  as_int default_cfg I16 (JDouble (sf_of_bits F64 0x40DFFFE000000000)) = 0 /\         (* 32767.5 is outside int16_t *)
  as_int default_cfg I16 (JDouble (sf_of_bits F64 0x40DFFFC000000000)) = 32767 /\     (* 32767.0 *)
  as_int default_cfg I16 (JDouble (sf_of_bits F64 0xC0DFFFF000000000)) = -32767 /\    (* -32767.75 truncates toward zero *)
  as_int default_cfg I8 (JInt 300) = 0 /\ as_int default_cfg U64 (JInt (-1)) = 0.
Proof. repeat split; vm_compute; reflexivity. Qed.
