(* Properties_C13.v — C13: typed extraction is exact when it fits and zero otherwise, never undefined. *)
From Coq Require Import NArith ZArith QArith List Bool.
From Coq Require Import Floats.SpecFloat.
From AJ Require Import Model.Base Model.FloatModel Model.Value Model.NumParse Model.Convert.
From AJ Require Import Proofs.NumProofs.
From AJ Require Gen.Config.
From Coq Require Import Reals.
From Flocq Require Import Core.
From Flocq Require BinarySingleNaN.
From AJ Require Import Proofs.FloatErr.
Local Open Scope Z_scope.

(* integer stored, integral target: the value when it fits, 0 otherwise — all 8 widths/signednesses *)
Theorem C13_int_to_int : forall t z, conv_int_int t z = if fits t z then z else 0.
Proof. exact conv_int_exact. Qed.
Print Assumptions C13_int_to_int.

(* is<T>() => as<T>() returns the value exactly, and agrees with as<U>() for every wider U *)
Theorem C13_is_then_as : forall c t z, is_int t (JInt z) = true -> as_int c t (JInt z) = z.
Proof. exact is_then_as. Qed.
Print Assumptions C13_is_then_as.

Theorem C13_wider_agrees : forall c t u z, is_int t (JInt z) = true ->
  ity_lo u <= ity_lo t -> ity_hi t <= ity_hi u -> as_int c u (JInt z) = z.
Proof. exact wider_agrees. Qed.
Print Assumptions C13_wider_agrees.

(* never undefined: the float -> integer cast is only evaluated when its result is representable (no
   float-cast-overflow), for float and double sources and all 8 integral targets *)
Theorem C13_float_cast_defined : forall f t v, (f = F32 \/ f = F64) -> ity_ok t -> valid f v ->
  can_conv_float_int f t v = true -> ity_lo t <= f_trunc v <= ity_hi t.
Proof. exact float_cast_defined. Qed.
Print Assumptions C13_float_cast_defined.

(* every stored bit pattern is a valid value, so the hypothesis above is met by what a document holds *)
Theorem C13_stored_values_valid : forall f x, (f = F32 \/ f = F64) -> valid f (sf_of_bits f x).
Proof. exact sf_of_bits_valid. Qed.
Print Assumptions C13_stored_values_valid.

(* exact when it fits: a finite value whose (rational) value lies within the range of T is converted, and
   the result is its truncation toward zero *)
Theorem C13_float_in_range_truncates : forall f t v, (f = F32 \/ f = F64) -> ity_ok t -> valid f v ->
  is_finite v = true ->
  (inject_Z (ity_lo t) <= sf_Q v)%Q -> (sf_Q v <= inject_Z (ity_hi t))%Q ->
  can_conv_float_int f t v = true /\ conv_float_int f t v = f_trunc v.
Proof. exact float_cast_complete_Q. Qed.
Print Assumptions C13_float_in_range_truncates.

(* zero otherwise: whatever comes out is inside the range of T; NaN and infinities are never cast *)
Theorem C13_result_in_range : forall f t v, (f = F32 \/ f = F64) -> ity_ok t -> valid f v ->
  ity_lo t <= conv_float_int f t v <= ity_hi t.
Proof. exact conv_float_int_in_range. Qed.
Print Assumptions C13_result_in_range.

Theorem C13_nan_is_zero : forall f t, conv_float_int f t S754_nan = 0.
Proof. intros. unfold conv_float_int. rewrite can_conv_nan. reflexivity. Qed.
Print Assumptions C13_nan_is_zero.

(* as<double>() / as<float>() of a stored integer is the IEEE-754 round-to-nearest-even value of that integer
   (BinarySingleNaN.SF2R radix2 r = the real value of r; these two theorems are over the reals and depend on the standard library's Reals
   axioms), and exact whenever the integer fits the significand *)
Theorem C13_int_to_double_correctly_rounded : forall c z, 0 <= z < 2 ^ 64 ->
  BinarySingleNaN.SF2R radix2 (as_float c F64 (JInt z)) = round radix2 (FLT_exp (-1074) 53) ZnearestE (IZR z) /\
  exists d, (Rabs d <= bpow radix2 (-53))%R /\ BinarySingleNaN.SF2R radix2 (as_float c F64 (JInt z)) = (IZR z * (1 + d))%R.
Proof. intros c z Hz. exact (f_of_Z64_rel z Hz). Qed.
Print Assumptions C13_int_to_double_correctly_rounded.

Theorem C13_int_to_float_exact_when_it_fits : forall c f z, (f = F32 \/ f = F64) -> Z.abs z < 2 ^ prec f ->
  BinarySingleNaN.SF2R radix2 (as_float c f (JInt z)) = IZR z /\ valid f (as_float c f (JInt z)) /\
  FloatModel.is_finite (as_float c f (JInt z)) = true.
Proof.
  intros c f z Hf Hz. cbn [as_float]. apply f_of_Z_exact; [|exact Hz].
  destruct Hf as [-> | ->]; [exact good_F32 | exact good_F64].
Qed.
Print Assumptions C13_int_to_float_exact_when_it_fits.

(* strings convert by the same rules whatever their length: never a table overrun *)
Theorem C13_strings_any_length : forall cf s, parse_number cf s <> NumFault.
Proof. exact parse_number_no_fault. Qed.
Print Assumptions C13_strings_any_length.

(* tie T: the highest_for constants guarding the casts are those of the source *)
Theorem C13_source_agrees :
  Gen.Config.gen_highest_for_f64_i64 = 0x43DFFFFFFFFFFFFF /\ Gen.Config.gen_highest_for_f64_u64 = 0x43EFFFFFFFFFFFFF /\
  Gen.Config.gen_highest_for_f32_i32 = 0x4EFFFFFF /\ Gen.Config.gen_highest_for_f32_u32 = 0x4F7FFFFF /\
  Gen.Config.gen_highest_for_f32_i64 = 0x5EFFFFFF /\ Gen.Config.gen_highest_for_f32_u64 = 0x5F7FFFFF.
Proof. repeat split; reflexivity. Qed.
Print Assumptions C13_source_agrees.

Example C13_examples :
  as_int default_cfg I16 (JDouble (sf_of_bits F64 0x40DFFFE000000000)) = 0 /\         (* 32767.5 is outside int16_t *)
  as_int default_cfg I16 (JDouble (sf_of_bits F64 0x40DFFFC000000000)) = 32767 /\     (* 32767.0 *)
  as_int default_cfg I16 (JDouble (sf_of_bits F64 0xC0DFFFF000000000)) = -32767 /\    (* -32767.75 truncates toward zero *)
  as_int default_cfg I8 (JInt 300) = 0 /\ as_int default_cfg U64 (JInt (-1)) = 0.
Proof. repeat split; vm_compute; reflexivity. Qed.
