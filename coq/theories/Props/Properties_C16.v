(* Properties_C16.v — C16: one call consumes one document from a stream. *)
From Coq Require Import NArith ZArith List Bool.
From AJ Require Import Model.Base Model.Value Model.JsonParse.
From AJ Require Import Spec.Rfc8259 Spec.ParseSpec Proofs.Lex Proofs.ParseComplete.
Local Open Scope N_scope.

(* Exactly the bytes of the value are consumed, whatever follows: after a value of the grammar followed by
   [rest] the reader is in state `post s' rest`, i.e. its unread stream is exactly [rest]; for strings,
   literals, arrays and objects nothing is latched, for a number the single byte it looked at is latched
   (at most one further byte taken from the stream).  Leading whitespace is skipped first. *)
Theorem C16_consumes_exactly_its_value : forall cf, decode_unicode cf = true ->
  forall d t v, jvalueD (num_den cf) d t v ->
  forall L fuel s w rest, ws w -> (d <= L)%nat -> good s -> stream s = w ++ t ++ rest ->
    delimiter cf rest -> (length (w ++ t ++ rest) < fuel)%nat ->
    exists s', parse_variant cf fuel L None s = (Ok, v, s') /\ post s' rest /\ found s' = true /\
               (is_number v = true -> lastc s' = hd 0 rest).
Proof. exact parse_variant_complete_ws. Qed.
Print Assumptions C16_consumes_exactly_its_value.

(* the result of a call never depends on bytes beyond those it consumed *)
Theorem C16_result_independent_of_rest : forall cf, decode_unicode cf = true ->
  forall d t v, jvalueD (num_den cf) d t v ->
  forall L fuel1 fuel2 s1 s2 rest1 rest2, (d <= L)%nat ->
    good s1 -> stream s1 = t ++ rest1 -> delimiter cf rest1 -> (length (t ++ rest1) < fuel1)%nat ->
    good s2 -> stream s2 = t ++ rest2 -> delimiter cf rest2 -> (length (t ++ rest2) < fuel2)%nat ->
    exists s1' s2', parse_variant cf fuel1 L None s1 = (Ok, v, s1') /\
                    parse_variant cf fuel2 L None s2 = (Ok, v, s2') /\
                    post s1' rest1 /\ post s2' rest2.
Proof. exact parse_variant_ignores_rest. Qed.
Print Assumptions C16_result_independent_of_rest.

Example C16_example :   (* "1 2" : the first call stops after the space *)
  let o := json_run default_cfg None 10 [49; 32; 50] in
  j_err o = Ok /\ j_doc o = JInt 1 /\ reads (j_st o) = 2.
Proof. repeat split; vm_compute; reflexivity. Qed.
