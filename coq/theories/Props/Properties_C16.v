(* Properties_C16.v — C16: one call consumes one document from a stream. *)
From Coq Require Import NArith ZArith List Bool.
From AJ Require Import Model.Base Model.Value Model.JsonParse.
From AJ Require Import Model.Stream.
From AJ Require Import Spec.Rfc8259 Spec.ParseSpec Proofs.Lex Proofs.ParseComplete Proofs.StreamProofs.
From AJ Require Import Model.MsgPack Spec.MsgPackSpec Proofs.ResourceBound.
Local Open Scope N_scope.

(* Exactly the bytes of the value are consumed, whatever follows: after a value of the grammar (Spec/Rfc8259.v:
   strings and keys of at most 65535 decoded bytes, beyond which the reader answers NoMemory) followed by
   [rest] the reader is in state `post s' rest`, i.e. its unread stream is exactly [rest]; for strings,
   literals, arrays and objects nothing is latched, for a number the single byte it looked at is latched
   (at most one further byte taken from the stream).  Leading whitespace is skipped first. *)
Theorem C16_consumes_exactly_its_value : forall cf, decode_unicode cf = true ->
  forall d t v, jvalueD (num_den cf) d t v ->
  forall L fuel s w rest, ws w -> (d <= L)%nat -> good s -> stream s = w ++ t ++ rest ->
    delimiter cf rest -> (length (w ++ t ++ rest) < fuel)%nat ->
    exists s', parse_variant cf fuel L None s = (Ok, v, s') /\ post s' rest /\ found s' = true /\
               (is_number v = true -> lastc s' = hd 0 rest).
Proof. exact parse_variant_complete_ws. Qed.
Print Assumptions C16_consumes_exactly_its_value.

(* the result of a call never depends on bytes beyond those it consumed *)
Theorem C16_result_independent_of_rest : forall cf, decode_unicode cf = true ->
  forall d t v, jvalueD (num_den cf) d t v ->
  forall L fuel1 fuel2 s1 s2 rest1 rest2, (d <= L)%nat ->
    good s1 -> stream s1 = t ++ rest1 -> delimiter cf rest1 -> (length (t ++ rest1) < fuel1)%nat ->
    good s2 -> stream s2 = t ++ rest2 -> delimiter cf rest2 -> (length (t ++ rest2) < fuel2)%nat ->
    exists s1' s2', parse_variant cf fuel1 L None s1 = (Ok, v, s1') /\
                    parse_variant cf fuel2 L None s2 = (Ok, v, s2') /\
                    post s1' rest1 /\ post s2' rest2.
Proof. exact parse_variant_ignores_rest. Qed.
Print Assumptions C16_result_independent_of_rest.

(* position accounting, for EVERY input and every outcome (success or error): bytes read + bytes left = input *)
Theorem C16_reads_plus_rest_is_input : forall cf f L i,
  let s := j_st (json_run cf f L i) in reads s + N.of_nat (length (rest s)) = N.of_nat (length i).
Proof. exact json_run_position. Qed.
Print Assumptions C16_reads_plus_rest_is_input.

(* one whole call (deserializeJson on a reader): value of the grammar, then anything: the value, and exactly
   |whitespace| + |text| bytes read, plus the single look-ahead byte when the value is a number *)
Theorem C16_call_reads_exactly : forall cf, decode_unicode cf = true ->
  forall d t v, jvalueD (num_den cf) d t v ->
  forall L w rest, ws w -> (d <= L)%nat -> (is_number v = true -> delimiter cf rest) ->
    let o := json_run cf None L (w ++ t ++ rest) in
    j_err o = (if is_number v     (* a number has looked at the next byte: NUL or whitespace ends it, anything else is an error *)
               then (match rest with [] => Ok | c :: _ => if (c =? 0)%N || is_space c then Ok else InvalidInput end)
               else Ok) /\
    j_doc o = v /\
    reads (j_st o) = N.of_nat (length (w ++ t)) + extra_read v rest /\
    JsonParse.rest (j_st o) = after_value v rest.
Proof. exact json_run_reads_value_strong. Qed.
Print Assumptions C16_call_reads_exactly.

(* successive calls on one stream of whitespace-separated documents (NDJSON): n documents and n + 1 calls return the n
   documents in order, each call stopping where the next one must start, and then EmptyInput at the end of the stream *)
Theorem C16_ndjson_successive_calls : forall cf, decode_unicode cf = true ->
  forall L ds trail, Forall (doc_ok cf L) ds -> ws trail -> nd_sep ds trail ->
  (forall calls, json_stream cf L calls 0 (nd_bytes ds trail) = firstn calls (nd_results 0 ds trail)) /\
  json_stream cf L (S (length ds)) 0 (nd_bytes ds trail) = nd_results 0 ds trail /\
  map c_doc (nd_results 0 ds trail) = map d_val ds ++ [JNull] /\
  map c_err (nd_results 0 ds trail) = repeat Ok (length ds) ++ [EmptyInput].
Proof.
  intros cf DU L ds trail FA WT SEP. split; [|split].
  - exact (json_stream_ndjson cf DU L ds trail FA WT SEP).
  - exact (json_stream_returns_documents cf DU L ds trail FA WT SEP).
  - exact (nd_results_docs ds trail 0).
Qed.
Print Assumptions C16_ndjson_successive_calls.

(* JSON Lines: one document per line *)
Theorem C16_jsonl_successive_calls : forall cf, decode_unicode cf = true ->
  forall L ls, Forall (line_ok cf L) ls ->
  json_stream cf L (S (length ls)) 0 (jsonl_bytes ls) = jsonl_results 0 ls.
Proof. exact json_stream_returns_documents_jsonl. Qed.
Print Assumptions C16_jsonl_successive_calls.

(* back-to-back MessagePack objects (any legal encodings): n objects and n + 1 calls return the n objects in order,
   each call consuming exactly its object, then EmptyInput *)
Theorem C16_msgpack_successive_calls : forall cf L vs bs, Forall2 MpEnc vs bs -> Forall mp_limits vs ->
  Forall (fun v => (mpv_depth v <= L)%nat) vs ->
  (forall calls, mp_stream cf L calls 0 (concat bs) = firstn calls (mp_results cf 0 vs bs)) /\
  mp_stream cf L (S (length vs)) 0 (concat bs) = mp_results cf 0 vs bs.
Proof.
  intros cf L vs bs H1 H2 H3. split; [exact (mp_stream_objects cf L vs bs H1 H2 H3) | exact (mp_stream_all cf L vs bs H1 H2 H3)].
Qed.
Print Assumptions C16_msgpack_successive_calls.

(* the premises are satisfiable: a concrete JSON Lines stream *)
Example C16_jsonl_example : json_stream default_cfg 10 5 0 (jsonl_bytes ex_lines) = jsonl_results 0 ex_lines.
Proof. vm_compute. reflexivity. Qed.

Example C16_example :   (* "1 2" : the first call stops after the space *)
  let o := json_run default_cfg None 10 [49; 32; 50] in
  j_err o = Ok /\ j_doc o = JInt 1 /\ reads (j_st o) = 2.
Proof. repeat split; vm_compute; reflexivity. Qed.
