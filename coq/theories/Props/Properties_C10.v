(* Properties_C10.v — C10: deserializeJson accepts exactly the documented dialect and classifies the rest. *)
From Coq Require Import NArith ZArith List Bool.
From AJ Require Import Model.Base Model.Value Model.Utf Model.NumParse Model.JsonParse.
From AJ Require Import Spec.Rfc8259 Spec.ParseSpec Proofs.Lex Proofs.ParseSafe Proofs.ParseComplete Proofs.ParseDepth Proofs.GenAgree.
From AJ Require Gen.Tables.
Local Open Scope N_scope.

(* RFC 8259 is inside the dialect: every such text within the limits is accepted with the value it denotes *)
Theorem C10_rfc8259_accepted : forall cf, decode_unicode cf = true ->
  forall d i v, jtextD (num_den cf) d i v -> forall L, (d <= L)%nat ->
  j_err (json_run cf None L i) = Ok /\ j_doc (json_run cf None L i) = v.
Proof. exact json_run_complete. Qed.
Print Assumptions C10_rfc8259_accepted.

(* "arbitrary bytes after a complete top-level value": a complete value followed by anything (for a number:
   by anything that is not a number character) is read as that value, independently of what follows *)
Theorem C10_bytes_after_value_ignored : forall cf, decode_unicode cf = true ->
  forall d t v, jvalueD (num_den cf) d t v ->
  forall L fuel s rest, (d <= L)%nat -> good s -> stream s = t ++ rest ->
    delimiter cf rest -> (length (t ++ rest) < fuel)%nat ->
    exists s', parse_variant cf fuel L None s = (Ok, v, s') /\ post s' rest /\ found s' = true.
Proof. exact parse_variant_complete. Qed.
Print Assumptions C10_bytes_after_value_ignored.

(* an input that ends before its top-level array, object or string is closed is NEVER accepted: when the result
   is Ok and is a container or a string, the end of input had not been met when the closing token was read —
   any bytes, any filter, any configuration *)
Theorem C10_unclosed_never_accepted : forall cf f L i,
  j_err (json_run cf f L i) = Ok -> is_container_or_string (j_doc (json_run cf f L i)) = true ->
  ended (j_st (json_run cf f L i)) = false.
Proof. exact json_run_unclosed_never_accepted. Qed.
Print Assumptions C10_unclosed_never_accepted.

(* every input is classified: the model never runs out of fuel, so the code is one of the six documented ones *)
Theorem C10_always_classified : forall cf f L i, j_err (json_run cf f L i) <> OutOfFuel.
Proof. exact json_run_total. Qed.
Print Assumptions C10_always_classified.

(* TooDeep only beyond the nesting limit: an accepted document never nests deeper than the limit *)
Theorem C10_ok_within_limit : forall cf f L i,
  j_err (json_run cf f L i) = Ok -> (nesting (j_doc (json_run cf f L i)) <= L)%nat.
Proof. exact json_run_ok_nesting. Qed.
Print Assumptions C10_ok_within_limit.

(* tie T: the character classes that delimit the dialect (number characters with and without NaN/Infinity
   support, unquoted-key characters, quotes, hex digits, escapes) are those of the current source *)
Theorem C10_source_agrees :
  (forall c, c < 256 -> b2n (can_be_in_number default_cfg c) = tab Gen.Tables.gen_can_be_in_number c) /\
  (forall c, c < 256 -> b2n (can_be_in_number nan_cfg c) = tab Gen.Tables.gen_can_be_in_number_nan c) /\
  (forall c, c < 256 -> b2n (can_be_in_non_quoted_string c) = tab Gen.Tables.gen_can_be_in_non_quoted_string c) /\
  (forall c, c < 256 -> b2n (is_quote c) = tab Gen.Tables.gen_is_quote c) /\
  (forall c, c < 256 -> decode_hex c = tab Gen.Tables.gen_decode_hex c) /\
  (forall c, c < 256 -> unescape_char c = tab Gen.Tables.gen_unescape_char c).
Proof.
  exact (conj can_be_in_number_gen (conj can_be_in_number_nan_gen (conj can_be_in_non_quoted_string_gen
        (conj is_quote_gen (conj decode_hex_gen unescape_char_gen))))).
Qed.
Print Assumptions C10_source_agrees.

(* classification examples: whitespace only, truncated value, wrong token, too deep *)
Example C10_classification :
  j_err (json_run default_cfg None 10 [32; 10; 9]) = EmptyInput /\
  j_err (json_run default_cfg None 10 [91; 49; 44]) = IncompleteInput /\
  j_err (json_run default_cfg None 10 [91; 49; 32; 50; 93]) = InvalidInput /\
  j_err (json_run default_cfg None 1 [91; 91; 93; 93]) = TooDeep /\
  j_err (json_run default_cfg None 10 [123; 107; 58; 39; 120; 39; 125; 120]) = Ok.
Proof. repeat split; vm_compute; reflexivity. Qed.
