(* Properties_C10.v — C10: deserializeJson accepts exactly the documented dialect and classifies the rest. *)
From Coq Require Import NArith ZArith List Bool.
From AJ Require Import Model.Base Model.Value Model.Utf Model.NumParse Model.JsonParse.
From AJ Require Import Spec.Rfc8259 Spec.ParseSpec Proofs.Lex Proofs.ParseSafe Proofs.ParseComplete Proofs.ParseDepth Proofs.GenAgree.
From AJ Require Gen.Tables.
From AJ Require Import Spec.Dialect Proofs.DialectSound.
From AJ Require Proofs.NoMemory.
Local Open Scope N_scope.

(* RFC 8259 is inside the dialect: every such text within the limits (nesting, 63-character numbers, strings and
   keys of at most 65535 decoded bytes) is accepted with the value it denotes *)
Theorem C10_rfc8259_accepted : forall cf, decode_unicode cf = true ->
  forall d i v, jtextD (num_den cf) d i v -> forall L, (d <= L)%nat ->
  j_err (json_run cf None L i) = Ok /\ j_doc (json_run cf None L i) = v.
Proof. exact json_run_complete. Qed.
Print Assumptions C10_rfc8259_accepted.

(* "arbitrary bytes after a complete top-level value": a complete value followed by anything (for a number:
   by anything that is not a number character) is read as that value, independently of what follows *)
Theorem C10_bytes_after_value_ignored : forall cf, decode_unicode cf = true ->
  forall d t v, jvalueD (num_den cf) d t v ->
  forall L fuel s rest, (d <= L)%nat -> good s -> stream s = t ++ rest ->
    delimiter cf rest -> (length (t ++ rest) < fuel)%nat ->
    exists s', parse_variant cf fuel L None s = (Ok, v, s') /\ post s' rest /\ found s' = true.
Proof. exact parse_variant_complete. Qed.
Print Assumptions C10_bytes_after_value_ignored.

(* an input that ends before its top-level array, object or string is closed is NEVER accepted: when the result
   is Ok and is a container or a string, the end of input had not been met when the closing token was read —
   any bytes, any filter, any configuration *)
Theorem C10_unclosed_never_accepted : forall cf f L i,
  j_err (json_run cf f L i) = Ok -> is_container_or_string (j_doc (json_run cf f L i)) = true ->
  ended (j_st (json_run cf f L i)) = false.
Proof. exact json_run_unclosed_never_accepted. Qed.
Print Assumptions C10_unclosed_never_accepted.

(* every input is classified: the model never runs out of fuel, so the code is one of the six documented ones *)
Theorem C10_always_classified : forall cf f L i, j_err (json_run cf f L i) <> OutOfFuel.
Proof. exact json_run_total. Qed.
Print Assumptions C10_always_classified.

(* TooDeep only beyond the nesting limit: an accepted document never nests deeper than the limit *)
Theorem C10_ok_within_limit : forall cf f L i,
  j_err (json_run cf f L i) = Ok -> (nesting (j_doc (json_run cf f L i)) <= L)%nat.
Proof. exact json_run_ok_nesting. Qed.
Print Assumptions C10_ok_within_limit.

(* tie T: the character classes that delimit the dialect (number characters with and without NaN/Infinity
   support, unquoted-key characters, quotes, hex digits, escapes) are those of the current source *)
Theorem C10_source_agrees :
  (forall c, c < 256 -> b2n (can_be_in_number default_cfg c) = tab Gen.Tables.gen_can_be_in_number c) /\
  (forall c, c < 256 -> b2n (can_be_in_number nan_cfg c) = tab Gen.Tables.gen_can_be_in_number_nan c) /\
  (forall c, c < 256 -> b2n (can_be_in_non_quoted_string c) = tab Gen.Tables.gen_can_be_in_non_quoted_string c) /\
  (forall c, c < 256 -> b2n (is_quote c) = tab Gen.Tables.gen_is_quote c) /\
  (forall c, c < 256 -> decode_hex c = tab Gen.Tables.gen_decode_hex c) /\
  (forall c, c < 256 -> unescape_char c = tab Gen.Tables.gen_unescape_char c).
Proof.
  exact (conj can_be_in_number_gen (conj can_be_in_number_nan_gen (conj can_be_in_non_quoted_string_gen
        (conj is_quote_gen (conj decode_hex_gen unescape_char_gen))))).
Qed.
Print Assumptions C10_source_agrees.

(* classification examples: whitespace only, truncated value, wrong token, too deep *)
(* ---- exactly the dialect.  Spec/Dialect.v defines the dialect as relations between a text and its value, independently
   of the parser: RFC 8259 plus comments (only when enabled), single-quoted strings, unquoted keys, lenient numbers (a
   token of at most 63 number characters that parseNumber accepts; NaN / Infinity spellings only when enabled), no
   trailing commas, every container and string closed, every string and key of at most 65535 decoded bytes
   (StringNode::maxLength).  For every input made of bytes, every configuration and limit:
   deserializeJson returns Ok with document v  IF AND ONLY IF  the input is insignificant bytes, then a text of the
   dialect denoting v nested at most L deep, then anything (after a number: end of input, NUL or whitespace). ---- *)
Theorem C10_accepts_exactly_the_dialect : forall cf L i v, bytes256 i ->
  (j_err (json_run cf None L i) = Ok /\ j_doc (json_run cf None L i) = v) <->
  (exists w t rest d, i = w ++ t ++ rest /\ dws cf w /\ (d <= L)%nat /\ dvalue cf d t v /\
                      dtrailing v rest).
Proof. exact dialect_exact. Qed.
Print Assumptions C10_accepts_exactly_the_dialect.

(* the two directions separately *)
Theorem C10_dialect_sound : forall cf L i o,
  bytes256 i -> o = json_run cf None L i -> j_err o = Ok ->
  exists w t rest, i = w ++ t ++ rest /\ dws cf w /\
    (exists d, (d <= L)%nat /\ dvalue cf d t (j_doc o)) /\ dtrailing (j_doc o) rest.
Proof. exact dialect_sound. Qed.
Print Assumptions C10_dialect_sound.

Theorem C10_dialect_complete : forall cf L w t v rest d,
  dws cf w -> dvalue cf d t v -> (d <= L)%nat -> dtrailing v rest ->
  j_err (json_run cf None L (w ++ t ++ rest)) = Ok /\ j_doc (json_run cf None L (w ++ t ++ rest)) = v.
Proof. exact dialect_complete. Qed.
Print Assumptions C10_dialect_complete.

(* the string limit: a string of the dialect (either quote, any escape spelling, any configuration) that denotes
   65536 bytes or more is read up to and including its closing quote, then refused with NoMemory *)
Theorem C10_long_string_is_NoMemory : forall cf q body str, (q = 34 \/ q = 39) ->
  dchars cf q 0 body str -> 65536 <= N.of_nat (length str) ->
  forall L w rest, dws cf w ->
    let o := json_run cf None L (w ++ ([q] ++ body ++ [q]) ++ rest) in
    j_err o = NoMemory /\ j_doc o = JNull /\
    reads (j_st o) = N.of_nat (length (w ++ [q] ++ body ++ [q])) /\ stream (j_st o) = rest.
Proof. exact NoMemory.json_run_long_string. Qed.
Print Assumptions C10_long_string_is_NoMemory.

(* comments only when enabled: without the option the insignificant bytes are whitespace only *)
Theorem C10_comments_only_when_enabled : forall cf L i,
  enable_comments cf = false -> bytes256 i -> j_err (json_run cf None L i) = Ok ->
  exists w t rest, i = w ++ t ++ rest /\ Forall (fun c => is_space c = true) w /\
    exists d, (d <= L)%nat /\ dvalue cf d t (j_doc (json_run cf None L i)).
Proof. exact comments_only_when_enabled_run. Qed.
Print Assumptions C10_comments_only_when_enabled.

(* NaN only when enabled (a NaN value can only come from the NaN spelling: the arithmetic of parseNumber never
   produces one); the NaN / Infinity SPELLINGS only when enabled (an exponent overflow like 1e999 still gives +inf) *)
Theorem C10_nan_only_when_enabled : forall cf t v,
  enable_nan cf = false -> dnumber cf t v -> jv_is_nan v = false.
Proof. exact nan_only_when_enabled. Qed.
Print Assumptions C10_nan_only_when_enabled.

Theorem C10_nan_inf_spelling_only_when_enabled : forall cf t v,
  enable_nan cf = false -> enable_inf cf = false -> dnumber cf t v ->
  (NumParse.is_digit (hd0 (strip_sign t)) = true \/ hd0 (strip_sign t) = 46) /\
  Forall (fun c => is_between c 48 57 = true \/ c = 43 \/ c = 45 \/ c = 46 \/ c = 101 \/ c = 69) t.
Proof. exact nan_inf_spelling_only_when_enabled. Qed.
Print Assumptions C10_nan_inf_spelling_only_when_enabled.

(* RFC 8259 is inside the dialect *)
Theorem C10_rfc_inside_dialect : forall cf, decode_unicode cf = true ->
  forall d t v, jvalueD (num_den cf) d t v -> dvalue cf d t v.
Proof. exact rfc_inside_dialect. Qed.
Print Assumptions C10_rfc_inside_dialect.

(* whatever is accepted as an array, an object or a string is closed by its bracket / by the quote that opened it *)
Theorem C10_accepted_is_closed : forall cf L i,
  bytes256 i -> j_err (json_run cf None L i) = Ok ->
  exists w t rest, i = w ++ t ++ rest /\ dws cf w /\
    match j_doc (json_run cf None L i) with
    | JArr _ => exists body, t = [91] ++ body ++ [93]
    | JObj _ => exists body, t = [123] ++ body ++ [125]
    | JStr _ => exists q body, (q = 34 \/ q = 39) /\ t = [q] ++ body ++ [q]
    | _ => True
    end.
Proof. exact accepted_is_closed. Qed.
Print Assumptions C10_accepted_is_closed.

(* the byte hypothesis is needed (inputs are lists of N in the model): checked refutation *)
Theorem C10_soundness_needs_bytes :
  ~ (forall cf L i o, o = json_run cf None L i -> j_err o = Ok ->
       exists w t rest, i = w ++ t ++ rest /\ dws cf w /\
         (exists d, (d <= L)%nat /\ dvalue cf d t (j_doc o)) /\ dtrailing (j_doc o) rest).
Proof. exact dialect_sound_needs_bytes. Qed.
Print Assumptions C10_soundness_needs_bytes.

Example C10_no_trailing_comma :
  j_err (json_run default_cfg None 10 [91; 49; 44; 93]) = InvalidInput /\
  j_err (json_run default_cfg None 10 [123; 34; 97; 34; 58; 49; 44; 125]) = InvalidInput /\
  j_err (json_run default_cfg None 10 [91; 49; 44]) = IncompleteInput /\
  j_err (json_run default_cfg None 10 [34; 97]) = IncompleteInput.
Proof. exact trailing_comma_rejected. Qed.

Example C10_classification :
  j_err (json_run default_cfg None 10 [32; 10; 9]) = EmptyInput /\
  j_err (json_run default_cfg None 10 [91; 49; 44]) = IncompleteInput /\
  j_err (json_run default_cfg None 10 [91; 49; 32; 50; 93]) = InvalidInput /\
  j_err (json_run default_cfg None 1 [91; 91; 93; 93]) = TooDeep /\
  j_err (json_run default_cfg None 10 [123; 107; 58; 39; 120; 39; 125; 120]) = Ok.
Proof. repeat split; vm_compute; reflexivity. Qed.
