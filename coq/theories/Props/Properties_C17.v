(* Properties_C17.v — C17: Unicode escapes decode correctly for every code point; escaping is
   the inverse.  Only statements, each closed by `exact`, with Print Assumptions beneath. *)
From Coq Require Import NArith List Bool.
From AJ Require Import Model.Base Model.Value Model.Utf Model.JsonParse.
From AJ Require Import Spec.Utf8Spec Proofs.Sweep Proofs.GenAgree Proofs.UtfProofs Proofs.Lex Proofs.StringRT.
From AJ Require Gen.Tables.
Local Open Scope N_scope.

(* every one of the 1 114 112 code points is encoded as UTF-8 *)
Theorem C17_utf8_all : forall cp, cp < 0x110000 -> encode_codepoint cp = utf8_encode cp.
Proof. exact encode_codepoint_correct. Qed.
Print Assumptions C17_utf8_all.

(* \uXXXX of a BMP scalar, any hex-digit case, at any position (any accumulated prefix [acc],
   any continuation [t]): exactly the UTF-8 bytes of that scalar are appended *)
Theorem C17_bmp : forall cf fuel cp acc s d1 d2 d3 d4 v1 v2 v3 v4 t,
  decode_unicode cf = true ->
  good s -> stream s = 92 :: 117 :: d1 :: d2 :: d3 :: d4 :: t ->
  d1 < 256 -> d2 < 256 -> d3 < 256 -> d4 < 256 ->
  hex_value d1 = Some v1 -> hex_value d2 = Some v2 -> hex_value d3 = Some v3 -> hex_value d4 = Some v4 ->
  let u := hex4_value v1 v2 v3 v4 in
  is_surrogate u = false ->
  exists s' cp', good s' /\ stream s' = t /\ cur s' = None /\ found s' = found s /\
    quoted_loop cf (S fuel) 34 cp acc s = quoted_loop cf fuel 34 cp' (acc ++ utf8_encode u) s'.
Proof. exact quoted_step_bmp. Qed.
Print Assumptions C17_bmp.

(* every high/low surrogate pair (1024 x 1024), any hex-digit case, any position *)
Theorem C17_pairs : forall cf fuel cp acc s
    d1 d2 d3 d4 v1 v2 v3 v4 e1 e2 e3 e4 w1 w2 w3 w4 t,
  decode_unicode cf = true ->
  good s ->
  stream s = 92 :: 117 :: d1 :: d2 :: d3 :: d4 :: 92 :: 117 :: e1 :: e2 :: e3 :: e4 :: t ->
  d1 < 256 -> d2 < 256 -> d3 < 256 -> d4 < 256 -> e1 < 256 -> e2 < 256 -> e3 < 256 -> e4 < 256 ->
  hex_value d1 = Some v1 -> hex_value d2 = Some v2 -> hex_value d3 = Some v3 -> hex_value d4 = Some v4 ->
  hex_value e1 = Some w1 -> hex_value e2 = Some w2 -> hex_value e3 = Some w3 -> hex_value e4 = Some w4 ->
  let h := hex4_value v1 v2 v3 v4 in
  let l := hex4_value w1 w2 w3 w4 in
  0xD800 <= h < 0xDC00 -> 0xDC00 <= l < 0xE000 ->
  exists s' cp', good s' /\ stream s' = t /\ cur s' = None /\ found s' = found s /\
    quoted_loop cf (S (S fuel)) 34 cp acc s =
      quoted_loop cf fuel 34 cp' (acc ++ utf8_encode (pair_codepoint h l)) s'.
Proof. exact quoted_step_pair. Qed.
Print Assumptions C17_pairs.

(* serializeJson's string writer followed by deserializeJson's string reader is the identity on
   EVERY byte string that fits a StringNode (at most 65535 bytes; so in particular on all 256
   bytes and all 65 536 pairs) *)
Theorem C17_roundtrip : forall cf str tail fuel s,
  decode_unicode cf = true ->
  Forall (fun b => b < 256) str ->
  N.of_nat (length str) <= 65535 ->
  good s -> stream s = write_string str ++ tail ->
  (length str < fuel)%nat ->
  exists s', parse_quoted_string cf fuel s = (Ok, str, s') /\
             good s' /\ stream s' = tail /\ cur s' = None /\ found s' = found s.
Proof. exact write_then_parse_string. Qed.
Print Assumptions C17_roundtrip.

(* the bound is needed: a longer string is read to its closing quote and refused with NoMemory *)
Theorem C17_roundtrip_too_long : forall cf str tail fuel s,
  decode_unicode cf = true ->
  Forall (fun b => b < 256) str ->
  65535 < N.of_nat (length str) ->
  good s -> stream s = write_string str ++ tail ->
  (length str < fuel)%nat ->
  exists s', parse_quoted_string cf fuel s = (NoMemory, [], s') /\
             good s' /\ stream s' = tail /\ cur s' = None /\ found s' = found s.
Proof. exact write_then_parse_long_string. Qed.
Print Assumptions C17_roundtrip_too_long.

(* the writer changes no byte other than the quote, the backslash, \b \f \n \r \t and NUL *)
Theorem C17_only_named : forall c, c < 256 -> named c = false -> write_char c = [c].
Proof. exact write_char_verbatim. Qed.
Print Assumptions C17_only_named.

(* tie T: the model's leaf functions are the ones the current source computes (tables
   regenerated from /repo on this run, complete domains) *)
Theorem C17_source_agrees :
  (forall u, u < 65536 -> is_high_surrogate u = in_edges u Gen.Tables.gen_is_high_surrogate_edges) /\
  (forall u, u < 65536 -> is_low_surrogate u = in_edges u Gen.Tables.gen_is_low_surrogate_edges) /\
  (forall c, c < 256 -> decode_hex c = tab Gen.Tables.gen_decode_hex c) /\
  (forall c, c < 256 -> escape_char c = tab Gen.Tables.gen_escape_char c) /\
  (forall c, c < 256 -> unescape_char c = tab Gen.Tables.gen_unescape_char c) /\
  (forall c, c < 256 -> write_char c = nth (N.to_nat c) Gen.Tables.gen_write_char []).
Proof.
  exact (conj is_high_surrogate_gen (conj is_low_surrogate_gen (conj decode_hex_gen
        (conj escape_char_gen (conj unescape_char_gen write_char_gen))))).
Qed.
Print Assumptions C17_source_agrees.

(* non-vacuity: the hypotheses are met by a concrete reader state and the conclusion computes *)
Example C17_roundtrip_example :
  let str := [0; 34; 92; 10; 200; 255; 65] in
  let s := ps_init (write_string str ++ [44]) in
  good s /\ stream s = write_string str ++ [44] /\
  fst (parse_quoted_string default_cfg 20 s) = (Ok, str).
Proof. split; [apply good_init|]. split; vm_compute; reflexivity. Qed.

Example C17_pair_example :   (* "😀" -> F0 9F 98 80 *)
  fst (parse_quoted_string default_cfg 20
         (ps_init [34; 92; 117; 68; 56; 51; 68; 92; 117; 100; 101; 48; 48; 34]))
  = (Ok, [0xF0; 0x9F; 0x98; 0x80]).
Proof. vm_compute. reflexivity. Qed.
