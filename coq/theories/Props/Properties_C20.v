(* Properties_C20.v — C20: distinct documents can be used from distinct threads without synchronisation. *)
From Coq Require Import NArith List Bool String.
From AJ Require Import Model.Base Model.Value Model.Tree Model.Conc Proofs.ConcProofs.
From AJ Require Gen.Globals.

(* the library keeps no mutable state outside the documents, their allocators and the caller's buffers:
   the inventory of every object with static storage duration — regenerated on this run from the symbol tables
   of object files that instantiate the library broadly and from the source text — contains nothing writable
   except the stateless allocator singletons and the (never written) table of error messages.
   Adding a function-level static buffer, a cache or a namespace-scope variable breaks this obligation and the
   offending entry is the replay. *)
Theorem C20_no_hidden_state : no_hidden_state Gen.Globals.gen_inventory = true.
Proof. vm_compute. reflexivity. Qed.
Print Assumptions C20_no_hidden_state.

(* operations of different threads act on different worlds (their own documents) and only read the shared
   document: every interleaving gives each thread the final state and the results it gets when run alone *)
Theorem C20_interleaving_invisible : forall shared sch s t w,
  nth_error s t = Some w ->
  let '(s', rs) := run_schedule shared s sch in
  let '(w', rt) := run_thread shared w (project_thread t sch) in
  nth_error s' t = Some w' /\ results_of t rs = rt.
Proof. exact interleaving_invisible_thread. Qed.
Print Assumptions C20_interleaving_invisible.

Theorem C20_any_two_interleavings_agree : forall shared sch1 sch2 s t w,
  nth_error s t = Some w -> project_thread t sch1 = project_thread t sch2 ->
  nth_error (fst (run_schedule shared s sch1)) t = nth_error (fst (run_schedule shared s sch2)) t /\
  results_of t (snd (run_schedule shared s sch1)) = results_of t (snd (run_schedule shared s sch2)).
Proof. exact any_two_interleavings_agree. Qed.
Print Assumptions C20_any_two_interleavings_agree.

Example C20_example :
  let s := [init_world 1; init_world 1] in
  let sch1 := [(0, COwn (OSet 0 (SInt 1))); (1, CCopyShared 0); (0, COwn (OAddVal 0 SNull))]%nat in
  let sch2 := [(1, CCopyShared 0); (0, COwn (OSet 0 (SInt 1))); (0, COwn (OAddVal 0 SNull))]%nat in
  map (fun w => map to_jv (docs w)) (fst (run_schedule (JArr [JBool true]) s sch1)) =
  map (fun w => map to_jv (docs w)) (fst (run_schedule (JArr [JBool true]) s sch2)).
Proof. vm_compute. reflexivity. Qed.
