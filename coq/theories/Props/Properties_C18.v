(* Properties_C18.v — C18: comparison operators form one coherent relation that agrees with the values. *)
From Coq Require Import NArith ZArith List Bool Sorting.Permutation.
From Coq Require Import Floats.SpecFloat.
From AJ Require Import Model.Base Model.FloatModel Model.Value Model.Compare Proofs.CompareProofs Proofs.CompareMore Proofs.CompareRefl.

(* wf v: no object of v (at any depth) repeats a key.  Objects with a repeated key exist only after
   deserializeMsgPack; for them == is NOT symmetric in the code — a recorded known finding, see
   C18_symmetry_needs_distinct_keys below. *)

Theorem C18_ne_is_not_eq : forall a b, op_ne a b = negb (op_eq a b).
Proof. exact ne_is_not_eq. Qed.
Print Assumptions C18_ne_is_not_eq.

Theorem C18_le_is_lt_or_eq : forall a b, op_le a b = op_lt a b || op_eq a b.
Proof. exact le_is_lt_or_eq. Qed.
Print Assumptions C18_le_is_lt_or_eq.

Theorem C18_ge_is_gt_or_eq : forall a b, op_ge a b = op_gt a b || op_eq a b.
Proof. exact ge_is_gt_or_eq. Qed.
Print Assumptions C18_ge_is_gt_or_eq.

Theorem C18_at_most_one : forall a b,
  (op_lt a b && op_eq a b = false) /\ (op_lt a b && op_gt a b = false) /\ (op_eq a b && op_gt a b = false).
Proof. exact at_most_one. Qed.
Print Assumptions C18_at_most_one.

Theorem C18_eq_symmetric : forall a b, wf a -> wf b -> op_eq a b = op_eq b a.
Proof. exact eq_symmetric. Qed.
Print Assumptions C18_eq_symmetric.

Theorem C18_lt_is_gt_swapped : forall a b, wf a -> wf b -> op_lt a b = op_gt b a.
Proof. exact lt_is_gt_swapped. Qed.
Print Assumptions C18_lt_is_gt_swapped.

(* by value *)
Theorem C18_integers_exact : forall x y,
  op_eq (JInt x) (JInt y) = Z.eqb x y /\ op_lt (JInt x) (JInt y) = Z.ltb x y.
Proof. exact int_by_value. Qed.
Print Assumptions C18_integers_exact.

Theorem C18_strings_by_bytes : forall s t,
  Forall (fun b => (b < 256)%N) s -> Forall (fun b => (b < 256)%N) t ->
  op_eq (JStr s) (JStr t) = bytes_eqb s t.
Proof. exact str_eq_by_bytes. Qed.
Print Assumptions C18_strings_by_bytes.

Theorem C18_raw_by_bytes : forall s t, op_eq (JRaw s) (JRaw t) = bytes_eqb s t.
Proof. exact raw_eq_by_bytes. Qed.
Print Assumptions C18_raw_by_bytes.

Theorem C18_null_equals_only_null : forall v, op_eq JNull v = match v with JNull => true | _ => false end.
Proof. exact null_only_null. Qed.
Print Assumptions C18_null_equals_only_null.

Theorem C18_nan_equals_nothing : forall v,
  op_eq (JDouble S754_nan) v = false /\ op_eq v (JDouble S754_nan) = false.
Proof. exact nan_equals_nothing. Qed.
Print Assumptions C18_nan_equals_nothing.

(* all six operators on two integers are the order of Z *)
Theorem C18_integers_all_six_operators : forall x y,
  op_eq (JInt x) (JInt y) = Z.eqb x y /\ op_ne (JInt x) (JInt y) = negb (Z.eqb x y) /\
  op_lt (JInt x) (JInt y) = Z.ltb x y /\ op_gt (JInt x) (JInt y) = Z.ltb y x /\
  op_le (JInt x) (JInt y) = Z.leb x y /\ op_ge (JInt x) (JInt y) = Z.leb y x.
Proof. exact int_all_six. Qed.
Print Assumptions C18_integers_all_six_operators.

(* arrays compare element by element, at any depth and whatever the keys of nested objects: a == b iff the
   lengths agree and b[i] == a[i] for every i (all2 is Proofs/CompareMore.v's pairwise conjunction, false
   when the lengths differ); with the operands in the same order when no object repeats a key *)
Theorem C18_arrays_elementwise : forall la lb,
  op_eq (JArr la) (JArr lb) = all2 op_eq lb la.
Proof. exact arrays_elementwise. Qed.
Print Assumptions C18_arrays_elementwise.

Theorem C18_arrays_elementwise_wf : forall la lb, wf (JArr la) -> wf (JArr lb) ->
  op_eq (JArr la) (JArr lb) = all2 op_eq la lb.
Proof. exact arrays_elementwise_wf. Qed.
Print Assumptions C18_arrays_elementwise_wf.

Theorem C18_equal_arrays_same_length : forall la lb,
  op_eq (JArr la) (JArr lb) = true -> length la = length lb.
Proof. exact equal_arrays_same_length. Qed.
Print Assumptions C18_equal_arrays_same_length.

(* a container equals nothing of another kind, on either side *)
Theorem C18_array_equals_only_arrays : forall l v,
  (forall l', v <> JArr l') -> op_eq (JArr l) v = false /\ op_eq v (JArr l) = false.
Proof. exact array_equals_only_arrays. Qed.
Print Assumptions C18_array_equals_only_arrays.

Theorem C18_object_equals_only_objects : forall l v,
  (forall l', v <> JObj l') -> op_eq (JObj l) v = false /\ op_eq v (JObj l) = false.
Proof. exact object_equals_only_objects. Qed.
Print Assumptions C18_object_equals_only_objects.

(* strings are ordered by stringCompare (signed bytes, then length), consistently for the four order operators *)
Theorem C18_strings_ordered_by_stringCompare : forall s t,
  op_lt (JStr s) (JStr t) = (string_compare s t <? 0)%Z /\
  op_gt (JStr s) (JStr t) = (0 <? string_compare s t)%Z /\
  op_le (JStr s) (JStr t) = (string_compare s t <=? 0)%Z /\
  op_ge (JStr s) (JStr t) = (0 <=? string_compare s t)%Z.
Proof. exact str_order. Qed.
Print Assumptions C18_strings_ordered_by_stringCompare.

Theorem C18_string_equals_only_strings : forall s v,
  (forall t, v <> JStr t) -> op_eq (JStr s) v = false /\ op_eq v (JStr s) = false.
Proof. exact string_equals_only_strings. Qed.
Print Assumptions C18_string_equals_only_strings.

Theorem C18_raw_equals_only_raw : forall s v,
  (forall t, v <> JRaw t) -> op_eq (JRaw s) v = false /\ op_eq v (JRaw s) = false.
Proof. exact raw_equals_only_raw. Qed.
Print Assumptions C18_raw_equals_only_raw.

(* all six operators on two doubles are the IEEE comparisons; an integer against a double is compared as doubles *)
Theorem C18_doubles_all_six_operators : forall x y,
  op_eq (JDouble x) (JDouble y) = f_eq x y /\ op_ne (JDouble x) (JDouble y) = f_ne x y /\
  op_lt (JDouble x) (JDouble y) = f_lt x y /\ op_gt (JDouble x) (JDouble y) = f_gt x y /\
  op_le (JDouble x) (JDouble y) = f_le x y /\ op_ge (JDouble x) (JDouble y) = f_ge x y.
Proof. exact double_all_six. Qed.
Print Assumptions C18_doubles_all_six_operators.

Theorem C18_integer_vs_double_as_doubles : forall z d,
  op_eq (JInt z) (JDouble d) = f_eq (f_of_Z F64 z) d /\
  op_lt (JInt z) (JDouble d) = f_lt (f_of_Z F64 z) d /\
  op_gt (JInt z) (JDouble d) = f_gt (f_of_Z F64 z) d.
Proof. exact int_vs_double. Qed.
Print Assumptions C18_integer_vs_double_as_doubles.

(* objects compare member-wise regardless of order: a == b iff the member counts agree and every member of a
   has an equal value under its key in b (members_match, Proofs/CompareMore.v; no hypothesis on keys); the
   order of the members of either operand is irrelevant (for the right one: keys not repeated) *)
Theorem C18_objects_memberwise : forall la lb,
  op_eq (JObj la) (JObj lb) = members_match la lb.
Proof. exact objects_memberwise. Qed.
Print Assumptions C18_objects_memberwise.

Theorem C18_objects_order_of_left_irrelevant : forall la la' lb,
  Permutation la la' -> op_eq (JObj la) (JObj lb) = op_eq (JObj la') (JObj lb).
Proof. exact objects_order_of_left_irrelevant. Qed.
Print Assumptions C18_objects_order_of_left_irrelevant.

Theorem C18_objects_order_of_right_irrelevant : forall la lb lb',
  NoDup (map fst lb) -> Permutation lb lb' -> op_eq (JObj la) (JObj lb) = op_eq (JObj la) (JObj lb').
Proof. exact objects_order_of_right_irrelevant. Qed.
Print Assumptions C18_objects_order_of_right_irrelevant.

(* v == v for every value without floating-point leaves whose objects do not repeat a key; both hypotheses
   are needed (a NaN leaf, a repeated key).  The model's operands are the contents of two stored values: when
   both operands are the very same stored array the library answers true by its same-pointer shortcut
   (JsonArrayConst::operator==), which differs from the element-wise answer only with a NaN leaf or a repeated
   key inside -- a case the property does not constrain; the correspondence run compares every left operand with itself and
   requires the coherence laws of the answers, whatever == says there. *)
Theorem C18_eq_reflexive : forall v, wf v -> float_free v -> op_eq v v = true.
Proof. exact eq_reflexive. Qed.
Print Assumptions C18_eq_reflexive.

Theorem C18_reflexivity_needs_both :
  op_eq (JObj [([107%N], JInt 1); ([107%N], JInt 2)]) (JObj [([107%N], JInt 1); ([107%N], JInt 2)]) = false /\
  op_eq (JArr [JDouble S754_nan]) (JArr [JDouble S754_nan]) = false.
Proof. split; [exact eq_not_reflexive_dup | exact eq_not_reflexive_nan]. Qed.
Print Assumptions C18_reflexivity_needs_both.

(* whatever the storage: a stored float against a double, and two stored floats, are compared as doubles after
   (exact) widening; booleans by value *)
Theorem C18_float_vs_double_as_doubles : forall x y,
  op_eq (JFloat x) (JDouble y) = f_eq (fconv F64 x) y /\
  op_lt (JFloat x) (JDouble y) = f_lt (fconv F64 x) y /\
  op_gt (JFloat x) (JDouble y) = f_gt (fconv F64 x) y.
Proof. exact float_vs_double. Qed.
Print Assumptions C18_float_vs_double_as_doubles.

Theorem C18_floats_as_doubles : forall x y,
  op_eq (JFloat x) (JFloat y) = f_eq (fconv F64 x) (fconv F64 y) /\
  op_lt (JFloat x) (JFloat y) = f_lt (fconv F64 x) (fconv F64 y) /\
  op_gt (JFloat x) (JFloat y) = f_gt (fconv F64 x) (fconv F64 y).
Proof. exact float_vs_float. Qed.
Print Assumptions C18_floats_as_doubles.

Theorem C18_booleans_by_value : forall a b, op_eq (JBool a) (JBool b) = Bool.eqb a b.
Proof. exact bool_eq_by_value. Qed.
Print Assumptions C18_booleans_by_value.

(* not asked by the property, worth knowing (replayed on the library: 1 1 0): == is not transitive across storages *)
Theorem C18_equality_is_not_transitive :
  let a := JInt (2^53 + 1) in let b := JDouble (f_of_Z F64 (2^53)) in let c := JInt (2^53) in
  op_eq a b = true /\ op_eq b c = true /\ op_eq a c = false.
Proof. exact eq_not_transitive. Qed.
Print Assumptions C18_equality_is_not_transitive.

(* the full statement (without wf) is FALSE of the faithful model, with this witness — the known finding *)
Theorem C18_symmetry_needs_distinct_keys :
  exists a b, op_eq a b <> op_eq b a.
Proof.
  exists (JObj [([107%N], JInt 1); ([107%N], JInt 2)]), (JObj [([107%N], JInt 1); ([107%N], JInt 1)]).
  vm_compute. discriminate.
Qed.
Print Assumptions C18_symmetry_needs_distinct_keys.

Example C18_wf_example : wf (JObj [([97%N], JArr [JInt 1; JDouble S754_nan]); ([98%N], JStr [])]).
Proof. apply wf_obj_iff. split. { repeat constructor; simpl; intuition congruence. } repeat constructor. Qed.
