(* Properties_C03.v — C03: deserializers are memory-safe, input-bounded and source-independent on any
   bytes (JSON reader, then the MessagePack reader). *)
From Coq Require Import NArith ZArith List Bool Lia.
From AJ Require Import Model.Base Model.Value Model.JsonParse.
From AJ Require Import Model.MsgPack.
From AJ Require Gen.Config.
From AJ Require Import Spec.ParseSpec Proofs.Lex Proofs.ParseSafe Proofs.MsgPackComplete.
Local Open Scope N_scope.

(* terminates: the fuel json_run gives to every loop is never exhausted — for ANY bytes, filter, limit, config *)
Theorem C03_terminates : forall cf f L i, j_err (json_run cf f L i) <> OutOfFuel.
Proof. exact json_run_total. Qed.
Print Assumptions C03_terminates.

(* never reads a byte outside the input: no load after the end marker (NUL or end of data) was met — this is
   exactly what ARDUINOJSON_ASSERT(!ended_) guards and what keeps a zero-terminated input from being over-read *)
Theorem C03_no_read_after_end : forall cf f L i, fault (j_st (json_run cf f L i)) = false.
Proof. exact json_run_no_fault. Qed.
Print Assumptions C03_no_read_after_end.

(* ... and never more bytes than it was given *)
Theorem C03_reads_bounded : forall cf f L i, reads (j_st (json_run cf f L i)) <= N.of_nat (length i).
Proof. exact json_run_reads_bounded. Qed.
Print Assumptions C03_reads_bounded.

(* accounting invariant behind it: bytes handed out + bytes still held never changes, at any depth *)
Theorem C03_budget_preserved : forall cf fuel L f s e v s',
  parse_variant cf fuel L f s = (e, v, s') -> budget s' = budget s.
Proof. exact parse_variant_budget. Qed.
Print Assumptions C03_budget_preserved.

(* the general form of the no-over-read statement, for a reader in any live state (also mid-stream) *)
Theorem C03_no_fault_any_state : forall cf fuel L f s e v s',
  alive s -> parse_variant cf fuel L f s = (e, v, s') -> fault s' = false /\ (e = Ok -> alive s').
Proof. exact parse_variant_no_fault. Qed.
Print Assumptions C03_no_fault_any_state.

(* Source independence: json_run is a function of the byte list alone (the model has no other input); each of
   the 13 input kinds is tied to it by the correspondence run.  The result is always a well-formed tree because
   `jv` is one by construction (every object entry has a key and a value). *)

(* MessagePack reader, ANY bytes, filter, limit, configuration and outcome: what it has read is a prefix of the
   input — it never reads past the end, never re-reads, and the count it reports is the length of that prefix
   (the model has no fuel: mp_parse is structurally recursive, hence terminating, by construction) *)
Theorem C03_msgpack_reads_a_prefix : forall cf f L i,
  let o := mp_run cf f L i in
  exists consumed, i = consumed ++ m_rest (mp_rd o) /\ m_reads (mp_rd o) = N.of_nat (length consumed).
Proof. exact mp_run_reads_bounded. Qed.
Print Assumptions C03_msgpack_reads_a_prefix.

Theorem C03_msgpack_reads_a_prefix_any_state : forall cf L f dst r e v r', mp_parse cf L f dst r = (e, v, r') ->
  m_reads r' = (m_reads r + N.of_nat (length (m_rest r) - length (m_rest r')))%N /\
  (length (m_rest r') <= length (m_rest r))%nat /\
  exists consumed, m_rest r = consumed ++ m_rest r'.
Proof. exact mp_reads_bounded. Qed.
Print Assumptions C03_msgpack_reads_a_prefix_any_state.

(* tie T: the bound of the number-token copy loop read from the source text is the model's 63, and the token plus its
   terminator fits the buffer declared in the source (sizeof buffer_) *)
Theorem C03_number_token_fits_its_buffer :
  Gen.Config.gen_number_token_limit = 63%Z /\
  (Gen.Config.gen_number_token_limit + 1 <= Gen.Config.gen_number_buffer_size)%Z /\
  (forall cf s, (length (fst (scan_number cf 63 [] s)) <= 63)%nat).
Proof.
  split; [reflexivity|]. split; [vm_compute; discriminate|].
  intros cf s.
  assert (H : forall n acc s0, (length (fst (scan_number cf n acc s0)) <= n + length acc)%nat).
  { induction n as [|n IH]; intros acc s0; cbn [scan_number].
    - cbn [fst]. apply Nat.le_refl.
    - destruct (current s0) as [c s1]. destruct (can_be_in_number cf c).
      + pose proof (IH (acc ++ [c]) (move s1)) as H1. rewrite app_length in H1. cbn [length] in H1. lia.
      + cbn [fst]. lia. }
  specialize (H 63%nat [] s). cbn [length] in H. lia.
Qed.
Print Assumptions C03_number_token_fits_its_buffer.

Example C03_example :   (* truncated input ending inside a \u escape: classified, no fault, reads = length *)
  let o := json_run default_cfg None 10 [91; 34; 92; 117; 48; 48] in
  j_err o = IncompleteInput /\ fault (j_st o) = false /\ reads (j_st o) = 6.
Proof. repeat split; vm_compute; reflexivity. Qed.
