(* Properties_C09.v — C09: well-formed MessagePack decodes to the value it encodes; malformed is classified.
   First for the canonical (narrowest) encodings, i.e. those serializeMsgPack itself produces (Proofs/MsgPackRT), then
   for EVERY legal encoding of the format — every width of every family — against the wire format written as a
   relation from the MessagePack specification (Spec/MsgPackSpec.v, Proofs/MsgPackComplete.v). *)
From Coq Require Import NArith ZArith List Bool.
From Coq Require Import Floats.SpecFloat.
From AJ Require Import Model.Base Model.FloatModel Model.Value Model.JsonParse Model.MsgPack.
From AJ Require Import Proofs.MsgPackRT Spec.MsgPackSpec Proofs.MsgPackComplete.
From AJ Require Import Model.MsgPackTypes Proofs.MsgPackTypesProofs.
Local Open Scope Z_scope.

Theorem C09_decodes_canonical : forall cf v L rest, mp_ok v -> (nesting v <= L)%nat ->
  mp_run cf None L (mp_ser v ++ rest) =
    {| mp_err := Ok; mp_doc := mp_norm_gen (use_double cf) v;
       mp_rd := {| m_rest := rest; m_reads := N.of_nat (length (mp_ser v)) |} |}.
Proof. exact mp_run_consumes_one. Qed.
Print Assumptions C09_decodes_canonical.

(* every proper prefix of a well-formed object gives IncompleteInput, the empty input EmptyInput *)
Theorem C09_prefixes : forall cf v L, mp_ok v ->
  (nesting v <= L)%nat -> forall p q, mp_ser v = p ++ q -> q <> [] ->
  mp_err (mp_run cf None L p) = match p with [] => EmptyInput | _ => IncompleteInput end.
Proof. exact mp_prefix_incomplete. Qed.
Print Assumptions C09_prefixes.

(* serializing what was decoded gives byte-identical MessagePack *)
Theorem C09_reserialize_identical : forall v, mp_ok v -> mp_ser (mp_norm v) = mp_ser v.
Proof. exact mp_fixpoint. Qed.
Print Assumptions C09_reserialize_identical.

(* the reserved code 0xC1 is InvalidInput wherever a value is expected; a non-string key is InvalidInput *)
Theorem C09_reserved_code : forall cf L f rest,
  mp_err (mp_run cf f L (193%N :: rest)) = InvalidInput.
Proof. intros. unfold mp_run. destruct L; reflexivity. Qed.
Print Assumptions C09_reserved_code.

Theorem C09_non_string_key : forall cf L,
  mp_err (mp_run cf None (S L) [129; 1; 1]%N) = InvalidInput /\        (* fixmap(1) whose key is the integer 1 *)
  mp_err (mp_run cf None (S L) [129; 192; 1]%N) = InvalidInput /\      (* key nil *)
  mp_err (mp_run cf None (S L) [129; 145; 1; 1]%N) = InvalidInput /\   (* key an array *)
  mp_err (mp_run cf None (S L) [129; 196; 1; 97; 1]%N) = InvalidInput.  (* key a bin8 *)
Proof. intros. unfold mp_run. destruct L; repeat split; reflexivity. Qed.
Print Assumptions C09_non_string_key.

(* Every legal encoding (MpEnc: all widths, non-minimal integers and lengths, str 8/16/32 keys, fixext...) of an
   object within the library's size limits decodes to the value it denotes, consuming exactly its bytes, whatever
   follows — provided the nesting limit admits its depth. *)
Theorem C09_decodes_every_legal_encoding : forall cf v b, MpEnc v b -> mp_limits v -> forall L rest,
  (mpv_depth v <= L)%nat ->
  mp_run cf None L (b ++ rest) =
    {| mp_err := Ok; mp_doc := mp_den (use_double cf) v;
       mp_rd := {| m_rest := rest; m_reads := N.of_nat (length b) |} |}.
Proof. exact mp_run_complete. Qed.
Print Assumptions C09_decodes_every_legal_encoding.

(* every strict prefix of every legal encoding is IncompleteInput (EmptyInput when nothing is there) *)
Theorem C09_every_strict_prefix_incomplete : forall cf v b L, MpEnc v b -> mp_limits v ->
  (mpv_depth v <= L)%nat -> forall p q, b = p ++ q -> q <> [] ->
  mp_err (mp_run cf None L p) = match p with [] => EmptyInput | _ => IncompleteInput end.
Proof. exact mp_prefix_incomplete_gen. Qed.
Print Assumptions C09_every_strict_prefix_incomplete.

(* what serializeMsgPack writes is a legal encoding in the sense of the specification *)
Theorem C09_serializer_output_is_legal : forall v, mp_ok v ->
  MpEnc (mpv_of v) (mp_ser v) /\ mp_limits (mpv_of v) /\ mpv_depth (mpv_of v) = nesting v /\
  forall ud, mp_den ud (mpv_of v) = mp_norm_gen ud v.
Proof. exact mp_ser_legal. Qed.
Print Assumptions C09_serializer_output_is_legal.

(* the size limit in the hypothesis is needed: a 65536-byte string is refused with NoMemory *)
Example C09_limits_needed : mp_err (mp_run default_cfg None 1 [0xDB; 0; 1; 0; 0]%N) = NoMemory.
Proof. exact limits_needed. Qed.

(* non-vacuity: a map 16 with a str 16 key holding an array 32 of a uint 16 and a str 32 *)
Example C09_wide_example : forall cf,
  mp_run cf None 2 [0xDE; 0; 1; 0xDA; 0; 1; 0x61; 0xDD; 0; 0; 0; 2; 0xCD; 0; 5; 0xDB; 0; 0; 0; 1; 0x62]%N =
    {| mp_err := Ok; mp_doc := JObj [([0x61%N], JArr [JInt 5; JStr [0x62%N]])];
       mp_rd := {| m_rest := []; m_reads := 21 |} |}.
Proof. exact wide_map_decodes. Qed.

(* the typed accessors as<MsgPackBinary>() / as<MsgPackExtension>() recognise exactly the bin / ext encodings: whatever
   raw bytes a value holds, a payload is returned only when they are header ++ payload of that family with the length the
   header announces — in particular never for a truncated header (the defect repaired by commit 7246ee9) *)
Theorem C09_binary_accessor_sound : forall r p, octets r -> mp_binary_of_raw r = Some p ->
  exists h, r = h ++ p /\ BinHdr (Z.of_nat (length p)) h.
Proof. exact binary_of_raw_sound. Qed.
Print Assumptions C09_binary_accessor_sound.

Theorem C09_extension_accessor_sound : forall r ty p, octets r -> mp_extension_of_raw r = Some (ty, p) ->
  exists h, r = h ++ ty :: p /\ ExtHdr (Z.of_nat (length p)) h.
Proof. exact extension_of_raw_sound. Qed.
Print Assumptions C09_extension_accessor_sound.

Example C09_truncated_ext_header_not_recognised :
  mp_extension_of_raw [0xC9%N] = None /\ mp_extension_of_raw [0xC8; 0]%N = None /\ mp_extension_of_raw [0xC7%N] = None.
Proof. repeat split; reflexivity. Qed.

Example C09_example :   (* non-minimal widths: uint64 5, str32 "a", array32 — decoded all the same *)
  mp_doc (mp_run default_cfg None 10 [221; 0; 0; 0; 2; 207; 0; 0; 0; 0; 0; 0; 0; 5; 219; 0; 0; 0; 1; 97]%N)
  = JArr [JInt 5; JStr [97%N]].
Proof. vm_compute. reflexivity. Qed.
