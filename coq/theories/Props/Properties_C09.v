(* Properties_C09.v — C09: well-formed MessagePack decodes to the value it encodes; malformed is classified.
   Proved for the canonical (narrowest) encodings, i.e. those serializeMsgPack itself produces; the other legal
   width choices (non-minimal integers and lengths) are covered by the correspondence run with an independent
   encoder, not by a theorem: C09_noncanonical_partial. *)
From Coq Require Import NArith ZArith List Bool.
From Coq Require Import Floats.SpecFloat.
From AJ Require Import Model.Base Model.FloatModel Model.Value Model.JsonParse Model.MsgPack.
From AJ Require Import Proofs.MsgPackRT.
Local Open Scope Z_scope.

Theorem C09_decodes_canonical : forall cf v L rest, mp_ok v -> (nesting v <= L)%nat ->
  mp_run cf None L (mp_ser v ++ rest) =
    {| mp_err := Ok; mp_doc := mp_norm_gen (use_double cf) v;
       mp_rd := {| m_rest := rest; m_reads := N.of_nat (length (mp_ser v)) |} |}.
Proof. exact mp_run_consumes_one. Qed.
Print Assumptions C09_decodes_canonical.

(* every proper prefix of a well-formed object gives IncompleteInput, the empty input EmptyInput *)
Theorem C09_prefixes : forall cf v L, mp_ok v ->
  (nesting v <= L)%nat -> forall p q, mp_ser v = p ++ q -> q <> [] ->
  mp_err (mp_run cf None L p) = match p with [] => EmptyInput | _ => IncompleteInput end.
Proof. exact mp_prefix_incomplete. Qed.
Print Assumptions C09_prefixes.

(* serializing what was decoded gives byte-identical MessagePack *)
Theorem C09_reserialize_identical : forall v, mp_ok v -> mp_ser (mp_norm v) = mp_ser v.
Proof. exact mp_fixpoint. Qed.
Print Assumptions C09_reserialize_identical.

(* the reserved code 0xC1 is InvalidInput wherever a value is expected; a non-string key is InvalidInput *)
Theorem C09_reserved_code : forall cf L f rest,
  mp_err (mp_run cf f L (193%N :: rest)) = InvalidInput.
Proof. intros. unfold mp_run. destruct L; reflexivity. Qed.
Print Assumptions C09_reserved_code.

Theorem C09_non_string_key : forall cf L,
  mp_err (mp_run cf None (S L) [129; 1; 1]%N) = InvalidInput /\        (* fixmap(1) whose key is the integer 1 *)
  mp_err (mp_run cf None (S L) [129; 192; 1]%N) = InvalidInput /\      (* key nil *)
  mp_err (mp_run cf None (S L) [129; 145; 1; 1]%N) = InvalidInput /\   (* key an array *)
  mp_err (mp_run cf None (S L) [129; 196; 1; 97; 1]%N) = InvalidInput.  (* key a bin8 *)
Proof. intros. unfold mp_run. destruct L; repeat split; reflexivity. Qed.
Print Assumptions C09_non_string_key.

Example C09_example :   (* non-minimal widths: uint64 5, str32 "a", array32 — decoded all the same *)
  mp_doc (mp_run default_cfg None 10 [221; 0; 0; 0; 2; 207; 0; 0; 0; 0; 0; 0; 0; 5; 219; 0; 0; 0; 1; 97]%N)
  = JArr [JInt 5; JStr [97%N]].
Proof. vm_compute. reflexivity. Qed.
