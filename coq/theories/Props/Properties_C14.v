(* Properties_C14.v — C14: how a string is stored (linked, copied, de-duplicated) is unobservable.
   In the tree model a string value or key is its bytes: there is no storage kind to observe, so every
   observable of the model is independent of it by construction; the library is compared with that model with
   every string operand given through each of 7 source kinds.  The theorems cover what remains: sharing of equal
   copied strings is invisible (reference-counted pool), keys are compared with their length (embedded NUL kept),
   and changing or removing one user of a string leaves the other values intact. *)
From Coq Require Import NArith ZArith List Bool.
From AJ Require Import Model.Base Model.Value Model.Tree Model.Pool Proofs.TreeProofs Proofs.PoolProofs Proofs.Sweep.
Local Open Scope N_scope.

(* changing or removing one user leaves the others intact: a mutation of one slot leaves every unrelated slot's
   content — strings included — unchanged *)
Theorem C14_other_users_intact : forall w o w' res r j c,
  wfw w -> targets o = Some r -> step w o = (w', res) ->
  get w j = Some c -> ~ inside_w w r j -> ~ inside_w w j r -> get w' j = Some c.
Proof. exact frame. Qed.
Print Assumptions C14_other_users_intact.

(* sharing inside the pool is never visible: adding or dropping a user of s does not affect any other string,
   and s itself stays until its last user goes *)
Theorem C14_sharing_invisible : forall s t p, s <> t ->
  sp_refs t (sp_add s p) = sp_refs t p /\ sp_refs t (sp_deref s p) = sp_refs t p.
Proof. intros s t p H. split; [apply sp_add_other | apply sp_deref_other]; exact H. Qed.
Print Assumptions C14_sharing_invisible.

Theorem C14_kept_while_used : forall s p, sp_wf p -> 1 <= sp_refs s p ->
  sp_refs s (sp_deref s p) = sp_refs s p - 1.
Proof. exact sp_deref_refs. Qed.
Print Assumptions C14_kept_while_used.

(* keys and strings are compared with their length: bytes_eqb is equality of byte lists, so "a" and "a\0b" are
   different keys and a lookup finds exactly the member whose key has the same bytes *)
Theorem C14_keys_compared_with_length : forall a b, bytes_eqb a b = true <-> a = b.
Proof. exact bytes_eqb_eq. Qed.
Print Assumptions C14_keys_compared_with_length.

Example C14_nul_keys_distinct :
  let w0 := init_world 1 in
  let '(w1, _) := step w0 (OSetMember 0 [97] (SInt 1)) in
  let '(w2, _) := step w1 (OSetMember 0 [97; 0; 98] (SInt 2)) in
  let '(_, r1) := step w2 (OGetMember 0 [97]) in
  let '(_, r2) := step w2 (OGetMember 0 [97; 0; 98]) in
  map to_jv (docs w2) = [JObj [([97], JInt 1); ([97; 0; 98], JInt 2)]] /\ r1 <> r2.
Proof. vm_compute. split; [reflexivity|discriminate]. Qed.
