(* Properties_C07.v — C07: round trips and format conversions preserve the document. *)
From Coq Require Import NArith ZArith List Bool.
From Coq Require Import Floats.SpecFloat.
From AJ Require Import Model.Base Model.FloatModel Model.Value Model.NumParse Model.JsonParse Model.JsonSer Model.MsgPack.
From AJ Require Import Proofs.JsonSerRT Proofs.MsgPackRT.
From Coq Require Import Reals.
From AJ Require Proofs.FloatRT.
Local Open Scope Z_scope.

(* deserializeJson(serializeJson(d)) = d : structure, order, strings and integers exact (float-free documents;
   floating-point leaves go through C12's printing/parsing, tied bit-exactly by correspondence).  [nofloat] and
   [ser_ok_floats] include: every string and key has at most 65535 bytes (StringNode::maxLength) *)
Theorem C07_json_roundtrip : forall cf, decode_unicode cf = true ->
  forall v, nofloat v -> forall L, (nesting v <= L)%nat ->
  j_err (json_run cf None L (ser cf v)) = Ok /\ j_doc (json_run cf None L (ser cf v)) = v.
Proof. exact json_run_ser. Qed.
Print Assumptions C07_json_roundtrip.

(* deserializeMsgPack(serializeMsgPack(d)) is equivalent to d — floats included, equal in value (mp_norm only
   turns an integral float into the integer of the same value / a narrowable double into the float) *)
Theorem C07_msgpack_roundtrip : forall cf v L, use_double cf = true -> mp_ok v -> (nesting v <= L)%nat ->
  mp_run cf None L (mp_ser v) =
    {| mp_err := Ok; mp_doc := mp_norm v;
       mp_rd := {| m_rest := []; m_reads := N.of_nat (length (mp_ser v)) |} |}.
Proof. exact mp_run_roundtrip. Qed.
Print Assumptions C07_msgpack_roundtrip.

(* ... and serializing the result of a MessagePack round trip gives byte-identical MessagePack *)
Theorem C07_msgpack_fixpoint : forall v, mp_ok v -> mp_ser (mp_norm v) = mp_ser v.
Proof. exact mp_fixpoint. Qed.
Print Assumptions C07_msgpack_fixpoint.

(* documents WITH floating-point values (default configuration): serializeJson then deserializeJson gives a document
   of the same shape, keys, strings, integers and booleans, whose floating-point leaves are close to the original ones
   in the sense of C12 (FloatRT.close): a double comes back as a double within 1.1e-9*max(1,|x|), as the integer it
   equals within 1e-9, or — when its printed text has at most seven significant digits, which parseNumber stores as a
   float — as a float within 6.11e-7*max(1,|x|); a float comes back within 1.61e-6*max(1,|x|).  Over the reals. *)
Theorem C07_json_roundtrip_with_floats : forall cf, decode_unicode cf = true -> use_double cf = true ->
  forall v, FloatRT.ser_ok_floats v -> forall L, (nesting v <= L)%nat ->
  exists w, j_err (json_run cf None L (ser cf v)) = Ok /\
            j_doc (json_run cf None L (ser cf v)) = w /\ FloatRT.close v w.
Proof. exact FloatRT.json_roundtrip_close. Qed.
Print Assumptions C07_json_roundtrip_with_floats.

(* on float-free documents [close] is equality: this contains C07_json_roundtrip *)
Theorem C07_close_is_equality_without_floats : forall v w, nofloat v -> FloatRT.close v w -> v = w.
Proof. exact FloatRT.close_nofloat. Qed.
Print Assumptions C07_close_is_equality_without_floats.

(* the tolerance for a double that comes back as a float cannot be 1e-9: 0.1 prints as "0.1", which reads as a float *)
Example C07_double_may_come_back_as_float :
  let x := sf_of_bits F64 0x3FB999999999999A in
  write_f64 default_cfg x = [48; 46; 49]%N /\
  jv_of_number default_cfg (parse_number default_cfg (write_f64 default_cfg x))
    = Some (JFloat (S754_finite false 13421773 (-27))).
Proof. split; vm_compute; reflexivity. Qed.

Example C07_cross_format_example :   (* JSON -> document -> MessagePack -> document *)
  let d := j_doc (json_run default_cfg None 10 [123; 34; 97; 34; 58; 91; 49; 44; 34; 120; 34; 44; 45; 50; 93; 125]%N) in
  mp_doc (mp_run default_cfg None 10 (mp_ser d)) = d.
Proof. vm_compute. reflexivity. Qed.
