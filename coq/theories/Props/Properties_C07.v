(* Properties_C07.v — C07: round trips and format conversions preserve the document. *)
From Coq Require Import NArith ZArith List Bool.
From Coq Require Import Floats.SpecFloat.
From AJ Require Import Model.Base Model.FloatModel Model.Value Model.JsonParse Model.JsonSer Model.MsgPack.
From AJ Require Import Proofs.JsonSerRT Proofs.MsgPackRT.
Local Open Scope Z_scope.

(* deserializeJson(serializeJson(d)) = d : structure, order, strings and integers exact (float-free documents;
   floating-point leaves go through C12's printing/parsing, tied bit-exactly by correspondence) *)
Theorem C07_json_roundtrip : forall cf, decode_unicode cf = true ->
  forall v, nofloat v -> forall L, (nesting v <= L)%nat ->
  j_err (json_run cf None L (ser cf v)) = Ok /\ j_doc (json_run cf None L (ser cf v)) = v.
Proof. exact json_run_ser. Qed.
Print Assumptions C07_json_roundtrip.

(* deserializeMsgPack(serializeMsgPack(d)) is equivalent to d — floats included, equal in value (mp_norm only
   turns an integral float into the integer of the same value / a narrowable double into the float) *)
Theorem C07_msgpack_roundtrip : forall cf v L, use_double cf = true -> mp_ok v -> (nesting v <= L)%nat ->
  mp_run cf None L (mp_ser v) =
    {| mp_err := Ok; mp_doc := mp_norm v;
       mp_rd := {| m_rest := []; m_reads := N.of_nat (length (mp_ser v)) |} |}.
Proof. exact mp_run_roundtrip. Qed.
Print Assumptions C07_msgpack_roundtrip.

(* ... and serializing the result of a MessagePack round trip gives byte-identical MessagePack *)
Theorem C07_msgpack_fixpoint : forall v, mp_ok v -> mp_ser (mp_norm v) = mp_ser v.
Proof. exact mp_fixpoint. Qed.
Print Assumptions C07_msgpack_fixpoint.

Example C07_cross_format_example :   (* JSON -> document -> MessagePack -> document *)
  let d := j_doc (json_run default_cfg None 10 [123; 34; 97; 34; 58; 91; 49; 44; 34; 120; 34; 44; 45; 50; 93; 125]%N) in
  mp_doc (mp_run default_cfg None 10 (mp_ser d)) = d.
Proof. vm_compute. reflexivity. Qed.
