(* Properties_C08.v — C08: serializeMsgPack emits one conforming MessagePack object equal to the document. *)
From Coq Require Import NArith ZArith List Bool.
From Coq Require Import Floats.SpecFloat.
From AJ Require Import Model.Base Model.FloatModel Model.Value Model.JsonParse Model.JsonSer Model.MsgPack.
From AJ Require Import Proofs.MsgPackRT Proofs.JsonSerRT.
From AJ Require Import Model.MsgPackTypes Spec.MsgPackSpec Proofs.MsgPackTypesProofs.
From Coq Require Import Reals.
From Flocq Require Import Core.
From Flocq Require BinarySingleNaN.
From AJ Require Import Proofs.NumProofs Proofs.FloatErr.
From AJ Require Proofs.FloatConv.
Local Open Scope Z_scope.

(* exactly one object equal to the document: the reader (whose acceptance of well-formed input is C09) decodes
   the output back to the document — integers over the whole int64/uint64 range with sign, strings byte-exact,
   arrays/maps in order, floats bit-exact unless integral (then the integer of the same value: mp_norm) — and
   stops exactly at its end whatever follows *)
Theorem C08_one_object_equal_to_document : forall cf v L rest, use_double cf = true -> mp_ok v ->
  (nesting v <= L)%nat ->
  mp_run cf None L (mp_ser v ++ rest) =
    {| mp_err := Ok; mp_doc := mp_norm v;
       mp_rd := {| m_rest := rest; m_reads := N.of_nat (length (mp_ser v)) |} |}.
Proof. exact mp_run_roundtrip_trailing. Qed.
Print Assumptions C08_one_object_equal_to_document.

(* the narrowest integer encoding on both sides of every boundary, over the whole range *)
Theorem C08_integers_minimal : forall z, - 2 ^ 63 <= z < 2 ^ 64 ->
  length (mp_int z) =
    (if (-32 <=? z) && (z <=? 127) then 1%nat
     else if (-128 <=? z) && (z <=? 255) then 2%nat
     else if (-32768 <=? z) && (z <=? 65535) then 3%nat
     else if (-2 ^ 31 <=? z) && (z <=? 2 ^ 32 - 1) then 5%nat else 9%nat).
Proof. exact mp_int_minimal. Qed.
Print Assumptions C08_integers_minimal.

Theorem C08_integers_value_and_sign : forall cf L z rest, - 2 ^ 63 <= z < 2 ^ 64 ->
  mp_parse cf L None true {| m_rest := mp_int z ++ rest; m_reads := 0 |}
    = (Ok, JInt z, {| m_rest := rest; m_reads := N.of_nat (length (mp_int z)) |}).
Proof. exact mp_int_roundtrip. Qed.
Print Assumptions C08_integers_value_and_sign.

(* the right length / count header on both sides of 31/32, 255/256, 65535/65536 and 15/16, 65535/65536 *)
Theorem C08_header_boundaries :
  (mp_str_header 31 = [191%N] /\ mp_str_header 32 = [217; 32]%N /\ mp_str_header 255 = [217; 255]%N /\
   mp_str_header 256 = [218; 1; 0]%N /\ mp_str_header 65535 = [218; 255; 255]%N /\ mp_str_header 65536 = [219; 0; 1; 0; 0]%N) /\
  (mp_arr_header 15 = [159%N] /\ mp_arr_header 16 = [220; 0; 16]%N /\ mp_arr_header 65535 = [220; 255; 255]%N /\
   mp_arr_header 65536 = [221; 0; 1; 0; 0]%N) /\
  (mp_map_header 15 = [143%N] /\ mp_map_header 16 = [222; 0; 16]%N /\ mp_map_header 65535 = [222; 255; 255]%N /\
   mp_map_header 65536 = [223; 0; 1; 0; 0]%N).
Proof. repeat split; reflexivity. Qed.
Print Assumptions C08_header_boundaries.

Theorem C08_strings_byte_exact : forall cf L s rest, Forall (fun b => (b < 256)%N) s ->
  Z.of_nat (length s) <= max_string_length ->
  mp_parse cf L None true {| m_rest := mp_str s ++ rest; m_reads := 0 |}
    = (Ok, JStr s, {| m_rest := rest; m_reads := N.of_nat (length (mp_str s)) |}).
Proof. exact mp_str_roundtrip. Qed.
Print Assumptions C08_strings_byte_exact.

(* a bounded buffer receives only the prefix that fits; returned count = bytes stored; no NUL for MessagePack *)
Theorem C08_bounded_buffer : forall n t,
  write_to_buffer false n t = (firstn n t, Nat.min n (length t), false).
Proof. intros. rewrite write_to_buffer_spec. reflexivity. Qed.
Print Assumptions C08_bounded_buffer.

(* bin / ext values given through the typed API (MsgPackBinary, MsgPackExtension): what the converter stores, and
   serializeMsgPack then emits verbatim, is a legal encoding of that object in the sense of the specification, with the
   narrowest header (fixext exactly for payloads of 1, 2, 4, 8, 16 bytes), and it reads back to the payload *)
Theorem C08_binary_value_is_conforming : forall cf p raw L rest, mp_binary_raw p = Some raw ->
  MpEnc (MBin raw) raw /\ mp_ser (JRaw raw) = raw /\
  mp_run cf None L (raw ++ rest) = {| mp_err := Ok; mp_doc := JRaw raw;
                                      mp_rd := {| m_rest := rest; m_reads := N.of_nat (length raw) |} |} /\
  mp_binary_of_raw raw = Some p.
Proof.
  intros cf p raw L rest H. split; [exact (proj1 (binary_raw_is_legal p raw H))|].
  destruct (binary_through_document cf p raw L rest H) as [A B]. split; [exact A|]. split; [exact B|].
  exact (binary_roundtrip p raw H).
Qed.
Print Assumptions C08_binary_value_is_conforming.

Theorem C08_extension_value_is_conforming : forall cf ty p raw L rest, (ty < 256)%N -> mp_extension_raw ty p = Some raw ->
  MpEnc (MExt raw) raw /\ mp_ser (JRaw raw) = raw /\
  mp_run cf None L (raw ++ rest) = {| mp_err := Ok; mp_doc := JRaw raw;
                                      mp_rd := {| m_rest := rest; m_reads := N.of_nat (length raw) |} |} /\
  mp_extension_of_raw raw = Some (ty, p).
Proof.
  intros cf ty p raw L rest Ht H. split; [exact (proj1 (extension_raw_is_legal ty p raw Ht H))|].
  destruct (extension_through_document cf ty p raw L rest Ht H) as [A B]. split; [exact A|]. split; [exact B|].
  exact (extension_roundtrip_gen ty p raw H).
Qed.
Print Assumptions C08_extension_value_is_conforming.

Theorem C08_fixext_exactly_for_1_2_4_8_16 : forall ty p raw, mp_extension_raw ty p = Some raw ->
  ((0xD4 <= hd 0 raw <= 0xD8)%N <-> fixext_size (length p)).
Proof. exact extension_fixext_iff. Qed.
Print Assumptions C08_fixext_exactly_for_1_2_4_8_16.

Example C08_example :
  mp_ser (JObj [([97%N], JArr [JInt 300; JInt (-33); JDouble (sf_of_bits F64 0x4000000000000000); JStr [120%N]; JNull])])
  = [129; 161; 97; 149; 205; 1; 44; 208; 223; 2; 161; 120; 192]%N.
Proof. vm_compute. reflexivity. Qed.

(* a double is written in the float 32 form exactly when nothing is lost: the 4-byte value then denotes the same real
   number (the narrowing was exact and in range); otherwise it is written as float 64 with its own 8 bytes
   (over the reals, through Flocq: standard library Reals axioms) *)
Theorem C08_float32_form_loses_nothing : forall v, valid F64 v -> FloatModel.is_finite v = true ->
  (f_eq (fconv F64 (fconv F32 v)) v = true ->
     mp_f64 v = mp_f32 (fconv F32 v) /\ valid F32 (fconv F32 v) /\
     FloatModel.is_finite (fconv F32 v) = true /\
     BinarySingleNaN.SF2R radix2 (fconv F32 v) = BinarySingleNaN.SF2R radix2 v) /\
  (f_eq (fconv F64 (fconv F32 v)) v = false ->
     mp_f64 v = bz 0xCB :: be_bytes 8 (bits_of_sf F64 v)).
Proof. exact FloatConv.mp_f64_f32_branch. Qed.
Print Assumptions C08_float32_form_loses_nothing.

Theorem C08_float32_form_iff_representable : forall v, valid F64 v -> FloatModel.is_finite v = true ->
  (f_eq (fconv F64 (fconv F32 v)) v = true <->
   generic_format radix2 (FLT_exp (-149) 24) (BinarySingleNaN.SF2R radix2 v) /\
   (Rabs (BinarySingleNaN.SF2R radix2 v) < bpow radix2 128)%R).
Proof. exact FloatConv.fits_float_iff. Qed.
Print Assumptions C08_float32_form_iff_representable.
