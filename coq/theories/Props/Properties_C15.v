(* Properties_C15.v — C15: the nesting limit bounds recursion for every input (JSON reader, then the
   MessagePack reader). *)
From Coq Require Import NArith ZArith List Bool.
From AJ Require Import Model.Base Model.Value Model.JsonParse.
From AJ Require Import Model.MsgPack.
From AJ Require Import Spec.ParseSpec Proofs.Lex Proofs.ParseDepth Proofs.ParseComplete Proofs.MsgPackComplete.
From AJ Require Gen.Config.
Local Open Scope nat_scope.

(* a document obtained with Ok has nesting() <= L — any input, any filter, any configuration *)
Theorem C15_ok_nesting : forall cf f L i,
  j_err (json_run cf f L i) = Ok -> nesting (j_doc (json_run cf f L i)) <= L.
Proof. exact json_run_ok_nesting. Qed.
Print Assumptions C15_ok_nesting.

(* "and never otherwise": the limit has no effect other than TooDeep — a run that does not end with
   TooDeep is unchanged (code, document, bytes consumed) under every larger limit; also in skipped parts *)
Theorem C15_limit_only_causes_TooDeep : forall cf fuel L f s e v s',
  parse_variant cf fuel L f s = (e, v, s') -> e <> TooDeep ->
  forall L', L <= L' -> parse_variant cf fuel L' f s = (e, v, s').
Proof. exact limit_monotone_parse. Qed.
Print Assumptions C15_limit_only_causes_TooDeep.

Theorem C15_limit_only_causes_TooDeep_skip : forall cf fuel L s e s',
  skip_variant cf fuel L s = (e, s') -> e <> TooDeep ->
  forall L', L <= L' -> skip_variant cf fuel L' s = (e, s').
Proof. exact limit_monotone_skip. Qed.
Print Assumptions C15_limit_only_causes_TooDeep_skip.

(* TooDeep as soon as a container is opened at depth L+1: the (L+1)-th opener is refused when it is met,
   nothing after it is read — kept part, and part discarded by a filter *)
Theorem C15_tower_refused : forall cf L fuel rest,
  L + 2 < fuel ->
  let '(e, _, s') := parse_variant cf fuel L None (ps_init (repeat 91%N (L + 1) ++ rest)) in
  e = TooDeep /\ reads s' = N.of_nat (L + 1).
Proof. exact tower_too_deep. Qed.
Print Assumptions C15_tower_refused.

Theorem C15_tower_refused_in_skipped_part : forall cf L fuel rest,
  L + 2 < fuel ->
  let '(e, s') := skip_variant cf fuel L (ps_init (repeat 91%N (L + 1) ++ rest)) in
  e = TooDeep /\ reads s' = N.of_nat (L + 1).
Proof. exact tower_too_deep_skip. Qed.
Print Assumptions C15_tower_refused_in_skipped_part.

(* no TooDeep when the text's depth is within the limit (a text of the grammar: Spec/Rfc8259.v, strings and keys of
   at most 65535 decoded bytes) *)
Theorem C15_within_limit_accepted : forall cf, decode_unicode cf = true ->
  forall d i v, jtextD (num_den cf) d i v -> forall L, d <= L ->
  j_err (json_run cf None L i) = Ok /\ j_doc (json_run cf None L i) = v.
Proof. exact json_run_complete. Qed.
Print Assumptions C15_within_limit_accepted.

(* Recursion depth: parse_variant / skip_variant are Fixpoints that are structural in the budget L
   ({struct L}); Coq's guard checker accepting them IS the proof that the chain of nested calls is at most
   L+1 long whatever the input.  The default budget is the source's: *)
Theorem C15_default_limit_from_source : Gen.Config.gen_default_nesting_limit = 10%Z.
Proof. reflexivity. Qed.
Print Assumptions C15_default_limit_from_source.

(* ---- MessagePack reader ---- *)
Theorem C15_msgpack_ok_nesting : forall cf L f dst r v r',
  mp_parse cf L f dst r = (Ok, v, r') -> (nesting v <= L)%nat.
Proof. exact mp_ok_nesting. Qed.
Print Assumptions C15_msgpack_ok_nesting.

(* the limit has no other effect: an outcome other than TooDeep is the outcome under every larger limit *)
Theorem C15_msgpack_limit_only_causes_TooDeep : forall cf L f dst r e v r', mp_parse cf L f dst r = (e, v, r') ->
  e <> TooDeep -> forall L', (L <= L')%nat -> mp_parse cf L' f dst r = (e, v, r').
Proof. exact mp_limit_monotone. Qed.
Print Assumptions C15_msgpack_limit_only_causes_TooDeep.

(* L+1 nested arrays are refused with TooDeep after exactly L+1 bytes, whatever follows, filter or not *)
Theorem C15_msgpack_tower_refused : forall cf L f rest,
  mp_err (mp_run cf f L (repeat 0x91%N (S L) ++ rest)) = TooDeep /\
  mp_rd (mp_run cf f L (repeat 0x91%N (S L) ++ rest)) = {| m_rest := rest; m_reads := N.of_nat (S L) |}.
Proof. exact mp_run_tower_too_deep. Qed.
Print Assumptions C15_msgpack_tower_refused.

(* the same through maps ( {"a":{"a":...{ ): refused as soon as the header of level L+1 is read *)
Theorem C15_msgpack_map_tower_refused : forall cf L f rest,
  mp_err (mp_run cf f L (map_tower L ++ rest)) = TooDeep /\
  mp_rd (mp_run cf f L (map_tower L ++ rest)) = {| m_rest := rest; m_reads := N.of_nat (3 * L + 1) |}.
Proof. exact mp_run_tower_too_deep_map. Qed.
Print Assumptions C15_msgpack_map_tower_refused.

Example C15_example :
  j_err (json_run default_cfg None 2 [91; 91; 91; 93; 93; 93]%N) = TooDeep /\
  j_err (json_run default_cfg None 3 [91; 91; 91; 93; 93; 93]%N) = Ok.
Proof. split; vm_compute; reflexivity. Qed.
