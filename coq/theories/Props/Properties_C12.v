(* Properties_C12.v — C12: numbers survive text: exact integers, bounded error, never a wrong magnitude.
   Proved: the integer half at full strength; the structural half of the floating-point clauses (classification of
   extremes, no table overrun for any string); and the rounding-error analysis of the conversion itself
   (Proofs/FloatErr.v, over the reals with Flocq): whatever decimal mantissa and exponent the scanner hands over, the
   float / double that parse_number builds from them is within 6e-7 (float) or 2e-15 (double) of mant * 10^expo.
   On top of it (Proofs/NumValue.v, Proofs/PrintErr.v): the parsing clause for EVERY literal of the number grammar
   (sign, leading zeros, fraction, exponent, dropped digits) with its exact real value, and the printing clause for
   every finite float / double in the range.  What remains outside the theorems is listed at the end. *)
From Coq Require Import NArith ZArith List Bool.
From Coq Require Import Floats.SpecFloat.
From AJ Require Import Model.Base Model.FloatModel Model.Value Model.NumParse Model.JsonSer.
From AJ Require Import Proofs.JsonSerRT Proofs.NumProofs Proofs.GenAgree.
From AJ Require Gen.Tables Gen.Config.
From Coq Require Import Reals.
From Flocq Require Import Core BinarySingleNaN.
From AJ Require Import Proofs.FloatErr.
From AJ Require Proofs.NumValue Proofs.PrintErr.
Local Open Scope Z_scope.

(* every integer literal in [-2^63, 2^64), with any number of leading zeros, parses to exactly that integer
   (the digits are those writeInteger produces, i.e. any canonical decimal spelling) *)
Theorem C12_integer_literals_exact : forall cf (neg : bool) (zeros : nat) z, 0 <= z ->
  (if neg then z <= 2 ^ 63 else z < 2 ^ 64) ->
  parse_number cf ((if neg then [45%N] else []) ++ repeat 48%N zeros ++ write_uint z)
    = (if neg then NumSInt (- z) else NumUInt z).
Proof. exact parse_int_literal. Qed.
Print Assumptions C12_integer_literals_exact.

(* integers print digit-exact and read back *)
Theorem C12_integers_print_and_read_back : forall cf z, - 2 ^ 63 <= z < 2 ^ 64 ->
  parse_number cf (write_int z) = (if z <? 0 then NumSInt z else NumUInt z).
Proof. exact parse_write_int. Qed.
Print Assumptions C12_integers_print_and_read_back.

Theorem C12_integers_digit_exact : forall z, 0 <= z < 2 ^ 64 ->
  digits_value (write_uint z) = z /\ Forall is_digit_byte (write_uint z) /\ write_uint z <> [] /\
  (z <> 0 -> hd 0%N (write_uint z) <> 48%N) /\ (length (write_uint z) <= 20)%nat.
Proof. exact write_uint_value. Qed.
Print Assumptions C12_integers_digit_exact.

(* any length through as<T>() on a string: parseNumber never runs off its power-of-ten tables (the defect
   repaired by commit 12b35d9), for EVERY byte string *)
Theorem C12_no_table_overrun : forall cf s, parse_number cf s <> NumFault.
Proof. exact parse_number_no_fault. Qed.
Print Assumptions C12_no_table_overrun.

(* never a finite value of the wrong magnitude, structural part: once the literal is read as
   (sign, decimal mantissa, decimal exponent) — [finish] is definitionally the tail of parse_number —
   zero stays zero, exponents above the range give a signed infinity, below it a signed zero *)
Theorem C12_result_shapes : forall c s,
  parse_number c s = NumInvalid \/
  parse_number c s = mk_jfloat c S754_nan \/
  parse_number c s = mk_jfloat c (S754_infinity (lit_neg s)) \/
  (exists z, 0 <= z /\ parse_number c s = NumUInt z) \/
  (exists z, z <= 0 /\ parse_number c s = NumSInt z) \/
  (exists mant expo, 0 <= mant /\ parse_number c s = finish c (lit_neg s) mant expo).
Proof. exact parse_number_cases. Qed.
Print Assumptions C12_result_shapes.

Theorem C12_zero_stays_zero : forall c neg expo, finish c neg 0 expo = NumFloat (S754_zero neg).
Proof. intros. apply finish_zero. Qed.
Print Assumptions C12_zero_stays_zero.

Theorem C12_huge_is_infinity : forall c neg mant expo, mant <> 0 -> exp_max_of c < expo ->
  finish c neg mant expo = mk_jfloat c (S754_infinity neg).
Proof. exact finish_huge. Qed.
Print Assumptions C12_huge_is_infinity.

Theorem C12_tiny_is_zero : forall c neg mant expo, mant <> 0 -> expo < - exp_max_of c - 20 ->
  finish c neg mant expo = NumFloat (S754_zero neg).
Proof. exact finish_tiny. Qed.
Print Assumptions C12_tiny_is_zero.

(* tie T: the four powers-of-ten tables and the constants of FloatTraits are those of the current source *)
Theorem C12_source_agrees :
  pos_pow10_64 = Gen.Tables.gen_pos_pow10_64 /\ neg_pow10_64 = Gen.Tables.gen_neg_pow10_64 /\
  pos_pow10_32 = Gen.Tables.gen_pos_pow10_32 /\ neg_pow10_32 = Gen.Tables.gen_neg_pow10_32 /\
  Gen.Config.gen_mantissa_bits_64 = 52 /\ Gen.Config.gen_exponent_max_64 = 308 /\
  Gen.Config.gen_mantissa_bits_32 = 23 /\ Gen.Config.gen_exponent_max_32 = 38.
Proof. repeat split; reflexivity. Qed.
Print Assumptions C12_source_agrees.

(* ---- rounding-error analysis (real numbers; SF2R radix2 r is the real value of the finite binary float r;
   p10 e = 10^e; sgnR neg = -1 or 1).  These theorems depend on the axioms of the standard library's Reals
   (listed by Print Assumptions below and in the trusted base). ---- *)

(* the tables in the source are the correctly rounded powers 10^(2^k) and 10^-(2^k) *)
Theorem C12_tables_are_powers_of_ten : forall k, (k < 9)%nat ->
  (Rabs (SF2R radix2 (nth k (pow10_table F64 true) S754_nan) - p10 (2 ^ Z.of_nat k))
     <= bpow radix2 (-53) * p10 (2 ^ Z.of_nat k))%R /\
  (Rabs (SF2R radix2 (nth k (pow10_table F64 false) S754_nan) - p10 (- 2 ^ Z.of_nat k))
     <= bpow radix2 (-53) * p10 (- 2 ^ Z.of_nat k))%R.
Proof. intros k Hk. split; [exact (table64_pos_accuracy k Hk) | exact (table64_neg_accuracy k Hk)]. Qed.
Print Assumptions C12_tables_are_powers_of_ten.

(* the model's multiplication is IEEE-754 round-to-nearest-even multiplication (Flocq's) *)
Theorem C12_multiplication_is_ieee : forall x y,
  valid F64 x -> valid F64 y -> FloatModel.is_finite x = true -> FloatModel.is_finite y = true ->
  (bpow radix2 (-1000) <= Rabs (SF2R radix2 x * SF2R radix2 y) <= bpow radix2 1000)%R ->
  SF2R radix2 (fmul F64 x y)
    = round radix2 (FLT_exp (-1074) 53) ZnearestE (SF2R radix2 x * SF2R radix2 y) /\
  (exists d, (Rabs d <= bpow radix2 (-53))%R /\
     SF2R radix2 (fmul F64 x y) = (SF2R radix2 x * SF2R radix2 y * (1 + d))%R) /\
  valid F64 (fmul F64 x y) /\ FloatModel.is_finite (fmul F64 x y) = true.
Proof. exact fmul64_correct. Qed.
Print Assumptions C12_multiplication_is_ieee.

(* default configuration (doubles enabled): any decimal mantissa below 2^53 and any exponent in -290..290 gives either a
   float within 6e-7 (only when the mantissa fits 23 bits and |expo| <= 38: at most seven significant digits) or a
   double within 2e-15 of mant * 10^expo; finite, correctly signed — far inside the 1e-6 / 1e-13 the property asks *)
Theorem C12_conversion_accuracy : forall c neg mant expo, use_double c = true ->
  1 <= mant < 2 ^ 53 -> -290 <= expo <= 290 ->
  (exists r, finish c neg mant expo = NumFloat r /\ valid F32 r /\
     FloatModel.is_finite r = true /\
     (Rabs (SF2R radix2 r - sgnR neg * (IZR mant * p10 expo)) <= 6e-7 * (IZR mant * p10 expo))%R)
  \/
  (exists r, finish c neg mant expo = NumDouble r /\ valid F64 r /\
     FloatModel.is_finite r = true /\
     (Rabs (SF2R radix2 r - sgnR neg * (IZR mant * p10 expo)) <= 2e-15 * (IZR mant * p10 expo))%R).
Proof. exact finish_accuracy. Qed.
Print Assumptions C12_conversion_accuracy.

(* more than seven significant digits (mantissa beyond 23 bits) or a large exponent: always the double path *)
Theorem C12_conversion_accuracy_double : forall c neg mant expo, use_double c = true ->
  1 <= mant < 2 ^ 53 -> -290 <= expo <= 290 ->
  (mant > 2 ^ 23 - 1 \/ expo < -38 \/ expo > 38) ->
  exists r, finish c neg mant expo = NumDouble r /\ valid F64 r /\
    FloatModel.is_finite r = true /\
    (Rabs (SF2R radix2 r - sgnR neg * (IZR mant * p10 expo)) <= 2e-15 * (IZR mant * p10 expo))%R.
Proof. exact finish_double_accuracy. Qed.
Print Assumptions C12_conversion_accuracy_double.

(* over the whole exponent range the classification lets through: an infinity or an accurate finite value —
   never a finite value of the wrong magnitude (for values above the subnormal range) *)
Theorem C12_never_wrong_magnitude : forall c neg mant expo, use_double c = true ->
  1 <= mant < 2 ^ 53 -> -328 <= expo <= 308 ->
  (mant > 2 ^ 23 - 1 \/ expo < -38 \/ expo > 38) ->
  (bpow radix2 (-1021) <= IZR mant * p10 expo)%R ->
  exists r, finish c neg mant expo = NumDouble r /\
    ((exists s, r = S754_infinity s) \/
     (valid F64 r /\ FloatModel.is_finite r = true /\
      (Rabs (SF2R radix2 r - sgnR neg * (IZR mant * p10 expo)) <= 2e-15 * (IZR mant * p10 expo))%R)).
Proof. exact finish_double_total. Qed.
Print Assumptions C12_never_wrong_magnitude.

(* float-only configuration (ARDUINOJSON_USE_DOUBLE=0) *)
Theorem C12_conversion_accuracy_float_only : forall c neg mant expo, use_double c = false ->
  1 <= mant < 2 ^ 24 -> -38 <= expo <= 38 ->
  exists r, finish c neg mant expo = NumFloat r /\
    ((exists s, r = S754_infinity s) \/
     (valid F32 r /\ FloatModel.is_finite r = true /\
      (Rabs (SF2R radix2 r - sgnR neg * (IZR mant * p10 expo)) <= 6e-7 * (IZR mant * p10 expo))%R)).
Proof. exact finish_float_cfg_total. Qed.
Print Assumptions C12_conversion_accuracy_float_only.

(* end to end for literals  [sign] digits (e|E) [sign] digits  (no decimal point) *)
Theorem C12_exponent_literals_double : forall c (sg : option bool) ds eb (esg : option bool) es,
  use_double c = true ->
  Forall digitb ds -> 1 <= dec ds 0 <= 2 ^ 52 - 1 -> (eb = 101 \/ eb = 69)%N ->
  Forall digitb es -> dec es 0 <= 290 ->
  let E := if sign_neg esg then - dec es 0 else dec es 0 in
  (dec ds 0 > 2 ^ 23 - 1 \/ E < -38 \/ E > 38) ->
  exists r, parse_number c (sign_bytes sg ++ ds ++ eb :: sign_bytes esg ++ es) = NumDouble r /\
    valid F64 r /\ FloatModel.is_finite r = true /\
    (Rabs (SF2R radix2 r - sgnR (sign_neg sg) * (IZR (dec ds 0) * p10 E))
       <= 2e-15 * (IZR (dec ds 0) * p10 E))%R.
Proof. exact exp_literal_double_accuracy. Qed.
Print Assumptions C12_exponent_literals_double.

(* ---- the parsing clause, for every literal  [sign] I [ . F ] [ (e|E) [sign] X ]  (I, F, X digit strings; any number of
   leading zeros; also the lenient ".5" and "1e"), of at most 9000 characters, whose exact value V satisfies
   1e-300 <= V <= 1e300:  the result is EXACTLY that integer (plain integer literal that fits), or a float within
   1e-6*V — and then the digits needed at most 23 bits, i.e. at most seven significant digits — or a double within
   1e-13*V; finite, correctly signed.  NumValue.lit_value is the literal's exact real value. ---- *)
Theorem C12_every_literal_accurate : forall c sg I fo eo,
  use_double c = true -> NumValue.wf_lit I fo eo ->
  (length (NumValue.lit sg I fo eo) <= 9000)%nat ->
  let F := NumValue.frac_digits fo in
  let E := NumValue.lit_exp eo in
  let V := NumValue.lit_abs I F E in
  (p10 (-300) <= V <= p10 300)%R ->
  (exists z, parse_number c (NumValue.lit sg I fo eo) = (if sign_neg sg then NumSInt z else NumUInt z) /\
     IZR z = NumValue.lit_value (sign_neg sg) I F E)
  \/
  (exists r, parse_number c (NumValue.lit sg I fo eo) = NumFloat r /\ valid F32 r /\
     FloatModel.is_finite r = true /\
     (Rabs (SF2R radix2 r - NumValue.lit_value (sign_neg sg) I F E) <= 1e-6 * V)%R /\
     dec (I ++ F) 0 <= 2 ^ 23 - 1)
  \/
  (exists r, parse_number c (NumValue.lit sg I fo eo) = NumDouble r /\ valid F64 r /\
     FloatModel.is_finite r = true /\
     (Rabs (SF2R radix2 r - NumValue.lit_value (sign_neg sg) I F E) <= 1e-13 * V)%R).
Proof. exact NumValue.literal_accuracy_double_cfg_all. Qed.
Print Assumptions C12_every_literal_accurate.

(* more than seven significant digits: always a double within 1e-13 *)
Theorem C12_more_than_seven_digits : forall c sg I fo eo,
  use_double c = true -> NumValue.wf_lit I fo eo -> ~ NumValue.int_path sg I fo eo ->
  (length (NumValue.lit sg I fo eo) <= 9000)%nat ->
  let F := NumValue.frac_digits fo in
  let E := NumValue.lit_exp eo in
  let V := NumValue.lit_abs I F E in
  (p10 (-300) <= V <= p10 300)%R ->
  10 ^ 7 <= dec (I ++ F) 0 ->
  exists r, parse_number c (NumValue.lit sg I fo eo) = NumDouble r /\ valid F64 r /\
     FloatModel.is_finite r = true /\
     (Rabs (SF2R radix2 r - NumValue.lit_value (sign_neg sg) I F E) <= 1e-13 * V)%R.
Proof. exact NumValue.more_than_seven_digits_is_double. Qed.
Print Assumptions C12_more_than_seven_digits.

(* larger magnitudes become the infinity of the literal's sign, smaller ones its zero *)
Theorem C12_out_of_range_literals : forall c sg I fo eo, use_double c = true -> NumValue.wf_lit I fo eo ->
  (length (NumValue.lit sg I fo eo) <= 9000)%nat ->
  let V := NumValue.lit_abs I (NumValue.frac_digits fo) (NumValue.lit_exp eo) in
  ((p10 309 < V)%R ->
     parse_number c (NumValue.lit sg I fo eo) = NumDouble (S754_infinity (sign_neg sg))) /\
  ((0 < V)%R -> (V < p10 (-400))%R ->
     parse_number c (NumValue.lit sg I fo eo) = NumFloat (S754_zero (sign_neg sg))).
Proof. exact NumValue.out_of_range_literals. Qed.
Print Assumptions C12_out_of_range_literals.

(* what the scanner hands to the conversion: digits are only ever DROPPED (never altered), at a relative cost of at most
   1/(mant_max/10): 2.3e-15 with doubles, 1.2e-6 without *)
Theorem C12_scanner_truncation : forall c sg I fo eo, NumValue.wf_lit I fo eo -> ~ NumValue.int_path sg I fo eo ->
  dec (NumValue.exp_digits eo) 0 < 10000 ->
  let F := NumValue.frac_digits fo in
  let E := NumValue.lit_exp eo in
  let V := NumValue.lit_abs I F E in
  exists mant expo,
    parse_number c (NumValue.lit sg I fo eo) = finish c (sign_neg sg) mant expo /\
    0 <= mant <= mant_max_of c /\
    (V = 0%R -> mant = 0) /\
    ((0 < V)%R -> 1 <= mant) /\
    (IZR mant * p10 expo <= V)%R /\
    (V - IZR mant * p10 expo <= NumValue.trunc_err c * V)%R /\
    (dec (I ++ F) 0 < 10 * (mant_max_of c / 10) ->
       mant = dec (I ++ F) 0 /\ expo = E - NumValue.len F /\ (IZR mant * p10 expo = V)%R) /\
    (mant < mant_max_of c / 10 -> mant = dec (I ++ F) 0 /\ expo = E - NumValue.len F).
Proof. exact NumValue.scan_value. Qed.
Print Assumptions C12_scanner_truncation.

(* float-only configuration: 2e-6 (the 8th digit is dropped before the conversion: 1e-6 is NOT met there, see
   NumValue.float_cfg_1e6_false: "8388609.0" reads as 8388600; the property's bounds are stated for the default
   configuration, DESIGN.md 8) *)
Theorem C12_every_literal_accurate_float_only : forall c sg I fo eo,
  use_double c = false -> NumValue.wf_lit I fo eo -> ~ NumValue.int_path sg I fo eo ->
  (length (NumValue.lit sg I fo eo) <= 9000)%nat ->
  let F := NumValue.frac_digits fo in
  let E := NumValue.lit_exp eo in
  let V := NumValue.lit_abs I F E in
  (p10 (-31) <= V <= p10 38)%R ->
  exists r, parse_number c (NumValue.lit sg I fo eo) = NumFloat r /\
    (FloatModel.is_finite r = true ->
     (Rabs (SF2R radix2 r - NumValue.lit_value (sign_neg sg) I F E) <= 2e-6 * V)%R).
Proof. exact NumValue.literal_accuracy_float_cfg. Qed.
Print Assumptions C12_every_literal_accurate_float_only.

(* ---- the printing clause: a finite double x (a finite float v) with 1e-300 <= |x| <= 1e300 is printed as the literal
   [-] i [. f] [e [-] e'] whose exact decimal value PrintErr.lit_value is within 1e-9*max(1,|x|) (1e-6*max(1,|v|)) ---- *)
Theorem C12_print_double_accuracy : forall c x, use_double c = true ->
  valid F64 x -> FloatModel.is_finite x = true ->
  (p10 (-300) <= Rabs (SF2R radix2 x) <= p10 300)%R ->
  exists neg i f eneg e, write_f64 c x = PrintErr.lit_text neg i f eneg e /\
    Forall is_digit_byte i /\ i <> [] /\ Forall is_digit_byte f /\ Forall is_digit_byte e /\
    (Rabs (PrintErr.lit_value neg i f eneg e - SF2R radix2 x) <= 1e-9 * Rmax 1 (Rabs (SF2R radix2 x)))%R.
Proof. exact PrintErr.write_f64_accuracy. Qed.
Print Assumptions C12_print_double_accuracy.

Theorem C12_print_float_accuracy : forall c v, use_double c = true ->
  valid F32 v -> FloatModel.is_finite v = true ->
  (p10 (-300) <= Rabs (SF2R radix2 v) <= p10 300)%R ->
  exists neg i f eneg e, write_f32 c v = PrintErr.lit_text neg i f eneg e /\
    Forall is_digit_byte i /\ i <> [] /\ Forall is_digit_byte f /\ Forall is_digit_byte e /\
    (Rabs (PrintErr.lit_value neg i f eneg e - SF2R radix2 v) <= 1e-6 * Rmax 1 (Rabs (SF2R radix2 v)))%R.
Proof. exact PrintErr.write_f32_accuracy. Qed.
Print Assumptions C12_print_float_accuracy.

(* non-vacuity: "3.14", "0.000001234567e-5" and "12345678901234567890.123e10" meet the hypotheses (checked by computation
   in NumValue.ex_3_14 / ex_small / ex_long) *)

(* Outside these theorems: literals longer than 9000 characters whose exponent digits saturate the scanner's accumulator
   (covered by C12_no_table_overrun, C12_result_shapes and the run on strings of up to 70000 characters); results in the
   subnormal range (no relative bound exists there); printing in the float-only configuration (normalize in binary32).
   The model of parseNumber / writeFloat is compared bit-for-bit with the library on every run, and the library's
   results are checked against the same tolerances with exact rational arithmetic. *)


Example C12_examples :
  parse_number default_cfg [49; 56; 52; 52; 54; 55; 52; 52; 48; 55; 51; 55; 48; 57; 53; 53; 49; 54; 49; 53]%N
    = NumUInt 18446744073709551615 /\
  parse_number default_cfg [45; 48; 48; 57]%N = NumSInt (-9).
Proof. split; vm_compute; reflexivity. Qed.
