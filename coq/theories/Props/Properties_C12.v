(* Properties_C12.v — C12: numbers survive text: exact integers, bounded error, never a wrong magnitude.
   Proved: the integer half at full strength, and the structural half of the floating-point clauses
   (classification of extremes, no table overrun for any string).  The numeric error bounds (1e-6 / 1e-13
   on parsing, 1e-6 / 1e-9 on printing) are NOT proved: see C12_accuracy_partial below. *)
From Coq Require Import NArith ZArith List Bool.
From Coq Require Import Floats.SpecFloat.
From AJ Require Import Model.Base Model.FloatModel Model.Value Model.NumParse Model.JsonSer.
From AJ Require Import Proofs.JsonSerRT Proofs.NumProofs Proofs.GenAgree.
From AJ Require Gen.Tables Gen.Config.
Local Open Scope Z_scope.

(* every integer literal in [-2^63, 2^64), with any number of leading zeros, parses to exactly that integer
   (the digits are those writeInteger produces, i.e. any canonical decimal spelling) *)
Theorem C12_integer_literals_exact : forall cf (neg : bool) (zeros : nat) z, 0 <= z ->
  (if neg then z <= 2 ^ 63 else z < 2 ^ 64) ->
  parse_number cf ((if neg then [45%N] else []) ++ repeat 48%N zeros ++ write_uint z)
    = (if neg then NumSInt (- z) else NumUInt z).
Proof. exact parse_int_literal. Qed.
Print Assumptions C12_integer_literals_exact.

(* integers print digit-exact and read back *)
Theorem C12_integers_print_and_read_back : forall cf z, - 2 ^ 63 <= z < 2 ^ 64 ->
  parse_number cf (write_int z) = (if z <? 0 then NumSInt z else NumUInt z).
Proof. exact parse_write_int. Qed.
Print Assumptions C12_integers_print_and_read_back.

Theorem C12_integers_digit_exact : forall z, 0 <= z < 2 ^ 64 ->
  digits_value (write_uint z) = z /\ Forall is_digit_byte (write_uint z) /\ write_uint z <> [] /\
  (z <> 0 -> hd 0%N (write_uint z) <> 48%N) /\ (length (write_uint z) <= 20)%nat.
Proof. exact write_uint_value. Qed.
Print Assumptions C12_integers_digit_exact.

(* any length through as<T>() on a string: parseNumber never runs off its power-of-ten tables (the defect
   repaired by commit 12b35d9), for EVERY byte string *)
Theorem C12_no_table_overrun : forall cf s, parse_number cf s <> NumFault.
Proof. exact parse_number_no_fault. Qed.
Print Assumptions C12_no_table_overrun.

(* never a finite value of the wrong magnitude, structural part: once the literal is read as
   (sign, decimal mantissa, decimal exponent) — [finish] is definitionally the tail of parse_number —
   zero stays zero, exponents above the range give a signed infinity, below it a signed zero *)
Theorem C12_result_shapes : forall c s,
  parse_number c s = NumInvalid \/
  parse_number c s = mk_jfloat c S754_nan \/
  parse_number c s = mk_jfloat c (S754_infinity (lit_neg s)) \/
  (exists z, 0 <= z /\ parse_number c s = NumUInt z) \/
  (exists z, z <= 0 /\ parse_number c s = NumSInt z) \/
  (exists mant expo, 0 <= mant /\ parse_number c s = finish c (lit_neg s) mant expo).
Proof. exact parse_number_cases. Qed.
Print Assumptions C12_result_shapes.

Theorem C12_zero_stays_zero : forall c neg expo, finish c neg 0 expo = NumFloat (S754_zero neg).
Proof. intros. apply finish_zero. Qed.
Print Assumptions C12_zero_stays_zero.

Theorem C12_huge_is_infinity : forall c neg mant expo, mant <> 0 -> exp_max_of c < expo ->
  finish c neg mant expo = mk_jfloat c (S754_infinity neg).
Proof. exact finish_huge. Qed.
Print Assumptions C12_huge_is_infinity.

Theorem C12_tiny_is_zero : forall c neg mant expo, mant <> 0 -> expo < - exp_max_of c - 20 ->
  finish c neg mant expo = NumFloat (S754_zero neg).
Proof. exact finish_tiny. Qed.
Print Assumptions C12_tiny_is_zero.

(* tie T: the four powers-of-ten tables and the constants of FloatTraits are those of the current source *)
Theorem C12_source_agrees :
  pos_pow10_64 = Gen.Tables.gen_pos_pow10_64 /\ neg_pow10_64 = Gen.Tables.gen_neg_pow10_64 /\
  pos_pow10_32 = Gen.Tables.gen_pos_pow10_32 /\ neg_pow10_32 = Gen.Tables.gen_neg_pow10_32 /\
  Gen.Config.gen_mantissa_bits_64 = 52 /\ Gen.Config.gen_exponent_max_64 = 308 /\
  Gen.Config.gen_mantissa_bits_32 = 23 /\ Gen.Config.gen_exponent_max_32 = 38.
Proof. repeat split; reflexivity. Qed.
Print Assumptions C12_source_agrees.

(* C12_accuracy_partial — NOT a theorem: the bounds |parse(l) - v| <= 1e-6|v| (1e-13|v| beyond seven digits)
   and |print(x) - x| <= 1e-6 / 1e-9 * max(1,|x|) need a rounding-error analysis of the chains of SFmul in
   make_float / normalize (at most 9 multiplications by table constants); it is not done.  What stands in for it:
   the model of parseNumber / writeFloat is bit-exact against the library on every run (SpecFloat arithmetic),
   and the library's results are checked against these tolerances with exact rational arithmetic on tens of
   thousands of literals and values aimed at the boundaries. *)

Example C12_examples :
  parse_number default_cfg [49; 56; 52; 52; 54; 55; 52; 52; 48; 55; 51; 55; 48; 57; 53; 53; 49; 54; 49; 53]%N
    = NumUInt 18446744073709551615 /\
  parse_number default_cfg [45; 48; 48; 57]%N = NumSInt (-9).
Proof. split; vm_compute; reflexivity. Qed.
