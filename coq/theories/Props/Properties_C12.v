(* Properties_C12.v — C12: numbers survive text: exact integers, bounded error, never a wrong magnitude.
   Proved: the integer half at full strength; the structural half of the floating-point clauses (classification of
   extremes, no table overrun for any string); and the rounding-error analysis of the conversion itself
   (Proofs/FloatErr.v, over the reals with Flocq): whatever decimal mantissa and exponent the scanner hands over, the
   float / double that parse_number builds from them is within 6e-7 (float) or 2e-15 (double) of mant * 10^expo.
   Still open (see C12_accuracy_partial at the end): the link literal -> (mant, expo) for literals with a decimal
   point or more digits than the mantissa holds, and the printing bounds. *)
From Coq Require Import NArith ZArith List Bool.
From Coq Require Import Floats.SpecFloat.
From AJ Require Import Model.Base Model.FloatModel Model.Value Model.NumParse Model.JsonSer.
From AJ Require Import Proofs.JsonSerRT Proofs.NumProofs Proofs.GenAgree.
From AJ Require Gen.Tables Gen.Config.
From Coq Require Import Reals.
From Flocq Require Import Core BinarySingleNaN.
From AJ Require Import Proofs.FloatErr.
Local Open Scope Z_scope.

(* every integer literal in [-2^63, 2^64), with any number of leading zeros, parses to exactly that integer
   (the digits are those writeInteger produces, i.e. any canonical decimal spelling) *)
Theorem C12_integer_literals_exact : forall cf (neg : bool) (zeros : nat) z, 0 <= z ->
  (if neg then z <= 2 ^ 63 else z < 2 ^ 64) ->
  parse_number cf ((if neg then [45%N] else []) ++ repeat 48%N zeros ++ write_uint z)
    = (if neg then NumSInt (- z) else NumUInt z).
Proof. exact parse_int_literal. Qed.
Print Assumptions C12_integer_literals_exact.

(* integers print digit-exact and read back *)
Theorem C12_integers_print_and_read_back : forall cf z, - 2 ^ 63 <= z < 2 ^ 64 ->
  parse_number cf (write_int z) = (if z <? 0 then NumSInt z else NumUInt z).
Proof. exact parse_write_int. Qed.
Print Assumptions C12_integers_print_and_read_back.

Theorem C12_integers_digit_exact : forall z, 0 <= z < 2 ^ 64 ->
  digits_value (write_uint z) = z /\ Forall is_digit_byte (write_uint z) /\ write_uint z <> [] /\
  (z <> 0 -> hd 0%N (write_uint z) <> 48%N) /\ (length (write_uint z) <= 20)%nat.
Proof. exact write_uint_value. Qed.
Print Assumptions C12_integers_digit_exact.

(* any length through as<T>() on a string: parseNumber never runs off its power-of-ten tables (the defect
   repaired by commit 12b35d9), for EVERY byte string *)
Theorem C12_no_table_overrun : forall cf s, parse_number cf s <> NumFault.
Proof. exact parse_number_no_fault. Qed.
Print Assumptions C12_no_table_overrun.

(* never a finite value of the wrong magnitude, structural part: once the literal is read as
   (sign, decimal mantissa, decimal exponent) — [finish] is definitionally the tail of parse_number —
   zero stays zero, exponents above the range give a signed infinity, below it a signed zero *)
Theorem C12_result_shapes : forall c s,
  parse_number c s = NumInvalid \/
  parse_number c s = mk_jfloat c S754_nan \/
  parse_number c s = mk_jfloat c (S754_infinity (lit_neg s)) \/
  (exists z, 0 <= z /\ parse_number c s = NumUInt z) \/
  (exists z, z <= 0 /\ parse_number c s = NumSInt z) \/
  (exists mant expo, 0 <= mant /\ parse_number c s = finish c (lit_neg s) mant expo).
Proof. exact parse_number_cases. Qed.
Print Assumptions C12_result_shapes.

Theorem C12_zero_stays_zero : forall c neg expo, finish c neg 0 expo = NumFloat (S754_zero neg).
Proof. intros. apply finish_zero. Qed.
Print Assumptions C12_zero_stays_zero.

Theorem C12_huge_is_infinity : forall c neg mant expo, mant <> 0 -> exp_max_of c < expo ->
  finish c neg mant expo = mk_jfloat c (S754_infinity neg).
Proof. exact finish_huge. Qed.
Print Assumptions C12_huge_is_infinity.

Theorem C12_tiny_is_zero : forall c neg mant expo, mant <> 0 -> expo < - exp_max_of c - 20 ->
  finish c neg mant expo = NumFloat (S754_zero neg).
Proof. exact finish_tiny. Qed.
Print Assumptions C12_tiny_is_zero.

(* tie T: the four powers-of-ten tables and the constants of FloatTraits are those of the current source *)
Theorem C12_source_agrees :
  pos_pow10_64 = Gen.Tables.gen_pos_pow10_64 /\ neg_pow10_64 = Gen.Tables.gen_neg_pow10_64 /\
  pos_pow10_32 = Gen.Tables.gen_pos_pow10_32 /\ neg_pow10_32 = Gen.Tables.gen_neg_pow10_32 /\
  Gen.Config.gen_mantissa_bits_64 = 52 /\ Gen.Config.gen_exponent_max_64 = 308 /\
  Gen.Config.gen_mantissa_bits_32 = 23 /\ Gen.Config.gen_exponent_max_32 = 38.
Proof. repeat split; reflexivity. Qed.
Print Assumptions C12_source_agrees.

(* ---- rounding-error analysis (real numbers; SF2R radix2 r is the real value of the finite binary float r;
   p10 e = 10^e; sgnR neg = -1 or 1).  These theorems depend on the axioms of the standard library's Reals
   (listed by Print Assumptions below and in the trusted base). ---- *)

(* the tables in the source are the correctly rounded powers 10^(2^k) and 10^-(2^k) *)
Theorem C12_tables_are_powers_of_ten : forall k, (k < 9)%nat ->
  (Rabs (SF2R radix2 (nth k (pow10_table F64 true) S754_nan) - p10 (2 ^ Z.of_nat k))
     <= bpow radix2 (-53) * p10 (2 ^ Z.of_nat k))%R /\
  (Rabs (SF2R radix2 (nth k (pow10_table F64 false) S754_nan) - p10 (- 2 ^ Z.of_nat k))
     <= bpow radix2 (-53) * p10 (- 2 ^ Z.of_nat k))%R.
Proof. intros k Hk. split; [exact (table64_pos_accuracy k Hk) | exact (table64_neg_accuracy k Hk)]. Qed.
Print Assumptions C12_tables_are_powers_of_ten.

(* the model's multiplication is IEEE-754 round-to-nearest-even multiplication (Flocq's) *)
Theorem C12_multiplication_is_ieee : forall x y,
  valid F64 x -> valid F64 y -> FloatModel.is_finite x = true -> FloatModel.is_finite y = true ->
  (bpow radix2 (-1000) <= Rabs (SF2R radix2 x * SF2R radix2 y) <= bpow radix2 1000)%R ->
  SF2R radix2 (fmul F64 x y)
    = round radix2 (FLT_exp (-1074) 53) ZnearestE (SF2R radix2 x * SF2R radix2 y) /\
  (exists d, (Rabs d <= bpow radix2 (-53))%R /\
     SF2R radix2 (fmul F64 x y) = (SF2R radix2 x * SF2R radix2 y * (1 + d))%R) /\
  valid F64 (fmul F64 x y) /\ FloatModel.is_finite (fmul F64 x y) = true.
Proof. exact fmul64_correct. Qed.
Print Assumptions C12_multiplication_is_ieee.

(* default configuration (doubles enabled): any decimal mantissa below 2^53 and any exponent in -290..290 gives either a
   float within 6e-7 (only when the mantissa fits 23 bits and |expo| <= 38: at most seven significant digits) or a
   double within 2e-15 of mant * 10^expo; finite, correctly signed — far inside the 1e-6 / 1e-13 the property asks *)
Theorem C12_conversion_accuracy : forall c neg mant expo, use_double c = true ->
  1 <= mant < 2 ^ 53 -> -290 <= expo <= 290 ->
  (exists r, finish c neg mant expo = NumFloat r /\ valid F32 r /\
     FloatModel.is_finite r = true /\
     (Rabs (SF2R radix2 r - sgnR neg * (IZR mant * p10 expo)) <= 6e-7 * (IZR mant * p10 expo))%R)
  \/
  (exists r, finish c neg mant expo = NumDouble r /\ valid F64 r /\
     FloatModel.is_finite r = true /\
     (Rabs (SF2R radix2 r - sgnR neg * (IZR mant * p10 expo)) <= 2e-15 * (IZR mant * p10 expo))%R).
Proof. exact finish_accuracy. Qed.
Print Assumptions C12_conversion_accuracy.

(* more than seven significant digits (mantissa beyond 23 bits) or a large exponent: always the double path *)
Theorem C12_conversion_accuracy_double : forall c neg mant expo, use_double c = true ->
  1 <= mant < 2 ^ 53 -> -290 <= expo <= 290 ->
  (mant > 2 ^ 23 - 1 \/ expo < -38 \/ expo > 38) ->
  exists r, finish c neg mant expo = NumDouble r /\ valid F64 r /\
    FloatModel.is_finite r = true /\
    (Rabs (SF2R radix2 r - sgnR neg * (IZR mant * p10 expo)) <= 2e-15 * (IZR mant * p10 expo))%R.
Proof. exact finish_double_accuracy. Qed.
Print Assumptions C12_conversion_accuracy_double.

(* over the whole exponent range the classification lets through: an infinity or an accurate finite value —
   never a finite value of the wrong magnitude (for values above the subnormal range) *)
Theorem C12_never_wrong_magnitude : forall c neg mant expo, use_double c = true ->
  1 <= mant < 2 ^ 53 -> -328 <= expo <= 308 ->
  (mant > 2 ^ 23 - 1 \/ expo < -38 \/ expo > 38) ->
  (bpow radix2 (-1021) <= IZR mant * p10 expo)%R ->
  exists r, finish c neg mant expo = NumDouble r /\
    ((exists s, r = S754_infinity s) \/
     (valid F64 r /\ FloatModel.is_finite r = true /\
      (Rabs (SF2R radix2 r - sgnR neg * (IZR mant * p10 expo)) <= 2e-15 * (IZR mant * p10 expo))%R)).
Proof. exact finish_double_total. Qed.
Print Assumptions C12_never_wrong_magnitude.

(* float-only configuration (ARDUINOJSON_USE_DOUBLE=0) *)
Theorem C12_conversion_accuracy_float_only : forall c neg mant expo, use_double c = false ->
  1 <= mant < 2 ^ 24 -> -38 <= expo <= 38 ->
  exists r, finish c neg mant expo = NumFloat r /\
    ((exists s, r = S754_infinity s) \/
     (valid F32 r /\ FloatModel.is_finite r = true /\
      (Rabs (SF2R radix2 r - sgnR neg * (IZR mant * p10 expo)) <= 6e-7 * (IZR mant * p10 expo))%R)).
Proof. exact finish_float_cfg_total. Qed.
Print Assumptions C12_conversion_accuracy_float_only.

(* end to end for literals  [sign] digits (e|E) [sign] digits  (no decimal point) *)
Theorem C12_exponent_literals_double : forall c (sg : option bool) ds eb (esg : option bool) es,
  use_double c = true ->
  Forall digitb ds -> 1 <= dec ds 0 <= 2 ^ 52 - 1 -> (eb = 101 \/ eb = 69)%N ->
  Forall digitb es -> dec es 0 <= 290 ->
  let E := if sign_neg esg then - dec es 0 else dec es 0 in
  (dec ds 0 > 2 ^ 23 - 1 \/ E < -38 \/ E > 38) ->
  exists r, parse_number c (sign_bytes sg ++ ds ++ eb :: sign_bytes esg ++ es) = NumDouble r /\
    valid F64 r /\ FloatModel.is_finite r = true /\
    (Rabs (SF2R radix2 r - sgnR (sign_neg sg) * (IZR (dec ds 0) * p10 E))
       <= 2e-15 * (IZR (dec ds 0) * p10 E))%R.
Proof. exact exp_literal_double_accuracy. Qed.
Print Assumptions C12_exponent_literals_double.

(* C12_accuracy_partial — what is NOT yet a theorem: (a) for literals with a decimal point or with more digits than the
   mantissa holds, that the (mant, expo) the scanner hands to [finish] is within the truncation error of the literal's
   value (the conversion from there on is C12_conversion_accuracy); (b) the printing bounds |print(x) - x| <=
   1e-6 / 1e-9 * max(1,|x|) (normalize + decomposeFloat).  What stands in for them:
   the model of parseNumber / writeFloat is bit-exact against the library on every run (SpecFloat arithmetic),
   and the library's results are checked against these tolerances with exact rational arithmetic on tens of
   thousands of literals and values aimed at the boundaries. *)

Example C12_examples :
  parse_number default_cfg [49; 56; 52; 52; 54; 55; 52; 52; 48; 55; 51; 55; 48; 57; 53; 53; 49; 54; 49; 53]%N
    = NumUInt 18446744073709551615 /\
  parse_number default_cfg [45; 48; 48; 57]%N = NumSInt (-9).
Proof. split; vm_compute; reflexivity. Qed.
