(* Properties_C05.v — C05: allocation failure is reported and never corrupts the document.
   Level: fault enumeration on the library (every single-failure and fail-from position of generated scenarios);
   the theorems below are the part of the argument that lives in the slot allocator, for EVERY failure pattern. *)
From Coq Require Import NArith List Bool.
From AJ Require Import Model.Base Model.Pool Proofs.PoolProofs Model.Collection Proofs.CollProofs.
From AJ Require Import Model.CopyBudget Proofs.CopyBudgetProofs Proofs.ReadBudgetProofs.
Local Open Scope N_scope.

(* whatever the allocator answers, at whatever calls, the allocator's invariant holds: ids valid, live slots
   distinct, pool table within bounds — no failure pattern can corrupt the slot bookkeeping *)
Theorem C05_invariant_under_any_failures : forall g ops, good_geom g ->
  NoDup (lv (fst (prun g ops))) /\
  (forall id, In (Some id) (snd (prun g ops)) -> id < null_slot g) /\
  count (pl (fst (prun g ops))) <= max_pools g.
Proof.
  intros g ops H. split; [exact (live_distinct g ops H)|]. split; [exact (alloc_below_null g ops H)|exact (count_bounded g ops H)].
Qed.
Print Assumptions C05_invariant_under_any_failures.

(* a failed allocation is reported (None => overflowed is set by pstep) and leaves every existing slot alone *)
Theorem C05_failed_allocation_touches_nothing : forall g a b p p', alloc_slot g a b p = (None, p') ->
  free_list p' = free_list p /\ (forall k pk, nth_error (pools p) k = Some pk -> nth_error (pools p') k = Some pk).
Proof. exact failed_alloc_keeps_slots. Qed.
Print Assumptions C05_failed_allocation_touches_nothing.

Theorem C05_failure_sets_overflowed : forall g s a b s',
  pstep g s (PAlloc a b) = (s', None) -> overflowed s' = true.
Proof.
  intros g s a b s' H. unfold pstep in H.
  destruct (alloc_slot g a b (pl s)) as [[id|] p']; inversion H; reflexivity.
Qed.
Print Assumptions C05_failure_sets_overflowed.

(* after clear() the allocator is as new, so the document works again as soon as allocation succeeds *)
Theorem C05_clear_recovers : forall g s, fst (pstep g s PClear) = ps0 g.
Proof. reflexivity. Qed.
Print Assumptions C05_clear_recovers.

(* at the level of one array / one object (Model/Collection.v): whichever allocator call fails — the pool table's,
   the pool's, the key string's — a failed insertion leaves the chain exactly as it was, reports overflow, and the
   state stays well formed; in particular an object never holds a key without its value *)
Theorem C05_failed_add_leaves_array_unchanged : forall g s fails s' n, good_geom g -> WF g s ->
  astep g s (AAdd fails) = (s', None, n) ->
  elements g s' = elements g s /\ overflowed (a_ps s') = true /\ lv (a_ps s') = lv (a_ps s).
Proof. exact add_fails_unchanged. Qed.
Print Assumptions C05_failed_add_leaves_array_unchanged.

Theorem C05_failed_member_add_leaves_object_unchanged : forall g s fails s' n, good_geom g -> WF g s ->
  astep g s (OAdd fails) = (s', None, n) ->
  elements g s' = elements g s /\ overflowed (a_ps s') = true.
Proof. exact oadd_fails_unchanged. Qed.
Print Assumptions C05_failed_member_add_leaves_object_unchanged.

Theorem C05_no_member_without_value : forall g ops, good_geom g -> Forall object_op ops ->
  WF g (fst (arun g ops)) /\ Nat.Even (length (elements g (fst (arun g ops)))).
Proof. exact arun_wf_object. Qed.
Print Assumptions C05_no_member_without_value.

(* well-formedness survives every operation under every failure pattern *)
Theorem C05_chain_invariant_step : forall g s o, good_geom g -> WF g s -> op_ok g s o -> WF g (fst (fst (astep g s o))).
Proof. exact WF_step. Qed.
Print Assumptions C05_chain_invariant_step.

Example C05_example :   (* the pool's own allocation fails, then succeeds: ids restart cleanly *)
  let g := {| id_bits := 8; pool_cap := 4; inline_pools := 1 |} in
  snd (prun g [PAlloc true false; PAlloc true true; PAlloc false true; PAlloc true true]) = [None; Some 4; Some 5; Some 6].
Proof. vm_compute. reflexivity. Qed.

(* ---- copying a value (dst.set(src), JsonArray::set, JsonObject::set) when only b more slots can be had: Model/CopyBudget.v,
   compared with the library for every budget (result, destination, slots still free afterwards) ---- *)

(* the copy is complete exactly when the slots suffice, and then it is the source and uses exactly its number of slots *)
Theorem C05_copy_complete_iff_enough_slots : forall v b,
  (snd (copy_budget v b) = true <-> (slots v <= b)%nat) /\
  ((slots v <= b)%nat -> copy_budget v b = (v, (b - slots v)%nat, true)).
Proof. intros v b. split; [apply copy_complete_iff | apply copy_enough]. Qed.
Print Assumptions C05_copy_complete_iff_enough_slots.

(* a failed copy leaves a truncation of the source: arrays cut after a whole element, objects cut after a whole member or
   after a member that itself holds a truncation — same keys, every member with a value *)
Theorem C05_failed_copy_leaves_a_truncation : forall v b, trunc (fst (fst (copy_budget v b))) v.
Proof. exact copy_trunc. Qed.
Print Assumptions C05_failed_copy_leaves_a_truncation.

(* slots are conserved up to one: what the destination holds plus what is still free is b or b - 1 (the key slot that
   addMember does not give back), and exactly b when the copy succeeds *)
Theorem C05_failed_copy_loses_at_most_one_slot : forall v b,
  let '(p, r, ok) := copy_budget v b in
  (r + slots p <= b)%nat /\ (b <= r + slots p + 1)%nat /\ (ok = true -> (r + slots p)%nat = b).
Proof. exact copy_conserve. Qed.
Print Assumptions C05_failed_copy_loses_at_most_one_slot.

Theorem C05_copy_lost_slot_characterised : forall v b,
  loses v b <-> b = (snd (fst (copy_budget v b)) + slots (fst (fst (copy_budget v b))) + 1)%nat.
Proof. exact copy_lost_iff. Qed.
Print Assumptions C05_copy_lost_slot_characterised.

(* more slots only extend what is copied *)
Theorem C05_more_slots_only_extend_the_copy : forall v b b', (b <= b')%nat ->
  trunc (fst (fst (copy_budget v b))) (fst (fst (copy_budget v b'))).
Proof. exact copy_mono. Qed.
Print Assumptions C05_more_slots_only_extend_the_copy.

Theorem C05_failed_copy_is_strictly_smaller : forall v b,
  snd (copy_budget v b) = false ->
  (slots (fst (fst (copy_budget v b))) < slots v)%nat /\ fst (fst (copy_budget v b)) <> v.
Proof. exact copy_fail_strict. Qed.
Print Assumptions C05_failed_copy_is_strictly_smaller.

(* ---- reading a document (deserializeJson / deserializeMsgPack) when only b slots can be had: read_budget, compared with
   the library's two readers for budgets 0, C, 2C, ... (C = pool capacity; pool blocks refused by their size) ---- *)

(* Ok exactly when the slots suffice — then the document is the whole value — otherwise NoMemory *)
Theorem C05_read_ok_iff_enough_slots : forall v b,
  (snd (read_budget v b) = true <-> (slots v <= b)%nat) /\
  ((slots v <= b)%nat -> read_budget v b = (v, (b - slots v)%nat, true)).
Proof. intros v b. split; [apply read_ok_iff | apply read_enough]. Qed.
Print Assumptions C05_read_ok_iff_enough_slots.

(* after NoMemory the document is a truncation of the value in reading order: whole elements / members, the last one
   possibly itself a truncation; same keys, every member with a value; strictly smaller than the whole *)
Theorem C05_nomemory_leaves_a_truncation : forall v b, rtrunc (fst (fst (read_budget v b))) v.
Proof. exact read_rtrunc. Qed.
Print Assumptions C05_nomemory_leaves_a_truncation.

Theorem C05_nomemory_is_strictly_smaller : forall v b,
  snd (read_budget v b) = false ->
  (slots (fst (fst (read_budget v b))) < slots v)%nat /\ fst (fst (read_budget v b)) <> v.
Proof. exact read_fail_strict. Qed.
Print Assumptions C05_nomemory_is_strictly_smaller.

Theorem C05_read_loses_at_most_one_slot : forall v b,
  let '(p, r, ok) := read_budget v b in
  (r + slots p <= b)%nat /\ (b <= r + slots p + 1)%nat /\ (ok = true -> (r + slots p)%nat = b).
Proof. exact read_conserve. Qed.
Print Assumptions C05_read_loses_at_most_one_slot.

Theorem C05_more_slots_only_extend_what_is_read : forall v b b', (b <= b')%nat ->
  rtrunc (fst (fst (read_budget v b))) (fst (fst (read_budget v b'))).
Proof. exact read_mono. Qed.
Print Assumptions C05_more_slots_only_extend_what_is_read.

(* copying and reading succeed for the same budgets; on failure the copy keeps no more than the reader (it rolls
   half-copied array elements back, the reader keeps what it read) *)
Theorem C05_copy_and_read_agree_on_success : forall v b, snd (copy_budget v b) = snd (read_budget v b).
Proof. exact copy_read_ok. Qed.
Print Assumptions C05_copy_and_read_agree_on_success.

Theorem C05_copy_keeps_no_more_than_read : forall v b,
  rtrunc (fst (fst (copy_budget v b))) (fst (fst (read_budget v b))).
Proof. exact copy_rtrunc_read. Qed.
Print Assumptions C05_copy_keeps_no_more_than_read.
