(* Properties_C05.v — C05: allocation failure is reported and never corrupts the document.
   Level: fault enumeration on the library (every single-failure and fail-from position of generated scenarios);
   the theorems below are the part of the argument that lives in the slot allocator, for EVERY failure pattern. *)
From Coq Require Import NArith List Bool.
From AJ Require Import Model.Base Model.Pool Proofs.PoolProofs Model.Collection Proofs.CollProofs.
Local Open Scope N_scope.

(* whatever the allocator answers, at whatever calls, the allocator's invariant holds: ids valid, live slots
   distinct, pool table within bounds — no failure pattern can corrupt the slot bookkeeping *)
Theorem C05_invariant_under_any_failures : forall g ops, good_geom g ->
  NoDup (lv (fst (prun g ops))) /\
  (forall id, In (Some id) (snd (prun g ops)) -> id < null_slot g) /\
  count (pl (fst (prun g ops))) <= max_pools g.
Proof.
  intros g ops H. split; [exact (live_distinct g ops H)|]. split; [exact (alloc_below_null g ops H)|exact (count_bounded g ops H)].
Qed.
Print Assumptions C05_invariant_under_any_failures.

(* a failed allocation is reported (None => overflowed is set by pstep) and leaves every existing slot alone *)
Theorem C05_failed_allocation_touches_nothing : forall g a b p p', alloc_slot g a b p = (None, p') ->
  free_list p' = free_list p /\ (forall k pk, nth_error (pools p) k = Some pk -> nth_error (pools p') k = Some pk).
Proof. exact failed_alloc_keeps_slots. Qed.
Print Assumptions C05_failed_allocation_touches_nothing.

Theorem C05_failure_sets_overflowed : forall g s a b s',
  pstep g s (PAlloc a b) = (s', None) -> overflowed s' = true.
Proof.
  intros g s a b s' H. unfold pstep in H.
  destruct (alloc_slot g a b (pl s)) as [[id|] p']; inversion H; reflexivity.
Qed.
Print Assumptions C05_failure_sets_overflowed.

(* after clear() the allocator is as new, so the document works again as soon as allocation succeeds *)
Theorem C05_clear_recovers : forall g s, fst (pstep g s PClear) = ps0 g.
Proof. reflexivity. Qed.
Print Assumptions C05_clear_recovers.

(* at the level of one array / one object (Model/Collection.v): whichever allocator call fails — the pool table's,
   the pool's, the key string's — a failed insertion leaves the chain exactly as it was, reports overflow, and the
   state stays well formed; in particular an object never holds a key without its value *)
Theorem C05_failed_add_leaves_array_unchanged : forall g s fails s' n, good_geom g -> WF g s ->
  astep g s (AAdd fails) = (s', None, n) ->
  elements g s' = elements g s /\ overflowed (a_ps s') = true /\ lv (a_ps s') = lv (a_ps s).
Proof. exact add_fails_unchanged. Qed.
Print Assumptions C05_failed_add_leaves_array_unchanged.

Theorem C05_failed_member_add_leaves_object_unchanged : forall g s fails s' n, good_geom g -> WF g s ->
  astep g s (OAdd fails) = (s', None, n) ->
  elements g s' = elements g s /\ overflowed (a_ps s') = true.
Proof. exact oadd_fails_unchanged. Qed.
Print Assumptions C05_failed_member_add_leaves_object_unchanged.

Theorem C05_no_member_without_value : forall g ops, good_geom g -> Forall object_op ops ->
  WF g (fst (arun g ops)) /\ Nat.Even (length (elements g (fst (arun g ops)))).
Proof. exact arun_wf_object. Qed.
Print Assumptions C05_no_member_without_value.

(* well-formedness survives every operation under every failure pattern *)
Theorem C05_chain_invariant_step : forall g s o, good_geom g -> WF g s -> op_ok g s o -> WF g (fst (fst (astep g s o))).
Proof. exact WF_step. Qed.
Print Assumptions C05_chain_invariant_step.

Example C05_example :   (* the pool's own allocation fails, then succeeds: ids restart cleanly *)
  let g := {| id_bits := 8; pool_cap := 4; inline_pools := 1 |} in
  snd (prun g [PAlloc true false; PAlloc true true; PAlloc false true; PAlloc true true]) = [None; Some 4; Some 5; Some 6].
Proof. vm_compute. reflexivity. Qed.
