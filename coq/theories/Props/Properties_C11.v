(* Properties_C11.v — C11: filtering equals projecting the unfiltered result (JSON reader, then the MessagePack
   reader). *)
From Coq Require Import NArith ZArith List Bool.
From AJ Require Import Model.Base Model.Value Model.JsonParse.
From AJ Require Import Spec.Rfc8259 Spec.ParseSpec Spec.FilterSpec Proofs.Lex Proofs.ParseComplete Proofs.FilterProofs.
From AJ Require Import Model.MsgPack Spec.MsgPackSpec Proofs.MsgPackFilter.

(* for every text of the grammar (within the limits: nesting, 63-character numbers, strings and keys of at most
   65535 decoded bytes — for the discarded parts the last limit is stronger than needed, they are skipped, not
   stored) and EVERY filter document f, the filtered run succeeds
   and yields exactly project f v, where v is what the unfiltered run yields (C01_valid_json_denotes) and
   project (Spec/FilterSpec.v) is written from the property text: true keeps; object filters keep listed
   members with a true-ish entry, "*" for unlisted keys; array filters apply their first element; null/false
   removes; a kept value whose kind the filter does not admit becomes null.  Repeated keys included. *)
Theorem C11_filtering_is_projection : forall cf, decode_unicode cf = true ->
  forall d i v, jtextD (num_den cf) d i v -> forall f L, (d <= L)%nat ->
  j_err (json_run cf (Some f) L i) = Ok /\ j_doc (json_run cf (Some f) L i) = project f v.
Proof. exact json_run_filtered. Qed.
Print Assumptions C11_filtering_is_projection.

Theorem C11_unfiltered_reference : forall cf, decode_unicode cf = true ->
  forall d i v, jtextD (num_den cf) d i v -> forall L, (d <= L)%nat ->
  j_err (json_run cf None L i) = Ok /\ j_doc (json_run cf None L i) = v.
Proof. exact json_run_complete. Qed.
Print Assumptions C11_unfiltered_reference.

(* the filter `true` is the identity on EVERY input, malformed ones included: same code, same (partial)
   document, same bytes consumed *)
Theorem C11_true_is_identity : forall cf L i, json_run cf (Some (JBool true)) L i = json_run cf None L i.
Proof. exact json_run_filter_true. Qed.
Print Assumptions C11_true_is_identity.

(* discarded values are skipped rather than parsed — and the skip path accepts every text of the grammar,
   consuming exactly it *)
Theorem C11_discarded_values_are_skipped : forall cf, decode_unicode cf = true ->
  forall d t v, jvalueD (num_den cf) d t v ->
  forall L fuel s rest, (d <= L)%nat -> good s -> stream s = t ++ rest -> delimiter cf rest ->
    (length (t ++ rest) < fuel)%nat ->
    exists s', skip_variant cf fuel L s = (Ok, s') /\ post s' rest /\ found s' = true.
Proof. exact skip_variant_complete. Qed.
Print Assumptions C11_discarded_values_are_skipped.

(* ---- MessagePack reader: for EVERY legal encoding b (Spec/MsgPackSpec.v: every width of every family) of an object v
   within the size limits and EVERY filter document f, the filtered run consumes exactly b and yields project f of what
   the unfiltered run yields (C09_decodes_every_legal_encoding) ---- *)
Theorem C11_msgpack_filtering_is_projection : forall cf v b, MpEnc v b -> mp_limits v -> forall f L rest,
  (mpv_depth v <= L)%nat ->
  mp_run cf (Some f) L (b ++ rest) =
    {| mp_err := Ok; mp_doc := project f (mp_den (use_double cf) v);
       mp_rd := {| m_rest := rest; m_reads := N.of_nat (length b) |} |}.
Proof. exact mp_run_filtered_is_projection. Qed.
Print Assumptions C11_msgpack_filtering_is_projection.

(* only what the filter keeps (and every key) has to fit the size limits: a 65536-byte string in a discarded member
   is skipped, not refused *)
Theorem C11_msgpack_filtering_is_projection_under : forall cf v b f, MpEnc v b -> mp_limits_under f v ->
  forall L dst rest k, (mpv_depth v <= L)%nat ->
  mp_parse cf L (Some f) dst {| m_rest := b ++ rest; m_reads := k |}
    = (Ok, project f (mp_den (use_double cf) v), {| m_rest := rest; m_reads := (k + N.of_nat (length b))%N |}).
Proof. exact mp_filtered_is_projection_under. Qed.
Print Assumptions C11_msgpack_filtering_is_projection_under.

(* a filter equal to true changes nothing, on EVERY input (malformed included) *)
Theorem C11_msgpack_true_is_identity : forall cf f, equals_true f = true ->
  forall L i, mp_run cf (Some f) L i = mp_run cf None L i.
Proof. exact mp_run_filter_equals_true. Qed.
Print Assumptions C11_msgpack_true_is_identity.

(* a discarded value is skipped: consumed exactly, nothing built, strings / bin / ext of any size *)
Theorem C11_msgpack_discarded_values_are_skipped : forall cf v b, MpEnc v b -> mp_limits_skip v ->
  forall f L dst rest k, f_allow (Some f) = false -> (mpv_depth v <= L)%nat ->
  mp_parse cf L (Some f) dst {| m_rest := b ++ rest; m_reads := k |}
    = (Ok, JNull, {| m_rest := rest; m_reads := (k + N.of_nat (length b))%N |}).
Proof. exact mp_discarded_values_are_skipped. Qed.
Print Assumptions C11_msgpack_discarded_values_are_skipped.

Example C11_example :   (* {"a":1,"b":{"c":2,"d":3},"e":[1,2]} filtered by {"b":{"c":true},"*":false,"e":[false]} *)
  project (JObj [([98%N], JObj [([99%N], JBool true)]); ([42%N], JBool false); ([101%N], JArr [JBool false])])
          (JObj [([97%N], JInt 1); ([98%N], JObj [([99%N], JInt 2); ([100%N], JInt 3)]); ([101%N], JArr [JInt 1; JInt 2])])
  = JObj [([98%N], JObj [([99%N], JInt 2)]); ([101%N], JArr [])].
Proof. vm_compute. reflexivity. Qed.
