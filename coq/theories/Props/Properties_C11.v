(* Properties_C11.v — C11: filtering equals projecting the unfiltered result (JSON reader; the MessagePack
   reader is tied by correspondence and the independent projection oracle). *)
From Coq Require Import NArith ZArith List Bool.
From AJ Require Import Model.Base Model.Value Model.JsonParse.
From AJ Require Import Spec.Rfc8259 Spec.ParseSpec Spec.FilterSpec Proofs.Lex Proofs.ParseComplete Proofs.FilterProofs.

(* for every text of the grammar (within the limits) and EVERY filter document f, the filtered run succeeds
   and yields exactly project f v, where v is what the unfiltered run yields (C01_valid_json_denotes) and
   project (Spec/FilterSpec.v) is written from the property text: true keeps; object filters keep listed
   members with a true-ish entry, "*" for unlisted keys; array filters apply their first element; null/false
   removes; a kept value whose kind the filter does not admit becomes null.  Repeated keys included. *)
Theorem C11_filtering_is_projection : forall cf, decode_unicode cf = true ->
  forall d i v, jtextD (num_den cf) d i v -> forall f L, (d <= L)%nat ->
  j_err (json_run cf (Some f) L i) = Ok /\ j_doc (json_run cf (Some f) L i) = project f v.
Proof. exact json_run_filtered. Qed.
Print Assumptions C11_filtering_is_projection.

Theorem C11_unfiltered_reference : forall cf, decode_unicode cf = true ->
  forall d i v, jtextD (num_den cf) d i v -> forall L, (d <= L)%nat ->
  j_err (json_run cf None L i) = Ok /\ j_doc (json_run cf None L i) = v.
Proof. exact json_run_complete. Qed.
Print Assumptions C11_unfiltered_reference.

(* the filter `true` is the identity on EVERY input, malformed ones included: same code, same (partial)
   document, same bytes consumed *)
Theorem C11_true_is_identity : forall cf L i, json_run cf (Some (JBool true)) L i = json_run cf None L i.
Proof. exact json_run_filter_true. Qed.
Print Assumptions C11_true_is_identity.

(* discarded values are skipped rather than parsed — and the skip path accepts every text of the grammar,
   consuming exactly it *)
Theorem C11_discarded_values_are_skipped : forall cf, decode_unicode cf = true ->
  forall d t v, jvalueD (num_den cf) d t v ->
  forall L fuel s rest, (d <= L)%nat -> good s -> stream s = t ++ rest -> delimiter cf rest ->
    (length (t ++ rest) < fuel)%nat ->
    exists s', skip_variant cf fuel L s = (Ok, s') /\ post s' rest /\ found s' = true.
Proof. exact skip_variant_complete. Qed.
Print Assumptions C11_discarded_values_are_skipped.

Example C11_example :   (* {"a":1,"b":{"c":2,"d":3},"e":[1,2]} filtered by {"b":{"c":true},"*":false,"e":[false]} *)
  project (JObj [([98%N], JObj [([99%N], JBool true)]); ([42%N], JBool false); ([101%N], JArr [JBool false])])
          (JObj [([97%N], JInt 1); ([98%N], JObj [([99%N], JInt 2); ([100%N], JInt 3)]); ([101%N], JArr [JInt 1; JInt 2])])
  = JObj [([98%N], JObj [([99%N], JInt 2)]); ([101%N], JArr [])].
Proof. vm_compute. reflexivity. Qed.
