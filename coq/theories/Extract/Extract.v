(* Extract.v — extraction of the executable model to OCaml.
   Only ExtrOcamlBasic is used (its Extract Inductive directives for bool, option, unit, list,
   prod, sumbool, sumor are the only ones in force; no Extract Constant).  Z, N, positive and
   nat stay the extracted inductive types. *)
From Coq Require Extraction.
From Coq Require Import ExtrOcamlBasic.
From Coq Require Import ZArith NArith.
From AJ Require Import Model.Base Model.FloatModel Model.Value Model.Utf Model.NumParse
  Model.JsonParse Model.JsonSer Model.MsgPack Model.Stream Model.Convert Model.Compare Model.Tree Model.Chain Model.Pool Model.Collection Model.MsgPackTypes Model.StrBuild Model.CopyBudget.
Extraction Language OCaml.
Extraction "model.ml"
  N.div_eucl Z.div_eucl Z.of_N Z.to_N N.of_nat N.to_nat Z.opp N.mul N.add Z.mul Z.add Z.sub
  bits_of_sf sf_of_bits F32 F64
  encode_codepoint cp_append cp_init write_string write_char escape_char unescape_char decode_hex
  parse_number json_run default_cfg
  ser ser_pretty write_to_buffer write_int write_f32 write_f64 jv_of_double assoc_set
  mp_ser mp_run json_stream mp_stream
  as_int as_float is_int is_float I8 U8 I16 U16 I32 U32 I64 U64
  compare op_eq op_ne op_lt op_le op_gt op_ge
  init_world step live get doc_of to_jv ids invalidates_handles set_on_unbound chain_get chain_set add_typed nest_typed doc_move proxy_assign get_or_add_level get_level
  ps0 pstep alloc_from_last max_pools count sp_add sp_deref sp_refs
  a_init astep elements
  sb_init sb_step n_content bf_init bf_step
  copy_budget slots read_budget
  copy_array_1d copy_array_2d copy_string
  mp_binary_raw mp_extension_raw mp_binary_of_raw mp_extension_of_raw.
