(* NumParse.v — mirrors Numbers/parseNumber.hpp and make_float (Numbers/FloatTraits.hpp).
   Definitions only.  The input is the C string up to (not including) its NUL. *)
From Coq Require Import ZArith NArith Bool List.
From Coq Require Import Floats.SpecFloat.
From AJ Require Import Model.Base Model.FloatModel Model.Value.
Local Open Scope Z_scope.

Inductive number :=
| NumInvalid
| NumFault                          (* make_float indexed its table out of bounds *)
| NumUInt (z : Z)
| NumSInt (z : Z)
| NumFloat (f : spec_float)        (* NumberType::Float  *)
| NumDouble (f : spec_float).      (* NumberType::Double *)

(* powers-of-ten tables, as IEEE bit patterns (FloatTraits<T,8> / FloatTraits<T,4>);
   Gen/Tables.v re-reads them from the source and Proofs check they agree *)
Definition pos_pow10_64 : list Z :=
  [0x4024000000000000; 0x4059000000000000; 0x40C3880000000000; 0x4197D78400000000;
   0x4341C37937E08000; 0x4693B8B5B5056E17; 0x4D384F03E93FF9F5; 0x5A827748F9301D32;
   0x75154FDD7F73BF3C].
Definition neg_pow10_64 : list Z :=
  [0x3FB999999999999A; 0x3F847AE147AE147B; 0x3F1A36E2EB1C432D; 0x3E45798EE2308C3A;
   0x3C9CD2B297D889BC; 0x3949F623D5A8A733; 0x32A50FFD44F4A73D; 0x255BBA08CF8C979D;
   0x0AC8062864AC6F43].
Definition pos_pow10_32 : list Z :=
  [0x41200000; 0x42c80000; 0x461c4000; 0x4cbebc20; 0x5a0e1bca; 0x749dc5ae].
Definition neg_pow10_32 : list Z :=
  [0x3dcccccd; 0x3c23d70a; 0x38d1b717; 0x322bcc77; 0x24e69595; 0x0a4fb11f].

Definition pow10_table (f : fmt) (positive : bool) : list spec_float :=
  map (sf_of_bits f)
      (if Z.eqb (mw f) 52 then (if positive then pos_pow10_64 else neg_pow10_64)
       else (if positive then pos_pow10_32 else neg_pow10_32)).

(* make_float: None = the loop indexes the table past its end (out-of-bounds read in C++) *)
Fixpoint make_float_loop (f : fmt) (tbl : list spec_float) (fuel : nat) (m : spec_float) (e : Z)
  : option spec_float :=
  if Z.eqb e 0 then Some m else
  match fuel with
  | O => None
  | S fuel' =>
      match tbl with
      | [] => None
      | p :: tbl' =>
          let m' := if Z.odd e then fmul f m p else m in
          make_float_loop f tbl' fuel' m' (Z.shiftr e 1)
      end
  end.

Definition make_float (f : fmt) (m : spec_float) (e : Z) : option spec_float :=
  let tbl := pow10_table f (0 <? e) in
  let e' := if e <=? 0 then - e else e in
  make_float_loop f tbl 64 m e'.

Definition is_digit (b : N) : bool := (48 <=? b)%N && (b <=? 57)%N.
Definition digit_val (b : N) : Z := Z.of_N b - 48.

Definition maxUint : Z := 2 ^ 64 - 1.

(* first loop: accumulate digits into the uint64 mantissa with the two overflow guards.
   Returns (mantissa, rest). *)
Fixpoint scan_int (s : bytes) (mant : Z) : Z * bytes :=
  match s with
  | b :: t =>
      if is_digit b then
        if mant >? maxUint / 10 then (mant, s)
        else if mant * 10 >? maxUint - digit_val b then (mant, s)
        else scan_int t (mant * 10 + digit_val b)
      else (mant, s)
  | [] => (mant, s)
  end.

Fixpoint shrink_mantissa (fuel : nat) (mant_max mant expo : Z) : Z * Z :=
  match fuel with
  | O => (mant, expo)
  | S fuel' => if mant >? mant_max then shrink_mantissa fuel' mant_max (mant / 10) (expo + 1)
               else (mant, expo)
  end.

(* exponent_offset is an `int`; a literal would need 2^31 digits to wrap it, so it is modelled
   as an unbounded integer (stated in the trusted base) *)
Fixpoint skip_digits (s : bytes) (expo : Z) : Z * bytes :=
  match s with
  | b :: t => if is_digit b then skip_digits t (expo + 1) else (expo, s)
  | [] => (expo, s)
  end.

Fixpoint scan_frac (mant_max : Z) (s : bytes) (mant expo : Z) : Z * Z * bytes :=
  match s with
  | b :: t =>
      if is_digit b then
        if mant <? mant_max / 10
        then scan_frac mant_max t (mant * 10 + digit_val b) (expo - 1)
        else scan_frac mant_max t mant expo
      else (mant, expo, s)
  | [] => (mant, expo, s)
  end.

(* exponent digits, accumulated with saturation *)
Fixpoint scan_exp (s : bytes) (expo : Z) : Z * bytes :=
  match s with
  | b :: t =>
      if is_digit b then scan_exp t (if expo <? 10000 then expo * 10 + digit_val b else expo)
      else (expo, s)
  | [] => (expo, s)
  end.

Definition jfmt (c : cfg) : fmt := if use_double c then F64 else F32.
Definition mk_jfloat (c : cfg) (f : spec_float) : number :=
  if use_double c then NumDouble f else NumFloat f.

Definition hd0 (s : bytes) : N := match s with b :: _ => b | [] => 0%N end.

Definition parse_number (c : cfg) (s0 : bytes) : number :=
  let mant_max := if use_double c then 2 ^ 52 - 1 else 2 ^ 23 - 1 in
  let exp_max := if use_double c then 308 else 38 in
  let '(neg, s) := match s0 with
                   | 45%N :: t => (true, t)
                   | 43%N :: t => (false, t)
                   | _ => (false, s0)
                   end in
  if enable_nan c && ((hd0 s =? 110)%N || (hd0 s =? 78)%N) then mk_jfloat c S754_nan
  else if enable_inf c && ((hd0 s =? 105)%N || (hd0 s =? 73)%N)
  then mk_jfloat c (S754_infinity neg)
  else if negb (is_digit (hd0 s)) && negb (hd0 s =? 46)%N then NumInvalid
  else
    let '(mant, s) := scan_int s 0 in
    let as_int :=
      match s with
      | [] => if neg then (if mant <=? 2 ^ 63 then Some (NumSInt (- mant)) else None)
              else Some (NumUInt mant)
      | _ => None
      end in
    match as_int with
    | Some r => r
    | None =>
        let '(mant, expoff) := shrink_mantissa 30 mant_max mant 0 in
        let '(expoff, s) := skip_digits s expoff in
        let '(mant, expoff, s) :=
          match s with
          | 46%N :: t => scan_frac mant_max t mant expoff
          | _ => (mant, expoff, s)
          end in
        let go (expo : Z) (s : bytes) : number :=
          let expo := expo + expoff in
          match s with
          | _ :: _ => NumInvalid
          | [] =>
              if mant =? 0 then NumFloat (S754_zero neg)
              else if expo >? exp_max then mk_jfloat c (S754_infinity neg)
              else if expo <? - exp_max - 20 then NumFloat (S754_zero neg)
              else
              let sgn (r : spec_float) := if neg then fneg r else r in
              let as_double :=
                match make_float F64 (f_of_Z F64 mant) expo with
                | Some r => NumDouble (sgn r)
                | None => NumFault
                end in
              if use_double c then
                if (expo <? -38) || (expo >? 38) || (mant >? 2 ^ 23 - 1) then as_double
                else
                  match make_float F32 (f_of_Z F32 mant) expo with
                  | Some r => if is_inf r then as_double else NumFloat (sgn r)
                  | None => NumFault
                  end
              else
                match make_float F32 (f_of_Z F32 mant) expo with
                | Some r => NumFloat (sgn r)
                | None => NumFault
                end
          end in
        match s with
        | b :: t =>
            if (b =? 101)%N || (b =? 69)%N then
              let '(negexp, t) := match t with
                                  | 45%N :: t' => (true, t')
                                  | 43%N :: t' => (false, t')
                                  | _ => (false, t)
                                  end in
              let '(e, t) := scan_exp t 0 in
              go (if negexp then - e else e) t
            else go 0 s
        | [] => go 0 s
        end
    end.

