(* Value.v — the document as a plain ordered tree, and the build configuration. *)
From Coq Require Import ZArith Bool List.
From Coq Require Import Floats.SpecFloat.
From AJ Require Import Model.Base Model.FloatModel.

Inductive jv :=
| JNull
| JBool (b : bool)
| JInt (z : Z)                 (* -2^63 <= z < 2^64; storage width is not observable *)
| JFloat (f : spec_float)      (* stored as binary32 *)
| JDouble (f : spec_float)     (* stored as binary64 *)
| JStr (s : bytes)
| JRaw (s : bytes)
| JArr (l : list jv)
| JObj (l : list (bytes * jv)).

(* build configuration (the ARDUINOJSON_* macros that change behaviour) *)
Record cfg := {
  decode_unicode : bool;
  enable_comments : bool;
  enable_nan : bool;
  enable_inf : bool;
  use_double : bool;
}.

Definition default_cfg :=
  {| decode_unicode := true; enable_comments := false; enable_nan := false;
     enable_inf := false; use_double := true |}.

(* VariantData::asBoolean *)
Definition truthy (v : jv) : bool :=
  match v with
  | JNull => false
  | JBool b => b
  | JInt z => negb (Z.eqb z 0)
  | JFloat f | JDouble f => f_ne f f_zero
  | _ => true
  end.

(* `variant == true` : Comparer<bool> -> arithmeticCompare(lhs, true) on bool/integer/float *)
Definition equals_true (v : jv) : bool :=
  match v with
  | JBool b => b
  | JInt z => Z.eqb z 1
  | JFloat f => f_eq (fconv F64 f) (f_of_Z F64 1)
  | JDouble f => f_eq f (f_of_Z F64 1)
  | _ => false
  end.

(* VariantData::setFloat(double): stored as a float when the value survives the narrowing *)
Definition jv_of_double (use_dbl : bool) (f : spec_float) : jv :=
  let g := fconv F32 f in
  if use_dbl then (if f_eq f (fconv F64 g) then JFloat g else JDouble f)
  else JFloat g.

Definition is_arr (v : jv) := match v with JArr _ => true | _ => false end.
Definition is_obj (v : jv) := match v with JObj _ => true | _ => false end.

Fixpoint assoc_get (k : bytes) (l : list (bytes * jv)) : option jv :=
  match l with
  | [] => None
  | (k', v) :: t => if bytes_eqb k k' then Some v else assoc_get k t
  end.

Fixpoint assoc_set (k : bytes) (v : jv) (l : list (bytes * jv)) : list (bytes * jv) :=
  match l with
  | [] => [(k, v)]
  | (k', v') :: t => if bytes_eqb k k' then (k', v) :: t else (k', v') :: assoc_set k v t
  end.

Fixpoint nesting (v : jv) : nat :=
  match v with
  | JArr l => S (fold_right (fun x m => Nat.max (nesting x) m) 0 l)
  | JObj l => S (fold_right (fun x m => Nat.max (nesting (snd x)) m) 0 l)
  | _ => 0
  end.
