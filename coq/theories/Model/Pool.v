(* Pool.v — mirrors Memory/MemoryPool.hpp and Memory/MemoryPoolList.hpp (slot allocator: pools of
   ARDUINOJSON_POOL_CAPACITY slots, a table of pools that starts inline and doubles on the heap up to
   maxPools, an intrusive free list, shrinkToFit) and Memory/StringPool.hpp (de-duplicated, reference-counted
   copied strings).  The geometry is a parameter.  Definitions only. *)
From Coq Require Import NArith Bool List.
From AJ Require Import Model.Base.
Local Open Scope N_scope.

Record geom := { id_bits : N;        (* 8 * ARDUINOJSON_SLOT_ID_SIZE *)
                 pool_cap : N;       (* ARDUINOJSON_POOL_CAPACITY *)
                 inline_pools : N }. (* ARDUINOJSON_INITIAL_POOL_COUNT *)

Definition null_slot (g : geom) : N := 2 ^ id_bits g - 1.
(* number of pools needed to hold NULL_SLOT slots (ids 0 .. NULL_SLOT-1) *)
Definition max_pools (g : geom) : N :=
  null_slot g / pool_cap g + (if null_slot g mod pool_cap g =? 0 then 0 else 1).

Record pool := { p_cap : N;      (* capacity_; 0 when create() could not allocate *)
                 p_usage : N }.

Record plist := { pools : list pool;      (* pools_[0 .. count_-1] *)
                  table_cap : N;          (* capacity_ *)
                  on_heap : bool;         (* pools_ != preallocatedPools_ *)
                  free_list : list N }.   (* freeList_ followed through the free slots *)

Definition pl_init (g : geom) : plist :=
  {| pools := []; table_cap := inline_pools g; on_heap := false; free_list := [] |}.

Definition count (p : plist) : N := N.of_nat (length (pools p)).

(* allocFromLastPool *)
Definition alloc_from_last (g : geom) (p : plist) : option (N * plist) :=
  match rev (pools p) with
  | [] => None
  | last :: before =>
      if (p_cap last =? 0) || (p_cap last <=? p_usage last) then None
      else
        let id := (count p - 1) * pool_cap g + p_usage last in
        Some (id, {| pools := rev before ++ [{| p_cap := p_cap last; p_usage := p_usage last + 1 |}];
                     table_cap := table_cap p; on_heap := on_heap p; free_list := free_list p |})
  end.

(* capacity of the pool that becomes number [n] (1-based): the last possible one only holds the ids that
   remain below NULL_SLOT *)
Definition new_pool_cap (g : geom) (n : N) : N :=
  if n =? max_pools g then null_slot g - (max_pools g - 1) * pool_cap g else pool_cap g.

(* addPool.  ok_table / ok_pool: whether the allocator satisfies the request for the pool table (only
   consulted when the table must grow) and for the pool's slots.  Returns None when no pool was added. *)
Definition add_pool (g : geom) (ok_table ok_pool : bool) (p : plist) : option plist :=
  if max_pools g <=? count p then None
  else
    let grown : option (N * bool) :=
      if count p =? table_cap p then
        if table_cap p =? max_pools g then None
        else if ok_table then
          Some ((if table_cap p <? max_pools g / 2 then table_cap p * 2 else max_pools g), true)
        else None
      else Some (table_cap p, on_heap p) in
    match grown with
    | None => None
    | Some (tc, oh) =>
        let n := count p + 1 in
        let c := new_pool_cap g n in
        Some {| pools := pools p ++ [{| p_cap := (if ok_pool then c else 0); p_usage := 0 |}];
                table_cap := tc; on_heap := oh; free_list := free_list p |}
    end.

(* allocSlot: free list first, then the last pool, then a new pool *)
Definition alloc_slot (g : geom) (ok_table ok_pool : bool) (p : plist) : option N * plist :=
  match free_list p with
  | id :: rest => (Some id, {| pools := pools p; table_cap := table_cap p; on_heap := on_heap p; free_list := rest |})
  | [] =>
      match alloc_from_last g p with
      | Some (id, p') => (Some id, p')
      | None =>
          match add_pool g ok_table ok_pool p with
          | None => (None, p)
          | Some p' =>
              match alloc_from_last g p' with
              | Some (id, p'') => (Some id, p'')
              | None => (None, p')
              end
          end
      end
  end.

Definition free_slot (id : N) (p : plist) : plist :=
  {| pools := pools p; table_cap := table_cap p; on_heap := on_heap p; free_list := id :: free_list p |}.

Definition pl_clear (g : geom) (p : plist) : plist := pl_init g.

(* shrinkToFit: the last pool keeps only its used slots; a heap table is cut down to count_ *)
Definition pl_shrink (p : plist) : plist :=
  let pools' := match rev (pools p) with
                | [] => []
                | last :: before => rev before ++ [{| p_cap := (if p_cap last =? 0 then 0 else p_usage last); p_usage := p_usage last |}]
                end in
  {| pools := pools';
     table_cap := (if on_heap p && negb (count p =? table_cap p) then count p else table_cap p);
     on_heap := on_heap p; free_list := free_list p |}.

(* a history of allocator-level operations; FreeNth k frees the k-th (mod the number of live slots) live slot *)
Inductive pop := PAlloc (ok_table ok_pool : bool) | PFreeNth (k : nat) | PShrink | PClear.

Record pstate := { pl : plist; lv : list N; overflowed : bool }.
Definition ps0 (g : geom) : pstate := {| pl := pl_init g; lv := []; overflowed := false |}.

Fixpoint remove_at {A} (k : nat) (l : list A) : list A :=
  match l, k with
  | [], _ => []
  | _ :: t, O => t
  | x :: t, S k' => x :: remove_at k' t
  end.

Definition pstep (g : geom) (s : pstate) (o : pop) : pstate * option N :=
  match o with
  | PAlloc a b =>
      match alloc_slot g a b (pl s) with
      | (Some id, p') => ({| pl := p'; lv := lv s ++ [id]; overflowed := overflowed s |}, Some id)
      | (None, p') => ({| pl := p'; lv := lv s; overflowed := true |}, None)
      end
  | PFreeNth k =>
      match lv s with
      | [] => (s, None)
      | _ =>
          let k' := Nat.modulo k (length (lv s)) in
          let id := nth k' (lv s) 0 in
          ({| pl := free_slot id (pl s); lv := remove_at k' (lv s); overflowed := overflowed s |}, Some id)
      end
  | PShrink => ({| pl := pl_shrink (pl s); lv := lv s; overflowed := overflowed s |}, None)
  | PClear => (ps0 g, None)
  end.

Definition prun (g : geom) (ops : list pop) : pstate * list (option N) :=
  fold_left (fun acc o => let '(s, outs) := acc in let '(s', r) := pstep g s o in (s', outs ++ [r])) ops (ps0 g, []).

(* ---- StringPool: copied strings, stored once, reference counted ---- *)
Definition spool := list (bytes * N).          (* (content, references) *)

Fixpoint sp_add (s : bytes) (p : spool) : spool :=      (* add(): existing node => references++ *)
  match p with
  | [] => [(s, 1)]
  | (t, n) :: r => if bytes_eqb s t then (t, n + 1) :: r else (t, n) :: sp_add s r
  end.

Fixpoint sp_deref (s : bytes) (p : spool) : spool :=    (* dereference(): last user gone => node destroyed *)
  match p with
  | [] => []
  | (t, n) :: r => if bytes_eqb s t then (if n =? 1 then r else (t, n - 1) :: r) else (t, n) :: sp_deref s r
  end.

Fixpoint sp_refs (s : bytes) (p : spool) : N :=
  match p with
  | [] => 0
  | (t, n) :: r => if bytes_eqb s t then n else sp_refs s r
  end.
