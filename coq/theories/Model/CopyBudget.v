(* CopyBudget.v — copying a value (dst.set(src), JsonArray::set, JsonObject::set, copyVariant) when the document can
   obtain only `b` more slots (every further pool allocation fails).
   Array/ArrayImpl.hpp  addValue: take a slot, copy the element into it, and on failure free the slot with everything under
                        it and stop — an array receives fully copied elements only;
   Object/JsonObject.hpp set: for every member obj[key].set(value): the member is created first (key slot + value slot; when
                        the second cannot be had the first is given back), then the value is copied into it — a member whose
                        value cannot be copied completely stays, holding what was copied, and the copy stops.
   Strings and keys of the same document are found in the string pool (no allocation). *)
From Coq Require Import List NArith ZArith Bool.
From AJ Require Import Model.Base Model.Value.
Import ListNotations.

(* a double, or an integer outside [-2^31, 2^32), keeps its 8 bytes in an extension slot (VariantData::setFloat(double),
   setInteger; doubles enabled): one more slot, and when it cannot be had the value stays null and the operation fails.
   (An integer in [2^31, 2^32) fits the 32-bit unsigned storage when it is given through an unsigned type, as the JSON reader and
   the unsigned MessagePack formats do; given through a signed 64-bit type it would take an extension slot: the correspondence run
   stays out of that range.) *)
Definition ext (v : jv) : nat :=
  match v with
  | JDouble _ => 1
  | JInt z => if (Z.ltb z (-2147483648) || Z.leb 4294967296 z)%bool then 1 else 0
  | _ => 0
  end.
Definition scalar_budget (v : jv) (b : nat) : jv * nat * bool :=
  match ext v with
  | O => (v, b, true)
  | S _ => match b with O => (JNull, O, false) | S b1 => (v, b1, true) end
  end.

(* slots a value occupies below its own slot *)
Fixpoint slots (v : jv) : nat :=
  match v with
  | JArr l => (fix go (l : list jv) : nat := match l with [] => O | e :: t => S (slots e) + go t end) l
  | JObj l => (fix go (l : list (bytes * jv)) : nat := match l with [] => O | (_, e) :: t => S (S (slots e)) + go t end) l
  | _ => ext v
  end.

(* the copy of v with b slots available: (what the destination holds afterwards, slots still available, complete?)
   ObjectData::addMember takes the key slot, then the value slot; when the second cannot be had it returns without giving the
   first back: that slot is neither in the object nor in the free list until clear() (a leak inside the pools, not towards the
   allocator) — hence "b = 1" below consumes the slot.  An array element whose copy fails is freed with everything that is
   reachable from it: the slots come back, except such a lost key slot. *)
Fixpoint copy_budget (v : jv) (b : nat) : jv * nat * bool :=
  match v with
  | JArr l =>
      (fix go (l : list jv) (acc : list jv) (b : nat) : jv * nat * bool :=
         match l with
         | [] => (JArr (rev_append acc []), b, true)
         | e :: t =>
             match b with
             | O => (JArr (rev_append acc []), O, false)                     (* no slot for the element *)
             | S b1 =>
                 let '(pe, b', ok) := copy_budget e b1 in
                 if ok then go t (pe :: acc) b'
                 else (JArr (rev_append acc []), S (b' + slots pe), false)   (* discarded: what was reachable comes back *)
             end
         end) l [] b
  | JObj l =>
      (fix go (l : list (bytes * jv)) (acc : list (bytes * jv)) (b : nat) : jv * nat * bool :=
         match l with
         | [] => (JObj (rev_append acc []), b, true)
         | (k, e) :: t =>
             match b with
             | O => (JObj (rev_append acc []), O, false)                     (* no room for the member: not created *)
             | S O => (JObj (rev_append acc []), O, false)                   (* key slot taken, value slot refused: the key slot is lost *)
             | S (S b2) =>
                 let '(pe, b', ok) := copy_budget e b2 in
                 if ok then go t ((k, pe) :: acc) b'
                 else (JObj (rev_append ((k, pe) :: acc) []), b', false)     (* the member stays with what was copied *)
             end
         end) l [] b
  | _ => scalar_budget v b
  end.

(* ---- reading a document (deserializeJson / deserializeMsgPack into a fresh document) when only b slots can be had:
   the readers take the slot of an element (ArrayData::addElement) or the two slots of a member (ObjectData::addMember, after
   the key was saved) FIRST and then read the value into it: nothing is rolled back, the element or member that was being read
   stays with what was read.  `v` is the value the input denotes (no repeated keys);
   result: (the document afterwards, slots still available, Ok?) — not Ok is NoMemory ---- *)
Fixpoint read_budget (v : jv) (b : nat) : jv * nat * bool :=
  match v with
  | JArr l =>
      (fix go (l : list jv) (acc : list jv) (b : nat) : jv * nat * bool :=
         match l with
         | [] => (JArr (rev_append acc []), b, true)
         | e :: t =>
             match b with
             | O => (JArr (rev_append acc []), O, false)
             | S b1 =>
                 let '(pe, b', ok) := read_budget e b1 in
                 if ok then go t (pe :: acc) b'
                 else (JArr (rev_append (pe :: acc) []), b', false)          (* the element stays with what was read *)
             end
         end) l [] b
  | JObj l =>
      (fix go (l : list (bytes * jv)) (acc : list (bytes * jv)) (b : nat) : jv * nat * bool :=
         match l with
         | [] => (JObj (rev_append acc []), b, true)
         | (k, e) :: t =>
             match b with
             | O => (JObj (rev_append acc []), O, false)
             | S O => (JObj (rev_append acc []), O, false)                   (* key slot taken and lost *)
             | S (S b2) =>
                 let '(pe, b', ok) := read_budget e b2 in
                 if ok then go t ((k, pe) :: acc) b'
                 else (JObj (rev_append ((k, pe) :: acc) []), b', false)
             end
         end) l [] b
  | _ => scalar_budget v b
  end.
