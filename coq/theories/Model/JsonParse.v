(* JsonParse.v — mirrors Json/Latch.hpp and Json/JsonDeserializer.hpp routine by routine,
   Deserialization/Filter.hpp and NestingLimit.hpp.  Definitions only.

   The document is built as a tree (jv); the partial document left behind by an error is
   modelled too.  Memory is assumed available, except for the one limit that does not depend
   on the allocator: a string or key longer than StringNode::maxLength (65535 bytes with the
   default 2-byte length field) cannot be stored; the StringBuilder becomes invalid, the rest
   of the string is still read, and NoMemory is returned at its end.  The heap level model
   covers the other allocation failures. *)
From Coq Require Import ZArith NArith Bool List.
From Coq Require Import Floats.SpecFloat.
From AJ Require Import Model.Base Model.FloatModel Model.Value Model.Utf Model.NumParse.
Local Open Scope N_scope.

(* ------------------------------------------------------------------------------------- *)
(* Reader + Latch.  `rest` are the bytes not yet pulled from the reader; a NUL byte, or the
   end of `rest`, is the end of input (Latch maps read() <= 0 to '\0').  `fault` records a
   load() after the end was seen — ARDUINOJSON_ASSERT(!ended_), i.e. a read past the
   terminator of a zero-terminated input. *)
Record ps := {
  rest : bytes;
  cur : option N;         (* loaded_ ? current_ *)
  lastc : N;              (* current_ (Latch::last) *)
  reads : N;              (* bytes obtained from Reader::read() *)
  ended : bool;
  fault : bool;
  found : bool;           (* foundSomething_ *)
}.

Definition ps_init (i : bytes) : ps :=
  {| rest := i; cur := None; lastc := 0; reads := 0; ended := false; fault := false; found := false |}.

Definition load (s : ps) : ps :=
  match rest s with
  | [] => {| rest := []; cur := Some 0; lastc := 0; reads := reads s; ended := true;
             fault := fault s || ended s; found := found s |}
  | b :: t => {| rest := t; cur := Some b; lastc := b; reads := reads s + 1;
                 ended := ended s || (b =? 0); fault := fault s || ended s; found := found s |}
  end.

Definition current (s : ps) : N * ps :=
  match cur s with
  | Some c => (c, s)
  | None => let s' := load s in (lastc s', s')
  end.

Definition move (s : ps) : ps :=
  {| rest := rest s; cur := None; lastc := lastc s; reads := reads s; ended := ended s;
     fault := fault s; found := found s |}.

Definition set_found (s : ps) : ps :=
  {| rest := rest s; cur := cur s; lastc := lastc s; reads := reads s; ended := ended s;
     fault := fault s; found := true |}.

Definition eat (c : N) (s : ps) : bool * ps :=
  let '(x, s) := current s in
  if x =? c then (true, move s) else (false, s).

(* ------------------------------------------------------------------------------------- *)
(* character classes *)
Definition is_between (c lo hi : N) : bool :=
  Z.leb (schar lo) (schar c) && Z.leb (schar c) (schar hi).
Definition can_be_in_number (cf : cfg) (c : N) : bool :=
  is_between c 48 57 || (c =? 43) || (c =? 45) || (c =? 46) ||
  (if enable_nan cf || enable_inf cf then is_between c 65 90 || is_between c 97 122
   else (c =? 101) || (c =? 69)).
Definition can_be_in_non_quoted_string (c : N) : bool :=
  is_between c 48 57 || is_between c 95 122 || is_between c 65 90.
Definition is_quote (c : N) : bool := (c =? 39) || (c =? 34).
Definition is_space (c : N) : bool := (c =? 32) || (c =? 9) || (c =? 13) || (c =? 10).

(* ------------------------------------------------------------------------------------- *)
(* skipSpacesAndComments *)
Fixpoint block_comment (fuel : nat) (was_star : bool) (s : ps) : code * ps :=
  match fuel with
  | O => (OutOfFuel, s)
  | S fuel' =>
      let '(c, s) := current s in
      if c =? 0 then (IncompleteInput, s)
      else if (c =? 47) && was_star then (Ok, move s)
      else block_comment fuel' (c =? 42) (move s)
  end.

Fixpoint line_comment (fuel : nat) (s : ps) : code * ps :=
  match fuel with
  | O => (OutOfFuel, s)
  | S fuel' =>
      let s := move s in
      let '(c, s) := current s in
      if c =? 0 then (IncompleteInput, s)
      else if c =? 10 then (Ok, s)
      else line_comment fuel' s
  end.

Fixpoint skip_spaces (cf : cfg) (fuel : nat) (s : ps) : code * ps :=
  match fuel with
  | O => (OutOfFuel, s)
  | S fuel' =>
      let '(c, s) := current s in
      if c =? 0 then ((if found s then IncompleteInput else EmptyInput), s)
      else if (c =? 32) || (c =? 9) || (c =? 13) || (c =? 10) then skip_spaces cf fuel' (move s)
      else if enable_comments cf && (c =? 47) then
        let s := move s in
        let '(c2, s) := current s in
        if c2 =? 42 then
          match block_comment fuel' false (move s) with
          | (Ok, s) => skip_spaces cf fuel' s
          | r => r
          end
        else if c2 =? 47 then
          match line_comment fuel' s with
          | (Ok, s) => skip_spaces cf fuel' s
          | r => r
          end
        else (InvalidInput, s)
      else (Ok, set_found s)
  end.

(* skipKeyword *)
Fixpoint skip_keyword (kw : bytes) (s : ps) : code * ps :=
  match kw with
  | [] => (Ok, s)
  | k :: kw' =>
      let '(c, s) := current s in
      if c =? 0 then (IncompleteInput, s)
      else if negb (k =? c) then (InvalidInput, s)
      else skip_keyword kw' (move s)
  end.

(* parseHex4 *)
Fixpoint parse_hex4 (n : nat) (acc : N) (s : ps) : code * N * ps :=
  match n with
  | O => (Ok, acc, s)
  | S n' =>
      let '(d, s) := current s in
      if d =? 0 then (IncompleteInput, acc, s)
      else
        let v := decode_hex d in
        if 0x0F <? v then (InvalidInput, acc, s)
        else parse_hex4 n' (wrapN 16 (N.lor (N.shiftl acc 4) v)) (move s)
  end.

(* parseQuotedString body (after the opening quote has been consumed): returns the bytes
   appended to the string builder *)
Fixpoint quoted_loop (cf : cfg) (fuel : nat) (stop : N) (cp : codepoint) (acc : bytes) (s : ps)
  : code * bytes * ps :=
  match fuel with
  | O => (OutOfFuel, acc, s)
  | S fuel' =>
      let '(c, s) := current s in
      let s := move s in
      if c =? stop then (Ok, acc, s)
      else if c =? 0 then (IncompleteInput, acc, s)
      else if c =? 92 then
        let '(c2, s) := current s in
        if c2 =? 0 then (IncompleteInput, acc, s)
        else if c2 =? 117 then
          if decode_unicode cf then
            let s := move s in
            match parse_hex4 4 0 s with
            | (Ok, u, s) =>
                let '(complete, cp') := cp_append cp u in
                if complete
                then quoted_loop cf fuel' stop cp' (acc ++ encode_codepoint (cp_val cp')) s
                else quoted_loop cf fuel' stop cp' acc s
            | (e, _, s) => (e, acc, s)
            end
          else quoted_loop cf fuel' stop cp (acc ++ [92]) s
        else
          let u := unescape_char c2 in
          if u =? 0 then (InvalidInput, acc, s)
          else quoted_loop cf fuel' stop cp (acc ++ [u]) (move s)
      else quoted_loop cf fuel' stop cp (acc ++ [c]) s
  end.

(* StringBuilder: the capacity doubles 31, 63, ..., 65535; the next growth exceeds
   StringNode::maxLength and fails; the characters that follow are dropped but the loop keeps
   reading up to the end of the string; only then is the builder found invalid (an
   IncompleteInput / InvalidInput met meanwhile takes precedence). *)
Definition max_json_string : N := 65535.
Definition too_long (acc : bytes) : bool := max_json_string <? N.of_nat (length acc).
Definition cap_string (r : code * bytes * ps) : code * bytes * ps :=
  match r with
  | (Ok, acc, s) => if too_long acc then (NoMemory, [], s) else (Ok, acc, s)
  | r => r
  end.

Definition parse_quoted_string (cf : cfg) (fuel : nat) (s : ps) : code * bytes * ps :=
  let '(stop, s) := current s in
  cap_string (quoted_loop cf fuel stop cp_init [] (move s)).

Fixpoint non_quoted_loop (fuel : nat) (acc : bytes) (c : N) (s : ps) : code * bytes * ps :=
  match fuel with
  | O => (OutOfFuel, acc, s)
  | S fuel' =>
      let s := move s in
      let acc := acc ++ [c] in
      let '(c', s) := current s in
      if can_be_in_non_quoted_string c' then non_quoted_loop fuel' acc c' s
      else (Ok, acc, s)
  end.

Definition parse_non_quoted_string (fuel : nat) (s : ps) : code * bytes * ps :=
  let '(c, s) := current s in
  if can_be_in_non_quoted_string c then cap_string (non_quoted_loop fuel [] c s)
  else (InvalidInput, [], s).

Definition parse_key (cf : cfg) (fuel : nat) (s : ps) : code * bytes * ps :=
  let '(c, s) := current s in
  if is_quote c then parse_quoted_string cf fuel s else parse_non_quoted_string fuel s.

Fixpoint skip_quoted_loop (fuel : nat) (stop : N) (s : ps) : code * ps :=
  match fuel with
  | O => (OutOfFuel, s)
  | S fuel' =>
      let '(c, s) := current s in
      let s := move s in
      if c =? stop then (Ok, s)
      else if c =? 0 then (IncompleteInput, s)
      else if c =? 92 then
        let '(c2, s) := current s in
        if negb (c2 =? 0) then skip_quoted_loop fuel' stop (move s)
        else skip_quoted_loop fuel' stop s
      else skip_quoted_loop fuel' stop s
  end.

Definition skip_quoted_string (fuel : nat) (s : ps) : code * ps :=
  let '(stop, s) := current s in
  skip_quoted_loop fuel stop (move s).

Fixpoint skip_non_quoted_loop (fuel : nat) (s : ps) : code * ps :=
  match fuel with
  | O => (OutOfFuel, s)
  | S fuel' =>
      let '(c, s) := current s in
      if can_be_in_non_quoted_string c then skip_non_quoted_loop fuel' (move s)
      else (Ok, s)
  end.

Definition skip_key (fuel : nat) (s : ps) : code * ps :=
  let '(c, s) := current s in
  if is_quote c then skip_quoted_string fuel s else skip_non_quoted_loop fuel s.

(* parseNumericValue: scan at most 63 characters into buffer_, then parseNumber *)
Fixpoint scan_number (cf : cfg) (n : nat) (acc : bytes) (s : ps) : bytes * ps :=
  match n with
  | O => (acc, s)
  | S n' =>
      let '(c, s) := current s in
      if can_be_in_number cf c then scan_number cf n' (acc ++ [c]) (move s)
      else (acc, s)
  end.

Definition jv_of_number (cf : cfg) (n : number) : option jv :=
  match n with
  | NumUInt z | NumSInt z => Some (JInt z)
  | NumFloat f => Some (JFloat f)
  | NumDouble f => Some (jv_of_double (use_double cf) f)
  | NumInvalid | NumFault => None
  end.

Definition parse_numeric_value (cf : cfg) (s : ps) : code * jv * ps :=
  let '(buf, s) := scan_number cf 63 [] s in
  (* scan_number stops without loading when 63 characters are stored; the C++ loop has
     already loaded the next character at that point *)
  let s := if Nat.eqb (length buf) 63 then snd (current s) else s in
  match jv_of_number cf (parse_number cf buf) with
  | Some v => (Ok, v, s)
  | None => (InvalidInput, JNull, s)
  end.

Fixpoint skip_numeric_loop (cf : cfg) (fuel : nat) (s : ps) : code * ps :=
  match fuel with
  | O => (OutOfFuel, s)
  | S fuel' =>
      let '(c, s) := current s in
      if can_be_in_number cf c then skip_numeric_loop cf fuel' (move s) else (Ok, s)
  end.

(* ------------------------------------------------------------------------------------- *)
(* Filter: None = AllowAllFilter, Some v = Filter(v) (an unbound variant is JNull) *)
Definition filter := option jv.
Definition f_allow (f : filter) : bool := match f with None => true | Some v => truthy v end.
Definition f_allow_array (f : filter) : bool :=
  match f with None => true | Some v => equals_true v || is_arr v end.
Definition f_allow_object (f : filter) : bool :=
  match f with None => true | Some v => equals_true v || is_obj v end.
Definition f_allow_value (f : filter) : bool :=
  match f with None => true | Some v => equals_true v end.

Definition star : bytes := [42].

(* Filter::operator[](key): the entry for the key, or the "*" entry when the key is absent
   (an unbound JsonVariantConst; a null entry is an entry).  An unbound filter is JNull. *)
Definition obj_member (v : jv) (k : bytes) : option jv :=
  match v with
  | JObj l => assoc_get k l
  | _ => None
  end.

Definition or_star (v : jv) (m : option jv) : jv :=
  match m with
  | Some x => x
  | None => match obj_member v star with Some x => x | None => JNull end
  end.

Definition f_member (f : filter) (key : bytes) : filter :=
  match f with
  | None => None
  | Some v => if equals_true v then f else Some (or_star v (obj_member v key))
  end.

(* filter[0UL]: the "*" wildcard stands for members only; anything that is not an array has no
   element filter (unbound = JNull) *)
Definition f_element (f : filter) : filter :=
  match f with
  | None => None
  | Some v =>
      if equals_true v then f
      else Some (match v with JArr (x :: _) => x | _ => JNull end)
  end.

(* ------------------------------------------------------------------------------------- *)
(* The recursive descent.  Outer recursion on the nesting budget L (NestingLimit), loops on
   fuel.  [pv f dst s] parses one value into a slot currently holding [dst]. *)

Section Containers.
  Variable cf : cfg.
  Variable pv : filter -> ps -> code * jv * ps.     (* parseVariant at nesting - 1 *)
  Variable sv : ps -> code * ps.                    (* skipVariant at nesting - 1 *)

  (* parseArray, after the empty-array test; acc = elements so far *)
  Fixpoint array_loop (fuel : nat) (ef : filter) (acc : list jv) (s : ps) : code * jv * ps :=
    match fuel with
    | O => (OutOfFuel, JArr acc, s)
    | S fuel' =>
        let step (acc : list jv) (s : ps) :=
          match skip_spaces cf fuel' s with
          | (Ok, s) =>
              let '(b, s) := eat 93 s in
              if b then (Ok, JArr acc, s)
              else
                let '(b, s) := eat 44 s in
                if b then array_loop fuel' ef acc s else (InvalidInput, JArr acc, s)
          | (e, s) => (e, JArr acc, s)
          end in
        if f_allow ef then
          match pv ef s with
          | (Ok, v, s) => step (acc ++ [v]) s
          | (e, v, s) => (e, JArr (acc ++ [v]), s)
          end
        else
          match sv s with
          | (Ok, s) => step acc s
          | (e, s) => (e, JArr acc, s)
          end
    end.

  Fixpoint skip_array_loop (fuel : nat) (s : ps) : code * ps :=
    match fuel with
    | O => (OutOfFuel, s)
    | S fuel' =>
        match sv s with
        | (Ok, s) =>
            match skip_spaces cf fuel' s with
            | (Ok, s) =>
                let '(b, s) := eat 93 s in
                if b then (Ok, s)
                else
                  let '(b, s) := eat 44 s in
                  if b then skip_array_loop fuel' s else (InvalidInput, s)
            | r => r
            end
        | r => r
        end
    end.

  (* parseObject loop; acc = members so far (insertion order, keys unique) *)
  Fixpoint object_loop (fuel : nat) (f : filter) (acc : list (bytes * jv)) (s : ps)
    : code * jv * ps :=
    match fuel with
    | O => (OutOfFuel, JObj acc, s)
    | S fuel' =>
        match parse_key cf fuel' s with
        | (Ok, key, s) =>
            match skip_spaces cf fuel' s with
            | (Ok, s) =>
                let '(b, s) := eat 58 s in
                if negb b then (InvalidInput, JObj acc, s)
                else
                  let mf := f_member f key in
                  let after (acc : list (bytes * jv)) (s : ps) :=
                    match skip_spaces cf fuel' s with
                    | (Ok, s) =>
                        let '(b, s) := eat 125 s in
                        if b then (Ok, JObj acc, s)
                        else
                          let '(b, s) := eat 44 s in
                          if negb b then (InvalidInput, JObj acc, s)
                          else
                            match skip_spaces cf fuel' s with
                            | (Ok, s) => object_loop fuel' f acc s
                            | (e, s) => (e, JObj acc, s)
                            end
                    | (e, s) => (e, JObj acc, s)
                    end in
                  if f_allow mf then
                    (* getMember(key): an existing member is cleared and re-parsed in place,
                       otherwise a new member is appended *)
                    match pv mf s with
                    | (Ok, v, s) => after (assoc_set key v acc) s
                    | (e, v, s) => (e, JObj (assoc_set key v acc), s)
                    end
                  else
                    match sv s with
                    | (Ok, s) => after acc s
                    | (e, s) => (e, JObj acc, s)
                    end
            | (e, s) => (e, JObj acc, s)
            end
        | (e, _, s) => (e, JObj acc, s)
        end
    end.

  Fixpoint skip_object_loop (fuel : nat) (s : ps) : code * ps :=
    match fuel with
    | O => (OutOfFuel, s)
    | S fuel' =>
        match skip_key fuel' s with
        | (Ok, s) =>
            match skip_spaces cf fuel' s with
            | (Ok, s) =>
                let '(b, s) := eat 58 s in
                if negb b then (InvalidInput, s)
                else
                  match sv s with
                  | (Ok, s) =>
                      match skip_spaces cf fuel' s with
                      | (Ok, s) =>
                          let '(b, s) := eat 125 s in
                          if b then (Ok, s)
                          else
                            let '(b, s) := eat 44 s in
                            if negb b then (InvalidInput, s)
                            else
                              match skip_spaces cf fuel' s with
                              | (Ok, s) => skip_object_loop fuel' s
                              | r => r
                              end
                      | r => r
                      end
                  | r => r
                  end
            | r => r
            end
        | r => r
        end
    end.
End Containers.

Definition kw_true : bytes := [116; 114; 117; 101].
Definition kw_false : bytes := [102; 97; 108; 115; 101].
Definition kw_null : bytes := [110; 117; 108; 108].

(* skipVariant with nesting budget L: [None] = NestingLimit::reached() at the next container *)
Fixpoint skip_variant (cf : cfg) (fuel : nat) (L : nat) (s : ps) {struct L} : code * ps :=
  match skip_spaces cf fuel s with
  | (Ok, s) =>
      let '(c, s) := current s in
      let sv' := match L with O => (fun s => (TooDeep, s)) | S L' => skip_variant cf fuel L' end in
      if c =? 91 then
        match L with
        | O => (TooDeep, s)
        | S _ => skip_array_loop cf sv' fuel (move s)
        end
      else if c =? 123 then
        match L with
        | O => (TooDeep, s)
        | S _ =>
            let s := move s in
            match skip_spaces cf fuel s with
            | (Ok, s) =>
                let '(b, s) := eat 125 s in
                if b then (Ok, s) else skip_object_loop cf sv' fuel s
            | r => r
            end
        end
      else if is_quote c then skip_quoted_string fuel s
      else if c =? 116 then skip_keyword kw_true s
      else if c =? 102 then skip_keyword kw_false s
      else if c =? 110 then skip_keyword kw_null s
      else skip_numeric_loop cf fuel s
  | r => r
  end.

Fixpoint parse_variant (cf : cfg) (fuel : nat) (L : nat) (f : filter) (s : ps) {struct L}
  : code * jv * ps :=
  match skip_spaces cf fuel s with
  | (Ok, s) =>
      let '(c, s) := current s in
      let pv' := match L with
                 | O => (fun _ s => (TooDeep, JNull, s))
                 | S L' => parse_variant cf fuel L' end in
      let sv' := match L with O => (fun s => (TooDeep, s)) | S L' => skip_variant cf fuel L' end in
      let lift (r : code * ps) : code * jv * ps := let '(e, s) := r in (e, JNull, s) in
      if c =? 91 then
        if f_allow_array f then
          match L with
          | O => (TooDeep, JArr [], s)
          | S _ =>
              let s := move s in
              match skip_spaces cf fuel s with
              | (Ok, s) =>
                  let '(b, s) := eat 93 s in
                  if b then (Ok, JArr [], s)
                  else array_loop cf pv' sv' fuel (f_element f) [] s
              | (e, s) => (e, JArr [], s)
              end
          end
        else lift (skip_variant cf fuel L s)
      else if c =? 123 then
        if f_allow_object f then
          match L with
          | O => (TooDeep, JObj [], s)
          | S _ =>
              let s := move s in
              match skip_spaces cf fuel s with
              | (Ok, s) =>
                  let '(b, s) := eat 125 s in
                  if b then (Ok, JObj [], s)
                  else object_loop cf pv' sv' fuel f [] s
              | (e, s) => (e, JObj [], s)
              end
          end
        else lift (skip_variant cf fuel L s)
      else if is_quote c then
        if f_allow_value f then
          match parse_quoted_string cf fuel s with
          | (Ok, str, s) => (Ok, JStr str, s)
          | (e, _, s) => (e, JNull, s)
          end
        else lift (skip_quoted_string fuel s)
      else if c =? 116 then
        let '(e, s) := skip_keyword kw_true s in
        (e, (if f_allow_value f then JBool true else JNull), s)
      else if c =? 102 then
        let '(e, s) := skip_keyword kw_false s in
        (e, (if f_allow_value f then JBool false else JNull), s)
      else if c =? 110 then lift (skip_keyword kw_null s)
      else if f_allow_value f then parse_numeric_value cf s
      else lift (skip_numeric_loop cf fuel s)
  | (e, s) => (e, JNull, s)
  end.

Definition is_number (v : jv) : bool :=
  match v with JInt _ | JFloat _ | JDouble _ => true | _ => false end.

(* JsonDeserializer::parse + the trailing-character test *)
Record json_out := { j_err : code; j_doc : jv; j_st : ps }.

Definition json_fuel (i : bytes) : nat := S (S (length i)).

Definition json_run (cf : cfg) (f : filter) (L : nat) (i : bytes) : json_out :=
  let '(e, v, s) := parse_variant cf (json_fuel i) L f (ps_init i) in
  let e := match e with
           | Ok => if negb (lastc s =? 0) && negb (is_space (lastc s)) && is_number v
                   then InvalidInput else Ok
           | _ => e
           end in
  {| j_err := e; j_doc := v; j_st := s |}.
