(* Tree.v — the document as the plain ordered tree its API describes (the abstract model of C04), with
   node identities so that references (JsonVariant handles) can be followed through a history.
   Mirrors the behaviour of JsonDocument / JsonVariant / ElementProxy / MemberProxy / copyVariant at the
   level of values; storage (slots, pools, string nodes) is not visible here.  Definitions only. *)
From Coq Require Import ZArith NArith Bool List.
From Coq Require Import Floats.SpecFloat.
From AJ Require Import Model.Base Model.FloatModel Model.Value Model.JsonParse.
Local Open Scope N_scope.

(* a slot: identity + content.  An object member is a key (bytes) and a value slot. *)
Inductive node := Node (id : N) (c : content)
with content :=
| CNull | CBool (b : bool) | CInt (z : Z) | CFloat (f : spec_float) | CDouble (f : spec_float)
| CStr (s : bytes) | CRaw (s : bytes)
| CArr (l : list node)
| CObj (l : list (bytes * node)).

Definition node_id (n : node) : N := match n with Node i _ => i end.
Definition node_content (n : node) : content := match n with Node _ c => c end.

(* scalars the API can store with set()/add() *)
Inductive scalar :=
| SNull | SBool (b : bool) | SInt (z : Z) | SFloat (f : spec_float) | SDouble (f : spec_float)
| SStr (s : bytes) | SRaw (s : bytes).

Definition content_of_scalar (x : scalar) : content :=
  match x with
  | SNull => CNull | SBool b => CBool b | SInt z => CInt z | SFloat f => CFloat f
  | SDouble f => match jv_of_double true f with JFloat g => CFloat g | _ => CDouble f end
  | SStr s => CStr s | SRaw s => CRaw s
  end.

(* ---- erasing identities ---- *)
Fixpoint to_jv (n : node) : jv :=
  match n with
  | Node _ c =>
      match c with
      | CNull => JNull | CBool b => JBool b | CInt z => JInt z | CFloat f => JFloat f | CDouble f => JDouble f
      | CStr s => JStr s | CRaw s => JRaw s
      | CArr l => JArr (map to_jv l)
      | CObj l => JObj (map (fun kv => (fst kv, to_jv (snd kv))) l)
      end
  end.

(* ---- lookup / update by identity ---- *)
Fixpoint find (i : N) (n : node) : option content :=
  match n with
  | Node j c =>
      if i =? j then Some c
      else
        match c with
        | CArr l => (fix go (l : list node) := match l with [] => None | x :: t => match find i x with Some r => Some r | None => go t end end) l
        | CObj l => (fix go (l : list (bytes * node)) := match l with [] => None | kv :: t => match find i (snd kv) with Some r => Some r | None => go t end end) l
        | _ => None
        end
  end.

(* replace the content of node i by (f old content) *)
Fixpoint update (i : N) (f : content -> content) (n : node) : node :=
  match n with
  | Node j c =>
      if i =? j then Node j (f c)
      else
        match c with
        | CArr l => Node j (CArr (map (update i f) l))
        | CObj l => Node j (CObj (map (fun kv => (fst kv, update i f (snd kv))) l))
        | _ => n
        end
  end.

Fixpoint ids (n : node) : list N :=
  match n with
  | Node j c =>
      j :: match c with
           | CArr l => flat_map ids l
           | CObj l => flat_map (fun kv => ids (snd kv)) l
           | _ => []
           end
  end.

Definition mem (i : N) (l : list N) : bool := existsb (N.eqb i) l.

(* ---- the world: several documents, one supply of fresh identities ---- *)
Record world := { docs : list node; next_id : N }.

Definition fresh (w : world) : N * world := (next_id w, {| docs := docs w; next_id := next_id w + 1 |}).

(* root identities are 0, 1, 2 ... ; fresh ones start above *)
Definition init_world (ndocs : nat) : world :=
  {| docs := map (fun k => Node k CNull) (N_range 0 ndocs); next_id := N.of_nat ndocs |}.

Definition doc_of (w : world) (i : N) : option nat :=
  (fix go (k : nat) (l : list node) :=
     match l with
     | [] => None
     | d :: t => if mem i (ids d) then Some k else go (S k) t
     end) O (docs w).

Definition live (w : world) (i : N) : bool := match doc_of w i with Some _ => true | None => false end.

Definition get (w : world) (i : N) : option content :=
  (fix go (l : list node) := match l with [] => None | d :: t => match find i d with Some c => Some c | None => go t end end) (docs w).

Definition upd (w : world) (i : N) (f : content -> content) : world :=
  {| docs := map (update i f) (docs w); next_id := next_id w |}.

(* a copy of a value with fresh identities (deep copy into another place) *)
Fixpoint copy_jv (v : jv) (next : N) : node * N :=
  match v with
  | JNull => (Node next CNull, next + 1)
  | JBool b => (Node next (CBool b), next + 1)
  | JInt z => (Node next (CInt z), next + 1)
  | JFloat f => (Node next (CFloat f), next + 1)
  | JDouble f => (Node next (CDouble f), next + 1)
  | JStr s => (Node next (CStr s), next + 1)
  | JRaw s => (Node next (CRaw s), next + 1)
  | JArr l =>
      let '(l', nx) := (fix go (l : list jv) (nx : N) : list node * N :=
                          match l with
                          | [] => ([], nx)
                          | x :: t => let '(x', nx) := copy_jv x nx in let '(t', nx) := go t nx in (x' :: t', nx)
                          end) l (next + 1) in
      (Node next (CArr l'), nx)
  | JObj l =>
      let '(l', nx) := (fix go (l : list (bytes * jv)) (nx : N) : list (bytes * node) * N :=
                          match l with
                          | [] => ([], nx)
                          | (k, x) :: t => let '(x', nx) := copy_jv x nx in let '(t', nx) := go t nx in ((k, x') :: t', nx)
                          end) l (next + 1) in
      (Node next (CObj l'), nx)
  end.

(* content of a fresh copy of v, to be stored in an existing slot *)
Definition copy_content (w : world) (v : jv) : content * world :=
  let '(n, nx) := copy_jv v (next_id w) in
  (node_content n, {| docs := docs w; next_id := nx |}).

(* copying an object through obj[key] = value merges repeated keys (first position, last value) *)
Fixpoint merge_keys (l : list (bytes * jv)) (acc : list (bytes * jv)) : list (bytes * jv) :=
  match l with
  | [] => acc
  | (k, v) :: t => merge_keys t (assoc_set k v acc)
  end.
Fixpoint normalize_copy (v : jv) : jv :=
  match v with
  | JArr l => JArr (map normalize_copy l)
  | JObj l => JObj (merge_keys (map (fun kv => (fst kv, normalize_copy (snd kv))) l) [])
  | _ => v
  end.

(* ---- operations.  Each returns the new world and a result:
        RBool b      : the bool the C++ call returns
        RRef (Some i): a bound JsonVariant designating slot i;  RRef None: an unbound reference
        RUnit *)
Inductive result := RBool (b : bool) | RRef (r : option N) | RUnit.

Inductive op :=
| OSet (r : N) (x : scalar)                 (* r.set(x) *)
| OToArr (r : N) | OToObj (r : N)           (* r.to<JsonArray>() / r.to<JsonObject>() *)
| OClear (r : N)                            (* r.clear() *)
| OAddNew (r : N)                           (* r.add<JsonVariant>() *)
| OAddVal (r : N) (x : scalar)              (* r.add(x) *)
| OGetElem (r : N) (i : nat)                (* JsonVariant(r[i]) — no creation *)
| OMakeElem (r : N) (i : nat)               (* r[i].to<JsonVariant>() *)
| OSetElem (r : N) (i : nat) (x : scalar)   (* r[i] = x *)
| OGetMember (r : N) (k : bytes)            (* JsonVariant(r[k]) *)
| OMakeMember (r : N) (k : bytes)           (* r[k].to<JsonVariant>() *)
| OSetMember (r : N) (k : bytes) (x : scalar) (* r[k] = x *)
| ORemoveIdx (r : N) (i : nat)              (* r.remove(i) *)
| ORemoveKey (r : N) (k : bytes)            (* r.remove(k) *)
| OAssign (dst src : N)                     (* dst.set(JsonVariantConst(src)) — src not related to dst *)
| ODocClear (d : nat)                       (* doc.clear() *)
| ODocCopy (d s : nat)                      (* doc_d = doc_s  (copy) *)
| ODocSwap (d s : nat)                      (* swap(doc_d, doc_s) *)
| ODocShrink (d : nat)                      (* doc.shrinkToFit() *)
| ODeser (r : N) (text : bytes).            (* deserializeJson(r, text) (r may be a document root) *)

Definition is_null_c (c : content) := match c with CNull => true | _ => false end.

(* getOrAddElement: pad with nulls so that index i exists; returns the identity of element i *)
Fixpoint pad_to (l : list node) (i : nat) (nx : N) : list node * N * N :=
  match l, i with
  | x :: _, O => (l, node_id x, nx)
  | x :: t, S i' => let '(t', r, nx) := pad_to t i' nx in (x :: t', r, nx)
  | [], O => ([Node nx CNull], nx, nx + 1)
  | [], S i' => let '(t', r, nx') := pad_to [] i' (nx + 1) in (Node nx CNull :: t', r, nx')
  end.

Fixpoint remove_nth {A} (l : list A) (i : nat) : list A :=
  match l, i with
  | [], _ => []
  | _ :: t, O => t
  | x :: t, S i' => x :: remove_nth t i'
  end.

Fixpoint remove_key (l : list (bytes * node)) (k : bytes) : list (bytes * node) :=
  match l with
  | [] => []
  | (k', v) :: t => if bytes_eqb k k' then t else (k', v) :: remove_key t k
  end.

Fixpoint member_id (l : list (bytes * node)) (k : bytes) : option N :=
  match l with
  | [] => None
  | (k', v) :: t => if bytes_eqb k k' then Some (node_id v) else member_id t k
  end.

(* set() on a proxy that cannot create its target (e.g. r[0] = x where r is a number): converters whose
   toJson returns void (strings, raw, nullptr) report `!overflowed()`, i.e. true; the others report false *)
Definition set_on_unbound (x : scalar) : bool :=
  match x with SStr _ | SRaw _ | SNull => true | _ => false end.

Definition set_content (w : world) (r : N) (c : content) : world := upd w r (fun _ => c).

Definition step (w : world) (o : op) : world * result :=
  match o with
  | OSet r x => (set_content w r (content_of_scalar x), RBool true)
  | OToArr r => (set_content w r (CArr []), RUnit)
  | OToObj r => (set_content w r (CObj []), RUnit)
  | OClear r => (set_content w r CNull, RUnit)
  | OAddNew r =>
      match get w r with
      | Some CNull => let '(i, w) := fresh w in (set_content w r (CArr [Node i CNull]), RRef (Some i))
      | Some (CArr l) => let '(i, w) := fresh w in (set_content w r (CArr (l ++ [Node i CNull])), RRef (Some i))
      | _ => (w, RRef None)
      end
  | OAddVal r x =>
      match get w r with
      | Some CNull => let '(i, w) := fresh w in (set_content w r (CArr [Node i (content_of_scalar x)]), RBool true)
      | Some (CArr l) => let '(i, w) := fresh w in (set_content w r (CArr (l ++ [Node i (content_of_scalar x)])), RBool true)
      | _ => (w, RBool false)
      end
  | OGetElem r i =>
      match get w r with
      | Some (CArr l) => (w, RRef (option_map node_id (nth_error l i)))
      | _ => (w, RRef None)
      end
  | OMakeElem r i =>
      match get w r with
      | Some CNull | Some (CArr _) =>
          let l := match get w r with Some (CArr l) => l | _ => [] end in
          let '(l', e, nx) := pad_to l i (next_id w) in
          let w := {| docs := docs w; next_id := nx |} in
          let w := set_content w r (CArr l') in
          (set_content w e CNull, RRef (Some e))        (* to<JsonVariant>() clears the element *)
      | _ => (w, RRef None)
      end
  | OSetElem r i x =>
      match get w r with
      | Some CNull | Some (CArr _) =>
          let l := match get w r with Some (CArr l) => l | _ => [] end in
          let '(l', e, nx) := pad_to l i (next_id w) in
          let w := {| docs := docs w; next_id := nx |} in
          let w := set_content w r (CArr l') in
          (set_content w e (content_of_scalar x), RBool true)
      | _ => (w, RBool (set_on_unbound x))
      end
  | OGetMember r k =>
      match get w r with
      | Some (CObj l) => (w, RRef (member_id l k))
      | _ => (w, RRef None)
      end
  | OMakeMember r k =>
      match get w r with
      | Some CNull | Some (CObj _) =>
          let l := match get w r with Some (CObj l) => l | _ => [] end in
          match member_id l k with
          | Some e => (set_content w e CNull, RRef (Some e))
          | None => let '(i, w) := fresh w in (set_content w r (CObj (l ++ [(k, Node i CNull)])), RRef (Some i))
          end
      | _ => (w, RRef None)
      end
  | OSetMember r k x =>
      match get w r with
      | Some CNull | Some (CObj _) =>
          let l := match get w r with Some (CObj l) => l | _ => [] end in
          match member_id l k with
          | Some e => (set_content w e (content_of_scalar x), RBool true)
          | None => let '(i, w) := fresh w in
                    (set_content w r (CObj (l ++ [(k, Node i (content_of_scalar x))])), RBool true)
          end
      | _ => (w, RBool (set_on_unbound x))
      end
  | ORemoveIdx r i =>
      match get w r with
      | Some (CArr l) => (set_content w r (CArr (remove_nth l i)), RUnit)
      | _ => (w, RUnit)
      end
  | ORemoveKey r k =>
      match get w r with
      | Some (CObj l) => (set_content w r (CObj (remove_key l k)), RUnit)
      | _ => (w, RUnit)
      end
  | OAssign dst src =>
      match get w src with
      | Some c =>
          let '(c', w) := copy_content w (normalize_copy (to_jv (Node 0 c))) in
          (set_content w dst c', RBool true)
      | None => (w, RBool false)
      end
  | ODocClear d =>
      match nth_error (docs w) d with
      | Some (Node i _) => (set_content w i CNull, RUnit)
      | None => (w, RUnit)
      end
  | ODocCopy d s =>
      match nth_error (docs w) d, nth_error (docs w) s with
      | Some (Node i _), Some src =>
          let '(c', w) := copy_content w (normalize_copy (to_jv src)) in
          (set_content w i c', RUnit)
      | _, _ => (w, RUnit)
      end
  | ODocSwap d s =>
      match nth_error (docs w) d, nth_error (docs w) s with
      | Some (Node i ci), Some (Node j cj) =>
          (* contents are exchanged; the roots keep their identities (they are the documents' own slots) *)
          let w := set_content w i CNull in
          let w := set_content w j ci in
          (set_content w i cj, RUnit)
      | _, _ => (w, RUnit)
      end
  | ODocShrink d => (w, RUnit)
  | ODeser r text =>
      let o := json_run default_cfg None 10 text in
      let '(c', w) := copy_content w (j_doc o) in
      (set_content w r c', RBool (code_eqb (j_err o) Ok))
  end.

(* references that an operation may leave dangling although the slot still exists in the tree model:
   after swap / shrinkToFit the C++ handles into the affected documents are stale (they keep the other
   document's resource manager / the slots may have moved), so histories must not use them again *)
Definition invalidates_handles (o : op) : list nat :=
  match o with
  | ODocSwap d s => [d; s]
  | ODocShrink d => [d]
  | ODocCopy d _ => [d]
  | _ => []
  end.
