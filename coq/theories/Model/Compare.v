(* Compare.v — mirrors Variant/VariantCompare.hpp, Numbers/arithmeticCompare.hpp,
   JsonArrayConst::operator==, JsonObjectConst::operator==, stringCompare and the operator set of
   VariantOperators.  Definitions only. *)
From Coq Require Import ZArith NArith Bool List.
From Coq Require Import Floats.SpecFloat.
From AJ Require Import Model.Base Model.FloatModel Model.Value.
Local Open Scope Z_scope.

Inductive cmp := CDiffer | CEqual | CGreater | CLess.

Definition cmp_rev (c : cmp) : cmp :=
  match c with CGreater => CLess | CLess => CGreater | c => c end.

Definition cmp_Z (a b : Z) : cmp := if a <? b then CLess else if b <? a then CGreater else CEqual.

(* arithmeticCompare<double>: unordered (NaN) => DIFFER *)
Definition cmp_f64 (a b : spec_float) : cmp :=
  if f_lt a b then CLess else if f_gt a b then CGreater else if f_eq a b then CEqual else CDiffer.

(* the arithmetic views the visitor hands to Comparer<T>: JsonInteger/JsonUInt (exact), float/double, bool *)
Inductive numv := NvInt (z : Z) | NvFlt (d : spec_float) | NvBool (b : bool).

Definition numv_of (v : jv) : option numv :=
  match v with
  | JInt z => Some (NvInt z)
  | JFloat f => Some (NvFlt (fconv F64 f))
  | JDouble f => Some (NvFlt f)
  | JBool b => Some (NvBool b)
  | _ => None
  end.

Definition nv_to_double (a : numv) : spec_float :=
  match a with
  | NvInt z => f_of_Z F64 z
  | NvFlt d => d
  | NvBool b => f_of_Z F64 (if b then 1 else 0)
  end.

Definition nv_to_Z (a : numv) : Z :=
  match a with NvInt z => z | NvBool b => if b then 1 else 0 | NvFlt _ => 0 end.

(* arithmeticCompare(lhs, rhs): integers (and bool) exactly, anything floating as doubles *)
Definition arith (a b : numv) : cmp :=
  match a, b with
  | NvFlt _, _ | _, NvFlt _ => cmp_f64 (nv_to_double a) (nv_to_double b)
  | _, _ => cmp_Z (nv_to_Z a) (nv_to_Z b)
  end.

(* stringCompare: difference of (signed) chars, then lengths *)
Fixpoint string_compare (a b : bytes) : Z :=
  match a, b with
  | [], [] => 0
  | [], _ :: _ => -1
  | _ :: _, [] => 1
  | x :: a', y :: b' => if N.eqb x y then string_compare a' b' else schar x - schar y
  end.

(* memcmp over the common prefix (unsigned bytes), then the lengths (after the fix in RawComparer) *)
Fixpoint raw_compare (a b : bytes) : cmp :=
  match a, b with
  | [], [] => CEqual
  | [], _ :: _ => CLess
  | _ :: _, [] => CGreater
  | x :: a', y :: b' => if N.eqb x y then raw_compare a' b' else if N.ltb x y then CLess else CGreater
  end.

Fixpoint jsize (v : jv) : nat :=
  match v with
  | JArr l => S (fold_right (fun x n => (jsize x + n)%nat) 0%nat l)
  | JObj l => S (fold_right (fun x n => (jsize (snd x) + n)%nat) 0%nat l)
  | _ => 1%nat
  end.

Definition is_equal (c : cmp) : bool := match c with CEqual => true | _ => false end.

(* compare(lhs, rhs) for two variants.  VariantComparer visits lhs, builds a comparer holding the
   lhs value, lets rhs accept it and reverses the answer. *)
Fixpoint compare_fuel (n : nat) (lhs rhs : jv) : cmp :=
  match n with
  | O => CDiffer
  | S n' =>
      let cmpv := compare_fuel n' in
      (* JsonArrayConst::operator==(x, y) *)
      let arr_eq := fix arr_eq (x y : list jv) : bool :=
        match x, y with
        | [], [] => true
        | a :: x', b :: y' => is_equal (cmpv b a) && arr_eq x' y'     (* "a != b" on the elements evaluates compare(b, a) *)
        | _, _ => false
        end in
      (* JsonObjectConst::operator==(x, y): every member of x has an equal value under y[key]
         (first match), and the member counts agree *)
      let obj_eq := fun (x y : list (bytes * jv)) =>
        forallb (fun kv => match assoc_get (fst kv) y with
                           | Some w => is_equal (cmpv w (snd kv))      (* value != rhsValue evaluates compare(rhsValue, value) *)
                           | None => false
                           end) x && Nat.eqb (length x) (length y) in
      match lhs with
      | JArr la => match rhs with
                   | JArr lb => if arr_eq la lb then CEqual else CDiffer   (* ArrayComparer: rhs_ == lhs *)
                   | _ => CDiffer
                   end
      | JObj la => match rhs with
                   | JObj lb => if obj_eq lb la then CEqual else CDiffer   (* ObjectComparer: lhs == rhs_ with the roles swapped *)
                   | _ => CDiffer
                   end
      | JStr s => match rhs with
                  | JStr t =>
                      let i := string_compare s t in
                      cmp_rev (if i <? 0 then CGreater else if 0 <? i then CLess else CEqual)
                  | _ => CDiffer
                  end
      | JRaw a => match rhs with
                  | JRaw b => cmp_rev (raw_compare b a)
                  | _ => CDiffer
                  end
      | JNull => match rhs with JNull => CEqual | _ => CDiffer end
      | _ =>
          match numv_of lhs, numv_of rhs with
          | Some a, Some b => cmp_rev (arith b a)
          | _, _ => CDiffer
          end
      end
  end.

Definition compare (lhs rhs : jv) : cmp := compare_fuel (jsize lhs + jsize rhs) lhs rhs.

(* the six operators of VariantOperators with a variant on both sides.  Overload resolution picks the
   "value OP TVariant" form (the other one is disabled for variant right operands), which evaluates
   compare(rhs, lhs) and reads the answer backwards. *)
Definition op_eq (a b : jv) : bool := is_equal (compare b a).
Definition op_ne (a b : jv) : bool := negb (is_equal (compare b a)).
Definition op_lt (a b : jv) : bool := match compare b a with CGreater => true | _ => false end.
Definition op_gt (a b : jv) : bool := match compare b a with CLess => true | _ => false end.
Definition op_le (a b : jv) : bool := match compare b a with CGreater | CEqual => true | _ => false end.
Definition op_ge (a b : jv) : bool := match compare b a with CLess | CEqual => true | _ => false end.
