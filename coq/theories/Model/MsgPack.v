(* MsgPack.v — mirrors MsgPack/MsgPackSerializer.hpp, MsgPack/MsgPackDeserializer.hpp,
   MsgPack/endianness.hpp and MsgPack/ieee754.hpp.  Definitions only. *)
From Coq Require Import ZArith NArith Bool List.
From Coq Require Import Floats.SpecFloat.
From AJ Require Import Model.Base Model.FloatModel Model.Value Model.JsonParse.
Local Open Scope Z_scope.

(* writeInteger<T>: big-endian, sizeof(T) bytes *)
Fixpoint be_bytes (w : nat) (z : Z) : bytes :=
  match w with
  | O => []
  | S w' => Z.to_N ((z / 2 ^ (8 * Z.of_nat w')) mod 256) :: be_bytes w' z
  end.

Definition bz (z : Z) : N := Z.to_N (z mod 256).

Definition mp_uint (z : Z) : bytes :=
  if z <=? 0x7F then be_bytes 1 z
  else if z <=? 0xFF then bz 0xCC :: be_bytes 1 z
  else if z <=? 0xFFFF then bz 0xCD :: be_bytes 2 z
  else if z <=? 0xFFFFFFFF then bz 0xCE :: be_bytes 4 z
  else bz 0xCF :: be_bytes 8 z.

Definition mp_int (z : Z) : bytes :=
  if 0 <? z then mp_uint z
  else if -0x20 <=? z then be_bytes 1 z
  else if -0x80 <=? z then bz 0xD0 :: be_bytes 1 z
  else if -0x8000 <=? z then bz 0xD1 :: be_bytes 2 z
  else if -0x80000000 <=? z then bz 0xD2 :: be_bytes 4 z
  else bz 0xD3 :: be_bytes 8 z.

(* canConvertNumber<JsonInteger>(float) for a float / double operand *)
Definition f32_fits_i64 (v : spec_float) : bool :=
  f_ge v (f_of_Z F32 (- 2 ^ 63)) && f_le v (sf_of_bits F32 0x5EFFFFFF).

(* visit(float): integral values that survive the round trip through int64 are written as integers *)
Definition mp_f32 (v : spec_float) : bytes :=
  let as_int := if f32_fits_i64 v then
                  let t := f_trunc v in
                  if f_eq v (f_of_Z F32 t) then Some t else None
                else None in
  match as_int with
  | Some t => mp_int t
  | None => bz 0xCA :: be_bytes 4 (bits_of_sf F32 v)
  end.

(* visit(double) *)
Definition mp_f64 (v : spec_float) : bytes :=
  let v32 := fconv F32 v in
  if f_eq (fconv F64 v32) v then mp_f32 v32
  else bz 0xCB :: be_bytes 8 (bits_of_sf F64 v).

Definition mp_str_header (n : Z) : bytes :=
  if n <? 0x20 then [bz (0xA0 + n)]
  else if n <? 0x100 then bz 0xD9 :: be_bytes 1 n
  else if n <? 0x10000 then bz 0xDA :: be_bytes 2 n
  else bz 0xDB :: be_bytes 4 n.

Definition mp_arr_header (n : Z) : bytes :=
  if n <? 0x10 then [bz (0x90 + n)]
  else if n <? 0x10000 then bz 0xDC :: be_bytes 2 n
  else bz 0xDD :: be_bytes 4 n.

Definition mp_map_header (n : Z) : bytes :=
  if n <? 0x10 then [bz (0x80 + n)]
  else if n <? 0x10000 then bz 0xDE :: be_bytes 2 n
  else bz 0xDF :: be_bytes 4 n.

Definition mp_str (s : bytes) : bytes := mp_str_header (Z.of_nat (length s)) ++ s.

Fixpoint mp_ser (v : jv) : bytes :=
  match v with
  | JNull => [bz 0xC0]
  | JBool b => [bz (if b then 0xC3 else 0xC2)]
  | JInt z => mp_int z
  | JFloat f => mp_f32 f
  | JDouble f => mp_f64 f
  | JStr s => mp_str s
  | JRaw r => r
  | JArr l => mp_arr_header (Z.of_nat (length l)) ++ concat (map mp_ser l)
  | JObj l => mp_map_header (Z.of_nat (length l)) ++
              concat (map (fun kv => mp_str (fst kv) ++ mp_ser (snd kv)) l)
  end.

(* ------------------------------------------------------------------------------------- *)
(* deserializer over a bounded reader *)
Record mrd := { m_rest : bytes; m_reads : N }.

(* readBytes(p, n): all or IncompleteInput; a short read consumes what was there *)
Definition read_n (n : nat) (r : mrd) : option bytes * mrd :=
  let got := firstn n (m_rest r) in
  let r' := {| m_rest := skipn n (m_rest r); m_reads := (m_reads r + N.of_nat (length got))%N |} in
  if Nat.eqb (length got) n then (Some got, r') else (None, r').

(* the same with a size announced by a header (up to 2^32-1): never builds a unary number larger
   than the input *)
Definition read_z (n : Z) (r : mrd) : option bytes * mrd :=
  if n <=? Z.of_nat (length (m_rest r)) then read_n (Z.to_nat n) r
  else (None, {| m_rest := []; m_reads := (m_reads r + N.of_nat (length (m_rest r)))%N |}).

(* number of loop iterations for an announced element count: every element consumes at least one
   byte, so more than (bytes left + 1) iterations cannot succeed; clipping keeps the count small *)
Definition clip_count (n : Z) (r : mrd) : nat := Z.to_nat (Z.min n (Z.of_nat (length (m_rest r)) + 1)).

Fixpoint be_value (l : bytes) (acc : Z) : Z :=
  match l with
  | [] => acc
  | b :: t => be_value t (acc * 256 + Z.of_N b)
  end.

Definition jv_of_uint (z : Z) : jv := JInt z.

(* string length cap: strings longer than StringNode::maxLength cannot be allocated (NoMemory) *)
Definition max_string_length : Z := 65535.

Section MpContainers.
  Variable pv : filter -> bool -> mrd -> code * jv * mrd.   (* parseVariant at nesting-1; bool = has destination *)

  (* readArray: n elements *)
  Fixpoint mp_array_loop (n : nat) (ef : filter) (keep : bool) (acc : list jv) (r : mrd) : code * list jv * mrd :=
    match n with
    | O => (Ok, acc, r)
    | S n' =>
        let allow := f_allow ef in
        match pv ef allow r with
        | (Ok, v, r) => mp_array_loop n' ef keep (if allow then acc ++ [v] else acc) r
        | (e, v, r) => (e, (if allow then acc ++ [v] else acc), r)
        end
    end.
End MpContainers.

(* readKey *)
Definition mp_read_key (r : mrd) : code * bytes * mrd :=
  match read_n 1 r with
  | (Some [c], r) =>
      let c := Z.of_N c in
      if Z.land c 0xE0 =? 0xA0 then
        match read_z (Z.land c 0x1F) r with
        | (Some s, r) => (Ok, s, r)
        | (None, r) => (IncompleteInput, [], r)
        end
      else if (0xD9 <=? c) && (c <=? 0xDB) then
        let sb := Z.to_nat (2 ^ (c - 0xD9)) in
        match read_n sb r with
        | (Some l, r) =>
            let size := be_value l 0 in
            if max_string_length <? size then (NoMemory, [], r)
            else
              match read_z size r with
              | (Some s, r) => (Ok, s, r)
              | (None, r) => (IncompleteInput, [], r)
              end
        | (None, r) => (IncompleteInput, [], r)
        end
      else (InvalidInput, [], r)
  | (_, r) => (IncompleteInput, [], r)
  end.

Section MpObject.
  Variable pv : filter -> bool -> mrd -> code * jv * mrd.
  (* readObject: n members; duplicates are NOT merged (addMember appends) *)
  Fixpoint mp_object_loop (n : nat) (f : filter) (acc : list (bytes * jv)) (r : mrd)
    : code * list (bytes * jv) * mrd :=
    match n with
    | O => (Ok, acc, r)
    | S n' =>
        match mp_read_key r with
        | (Ok, key, r) =>
            let mf := f_member f key in
            let allow := f_allow mf in
            match pv mf allow r with
            | (Ok, v, r) => mp_object_loop n' f (if allow then acc ++ [(key, v)] else acc) r
            | (e, v, r) => (e, (if allow then acc ++ [(key, v)] else acc), r)
            end
        | (e, _, r) => (e, acc, r)
        end
    end.
End MpObject.

(* skipBytes(n): byte by byte *)
Definition mp_skip (n : Z) (r : mrd) : code * mrd :=
  match read_z n r with
  | (Some _, r) => (Ok, r)
  | (None, r) => (IncompleteInput, r)
  end.

Definition signed_of (w : nat) (z : Z) : Z :=
  if z <? 2 ^ (8 * Z.of_nat w - 1) then z else z - 2 ^ (8 * Z.of_nat w).

(* parseVariant; [dst] = a destination variant exists (the filter admitted this position).
   L = nesting budget.  With use_double = false a float64 goes through doubleToFloat. *)
Fixpoint mp_parse (cf : cfg) (L : nat) (f : filter) (dst : bool) (r : mrd) {struct L} : code * jv * mrd :=
  match read_n 1 r with
  | (Some [code], r) =>
      let c := Z.of_N code in
      let allow := f_allow_value f in
      let pv' := match L with
                 | O => (fun _ _ r => (TooDeep, JNull, r))
                 | S L' => mp_parse cf L' end in
      if (0xCC <=? c) && (c <=? 0xD3) then
        let width := Z.to_nat (2 ^ ((c - 0xCC) mod 4)) in
        if allow then
          match read_n width r with
          | (Some l, r) =>
              let u := be_value l 0 in
              (Ok, JInt (if 0xD0 <=? c then signed_of width u else u), r)
          | (None, r) => (IncompleteInput, JNull, r)
          end
        else let '(e, r) := mp_skip (Z.of_nat width) r in (e, JNull, r)
      else if c =? 0xC0 then (Ok, JNull, r)
      else if c =? 0xC1 then (InvalidInput, JNull, r)
      else if (c =? 0xC2) || (c =? 0xC3) then (Ok, (if allow then JBool (c =? 0xC3) else JNull), r)
      else if c =? 0xCA then
        if allow then
          match read_n 4 r with
          | (Some l, r) => (Ok, JFloat (sf_of_bits F32 (be_value l 0)), r)
          | (None, r) => (IncompleteInput, JNull, r)
          end
        else let '(e, r) := mp_skip 4 r in (e, JNull, r)
      else if c =? 0xCB then
        if allow then
          match read_n 8 r with
          | (Some l, r) =>
              (* readDouble<double> then VariantData::setFloat(double): with doubles disabled the value
                 is narrowed by static_cast<float> (round to nearest); the byte-level doubleToFloat
                 of ieee754.hpp is only compiled on targets whose `double` is 4 bytes wide *)
              (Ok, jv_of_double (use_double cf) (sf_of_bits F64 (be_value l 0)), r)
          | (None, r) => (IncompleteInput, JNull, r)
          end
        else let '(e, r) := mp_skip 8 r in (e, JNull, r)
      else if (c <=? 0x7F) || (0xE0 <=? c) then
        (Ok, (if allow then JInt (signed_of 1 c) else JNull), r)
      else
        let size_bytes : nat :=
          if (c =? 0xC4) || (c =? 0xC7) || (c =? 0xD9) then 1%nat
          else if (c =? 0xC5) || (c =? 0xC8) || (c =? 0xDA) || (c =? 0xDC) || (c =? 0xDE) then 2%nat
          else if (c =? 0xC6) || (c =? 0xC9) || (c =? 0xDB) || (c =? 0xDD) || (c =? 0xDF) then 4%nat
          else 0%nat in
        let is_ext0 := (0xC7 <=? c) && (c <=? 0xC9) in
        let fixext := (0xD4 <=? c) && (c <=? 0xD8) in
        let size0 := if fixext then 2 ^ (c - 0xD4)
                     else if (Z.land c 0xF0 =? 0x90) || (Z.land c 0xF0 =? 0x80) then Z.land c 0x0F
                     else if Z.land c 0xE0 =? 0xA0 then Z.land c 0x1F
                     else 0 in
        let is_ext := is_ext0 || fixext in
        let hdr := if Nat.eqb size_bytes 0 then (Some [], r) else read_n size_bytes r in
        match hdr with
        | (None, r) => (IncompleteInput, JNull, r)
        | (Some hb, r) =>
            let size := if Nat.eqb size_bytes 0 then size0 else be_value hb 0 in
            if (c =? 0xDC) || (c =? 0xDD) || (Z.land c 0xF0 =? 0x90) then
              (* readArray *)
              match L with
              | O => (TooDeep, JNull, r)
              | S _ =>
                  let keep := f_allow_array f in
                  let '(e, l, r) := mp_array_loop pv' (clip_count size r) (f_element f) keep [] r in
                  (e, (if keep then JArr l else JNull), r)
              end
            else if (c =? 0xDE) || (c =? 0xDF) || (Z.land c 0xF0 =? 0x80) then
              match L with
              | O => (TooDeep, JNull, r)
              | S _ =>
                  let keep := f_allow_object f in
                  let '(e, l, r) := mp_object_loop pv' (clip_count size r) f [] r in
                  (e, (if keep then JObj l else JNull), r)
              end
            else if (c =? 0xD9) || (c =? 0xDA) || (c =? 0xDB) || (Z.land c 0xE0 =? 0xA0) then
              if allow then
                if max_string_length <? size then (NoMemory, JNull, r)
                else
                  match read_z size r with
                  | (Some s, r) => (Ok, JStr s, r)
                  | (None, r) => (IncompleteInput, JNull, r)
                  end
              else let '(e, r) := mp_skip size r in (e, JNull, r)
            else
              let size := if is_ext then size + 1 else size in
              if allow then
                let total := 1 + Z.of_nat size_bytes + size in
                if max_string_length <? total then (NoMemory, JNull, r)
                else
                  match read_z size r with
                  | (Some p, r) => (Ok, JRaw (code :: hb ++ p), r)
                  | (None, r) => (IncompleteInput, JNull, r)
                  end
              else let '(e, r) := mp_skip size r in (e, JNull, r)
        end
  | (_, r) => (IncompleteInput, JNull, r)
  end.

Record mp_out := { mp_err : code; mp_doc : jv; mp_rd : mrd }.

Definition mp_run (cf : cfg) (f : filter) (L : nat) (i : bytes) : mp_out :=
  let '(e, v, r) := mp_parse cf L f true {| m_rest := i; m_reads := 0 |} in
  (* parse(): foundSomething_ ? err : EmptyInput *)
  let e := match i with [] => EmptyInput | _ => e end in
  {| mp_err := e; mp_doc := v; mp_rd := r |}.
