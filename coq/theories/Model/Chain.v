(* Proxy chains  r[p1][p2]...[pn]  written or read in ONE C++ expression (MemberProxy<ElementProxy<...>>): every level is
   the tree model's own step — a lookup, or for a write the library's getOrAddMember / getOrAddElement (the existing child,
   else create it holding null; no effect on a value of the wrong kind).  A chain is therefore not a new primitive of the
   model; Proofs/ChainProofs.v shows that it is a sequence of steps and what it guarantees. *)
From Coq Require Import List NArith Bool.
From AJ Require Import Model.Base Model.Value Model.Tree.
Import ListNotations.
Local Open Scope N_scope.

Inductive pel := PKey (k : bytes) | PIdx (i : nat).

Definition ref_of (r : result) : option N := match r with RRef x => x | _ => None end.

Definition get_op (r : N) (p : pel) : op :=
  match p with PKey k => OGetMember r k | PIdx i => OGetElem r i end.
Definition create_op (r : N) (p : pel) : op :=
  match p with PKey k => OSetMember r k SNull | PIdx i => OSetElem r i SNull end.

(* JsonVariant(r[p]) : no creation *)
Definition get_level (w : world) (r : N) (p : pel) : option N := ref_of (snd (step w (get_op r p))).

(* getOrAddMember / getOrAddElement *)
Definition get_or_add_level (w : world) (r : N) (p : pel) : world * option N :=
  match get_level w r p with
  | Some e => (w, Some e)
  | None => let w' := fst (step w (create_op r p)) in (w', get_level w' r p)
  end.

(* JsonVariant(r[p1]...[pn]) *)
Fixpoint chain_walk (w : world) (cur : option N) (path : list pel) : option N :=
  match path with
  | [] => cur
  | p :: t => match cur with None => None | Some r => chain_walk w (get_level w r p) t end
  end.
Definition chain_get (w : world) (r : N) (path : list pel) : world * result :=
  (w, RRef (chain_walk w (Some r) path)).

(* r[p1]...[pn] = x : resolve-or-create level by level from the root, then set *)
Fixpoint chain_resolve (w : world) (cur : option N) (path : list pel) : world * option N :=
  match path with
  | [] => (w, cur)
  | p :: t => match cur with
              | None => (w, None)
              | Some r => let '(w', e) := get_or_add_level w r p in chain_resolve w' e t
              end
  end.
Definition chain_set (w : world) (r : N) (path : list pel) (x : scalar) : world * result :=
  let '(w', cur) := chain_resolve w (Some r) path in
  match cur with
  | Some e => step w' (OSet e x)
  | None => (w, RBool (set_on_unbound x))
  end.

(* ---- other API calls that are two steps of the model in one expression ---- *)

(* r.add<JsonArray>() / r.add<JsonObject>() / createNestedArray() / createNestedObject():  add<JsonVariant>().to<T>() *)
Definition then_to (w1 : world) (res : result) (arr : bool) : world * result :=
  match ref_of res with
  | Some e => (fst (step w1 (if arr then OToArr e else OToObj e)), RRef (Some e))
  | None => (w1, RRef None)
  end.
Definition add_typed (w : world) (r : N) (arr : bool) : world * result :=
  let '(w1, res) := step w (OAddNew r) in then_to w1 res arr.
(* r[k].to<JsonArray>() / createNestedArray(k) / createNestedObject(k) *)
Definition nest_typed (w : world) (r : N) (k : bytes) (arr : bool) : world * result :=
  let '(w1, res) := step w (OMakeMember r k) in then_to w1 res arr.
(* d = std::move(s): d receives s's content, s is left empty *)
Definition doc_move (w : world) (d s : nat) : world * result :=
  step (fst (step w (ODocCopy d s))) (ODocClear s).

(* dst[p1] = src[p2]  (MemberProxy / ElementProxy assigned from another proxy, or dst[p1].set(src[p2])): the destination
   level is resolved or created first, then the source proxy is evaluated (an absent source is an unbound reference: the
   destination becomes null) and copied *)
Definition proxy_assign (w : world) (r1 : N) (p1 : pel) (r2 : N) (p2 : pel) : world * result :=
  let '(w1, dst) := get_or_add_level w r1 p1 in
  match dst with
  | None => (w1, RBool false)
  | Some d => match get_level w1 r2 p2 with
              | Some s => step w1 (OAssign d s)
              | None => step w1 (OSet d SNull)
              end
  end.
