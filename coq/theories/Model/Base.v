(* Base.v — shared types of the executable model (definitions only). *)
From Coq Require Export List NArith ZArith Bool.
Export ListNotations.

Definition byte := N.
Definition bytes := list N.

(* DeserializationError::Code *)
Inductive code := Ok | EmptyInput | IncompleteInput | InvalidInput | NoMemory | TooDeep
                | OutOfFuel (* model artefact: a fuelled loop ran dry; theorems exclude it *).

Definition code_eqb (a b : code) : bool :=
  match a, b with
  | Ok, Ok | EmptyInput, EmptyInput | IncompleteInput, IncompleteInput
  | InvalidInput, InvalidInput | NoMemory, NoMemory | TooDeep, TooDeep
  | OutOfFuel, OutOfFuel => true
  | _, _ => false
  end.

Fixpoint bytes_eqb (a b : bytes) : bool :=
  match a, b with
  | [], [] => true
  | x :: a', y :: b' => N.eqb x y && bytes_eqb a' b'
  | _, _ => false
  end.

(* `char` is signed on every target the harness builds for (x86-64, gcc/clang). *)
Definition schar (b : N) : Z := if N.ltb b 128 then Z.of_N b else (Z.of_N b - 256)%Z.

(* wrap to an unsigned n-bit machine integer *)
(* = x mod 2^bits (N.land_ones); written with a mask because it is evaluated millions of times *)
Definition wrapN (bits : N) (x : N) : N := N.land x (N.ones bits).
Definition wrapZu (bits : Z) (x : Z) : Z := Z.modulo x (Z.pow 2 bits).
Definition wrapZs (bits : Z) (x : Z) : Z :=
  let m := Z.pow 2 bits in
  let r := Z.modulo x m in
  if Z.ltb r (Z.pow 2 (bits - 1)) then r else (r - m)%Z.

(* every n < 2^k satisfies f — recursion on k, no materialised range *)
Fixpoint all_below_pow2 (k : nat) (f : N -> bool) : bool :=
  match k with
  | O => f 0%N
  | S k' => all_below_pow2 k' (fun n => f (N.double n)) &&
            all_below_pow2 k' (fun n => f (N.succ_double n))
  end.

(* first n < 2^k falsifying f, for counterexample search *)
Fixpoint find_below_pow2 (k : nat) (f : N -> bool) : option N :=
  match k with
  | O => if f 0%N then None else Some 0%N
  | S k' =>
      match find_below_pow2 k' (fun n => f (N.double n)) with
      | Some n => Some (N.double n)
      | None =>
          match find_below_pow2 k' (fun n => f (N.succ_double n)) with
          | Some n => Some (N.succ_double n)
          | None => None
          end
      end
  end.

Fixpoint N_range (start : N) (n : nat) : list N :=
  match n with O => [] | S n' => start :: N_range (N.succ start) n' end.
