(* JsonSer.v — mirrors Json/TextFormatter.hpp (writeInteger, writeFloat, writeDecimals),
   Numbers/FloatParts.hpp (normalize, decomposeFloat), Json/JsonSerializer.hpp,
   Json/PrettyJsonSerializer.hpp and the writers (StaticStringWriter, CountingDecorator).
   Definitions only. *)
From Coq Require Import ZArith NArith Bool List.
From Coq Require Import Floats.SpecFloat.
From AJ Require Import Model.Base Model.FloatModel Model.Value Model.Utf Model.NumParse.
Local Open Scope Z_scope.

(* ---- integers: the reverse-buffer loop of writeInteger ---- *)
Fixpoint digits_rev (fuel : nat) (z : Z) : list N :=
  match fuel with
  | O => []
  | S fuel' =>
      let d := Z.to_N (z mod 10 + 48) in
      let q := z / 10 in
      if q =? 0 then [d] else d :: digits_rev fuel' q
  end.

(* do { *--begin = value % 10 + '0'; value /= 10; } while (value);  — at most 20 digits for uint64 *)
Definition write_uint (z : Z) : bytes := rev (digits_rev 22 z).

Definition write_int (z : Z) : bytes :=
  if z <? 0 then 45%N :: write_uint (- z) else write_uint z.

(* writeDecimals(value, width): exactly `width` digits, least significant last, after a dot *)
Fixpoint decimals_rev (width : nat) (z : Z) : list N :=
  match width with
  | O => []
  | S w => Z.to_N (z mod 10 + 48) :: decimals_rev w (z / 10)
  end.
Definition write_decimals (value : Z) (width : nat) : bytes := 46%N :: rev (decimals_rev width value).

(* ---- FloatParts ---- *)
Definition tbl (f : fmt) (positive : bool) (i : nat) : spec_float :=
  nth i (pow10_table f positive) S754_nan.

(* thresholds ARDUINOJSON_POSITIVE/NEGATIVE_EXPONENTIATION_THRESHOLD (double literals 1e7, 1e-5);
   Gen/Config.v re-reads their bit patterns from the source *)
Definition pos_threshold : spec_float := sf_of_bits F64 0x416312D000000000.
Definition neg_threshold : spec_float := sf_of_bits F64 0x3EE4F8B588E368F1.

(* for (; index >= 0; index--) { if (value >= pos[index]) { value *= neg[index]; p += bit; } bit >>= 1; } *)
Fixpoint normalize_up (f : fmt) (index : nat) (value : spec_float) (p : Z) : spec_float * Z :=
  let bit := 2 ^ Z.of_nat index in
  let '(value, p) :=
    if f_ge value (tbl f true index) then (fmul f value (tbl f false index), wrapZs 16 (p + bit))
    else (value, p) in
  match index with
  | O => (value, p)
  | S i => normalize_up f i value p
  end.

Fixpoint normalize_down (f : fmt) (index : nat) (value : spec_float) (p : Z) : spec_float * Z :=
  let bit := 2 ^ Z.of_nat index in
  let '(value, p) :=
    if f_lt value (fmul f (tbl f false index) (f_of_Z f 10))
    then (fmul f value (tbl f true index), wrapZs 16 (p - bit))
    else (value, p) in
  match index with
  | O => (value, p)
  | S i => normalize_down f i value p
  end.

Definition normalize (f : fmt) (value : spec_float) : spec_float * Z :=
  let top := if Z.eqb (mw f) 52 then 8%nat else 5%nat in
  let as64 := fconv F64 value in          (* the comparison with the double literal *)
  if f_ge as64 pos_threshold then normalize_up f top value 0
  else if f_gt value f_zero && f_le as64 neg_threshold then normalize_down f top value 0
  else (value, 0).

Record float_parts := { fp_integral : Z; fp_decimal : Z; fp_exponent : Z; fp_places : Z }.

(* for (tmp = integral; tmp >= 10; tmp /= 10) { maxDecimalPart /= 10; decimalPlaces--; } *)
Fixpoint reduce_places (fuel : nat) (tmp maxdec places : Z) : Z * Z :=
  match fuel with
  | O => (maxdec, places)
  | S fuel' => if 10 <=? tmp then reduce_places fuel' (tmp / 10) (maxdec / 10) (wrapZs 8 (places - 1))
               else (maxdec, places)
  end.

(* while (decimal % 10 == 0 && decimalPlaces > 0) { decimal /= 10; decimalPlaces--; } *)
Fixpoint strip_zeros (fuel : nat) (decimal places : Z) : Z * Z :=
  match fuel with
  | O => (decimal, places)
  | S fuel' => if (decimal mod 10 =? 0) && (0 <? places) then strip_zeros fuel' (decimal / 10) (places - 1)
               else (decimal, places)
  end.

(* uint32_t(x) for a non-negative finite x below 2^32 (the only case that occurs, see Proofs) *)
Definition to_u32 (x : spec_float) : Z := wrapZu 32 (f_trunc x).

Definition decompose_float (f : fmt) (value : spec_float) (decimal_places : Z) : float_parts :=
  let maxdec := 10 ^ decimal_places in
  let '(value, exponent) := normalize f value in
  let integral := to_u32 value in
  let '(maxdec, places) := reduce_places 12 integral maxdec decimal_places in
  let remainder := fmul f (fsub f value (f_of_Z f integral)) (f_of_Z f maxdec) in
  let decimal := to_u32 remainder in
  let remainder := fsub f remainder (f_of_Z f decimal) in
  let decimal := wrapZu 32 (decimal + to_u32 (fmul f remainder (f_of_Z f 2))) in
  let '(decimal, integral, exponent) :=
    if maxdec <=? decimal then
      let integral := wrapZu 32 (integral + 1) in
      if negb (exponent =? 0) && (10 <=? integral) then (0, 1, wrapZs 16 (exponent + 1))
      else (0, integral, exponent)
    else (decimal, integral, exponent) in
  let '(decimal, places) := strip_zeros 12 decimal places in
  {| fp_integral := integral; fp_decimal := decimal; fp_exponent := exponent; fp_places := places |}.

Definition str_null : bytes := [110; 117; 108; 108]%N.
Definition str_NaN : bytes := [78; 97; 78]%N.
Definition str_Infinity : bytes := [73; 110; 102; 105; 110; 105; 116; 121]%N.

(* TextFormatter::writeFloat(JsonFloat value, int8_t decimalPlaces) *)
Definition write_float (c : cfg) (value : spec_float) (decimal_places : Z) : bytes :=
  let f := jfmt c in
  if is_nan value then (if enable_nan c then str_NaN else str_null)
  else
    let body (value : spec_float) : bytes :=
      let p := decompose_float f value decimal_places in
      write_uint (fp_integral p) ++
      (if negb (fp_places p =? 0) then write_decimals (fp_decimal p) (Z.to_nat (fp_places p)) else []) ++
      (if negb (fp_exponent p =? 0) then 101%N :: write_int (fp_exponent p) else []) in
    if enable_inf c then
      let neg := f_lt value f_zero in
      let value := if neg then fneg value else value in
      (if neg then [45%N] else []) ++ (if is_inf value then str_Infinity else body value)
    else if is_inf value then str_null
    else
      let neg := f_lt value f_zero in
      let value := if neg then fneg value else value in
      (if neg then [45%N] else []) ++ body value.

(* writeFloat<T>(T value): JsonFloat(value), sizeof(T) >= 8 ? 9 : 6 *)
Definition write_f32 (c : cfg) (v : spec_float) : bytes := write_float c (fconv (jfmt c) v) 6.
Definition write_f64 (c : cfg) (v : spec_float) : bytes := write_float c (fconv (jfmt c) v) 9.

(* ---- JsonSerializer ---- *)
Fixpoint join (sep : bytes) (l : list bytes) : bytes :=
  match l with
  | [] => []
  | [x] => x
  | x :: t => x ++ sep ++ join sep t
  end.

Fixpoint ser (c : cfg) (v : jv) : bytes :=
  match v with
  | JNull => str_null
  | JBool true => [116; 114; 117; 101]%N
  | JBool false => [102; 97; 108; 115; 101]%N
  | JInt z => write_int z
  | JFloat f => write_f32 c f
  | JDouble f => write_f64 c f
  | JStr s => write_string s
  | JRaw r => r
  | JArr l => [91%N] ++ join [44%N] (map (ser c) l) ++ [93%N]
  | JObj l => [123%N] ++ join [44%N] (map (fun kv => write_string (fst kv) ++ [58%N] ++ ser c (snd kv)) l) ++ [125%N]
  end.

(* ---- PrettyJsonSerializer: CRLF, ARDUINOJSON_TAB, uint8_t nesting_ ---- *)
Definition tab_bytes : bytes := [32; 32]%N.
Definition crlf : bytes := [13; 10]%N.
Definition indent (nest : Z) : bytes := concat (repeat tab_bytes (Z.to_nat (wrapZu 8 nest))).

Fixpoint ser_pretty (c : cfg) (nest : Z) (v : jv) : bytes :=
  match v with
  | JArr [] => [91; 93]%N
  | JObj [] => [123; 125]%N
  | JArr l =>
      [91%N] ++ crlf ++
      join ([44%N] ++ crlf) (map (fun x => indent (nest + 1) ++ ser_pretty c (nest + 1) x) l) ++
      crlf ++ indent nest ++ [93%N]
  | JObj l =>
      [123%N] ++ crlf ++
      join ([44%N] ++ crlf)
        (map (fun kv => indent (nest + 1) ++ write_string (fst kv) ++ [58; 32]%N ++ ser_pretty c (nest + 1) (snd kv)) l) ++
      crlf ++ indent nest ++ [125%N]
  | _ => ser c v
  end.

(* ---- writers ---- *)
(* serialize(source, buffer, n): (stored bytes, returned count, a NUL is stored after them) *)
Definition write_to_buffer (produces_text : bool) (n : nat) (t : bytes) : bytes * nat * bool :=
  let stored := firstn n t in
  (stored, length stored, produces_text && Nat.ltb (length stored) n).

(* measureJson & unbounded destinations *)
Definition measure (t : bytes) : nat := length t.
