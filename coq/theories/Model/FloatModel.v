(* FloatModel.v — executable IEEE-754 binary32/binary64 on top of Coq.Floats.SpecFloat
   (pure Gallina, no primitive floats, no axioms).  Definitions only. *)
From Coq Require Import ZArith Bool.
From Coq Require Import Floats.SpecFloat.
From AJ Require Import Model.Base.
Local Open Scope Z_scope.

Record fmt := { mw : Z; ew : Z }.          (* mantissa field width, exponent field width *)
Definition F32 := {| mw := 23; ew := 8 |}.
Definition F64 := {| mw := 52; ew := 11 |}.
Definition prec (f : fmt) := mw f + 1.
Definition emax (f : fmt) := 2 ^ (ew f - 1).
Definition bias (f : fmt) := 2 ^ (ew f - 1) - 1.
Definition femin (f : fmt) := emin (prec f) (emax f).

Definition sf_of_bits (f : fmt) (x : Z) : spec_float :=
  let sign := Z.odd (x / 2 ^ (mw f + ew f)) in
  let e := (x / 2 ^ mw f) mod 2 ^ ew f in
  let m := x mod 2 ^ mw f in
  if e =? 0 then
    (if m =? 0 then S754_zero sign else S754_finite sign (Z.to_pos m) (femin f))
  else if e =? 2 ^ ew f - 1 then
    (if m =? 0 then S754_infinity sign else S754_nan)
  else S754_finite sign (Z.to_pos (m + 2 ^ mw f)) (e - bias f - mw f).

Definition sign_bit (f : fmt) (s : bool) : Z := if s then 2 ^ (mw f + ew f) else 0.

(* canonical quiet NaN as forged by FloatTraits::nan(); sign/payload of NaNs produced by
   arithmetic are not modelled (never compared) *)
Definition bits_of_sf (f : fmt) (x : spec_float) : Z :=
  match x with
  | S754_zero s => sign_bit f s
  | S754_infinity s => sign_bit f s + (2 ^ ew f - 1) * 2 ^ mw f
  | S754_nan => (2 ^ ew f - 1) * 2 ^ mw f + 2 ^ (mw f - 1)
  | S754_finite s m e =>
      let m := Z.pos m in
      if m <? 2 ^ mw f then sign_bit f s + m
      else sign_bit f s + (e + bias f + mw f) * 2 ^ mw f + (m - 2 ^ mw f)
  end.

Definition fmul (f : fmt) := SFmul (prec f) (emax f).
Definition fadd (f : fmt) := SFadd (prec f) (emax f).
Definition fsub (f : fmt) := SFsub (prec f) (emax f).
Definition fdiv (f : fmt) := SFdiv (prec f) (emax f).
Definition fneg := SFopp.

(* integer -> float, round to nearest even (C++ static_cast<T>(integer)) *)
Definition f_of_Z (f : fmt) (z : Z) : spec_float := binary_normalize (prec f) (emax f) z 0 false.

(* float -> float conversion (static_cast between float and double): exact when widening,
   round-to-nearest-even when narrowing *)
Definition fconv (dst : fmt) (x : spec_float) : spec_float :=
  match x with
  | S754_finite s m e => binary_normalize (prec dst) (emax dst) (if s then Z.neg m else Z.pos m) e s
  | _ => x
  end.

(* truncation toward zero; only meaningful for finite values *)
Definition f_trunc (x : spec_float) : Z :=
  match x with
  | S754_finite s m e =>
      let a := if 0 <=? e then Z.pos m * 2 ^ e else Z.pos m / 2 ^ (- e) in
      if s then - a else a
  | _ => 0
  end.

Definition is_nan (x : spec_float) := match x with S754_nan => true | _ => false end.
Definition is_inf (x : spec_float) := match x with S754_infinity _ => true | _ => false end.
Definition is_finite (x : spec_float) :=
  match x with S754_zero _ | S754_finite _ _ _ => true | _ => false end.

(* C++ relational operators: every comparison with NaN is false *)
Definition f_lt (a b : spec_float) := match SFcompare a b with Some Lt => true | _ => false end.
Definition f_gt (a b : spec_float) := match SFcompare a b with Some Gt => true | _ => false end.
Definition f_le (a b : spec_float) := match SFcompare a b with Some Lt | Some Eq => true | _ => false end.
Definition f_ge (a b : spec_float) := match SFcompare a b with Some Gt | Some Eq => true | _ => false end.
Definition f_eq (a b : spec_float) := match SFcompare a b with Some Eq => true | _ => false end.
Definition f_ne (a b : spec_float) := negb (f_eq a b).

Definition f_zero := S754_zero false.
Definition f_mzero := S754_zero true.
Definition f_pinf := S754_infinity false.
Definition f_minf := S754_infinity true.
