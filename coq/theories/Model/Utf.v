(* Utf.v — mirrors Json/Utf16.hpp, Json/Utf8.hpp, Json/EscapeSequence.hpp and
   TextFormatter::{writeChar,writeString}.  Definitions only. *)
From Coq Require Import NArith Bool List.
From AJ Require Import Model.Base.
Local Open Scope N_scope.

(* ---- Utf16 ---- *)
Definition is_high_surrogate (u : N) : bool := (0xD800 <=? u) && (u <? 0xDC00).
Definition is_low_surrogate (u : N) : bool := (0xDC00 <=? u) && (u <? 0xE000).

Record codepoint := { hi_sur : N (* uint16 *); cp_val : N (* uint32 *) }.
Definition cp_init := {| hi_sur := 0; cp_val := 0 |}.

(* Utf16::Codepoint::append — returns (a code point is complete, new state) *)
Definition cp_append (s : codepoint) (u : N) : bool * codepoint :=
  if is_high_surrogate u then (false, {| hi_sur := N.land u 0x3FF; cp_val := cp_val s |})
  else if is_low_surrogate u then
    (true, {| hi_sur := hi_sur s;
              cp_val := wrapN 32 (0x10000 + N.lor (N.shiftl (hi_sur s) 10) (N.land u 0x3FF)) |})
  else (true, {| hi_sur := hi_sur s; cp_val := u |}).

(* ---- Utf8::encodeCodepoint ----
   The C++ fills a 5-byte buffer in reverse behind a 0 sentinel and then emits bytes until it
   meets a zero; `emit_rev` is that final loop (it stops at the first zero byte). *)
Fixpoint emit_until_zero (l : list N) : list N :=
  match l with
  | [] => []
  | b :: t => if b =? 0 then [] else b :: emit_until_zero t
  end.

Definition cont_byte (x : N) : N := N.land (N.lor (wrapN 8 x) 0x80) 0xBF.

Definition encode_codepoint (cp32 : N) : bytes :=
  if cp32 <? 0x80 then [wrapN 8 cp32]
  else
    let b0 := cont_byte cp32 in
    let c16 := wrapN 16 (N.shiftr cp32 6) in
    if c16 <? 0x20 then emit_until_zero [wrapN 8 (N.lor c16 0xC0); b0]
    else
      let b1 := cont_byte c16 in
      let c16' := wrapN 16 (N.shiftr c16 6) in
      if c16' <? 0x10 then emit_until_zero [wrapN 8 (N.lor c16' 0xE0); b1; b0]
      else
        let b2 := cont_byte c16' in
        let c16'' := wrapN 16 (N.shiftr c16' 6) in
        emit_until_zero [wrapN 8 (N.lor c16'' 0xF0); b2; b1; b0].

(* ---- EscapeSequence ----  the table "//''\"\"\\\\b\bf\fn\nr\rt\t" as pairs (escape letter, byte);
   the serializer skips the first two pairs.  Gen/Tables.v re-derives this from the source. *)
Definition escape_table_full : list (N * N) :=
  [(47, 47); (39, 39); (34, 34); (92, 92); (98, 8); (102, 12); (110, 10); (114, 13); (116, 9)].
Definition escape_table_ser := skipn 2 escape_table_full.

(* escapeChar: the letter to put after a backslash, 0 if none.  The C++ loop tests
   p[0] && p[1] != c, so it also stops on the table's terminating NUL. *)
Fixpoint escape_char_in (t : list (N * N)) (c : N) : N :=
  match t with
  | [] => 0
  | (l, b) :: t' => if b =? c then l else escape_char_in t' c
  end.
Definition escape_char (c : N) : N := escape_char_in escape_table_ser c.

Fixpoint unescape_char_in (t : list (N * N)) (c : N) : N :=
  match t with
  | [] => 0
  | (l, b) :: t' => if l =? c then b else unescape_char_in t' c
  end.
Definition unescape_char (c : N) : N := unescape_char_in escape_table_full c.

(* TextFormatter::writeChar *)
Definition write_char (c : N) : bytes :=
  let sp := escape_char c in
  if negb (sp =? 0) then [92; sp]
  else if negb (c =? 0) then [c]
  else [92; 117; 48; 48; 48; 48].    (* \u0000 *)

(* TextFormatter::writeString(const char*, size_t) *)
Definition write_string (s : bytes) : bytes := [34] ++ flat_map write_char s ++ [34].

(* JsonDeserializer::decodeHex on a (signed) char given as a byte *)
Definition decode_hex (c : N) : N :=
  let sc := schar c in
  if Z.leb sc 57 then Z.to_N (wrapZu 8 (sc - 48))
  else
    let up := schar (N.land c 0xDF) in      (* char(c & ~0x20) *)
    if Z.ltb up 65 then 0xFF
    else Z.to_N (wrapZu 8 (up - 65 + 10)).
