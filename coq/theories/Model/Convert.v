(* Convert.v — mirrors Numbers/convertNumber.hpp (canConvertNumber / convertNumber overload set),
   VariantData::{asIntegral, asFloat, isInteger, isFloat} and Number::convertTo.  Definitions only. *)
From Coq Require Import ZArith NArith Bool List.
From Coq Require Import Floats.SpecFloat.
From AJ Require Import Model.Base Model.FloatModel Model.Value Model.NumParse.
Local Open Scope Z_scope.

(* integral target types: signedness and width in bytes (char/short/int/long/long long and their
   unsigned variants all reduce to these on the harness platform) *)
Record ity := { signed : bool; bytes_ : Z }.
Definition ity_lo (t : ity) : Z := if signed t then - 2 ^ (8 * bytes_ t - 1) else 0.
Definition ity_hi (t : ity) : Z := if signed t then 2 ^ (8 * bytes_ t - 1) - 1 else 2 ^ (8 * bytes_ t) - 1.
Definition fits (t : ity) (z : Z) : bool := (ity_lo t <=? z) && (z <=? ity_hi t).

(* integer -> integer: every overload of canConvertNumber reduces to the range test *)
Definition conv_int_int (t : ity) (z : Z) : Z := if fits t z then z else 0.

(* FloatTraits<TIn>::highest_for<TOut>() — the largest TIn not above max(TOut), used when
   sizeof(TOut) >= sizeof(TIn); bit patterns as in the source (Gen/Config.v re-reads them) *)
Definition highest_for (f : fmt) (t : ity) : spec_float :=
  if Z.eqb (mw f) 52 then
    (if signed t then sf_of_bits F64 0x43DFFFFFFFFFFFFF else sf_of_bits F64 0x43EFFFFFFFFFFFFF)
  else if Z.eqb (bytes_ t) 4 then
    (if signed t then sf_of_bits F32 0x4EFFFFFF else sf_of_bits F32 0x4F7FFFFF)
  else
    (if signed t then sf_of_bits F32 0x5EFFFFFF else sf_of_bits F32 0x5F7FFFFF).

Definition fmt_bytes (f : fmt) : Z := if Z.eqb (mw f) 52 then 8 else 4.

(* canConvertNumber<TOut>(TIn value) for a floating TIn and an integral TOut *)
Definition can_conv_float_int (f : fmt) (t : ity) (v : spec_float) : bool :=
  f_ge v (f_of_Z f (ity_lo t)) &&
  (if bytes_ t <? fmt_bytes f then f_le v (f_of_Z f (ity_hi t)) else f_le v (highest_for f t)).

(* convertNumber<TOut>(TIn): TOut(value) — truncation toward zero — when allowed, else 0 *)
Definition conv_float_int (f : fmt) (t : ity) (v : spec_float) : Z :=
  if can_conv_float_int f t v then f_trunc v else 0.

(* Number::convertTo<T> for an integral T *)
Definition number_to_int (t : ity) (n : number) : Z :=
  match n with
  | NumUInt z | NumSInt z => conv_int_int t z
  | NumFloat v => conv_float_int F32 t v
  | NumDouble v => conv_float_int F64 t v
  | NumInvalid | NumFault => 0
  end.

(* Number::convertTo<T> for a floating T (static_cast) *)
Definition number_to_float (dst : fmt) (n : number) : spec_float :=
  match n with
  | NumUInt z | NumSInt z => f_of_Z dst z
  | NumFloat v | NumDouble v => fconv dst v
  | NumInvalid | NumFault => f_zero
  end.

(* strings are C strings for parseNumber: cut at the first NUL *)
Fixpoint c_str (s : bytes) : bytes :=
  match s with
  | [] => []
  | b :: t => if N.eqb b 0 then [] else b :: c_str t
  end.

(* VariantData::asIntegral<T> *)
Definition as_int (c : cfg) (t : ity) (v : jv) : Z :=
  match v with
  | JBool b => if b then 1 else 0
  | JInt z => conv_int_int t z
  | JFloat f => conv_float_int F32 t f
  | JDouble f => conv_float_int F64 t f
  | JStr s => number_to_int t (parse_number c (c_str s))
  | _ => 0
  end.

(* VariantData::asFloat<T> *)
Definition as_float (c : cfg) (dst : fmt) (v : jv) : spec_float :=
  match v with
  | JBool b => f_of_Z dst (if b then 1 else 0)
  | JInt z => f_of_Z dst z
  | JFloat f | JDouble f => fconv dst f
  | JStr s => number_to_float dst (parse_number c (c_str s))
  | _ => f_zero
  end.

(* VariantData::isInteger<T>, isFloat *)
Definition is_int (t : ity) (v : jv) : bool := match v with JInt z => fits t z | _ => false end.
Definition is_float (v : jv) : bool := match v with JInt _ | JFloat _ | JDouble _ => true | _ => false end.

Definition I8 := {| signed := true; bytes_ := 1 |}.   Definition U8 := {| signed := false; bytes_ := 1 |}.
Definition I16 := {| signed := true; bytes_ := 2 |}.  Definition U16 := {| signed := false; bytes_ := 2 |}.
Definition I32 := {| signed := true; bytes_ := 4 |}.  Definition U32 := {| signed := false; bytes_ := 4 |}.
Definition I64 := {| signed := true; bytes_ := 8 |}.  Definition U64 := {| signed := false; bytes_ := 8 |}.

(* ---- Array/Utilities.hpp: copyArray from a document to C arrays ------------------------------------------------ *)
(* The destination is modelled as the list of its current elements; the result is the destination afterwards and the
   count the function returns. *)
Definition elems_of (v : jv) : list jv := match v with JArr l => l | _ => [] end.   (* as<JsonArrayConst>() *)

(* copyArray(JsonArrayConst src, T* dst, size_t len) : min(size, len) elements converted by as<T>(), the rest untouched *)
Definition copy_array_1d (c : cfg) (t : ity) (src : jv) (dst : list Z) : list Z * nat :=
  let n := Nat.min (length (elems_of src)) (length dst) in
  (map (as_int c t) (firstn n (elems_of src)) ++ skipn n dst, n).

(* copyArray(JsonArrayConst src, T (&dst)[N1][N2]) : row i receives the 1-d copy of element i (an element that is not an
   array copies nothing into its row) *)
Fixpoint copy_rows (c : cfg) (t : ity) (src : list jv) (dst : list (list Z)) : list (list Z) :=
  match src, dst with
  | e :: src', row :: dst' => fst (copy_array_1d c t e row) :: copy_rows c t src' dst'
  | _, _ => dst
  end.
Definition copy_array_2d (c : cfg) (t : ity) (src : jv) (dst : list (list Z)) : list (list Z) * nat :=
  (copy_rows c t (elems_of src) dst, Nat.min (length (elems_of src)) (length dst)).

(* copyArray(JsonVariantConst src, char (&dst)[N]) with N = length dst >= 1 : at most N-1 bytes of the string, then NUL;
   a source that is not a string is the null JsonString (size 0) *)
Definition copy_string (src : jv) (dst : bytes) : bytes :=
  let s := match src with JStr s => s | _ => [] end in
  let len := Nat.min (length dst - 1) (length s) in
  firstn len s ++ [0%N] ++ skipn (S len) dst.
