(* Collection.v — mirrors Collection/CollectionData.hpp + CollectionImpl.hpp (arrays and objects as singly
   linked lists of slots with head_ / tail_), Array/ArrayImpl.hpp and the slot allocator of Pool.v underneath:
   the slot-level picture of one array (elements) or one object (key slot, value slot, key slot, ...).
   Definitions only. *)
From Coq Require Import NArith Bool List.
From AJ Require Import Model.Base Model.Pool.
Local Open Scope N_scope.

(* the `next_` field of every slot *)
Definition links := N -> N.
Definition set_next (lk : links) (id nxt : N) : links := fun x => if x =? id then nxt else lk x.

Record coll := { c_head : N; c_tail : N }.
Definition coll_empty (null : N) : coll := {| c_head := null; c_tail := null |}.

(* CollectionData::appendOne *)
Definition append_one (null : N) (lk : links) (c : coll) (id : N) : links * coll :=
  let lk := set_next lk id null in                       (* a fresh VariantData has next_ = NULL_SLOT *)
  if negb (c_tail c =? null) then (set_next lk (c_tail c) id, {| c_head := c_head c; c_tail := id |})
  else (lk, {| c_head := id; c_tail := id |}).

(* CollectionData::appendPair *)
Definition append_pair (null : N) (lk : links) (c : coll) (key value : N) : links * coll :=
  let lk := set_next (set_next lk value null) key value in
  if negb (c_tail c =? null) then (set_next lk (c_tail c) key, {| c_head := c_head c; c_tail := value |})
  else (lk, {| c_head := key; c_tail := value |}).

(* the chain of slot ids from [from] (iteration order); fuel bounds the walk *)
Fixpoint chain (fuel : nat) (null : N) (lk : links) (from : N) : list N :=
  match fuel with
  | O => []
  | S fuel' => if from =? null then [] else from :: chain fuel' null lk (lk from)
  end.

(* getPreviousSlot: the slot whose next_ is target, null if target is the head *)
Fixpoint prev_of (fuel : nat) (null : N) (lk : links) (cur target prev : N) : N :=
  match fuel with
  | O => prev
  | S fuel' => if (cur =? null) || (cur =? target) then prev else prev_of fuel' null lk (lk cur) target cur
  end.

(* CollectionData::removeOne on the slot [id] (which is in the chain) *)
Definition remove_one (fuel : nat) (null : N) (lk : links) (c : coll) (id : N) : links * coll :=
  let prev := prev_of fuel null lk (c_head c) id null in
  let nxt := lk id in
  let lk' := if negb (prev =? null) then set_next lk prev nxt else lk in
  let head' := if negb (prev =? null) then c_head c else nxt in
  let tail' := if nxt =? null then prev else c_tail c in
  (lk', {| c_head := head'; c_tail := tail' |}).

(* CollectionData::removePair on the key slot [key]: unlink and free the value slot first, then the key slot *)
Definition remove_pair (fuel : nat) (null : N) (lk : links) (c : coll) (key : N) : links * coll * N :=
  let value := lk key in
  let lk := set_next lk key (lk value) in
  let '(lk, c) := remove_one fuel null lk c key in
  (lk, c, value).

(* ---- one array / one object on top of the slot allocator ---- *)
Record astate := { a_ps : pstate; a_links : links; a_coll : coll }.
Definition a_init (g : geom) : astate :=
  {| a_ps := ps0 g; a_links := (fun _ => null_slot g); a_coll := coll_empty (null_slot g) |}.

Definition walk_fuel (s : astate) : nat := S (length (lv (a_ps s))).
Definition elements (g : geom) (s : astate) : list N := chain (walk_fuel s) (null_slot g) (a_links s) (c_head (a_coll s)).

(* Which calls allocSlot makes to the user's allocator, and what they answer.  [fails] is the answer to the
   upcoming allocator calls (true = the call returns NULL); returns the result and the answers not consumed.
   A slot from the free list or the last pool costs no call; a new pool costs one call for the pool's slots,
   preceded by one for the pool table when the table is full (and can still grow); when the table call fails
   the pool call is not made. *)
Definition alloc_with (g : geom) (fails : list bool) (p : plist) : (option N * plist) * list bool :=
  let needs_pool := match free_list p with [] => true | _ => false end
                    && (match alloc_from_last g p with None => true | Some _ => false end)
                    && negb (max_pools g <=? count p) in
  let table_full := count p =? table_cap p in
  let needs_table := needs_pool && table_full && negb (table_cap p =? max_pools g) in
  let ok_table := if needs_table then negb (hd false fails) else true in
  let fails1 := if needs_table then tl fails else fails in
  let pool_called := needs_pool && negb (table_full && (table_cap p =? max_pools g)) && ok_table in
  let ok_pool := if pool_called then negb (hd false fails1) else true in
  let fails2 := if pool_called then tl fails1 else fails1 in
  (alloc_slot g ok_table ok_pool p, fails2).

Inductive aop :=
| AAdd (fails : list bool)            (* array.add(): allocVariant then appendOne *)
| AGetOrAdd (k : nat) (fails : list bool)   (* array[k] = ...: getOrAddElement pads with k - size + 1 new elements *)
| ARemove (k : nat)                   (* array.remove(k): at(k) then removeOne + freeVariant; no-op beyond the end *)
| OAdd (fails : list bool)            (* object[fresh key] = ...: addMember: key slot, value slot, key string, appendPair *)
| ORemove (k : nat)                   (* object.remove(k-th key): removePair *)
| AClear                              (* clear(): free every slot in iteration order *)
| AShrink.                            (* document shrinkToFit() *)

Definition remove_live (id : N) (l : list N) : list N := filter (fun x => negb (x =? id)) l.

Definition with_ps (s : astate) (p : plist) (l : list N) (ov : bool) : pstate :=
  {| pl := p; lv := l; overflowed := ov |}.

(* ArrayData::addElement *)
Definition add_element (g : geom) (s : astate) (fails : list bool) : astate * option N * list bool :=
  match alloc_with g fails (pl (a_ps s)) with
  | ((Some id, p'), fl) =>
      let '(lk, c) := append_one (null_slot g) (a_links s) (a_coll s) id in
      ({| a_ps := with_ps s p' (lv (a_ps s) ++ [id]) (overflowed (a_ps s)); a_links := lk; a_coll := c |}, Some id, fl)
  | ((None, p'), fl) =>
      ({| a_ps := with_ps s p' (lv (a_ps s)) true; a_links := a_links s; a_coll := a_coll s |}, None, fl)
  end.

Fixpoint add_elements (g : geom) (n : nat) (s : astate) (fails : list bool) : astate * option N * list bool :=
  match n with
  | O => (s, None, fails)
  | S n' =>
      match add_element g s fails with
      | (s', Some id, fl) => match n' with O => (s', Some id, fl) | _ => add_elements g n' s' fl end
      | (s', None, fl) => (s', None, fl)
      end
  end.

(* the result of an operation: the slot it produced or removed, and how many allocator calls it made *)
Definition astep (g : geom) (s : astate) (o : aop) : astate * option N * nat :=
  let null := null_slot g in
  let used (fails fl : list bool) := (length fails - length fl)%nat in
  match o with
  | AAdd fails =>
      let '(s', r, fl) := add_element g s fails in (s', r, used fails fl)
  | AGetOrAdd k fails =>
      let n := length (elements g s) in
      if Nat.ltb k n then (s, nth_error (elements g s) k, O)
      else let '(s', r, fl) := add_elements g (S k - n) s fails in (s', r, used fails fl)
  | ARemove k =>
      match nth_error (elements g s) k with
      | Some id =>
          let '(lk, c) := remove_one (walk_fuel s) null (a_links s) (a_coll s) id in
          ({| a_ps := with_ps s (free_slot id (pl (a_ps s))) (remove_live id (lv (a_ps s))) (overflowed (a_ps s));
              a_links := lk; a_coll := c |}, Some id, O)
      | None => (s, None, O)
      end
  | OAdd fails =>
      match alloc_with g fails (pl (a_ps s)) with
      | ((None, p1), f1) =>
          ({| a_ps := with_ps s p1 (lv (a_ps s)) true; a_links := a_links s; a_coll := a_coll s |}, None, used fails f1)
      | ((Some key, p1), f1) =>
          match alloc_with g f1 p1 with
          | ((None, p2), f2) =>     (* the key slot stays allocated, unreachable, until the document is cleared *)
              ({| a_ps := with_ps s p2 (lv (a_ps s) ++ [key]) true; a_links := a_links s; a_coll := a_coll s |}, None, used fails f2)
          | ((Some value, p2), f2) =>
              if hd false f2 then   (* the key string could not be stored: both slots stay allocated, unreachable *)
                ({| a_ps := with_ps s p2 (lv (a_ps s) ++ [key; value]) true; a_links := a_links s; a_coll := a_coll s |},
                 None, used fails (tl f2))
              else
                let '(lk, c) := append_pair null (a_links s) (a_coll s) key value in
                ({| a_ps := with_ps s p2 (lv (a_ps s) ++ [key; value]) (overflowed (a_ps s)); a_links := lk; a_coll := c |},
                 Some value, used fails (tl f2))
          end
      end
  | ORemove k =>
      match nth_error (elements g s) (2 * k) with
      | Some key =>
          let '(lk, c, value) := remove_pair (walk_fuel s) null (a_links s) (a_coll s) key in
          ({| a_ps := with_ps s (free_slot key (free_slot value (pl (a_ps s))))
                              (remove_live key (remove_live value (lv (a_ps s)))) (overflowed (a_ps s));
              a_links := lk; a_coll := c |}, Some key, O)
      | None => (s, None, O)
      end
  | AClear =>
      let ids := elements g s in
      let p' := fold_left (fun p id => free_slot id p) ids (pl (a_ps s)) in
      ({| a_ps := with_ps s p' (fold_left (fun l id => remove_live id l) ids (lv (a_ps s))) (overflowed (a_ps s));
          a_links := a_links s; a_coll := coll_empty null |}, None, O)
  | AShrink =>
      ({| a_ps := with_ps s (pl_shrink (pl (a_ps s))) (lv (a_ps s)) (overflowed (a_ps s));
          a_links := a_links s; a_coll := a_coll s |}, None, O)
  end.

(* run a history; after every operation: the result, the allocator calls, the chain of slot ids *)
Definition arun (g : geom) (ops : list aop) : astate * list (option N * nat * list N) :=
  fold_left (fun acc o => let '(s, outs) := acc in
                          let '(s', r, calls) := astep g s o in (s', outs ++ [(r, calls, elements g s')]))
            ops (a_init g, []).
