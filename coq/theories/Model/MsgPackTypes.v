(* MsgPackTypes.v — mirrors MsgPack/MsgPackBinary.hpp and MsgPack/MsgPackExtension.hpp: the converters that build the
   raw bytes of a bin / ext object from a payload given through the typed API (doc.set(MsgPackBinary(p, n)),
   doc.set(MsgPackExtension(type, p, n))) and read them back (as<MsgPackBinary>(), as<MsgPackExtension>()).
   A raw value is stored as a string: total size at most StringNode::maxLength.  Definitions only. *)
From Coq Require Import ZArith NArith Bool List.
From AJ Require Import Model.Base Model.Value Model.MsgPack.
Import ListNotations.
Local Open Scope N_scope.

Definition nlen (l : bytes) : N := N.of_nat (length l).
Definition be_n (w : nat) (n : N) : bytes := be_bytes w (Z.of_N n).

(* Converter<MsgPackBinary>::toJson : the stored raw bytes (None: the string could not be created, the value stays null) *)
Definition mp_binary_raw (p : bytes) : option bytes :=
  let n := nlen p in
  let raw := if 0x10000 <=? n then 0xC6 :: be_n 4 n ++ p
             else if 0x100 <=? n then 0xC5 :: be_n 2 n ++ p
             else 0xC4 :: be_n 1 n ++ p in
  if nlen raw <=? 65535 then Some raw else None.

(* Converter<MsgPackExtension>::toJson ; [ty] is the type octet (int8_t seen as a byte) *)
Definition mp_extension_raw (ty : N) (p : bytes) : option bytes :=
  let n := nlen p in
  let hdr := if 0x10000 <=? n then 0xC9 :: be_n 4 n
             else if 0x100 <=? n then 0xC8 :: be_n 2 n
             else if n =? 16 then [0xD8]
             else if n =? 8 then [0xD7]
             else if n =? 4 then [0xD6]
             else if n =? 2 then [0xD5]
             else if n =? 1 then [0xD4]
             else 0xC7 :: be_n 1 n in
  let raw := hdr ++ ty :: p in
  if nlen raw <=? 65535 then Some raw else None.

Definition be_val (l : bytes) : N := fold_left (fun acc b => acc * 256 + b) l 0.

(* Converter<MsgPackBinary>::fromJson on the raw bytes of a value: the payload, None when it is not a bin object *)
Definition mp_binary_of_raw (r : bytes) : option bytes :=
  match r with
  | 0xC4 :: a :: p => if nlen p =? a then Some p else None
  | 0xC5 :: a :: b :: p => if nlen p =? be_val [a; b] then Some p else None
  | 0xC6 :: a :: b :: c :: d :: p => if nlen p =? be_val [a; b; c; d] then Some p else None
  | _ => None
  end.

(* Converter<MsgPackExtension>::fromJson : (type octet, payload) *)
Definition mp_extension_of_raw (r : bytes) : option (N * bytes) :=
  match r with
  | [] => None
  | code :: rest =>
      if (0xD4 <=? code) && (code <=? 0xD8) then
        match rest with
        | ty :: p => if nlen p =? 2 ^ (code - 0xD4) then Some (ty, p) else None
        | [] => None
        end
      else if (0xC7 <=? code) && (code <=? 0xC9) then
        let w := N.to_nat (2 ^ (code - 0xC7)) in
        match skipn w rest with
        | ty :: p => if (length (firstn w rest) =? w)%nat && (nlen p =? be_val (firstn w rest)) then Some (ty, p) else None
        | [] => None
        end
      else None
  end.
