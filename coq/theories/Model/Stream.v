(* Stream.v — successive deserialize calls on one stream (NDJSON, back-to-back MessagePack).
   Each call builds a fresh deserializer (fresh latch) on the stream's current position; the byte a
   number made the latch read ahead is gone for the next call. Definitions only. *)
From Coq Require Import NArith List Bool.
From AJ Require Import Model.Base Model.Value Model.JsonParse Model.MsgPack.

Record call_result := { c_err : code; c_pos : N; c_doc : jv }.

Fixpoint json_stream (cf : cfg) (L : nat) (calls : nat) (pos : N) (rest : bytes) : list call_result :=
  match calls with
  | O => []
  | S calls' =>
      let o := json_run cf None L rest in
      let n := reads (j_st o) in
      let r := {| c_err := j_err o; c_pos := (pos + n)%N; c_doc := j_doc o |} in
      match j_err o with
      | Ok => r :: json_stream cf L calls' (pos + n)%N (skipn (N.to_nat n) rest)
      | _ => [r]
      end
  end.

Fixpoint mp_stream (cf : cfg) (L : nat) (calls : nat) (pos : N) (rest : bytes) : list call_result :=
  match calls with
  | O => []
  | S calls' =>
      let o := mp_run cf None L rest in
      let n := m_reads (mp_rd o) in
      let r := {| c_err := mp_err o; c_pos := (pos + n)%N; c_doc := mp_doc o |} in
      match mp_err o with
      | Ok => r :: mp_stream cf L calls' (pos + n)%N (skipn (N.to_nat n) rest)
      | _ => [r]
      end
  end.
