(* StrBuild.v — the string builder and the string pool at the level of nodes, length fields and allocator calls
   (Memory/StringBuilder.hpp, StringPool.hpp, StringNode.hpp).  One builder is reused for all the strings of a
   deserializer call: it keeps a scratch node whose `length` field is its capacity; `save()` either finds the string
   in the pool (the scratch node is then kept for the next string) or shrinks the scratch node to the string and
   hands it to the pool.  Every allocate / reallocate consumes one answer of the user's allocator, in order
   (a reallocate that does not grow ignores it: it never fails). *)
From Coq Require Import List NArith Bool.
From AJ Require Import Model.Base.
Import ListNotations.
Local Open Scope N_scope.

Record sgeom := { s_hdr : N;       (* offsetof(StringNode, data) *)
                  s_max : N }.     (* StringNode::maxLength = 2^(8*STRING_LENGTH_SIZE) - 1 *)
Definition size_for (g : sgeom) (n : N) : N := n + 1 + s_hdr g.       (* StringNode::sizeForLength *)
Definition initial_capacity : N := 31.                                (* StringBuilder::initialCapacity *)

Inductive aev :=
| EvAlloc (size : N) (ok : bool)
| EvRealloc (old new : N) (ok : bool)
| EvFree (size : N).

(* a node of the pool: the `length` field, the characters it holds, the reference count *)
Record snode := { n_len : N; n_data : bytes; n_refs : N }.
Definition n_content (x : snode) : bytes := firstn (N.to_nat (n_len x)) (n_data x).   (* what adaptString(data, length) sees *)

Record sbs := { sb_pool : list snode;                 (* newest first *)
                sb_scratch : option (N * N * bytes) }.   (* the builder's node: capacity (its length field), size_, the size_ characters
                                                            written so far, LAST ONE FIRST (so that append is a cons) *)
Definition sb_init : sbs := {| sb_pool := []; sb_scratch := None |}.

Definition take (ans : list bool) : bool * list bool :=
  match ans with [] => (true, []) | a :: r => (a, r) end.
Definition blen (s : bytes) : N := N.of_nat (length s).

(* startString(): size_ = 0; allocate the scratch node when there is none *)
Definition sb_start (g : sgeom) (st : sbs) (ans : list bool) : sbs * list bool * list aev :=
  match sb_scratch st with
  | Some (cap, _, _) => ({| sb_pool := sb_pool st; sb_scratch := Some (cap, 0, []) |}, ans, [])
  | None =>
      if s_max g <? initial_capacity then (st, ans, [])          (* create(): length > maxLength *)
      else let '(a, ans') := take ans in
           if a then ({| sb_pool := sb_pool st; sb_scratch := Some (initial_capacity, 0, []) |}, ans', [EvAlloc (size_for g initial_capacity) true])
           else (st, ans', [EvAlloc (size_for g initial_capacity) false])
  end.

(* append(c): grow to 2*size+1 when full (a failed or impossible growth destroys the node), then write *)
Definition sb_append (g : sgeom) (st : sbs) (ans : list bool) (c : N) : sbs * list bool * list aev :=
  match sb_scratch st with
  | None => (st, ans, [])
  | Some (cap, sz, w) =>
      if sz =? cap then
        let newcap := 2 * sz + 1 in
        if newcap <=? s_max g then
          let '(a, ans') := take ans in
          if a then ({| sb_pool := sb_pool st; sb_scratch := Some (newcap, sz + 1, c :: w) |}, ans',
                     [EvRealloc (size_for g cap) (size_for g newcap) true])
          else ({| sb_pool := sb_pool st; sb_scratch := None |}, ans',
                [EvRealloc (size_for g cap) (size_for g newcap) false; EvFree (size_for g cap)])
        else ({| sb_pool := sb_pool st; sb_scratch := None |}, ans, [EvFree (size_for g cap)])
      else ({| sb_pool := sb_pool st; sb_scratch := Some (cap, sz + 1, c :: w) |}, ans, [])
  end.

Fixpoint sb_appends (g : sgeom) (st : sbs) (ans : list bool) (s : bytes) : sbs * list bool * list aev :=
  match s with
  | [] => (st, ans, [])
  | c :: t => let '(st1, ans1, e1) := sb_append g st ans c in
              let '(st2, ans2, e2) := sb_appends g st1 ans1 t in (st2, ans2, e1 ++ e2)
  end.

(* StringPool::get: the first node whose content (data up to its length field) equals the string *)
Fixpoint pool_find (s : bytes) (p : list snode) : option nat :=
  match p with
  | [] => None
  | x :: r => if bytes_eqb s (n_content x) then Some O
              else match pool_find s r with Some k => Some (S k) | None => None end
  end.
Fixpoint pool_addref (k : nat) (p : list snode) : list snode :=
  match p, k with
  | [], _ => []
  | x :: r, O => {| n_len := n_len x; n_data := n_data x; n_refs := n_refs x + 1 |} :: r
  | x :: r, S k' => x :: pool_addref k' r
  end.

(* save(): Some node, or None when the builder holds no node (the caller must have checked isValid()) *)
Definition sb_save (g : sgeom) (st : sbs) (ans : list bool) : sbs * list bool * list aev * option snode :=
  match sb_scratch st with
  | None => (st, ans, [], None)
  | Some (cap, sz, rw) =>
      let w := rev_append rw [] in      (* = rev rw, in linear time *)
      match pool_find w (sb_pool st) with
      | Some k => let p' := pool_addref k (sb_pool st) in
                  ({| sb_pool := p'; sb_scratch := Some (cap, sz, rw) |}, ans, [], nth_error p' k)
      | None =>
          let '(_, ans') := take ans in                              (* a reallocate that does not grow: the answer is ignored *)
          let node := {| n_len := sz; n_data := w; n_refs := 1 |} in
          ({| sb_pool := node :: sb_pool st; sb_scratch := None |}, ans',
           [EvRealloc (size_for g cap) (size_for g sz) true], Some node)
      end
  end.

(* one string through the builder, as the deserializers do: startString, append every character, isValid ? save : NoMemory *)
Definition sb_store (g : sgeom) (st : sbs) (ans : list bool) (s : bytes) : sbs * list bool * list aev * option snode :=
  let '(st1, ans1, e1) := sb_start g st ans in
  let '(st2, ans2, e2) := sb_appends g st1 ans1 s in
  match sb_scratch st2 with
  | None => (st2, ans2, e1 ++ e2, None)
  | Some _ => let '(st3, ans3, e3, r) := sb_save g st2 ans2 in (st3, ans3, e1 ++ e2 ++ e3, r)
  end.

(* StringPool::dereference of a pooled string: the last user frees the node *)
Fixpoint pool_deref (g : sgeom) (s : bytes) (p : list snode) : list snode * list aev :=
  match p with
  | [] => ([], [])
  | x :: r => if bytes_eqb s (n_content x) then
                (if n_refs x =? 1 then (r, [EvFree (size_for g (n_len x))])
                 else ({| n_len := n_len x; n_data := n_data x; n_refs := n_refs x - 1 |} :: r, []))
              else let '(r', e) := pool_deref g s r in (x :: r', e)
  end.
Definition sb_deref (g : sgeom) (st : sbs) (s : bytes) : sbs * list aev :=
  let '(p', e) := pool_deref g s (sb_pool st) in ({| sb_pool := p'; sb_scratch := sb_scratch st |}, e).

Inductive sop := SStore (s : bytes) | SDeref (s : bytes).
Definition sb_step (g : sgeom) (st : sbs) (ans : list bool) (o : sop) : sbs * list bool * list aev * option snode :=
  match o with
  | SStore s => sb_store g st ans s
  | SDeref s => let '(st', e) := sb_deref g st s in (st', ans, e, None)
  end.

(* ---- StringBuffer (Memory/StringBuffer.hpp): the MessagePack reader's way of storing strings, keys, raw values:
   reserve(n) provides a node of capacity >= n (a too small one is destroyed and an exact one created), the bytes are read
   into it, save() finds the string in the pool (the node is then kept for the next reserve) or moves the node, shrunk to the
   string when larger, into the pool ---- *)
Record bfs := { bf_pool : list snode; bf_node : option N }.       (* the buffer's node: its capacity (length field) *)
Definition bf_init : bfs := {| bf_pool := []; bf_node := None |}.

Definition bf_reserve (g : sgeom) (st : bfs) (ans : list bool) (n : N) : bfs * list bool * list aev * bool :=
  let '(node1, e1) := match bf_node st with
                      | Some cap => if cap <? n then (None, [EvFree (size_for g cap)]) else (Some cap, [])
                      | None => (None, [])
                      end in
  match node1 with
  | Some cap => ({| bf_pool := bf_pool st; bf_node := Some cap |}, ans, e1, true)
  | None =>
      if s_max g <? n then ({| bf_pool := bf_pool st; bf_node := None |}, ans, e1, false)        (* create(): length > maxLength *)
      else let '(a, ans') := take ans in
           if a then ({| bf_pool := bf_pool st; bf_node := Some n |}, ans', e1 ++ [EvAlloc (size_for g n) true], true)
           else ({| bf_pool := bf_pool st; bf_node := None |}, ans', e1 ++ [EvAlloc (size_for g n) false], false)
  end.

Definition bf_save (g : sgeom) (st : bfs) (ans : list bool) (s : bytes) : bfs * list bool * list aev * option snode :=
  match bf_node st with
  | None => (st, ans, [], None)
  | Some cap =>
      match pool_find s (bf_pool st) with
      | Some k => let p' := pool_addref k (bf_pool st) in
                  ({| bf_pool := p'; bf_node := Some cap |}, ans, [], nth_error p' k)
      | None =>
          let node := {| n_len := blen s; n_data := s; n_refs := 1 |} in
          if cap =? blen s then ({| bf_pool := node :: bf_pool st; bf_node := None |}, ans, [], Some node)
          else let '(_, ans') := take ans in
               ({| bf_pool := node :: bf_pool st; bf_node := None |}, ans',
                [EvRealloc (size_for g cap) (size_for g (blen s)) true], Some node)
      end
  end.

(* one string of the input: reserve(|s|), read the bytes, save() — None = NoMemory *)
Definition bf_store (g : sgeom) (st : bfs) (ans : list bool) (s : bytes) : bfs * list bool * list aev * option snode :=
  let '(st1, ans1, e1, ok) := bf_reserve g st ans (blen s) in
  if ok then let '(st2, ans2, e2, r) := bf_save g st1 ans1 s in (st2, ans2, e1 ++ e2, r)
  else (st1, ans1, e1, None).

Definition bf_deref (g : sgeom) (st : bfs) (s : bytes) : bfs * list aev :=
  let '(p', e) := pool_deref g s (bf_pool st) in ({| bf_pool := p'; bf_node := bf_node st |}, e).

Definition bf_step (g : sgeom) (st : bfs) (ans : list bool) (o : sop) : bfs * list bool * list aev * option snode :=
  match o with
  | SStore s => bf_store g st ans s
  | SDeref s => let '(st', e) := bf_deref g st s in (st', ans, e, None)
  end.
