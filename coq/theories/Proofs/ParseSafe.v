(* ParseSafe.v — safety, accounting and termination of the JSON reader model.

   Part 1: accounting (budget) and termination (a measure that never increases, and fuel).
   Part 2: no read after the end of input, and "closed before the end".                       *)
From Coq Require Import NArith ZArith List Bool Lia.
From AJ Require Import Model.Base Model.Value Model.Utf Model.NumParse Model.JsonParse Proofs.Lex Spec.ParseSpec.
Local Open Scope N_scope.

(* ===================================================================================== *)
(* Part 1 — budget and measure                                                            *)

(* number of non-NUL bytes the parser can still consume: unread bytes, plus the latched one
   when it is not the end marker *)
Definition meas (s : ps) : nat :=
  (length (rest s) + match cur s with Some c => if (c =? 0)%N then 0 else 1 | None => 0 end)%nat.

Definition le_st (s' s : ps) : Prop := budget s' = budget s /\ (meas s' <= meas s)%nat.

Definition latched (s : ps) : Prop := exists c, cur s = Some c /\ c <> 0.

Lemma latched_intro : forall s c, cur s = Some c -> c <> 0 -> latched s.
Proof. intros s c H1 H2. exists c. auto. Qed.

(* result shapes: the final state is below the initial one, and (given enough fuel) the code is
   not OutOfFuel *)
Definition mf2 (P : Prop) (s : ps) (r : code * ps) : Prop :=
  le_st (snd r) s /\ (P -> fst r <> OutOfFuel).
Definition mf3 {A : Type} (P : Prop) (s : ps) (r : code * A * ps) : Prop :=
  le_st (snd r) s /\ (P -> fst (fst r) <> OutOfFuel).
Definition mfp {A : Type} (s : ps) (r : A * ps) : Prop := le_st (snd r) s.

Lemma le_st_refl : forall s, le_st s s.
Proof. intro s. split; [reflexivity|lia]. Qed.

Lemma move_le : forall s, le_st (move s) s.
Proof.
  intro s. unfold le_st, budget, meas, move; cbn [rest reads cur]. split; [reflexivity|lia].
Qed.

Lemma move_lt : forall s, latched s -> (S (meas (move s)) <= meas s)%nat.
Proof.
  intros s (c & Ec & Hc). unfold meas, move; cbn [rest cur]. rewrite Ec.
  apply N.eqb_neq in Hc. rewrite Hc. lia.
Qed.

Lemma set_found_le : forall s, le_st (set_found s) s.
Proof.
  intro s. unfold le_st, budget, meas, set_found; cbn [rest reads cur]. split; [reflexivity|lia].
Qed.

Lemma current_le : forall s, le_st (snd (current s)) s.
Proof.
  intro s. unfold current. destruct (cur s) as [c|] eqn:Ec; cbn [snd].
  - apply le_st_refl.
  - unfold load, le_st, budget, meas. rewrite Ec.
    destruct (rest s) as [|b t]; cbn [rest reads cur length].
    + change (0 =? 0) with true. cbv iota. split; lia.
    + split; [lia|]. destruct (b =? 0); lia.
Qed.

Lemma current_cur : forall s, cur (snd (current s)) = Some (fst (current s)).
Proof.
  intro s. unfold current. destruct (cur s) as [c|] eqn:Ec; cbn [fst snd].
  - exact Ec.
  - unfold load. destruct (rest s); reflexivity.
Qed.

Lemma current_lt : forall s, fst (current s) <> 0 ->
  (S (meas (move (snd (current s)))) <= meas s)%nat.
Proof.
  intros s H. pose proof (current_le s) as [_ L]. pose proof (current_cur s) as C.
  assert (X : latched (snd (current s))) by (eapply latched_intro; eauto).
  pose proof (move_lt _ X). lia.
Qed.

Lemma eat_mf : forall c s,
  le_st (snd (eat c s)) s /\
  (if fst (eat c s) then c <> 0 -> (S (meas (snd (eat c s))) <= meas s)%nat else True).
Proof.
  intros c s. unfold eat.
  pose proof (current_le s) as L. pose proof (current_lt s) as T.
  destruct (current s) as [x s1]. cbn [fst snd] in *.
  destruct (x =? c) eqn:E; cbn [fst snd].
  - apply N.eqb_eq in E. subst x. pose proof (move_le s1) as M. unfold le_st in *.
    split; [split; [|lia]|exact T]. destruct M as [M _], L as [L _]. congruence.
  - split; [exact L|exact I].
Qed.

(* class facts: NUL belongs to no character class *)
Lemma cbin_nz : forall cf c, can_be_in_number cf c = true -> c <> 0.
Proof.
  intros cf c H E. subst c. unfold can_be_in_number in H.
  destruct (enable_nan cf || enable_inf cf); discriminate H.
Qed.

Lemma cbinqs_nz : forall c, can_be_in_non_quoted_string c = true -> c <> 0.
Proof. intros c H E. subst c. discriminate H. Qed.

Lemma is_quote_nz : forall c, is_quote c = true -> c <> 0.
Proof. intros c H E. subst c. discriminate H. Qed.

(* ---- proof engine: follow the head of the expression, posing the lemma of each call ---- *)
Ltac head_scrut e :=
  lazymatch e with
  | match ?x with _ => _ end => head_scrut x
  | _ => e
  end.

Ltac conv E :=
  lazymatch type of E with
  | negb _ = true => apply negb_true_iff in E
  | negb _ = false => apply negb_false_iff in E
  | _ => idtac
  end;
  try (apply N.eqb_neq in E); try (apply N.eqb_eq in E);
  try (pose proof (cbin_nz _ _ E)); try (pose proof (cbinqs_nz _ E));
  try (pose proof (is_quote_nz _ E)).

Ltac pose_moves :=
  repeat match goal with
  | |- context [move ?Y] =>
      lazymatch goal with H : le_st (move Y) Y |- _ => fail | _ => pose proof (move_le Y) end
  | _ : context [move ?Y] |- _ =>
      lazymatch goal with H : le_st (move Y) Y |- _ => fail | _ => pose proof (move_le Y) end
  | |- context [set_found ?Y] =>
      lazymatch goal with H : le_st (set_found Y) Y |- _ => fail
      | _ => pose proof (set_found_le Y) end
  end.

Ltac fwd :=
  repeat match goal with
  | H : _ /\ _ |- _ => destruct H
  | H : ?A -> _, H' : ?A |- _ =>
      lazymatch type of A with Prop => specialize (H H') end
  end.
Ltac solve_prem :=
  repeat split; first [ lia | (eapply latched_intro; [eassumption | lia]) | exact I ].
Ltac solve_nf :=
  first [ discriminate | assumption
        | match goal with |- (if ?b then _ else _) <> _ => destruct b; discriminate end
        | match goal with
          | H : _ -> ?e <> OutOfFuel |- ?e <> OutOfFuel => apply H; solve_prem
          end ].

Ltac mf_leaf :=
  pose_moves; unfold mf2, mf3, mfp, le_st in *; cbn [fst snd] in *;
  fwd;
  first [ lia | split; [lia | intros; fwd; solve_nf] ].

Ltac mf_leaf_hook := mf_leaf.
Ltac mf_go D :=
  cbn [fst snd] in *;
  lazymatch goal with
  | |- ?P ?r =>
      let h := head_scrut r in
      lazymatch h with
      | (_, _) => mf_leaf_hook
      | _ =>
          first [ D h
                | is_var h; destruct h
                | let E := fresh "E" in destruct h eqn:E; conv E ];
          mf_go D
      end
  end.

(* primitives *)
Ltac d_prim h :=
  lazymatch h with
  | current (move ?Y) =>
      pose proof (move_le Y); pose proof (move_lt Y);
      pose proof (current_le (move Y)); pose proof (current_lt (move Y));
      pose proof (current_cur (move Y)); pose proof (move_le (snd (current (move Y))));
      destruct (current (move Y)) as [? ?]
  | current ?X =>
      pose proof (current_le X); pose proof (current_lt X); pose proof (current_cur X);
      pose proof (move_le (snd (current X)));
      destruct (current X) as [? ?]
  | eat ?c (move ?Y) =>
      pose proof (move_le Y); pose proof (eat_mf c (move Y)); destruct (eat c (move Y)) as [[] ?]
  | eat ?c ?X => pose proof (eat_mf c X); destruct (eat c X) as [[] ?]
  end.

Lemma block_comment_mf : forall fuel w s, mf2 (meas s < fuel)%nat s (block_comment fuel w s).
Proof.
  induction fuel as [|fuel IH]; intros w s; cbn [block_comment].
  - mf_leaf.
  - mf_go ltac:(fun h => lazymatch h with
      | block_comment fuel ?w ?X => pose proof (IH w X); destruct (block_comment fuel w X) as [? ?]
      | _ => d_prim h end).
Qed.

Lemma line_comment_mf : forall fuel s,
  mf2 (latched s /\ meas s <= fuel)%nat s (line_comment fuel s).
Proof.
  induction fuel as [|fuel IH]; intros s; cbn [line_comment].
  - unfold mf2; cbn [fst snd]. split; [apply le_st_refl|].
    intros [X Y]. pose proof (move_lt s X). lia.
  - mf_go ltac:(fun h => lazymatch h with
      | line_comment fuel ?X => pose proof (IH X); destruct (line_comment fuel X) as [? ?]
      | _ => d_prim h end).
Qed.

Ltac d_comm h :=
  lazymatch h with
  | block_comment ?f ?w (move ?Y) =>
      pose proof (move_le Y);
      pose proof (block_comment_mf f w (move Y)); destruct (block_comment f w (move Y)) as [? ?]
  | line_comment ?f ?X => pose proof (line_comment_mf f X); destruct (line_comment f X) as [? ?]
  | _ => d_prim h
  end.

Lemma skip_spaces_mf : forall cf fuel s, mf2 (meas s < fuel)%nat s (skip_spaces cf fuel s).
Proof.
  intros cf. induction fuel as [|fuel IH]; intros s; cbn [skip_spaces].
  - mf_leaf.
  - mf_go ltac:(fun h => lazymatch h with
      | skip_spaces cf fuel ?X => pose proof (IH X); destruct (skip_spaces cf fuel X) as [? ?]
      | _ => d_comm h end).
Qed.

Lemma skip_keyword_mf : forall kw s, mf2 True s (skip_keyword kw s).
Proof.
  induction kw as [|k kw IH]; intros s; cbn [skip_keyword].
  - mf_leaf.
  - mf_go ltac:(fun h => lazymatch h with
      | skip_keyword kw ?X => pose proof (IH X); destruct (skip_keyword kw X) as [? ?]
      | _ => d_prim h end).
Qed.

Lemma parse_hex4_mf : forall n acc s, mf3 True s (parse_hex4 n acc s).
Proof.
  induction n as [|n IH]; intros acc s; cbn [parse_hex4].
  - mf_leaf.
  - mf_go ltac:(fun h => lazymatch h with
      | parse_hex4 n ?a ?X => pose proof (IH a X); destruct (parse_hex4 n a X) as [[? ?] ?]
      | _ => d_prim h end).
Qed.

Ltac d_lex1 h :=
  lazymatch h with
  | skip_spaces ?cf ?f ?X => pose proof (skip_spaces_mf cf f X); destruct (skip_spaces cf f X) as [? ?]
  | skip_keyword ?k ?X => pose proof (skip_keyword_mf k X); destruct (skip_keyword k X) as [? ?]
  | parse_hex4 ?n ?a ?X => pose proof (parse_hex4_mf n a X); destruct (parse_hex4 n a X) as [[? ?] ?]
  | _ => d_comm h
  end.

Lemma quoted_loop_mf : forall cf fuel stop cp acc s,
  mf3 (meas s < fuel)%nat s (quoted_loop cf fuel stop cp acc s).
Proof.
  intros cf. induction fuel as [|fuel IH]; intros stop cp acc s; cbn [quoted_loop].
  - mf_leaf.
  - mf_go ltac:(fun h => lazymatch h with
      | quoted_loop cf fuel ?st ?c ?a ?X =>
          pose proof (IH st c a X); destruct (quoted_loop cf fuel st c a X) as [[? ?] ?]
      | _ => d_lex1 h end).
Qed.

(* the capacity test leaves the state alone and never produces OutOfFuel *)
Lemma cap_string_mf : forall (P : Prop) s r, mf3 P s r -> mf3 P s (cap_string r).
Proof.
  intros P s [[e a] s'] [H1 H2]. unfold mf3, cap_string in *. cbn [fst snd] in *.
  destruct e; try (split; assumption).
  destruct (too_long a); cbn [fst snd]; split; try assumption. intros _; discriminate.
Qed.

Lemma parse_quoted_string_mf : forall cf fuel s,
  mf3 (meas s < fuel)%nat s (parse_quoted_string cf fuel s).
Proof.
  intros cf fuel s. unfold parse_quoted_string.
  mf_go ltac:(fun h => lazymatch h with
      | cap_string _ => apply cap_string_mf
      | quoted_loop cf fuel ?st ?c ?a ?X =>
          pose proof (quoted_loop_mf cf fuel st c a X);
          destruct (quoted_loop cf fuel st c a X) as [[? ?] ?]
      | _ => d_lex1 h end).
Qed.

Lemma non_quoted_loop_mf : forall fuel acc c s,
  mf3 (latched s /\ meas s <= fuel)%nat s (non_quoted_loop fuel acc c s).
Proof.
  induction fuel as [|fuel IH]; intros acc c s; cbn [non_quoted_loop].
  - unfold mf3; cbn [fst snd]. split; [apply le_st_refl|].
    intros [X Y]. pose proof (move_lt s X). lia.
  - mf_go ltac:(fun h => lazymatch h with
      | non_quoted_loop fuel ?a ?c ?X =>
          pose proof (IH a c X); destruct (non_quoted_loop fuel a c X) as [[? ?] ?]
      | _ => d_lex1 h end).
Qed.

Lemma parse_non_quoted_string_mf : forall fuel s,
  mf3 (meas s < fuel)%nat s (parse_non_quoted_string fuel s).
Proof.
  intros fuel s. unfold parse_non_quoted_string.
  mf_go ltac:(fun h => lazymatch h with
      | cap_string _ => apply cap_string_mf
      | non_quoted_loop fuel ?a ?c ?X =>
          pose proof (non_quoted_loop_mf fuel a c X);
          destruct (non_quoted_loop fuel a c X) as [[? ?] ?]
      | _ => d_lex1 h end).
Qed.

Lemma parse_key_mf : forall cf fuel s, mf3 (meas s < fuel)%nat s (parse_key cf fuel s).
Proof.
  intros cf fuel s. unfold parse_key.
  mf_go ltac:(fun h => lazymatch h with
      | parse_quoted_string cf fuel ?X =>
          pose proof (parse_quoted_string_mf cf fuel X);
          destruct (parse_quoted_string cf fuel X) as [[? ?] ?]
      | parse_non_quoted_string fuel ?X =>
          pose proof (parse_non_quoted_string_mf fuel X);
          destruct (parse_non_quoted_string fuel X) as [[? ?] ?]
      | _ => d_lex1 h end).
Qed.

Lemma skip_quoted_loop_mf : forall fuel stop s,
  mf2 (meas s < fuel)%nat s (skip_quoted_loop fuel stop s).
Proof.
  induction fuel as [|fuel IH]; intros stop s; cbn [skip_quoted_loop].
  - mf_leaf.
  - mf_go ltac:(fun h => lazymatch h with
      | skip_quoted_loop fuel ?st ?X =>
          pose proof (IH st X); destruct (skip_quoted_loop fuel st X) as [? ?]
      | _ => d_lex1 h end).
Qed.

Lemma skip_quoted_string_mf : forall fuel s,
  mf2 (meas s < fuel)%nat s (skip_quoted_string fuel s).
Proof.
  intros fuel s. unfold skip_quoted_string.
  mf_go ltac:(fun h => lazymatch h with
      | skip_quoted_loop fuel ?st ?X =>
          pose proof (skip_quoted_loop_mf fuel st X); destruct (skip_quoted_loop fuel st X) as [? ?]
      | _ => d_lex1 h end).
Qed.

Lemma skip_non_quoted_loop_mf : forall fuel s,
  mf2 (meas s < fuel)%nat s (skip_non_quoted_loop fuel s).
Proof.
  induction fuel as [|fuel IH]; intros s; cbn [skip_non_quoted_loop].
  - mf_leaf.
  - mf_go ltac:(fun h => lazymatch h with
      | skip_non_quoted_loop fuel ?X =>
          pose proof (IH X); destruct (skip_non_quoted_loop fuel X) as [? ?]
      | _ => d_lex1 h end).
Qed.

Lemma skip_key_mf : forall fuel s, mf2 (meas s < fuel)%nat s (skip_key fuel s).
Proof.
  intros fuel s. unfold skip_key.
  mf_go ltac:(fun h => lazymatch h with
      | skip_quoted_string fuel ?X =>
          pose proof (skip_quoted_string_mf fuel X); destruct (skip_quoted_string fuel X) as [? ?]
      | skip_non_quoted_loop fuel ?X =>
          pose proof (skip_non_quoted_loop_mf fuel X);
          destruct (skip_non_quoted_loop fuel X) as [? ?]
      | _ => d_lex1 h end).
Qed.

Lemma scan_number_mf : forall cf n acc s, mfp s (scan_number cf n acc s).
Proof.
  intros cf. induction n as [|n IH]; intros acc s; cbn [scan_number].
  - mf_leaf.
  - mf_go ltac:(fun h => lazymatch h with
      | scan_number cf n ?a ?X => pose proof (IH a X); destruct (scan_number cf n a X) as [? ?]
      | _ => d_lex1 h end).
Qed.

Lemma skip_numeric_loop_mf : forall cf fuel s,
  mf2 (meas s < fuel)%nat s (skip_numeric_loop cf fuel s).
Proof.
  intros cf. induction fuel as [|fuel IH]; intros s; cbn [skip_numeric_loop].
  - mf_leaf.
  - mf_go ltac:(fun h => lazymatch h with
      | skip_numeric_loop cf fuel ?X =>
          pose proof (IH X); destruct (skip_numeric_loop cf fuel X) as [? ?]
      | _ => d_lex1 h end).
Qed.

Lemma parse_numeric_value_mf : forall cf s, mf3 True s (parse_numeric_value cf s).
Proof.
  intros cf s. unfold parse_numeric_value.
  pose proof (scan_number_mf cf 63 [] s) as H. destruct (scan_number cf 63 [] s) as [buf s1].
  unfold mfp in H; cbn [snd] in H. cbv beta iota zeta.
  assert (X : le_st (if Nat.eqb (length buf) 63 then snd (current s1) else s1) s1)
    by (destruct (Nat.eqb (length buf) 63); [apply current_le | apply le_st_refl]).
  revert X. generalize (if Nat.eqb (length buf) 63 then snd (current s1) else s1). intros s2 X.
  destruct (jv_of_number cf (parse_number cf buf)); mf_leaf.
Qed.

Ltac d_lex2 h :=
  lazymatch h with
  | parse_key ?cf ?f ?X => pose proof (parse_key_mf cf f X); destruct (parse_key cf f X) as [[? ?] ?]
  | skip_key ?f ?X => pose proof (skip_key_mf f X); destruct (skip_key f X) as [? ?]
  | parse_quoted_string ?cf ?f ?X =>
      pose proof (parse_quoted_string_mf cf f X); destruct (parse_quoted_string cf f X) as [[? ?] ?]
  | skip_quoted_string ?f ?X =>
      pose proof (skip_quoted_string_mf f X); destruct (skip_quoted_string f X) as [? ?]
  | parse_numeric_value ?cf ?X =>
      pose proof (parse_numeric_value_mf cf X); destruct (parse_numeric_value cf X) as [[? ?] ?]
  | skip_numeric_loop ?cf ?f ?X =>
      pose proof (skip_numeric_loop_mf cf f X); destruct (skip_numeric_loop cf f X) as [? ?]
  | _ => d_lex1 h
  end.

Section ContainersMF.
  Variable cf : cfg.
  Variable pv : filter -> ps -> code * jv * ps.
  Variable sv : ps -> code * ps.
  Variable F : nat.
  Hypothesis pv_mf : forall f s, mf3 (meas s + 2 <= F)%nat s (pv f s).
  Hypothesis sv_mf : forall s, mf2 (meas s + 2 <= F)%nat s (sv s).

  Lemma array_loop_mf : forall fuel ef acc s,
    mf3 (meas s + 2 <= fuel /\ fuel <= F)%nat s (array_loop cf pv sv fuel ef acc s).
  Proof.
    induction fuel as [|fuel IH]; intros ef acc s; cbn [array_loop].
    - mf_leaf.
    - mf_go ltac:(fun h => lazymatch h with
        | array_loop cf pv sv fuel ?e ?a ?X =>
            pose proof (IH e a X); destruct (array_loop cf pv sv fuel e a X) as [[? ?] ?]
        | pv ?f ?X => pose proof (pv_mf f X); destruct (pv f X) as [[? ?] ?]
        | sv ?X => pose proof (sv_mf X); destruct (sv X) as [? ?]
        | _ => d_lex2 h end).
  Qed.

  Lemma skip_array_loop_mf : forall fuel s,
    mf2 (meas s + 2 <= fuel /\ fuel <= F)%nat s (skip_array_loop cf sv fuel s).
  Proof.
    induction fuel as [|fuel IH]; intros s; cbn [skip_array_loop].
    - mf_leaf.
    - mf_go ltac:(fun h => lazymatch h with
        | skip_array_loop cf sv fuel ?X =>
            pose proof (IH X); destruct (skip_array_loop cf sv fuel X) as [? ?]
        | sv ?X => pose proof (sv_mf X); destruct (sv X) as [? ?]
        | _ => d_lex2 h end).
  Qed.

  Lemma object_loop_mf : forall fuel f acc s,
    mf3 (meas s + 2 <= fuel /\ fuel <= F)%nat s (object_loop cf pv sv fuel f acc s).
  Proof.
    induction fuel as [|fuel IH]; intros f acc s; cbn [object_loop].
    - mf_leaf.
    - mf_go ltac:(fun h => lazymatch h with
        | object_loop cf pv sv fuel ?e ?a ?X =>
            pose proof (IH e a X); destruct (object_loop cf pv sv fuel e a X) as [[? ?] ?]
        | pv ?f ?X => pose proof (pv_mf f X); destruct (pv f X) as [[? ?] ?]
        | sv ?X => pose proof (sv_mf X); destruct (sv X) as [? ?]
        | _ => d_lex2 h end).
  Qed.

  Lemma skip_object_loop_mf : forall fuel s,
    mf2 (meas s + 2 <= fuel /\ fuel <= F)%nat s (skip_object_loop cf sv fuel s).
  Proof.
    induction fuel as [|fuel IH]; intros s; cbn [skip_object_loop].
    - mf_leaf.
    - mf_go ltac:(fun h => lazymatch h with
        | skip_object_loop cf sv fuel ?X =>
            pose proof (IH X); destruct (skip_object_loop cf sv fuel X) as [? ?]
        | sv ?X => pose proof (sv_mf X); destruct (sv X) as [? ?]
        | _ => d_lex2 h end).
  Qed.
End ContainersMF.

Lemma skip_variant_mf : forall cf fuel L s,
  mf2 (meas s + 2 <= fuel)%nat s (skip_variant cf fuel L s).
Proof.
  intros cf fuel. induction L as [|L IH]; intros s; cbn [skip_variant].
  - mf_go d_lex2.
  - mf_go ltac:(fun h => lazymatch h with
      | skip_array_loop cf ?sv fuel ?X =>
          pose proof (skip_array_loop_mf cf sv fuel IH fuel X);
          destruct (skip_array_loop cf sv fuel X) as [? ?]
      | skip_object_loop cf ?sv fuel ?X =>
          pose proof (skip_object_loop_mf cf sv fuel IH fuel X);
          destruct (skip_object_loop cf sv fuel X) as [? ?]
      | _ => d_lex2 h end).
Qed.

Lemma parse_variant_mf : forall cf fuel L f s,
  mf3 (meas s + 2 <= fuel)%nat s (parse_variant cf fuel L f s).
Proof.
  intros cf fuel. induction L as [|L IH]; intros f s; cbn [parse_variant].
  - mf_go ltac:(fun h => lazymatch h with
      | skip_variant cf fuel ?l ?X =>
          pose proof (skip_variant_mf cf fuel l X); destruct (skip_variant cf fuel l X) as [? ?]
      | _ => d_lex2 h end).
  - mf_go ltac:(fun h => lazymatch h with
      | skip_variant cf fuel ?l ?X =>
          pose proof (skip_variant_mf cf fuel l X); destruct (skip_variant cf fuel l X) as [? ?]
      | array_loop cf ?pv ?sv fuel ?e ?a ?X =>
          pose proof (array_loop_mf cf pv sv fuel IH (skip_variant_mf cf fuel L) fuel e a X);
          destruct (array_loop cf pv sv fuel e a X) as [[? ?] ?]
      | object_loop cf ?pv ?sv fuel ?e ?a ?X =>
          pose proof (object_loop_mf cf pv sv fuel IH (skip_variant_mf cf fuel L) fuel e a X);
          destruct (object_loop cf pv sv fuel e a X) as [[? ?] ?]
      | _ => d_lex2 h end).
Qed.

(* ------------------------------------------------------------------------------------- *)
(* (A) accounting *)
Theorem parse_variant_budget : forall cf fuel L f s e v s',
  parse_variant cf fuel L f s = (e, v, s') -> budget s' = budget s.
Proof.
  intros cf fuel L f s e v s' H.
  pose proof (parse_variant_mf cf fuel L f s) as [[B _] _]. rewrite H in B. exact B.
Qed.

Theorem skip_variant_budget : forall cf fuel L s e s',
  skip_variant cf fuel L s = (e, s') -> budget s' = budget s.
Proof.
  intros cf fuel L s e s' H.
  pose proof (skip_variant_mf cf fuel L s) as [[B _] _]. rewrite H in B. exact B.
Qed.

Theorem json_run_reads_bounded : forall cf f L i,
  (reads (j_st (json_run cf f L i)) <= N.of_nat (length i))%N.
Proof.
  intros cf f L i. unfold json_run.
  destruct (parse_variant cf (json_fuel i) L f (ps_init i)) as [[e v] s'] eqn:E.
  cbn [j_st]. apply parse_variant_budget in E. unfold budget, ps_init in E.
  cbn [reads rest] in E. lia.
Qed.

(* (C) termination *)
Theorem json_run_total : forall cf f L i, j_err (json_run cf f L i) <> OutOfFuel.
Proof.
  intros cf f L i. unfold json_run.
  pose proof (parse_variant_mf cf (json_fuel i) L f (ps_init i)) as [_ T].
  assert (P : (meas (ps_init i) + 2 <= json_fuel i)%nat).
  { unfold meas, ps_init, json_fuel. cbn [rest cur]. lia. }
  specialize (T P).
  destruct (parse_variant cf (json_fuel i) L f (ps_init i)) as [[e v] s']. cbn [fst] in T.
  cbn [j_err]. destruct e; try discriminate.
  - destruct (negb (lastc s' =? 0) && negb (is_space (lastc s')) && is_number v); discriminate.
  - exact T.
Qed.

(* ===================================================================================== *)
(* Part 2 — no read after the end of input; closing tokens                                *)

Definition safe2 (Q : ps -> Prop) (r : code * ps) : Prop :=
  fault (snd r) = false /\ (fst r = Ok -> Q (snd r)).
Definition safe3 {A : Type} (Q : A -> ps -> Prop) (r : code * A * ps) : Prop :=
  fault (snd r) = false /\ (fst (fst r) = Ok -> Q (snd (fst r)) (snd r)).
Definition safep {A : Type} (r : A * ps) : Prop := alive (snd r).

(* what parse_variant guarantees on success *)
Definition Qd (v : jv) (s : ps) : Prop :=
  alive s /\ (is_container_or_string v = true -> good s).

Lemma good_alive : forall s, good s -> alive s.
Proof. intros s G. left. exact G. Qed.
Lemma at_end_alive : forall s, at_end s -> alive s.
Proof. intros s G. right. exact G. Qed.
Lemma alive_nofault : forall s, alive s -> fault s = false.
Proof. intros s [(_ & F & _)|(_ & _ & F)]; exact F. Qed.
Lemma move_good : forall s, good s -> good (move s).
Proof.
  intros s (He & Hf & _). unfold good, move; cbn [ended fault cur lastc].
  split; [exact He|]. split; [exact Hf|]. intros c X. discriminate X.
Qed.
Lemma move_nofault : forall s, fault s = false -> fault (move s) = false.
Proof. intros s H. exact H. Qed.
Lemma set_found_good : forall s, good s -> good (set_found s).
Proof. intros s G. exact G. Qed.
Lemma set_found_alive : forall s, alive s -> alive (set_found s).
Proof. intros s G. exact G. Qed.
Lemma set_found_nofault : forall s, fault s = false -> fault (set_found s) = false.
Proof. intros s G. exact G. Qed.

Lemma current_alive : forall s, alive s ->
  (fst (current s) <> 0 -> good (snd (current s))) /\
  (fst (current s) = 0 -> at_end (snd (current s))) /\
  alive (snd (current s)).
Proof.
  intros s [G|E].
  - pose proof G as (He & Hf & Hc). unfold current.
    destruct (cur s) as [c|] eqn:Ec; cbn [fst snd].
    + destruct (Hc c eq_refl) as [Hz _].
      split; [intros _; exact G|]. split; [intro Z; contradiction|left; exact G].
    + unfold load. destruct (rest s) as [|b t]; cbn [fst snd lastc].
      * assert (X : at_end {| rest := []; cur := Some 0; lastc := 0; reads := reads s;
                              ended := true; fault := fault s || ended s; found := found s |}).
        { unfold at_end; cbn [ended cur fault]. rewrite Hf, He. auto. }
        split; [intro Z; contradiction Z; reflexivity|]. split; [intros _; exact X|right; exact X].
      * destruct (N.eq_dec b 0) as [Eb|Eb].
        -- subst b.
           assert (X : at_end {| rest := t; cur := Some 0; lastc := 0; reads := reads s + 1;
                                 ended := ended s || (0 =? 0); fault := fault s || ended s;
                                 found := found s |}).
           { unfold at_end; cbn [ended cur fault]. rewrite Hf, He. auto. }
           split; [intro Z; contradiction Z; reflexivity|].
           split; [intros _; exact X|right; exact X].
        -- assert (X : good {| rest := t; cur := Some b; lastc := b; reads := reads s + 1;
                               ended := ended s || (b =? 0); fault := fault s || ended s;
                               found := found s |}).
           { unfold good; cbn [ended cur fault lastc]. rewrite Hf, He.
             rewrite (proj2 (N.eqb_neq b 0) Eb).
             split; [reflexivity|]. split; [reflexivity|].
             intros c X. injection X as <-. split; [exact Eb|reflexivity]. }
           split; [intros _; exact X|]. split; [intro Z; contradiction|left; exact X].
  - pose proof E as (He & Hc & Hf). unfold current. rewrite Hc. cbn [fst snd].
    split; [intro Z; contradiction Z; reflexivity|]. split; [intros _; exact E|right; exact E].
Qed.

Lemma current_latched : forall s, good s -> cur s <> None -> fst (current s) <> 0.
Proof.
  intros s (_ & _ & Hc) N. unfold current. destruct (cur s) as [c|]; [|contradiction N; reflexivity].
  cbn [fst]. apply (Hc c eq_refl).
Qed.

Lemma eat_safe : forall c s, c <> 0 -> alive s ->
  alive (snd (eat c s)) /\ (if fst (eat c s) then good (snd (eat c s)) else True).
Proof.
  intros c s Hc A. unfold eat. pose proof (current_alive s A) as (G & _ & A').
  destruct (current s) as [x s1]. cbn [fst snd] in *.
  destruct (x =? c) eqn:E; cbn [fst snd].
  - apply N.eqb_eq in E. subst x. specialize (G Hc).
    split; [left|]; apply move_good; exact G.
  - split; [exact A'|exact I].
Qed.

Ltac sfwd :=
  repeat match goal with
  | H : _ /\ _ |- _ => destruct H
  | H : Ok = Ok -> _ |- _ => specialize (H eq_refl)
  | H : ?A -> _, H' : ?A |- _ =>
      lazymatch type of A with Prop => specialize (H H') end
  | H : ?c <> 0 -> _ |- _ =>
      let X := fresh in assert (X : c <> 0) by lia; specialize (H X)
  | H : ?c = 0 -> _ |- _ =>
      let X := fresh in assert (X : c = 0) by lia; specialize (H X)
  | H : cur ?s <> None -> _, H' : cur ?s = Some _ |- _ =>
      let X := fresh in assert (X : cur s <> None) by congruence; specialize (H X)
  end.

Ltac salive :=
  lazymatch goal with
  | |- good (move ?s) => apply move_good; salive
  | |- good (set_found ?s) => apply set_found_good; salive
  | |- good _ => assumption
  | |- at_end _ => assumption
  | |- alive (set_found ?s) => apply set_found_alive; salive
  | |- alive _ =>
      first [ assumption | apply good_alive; salive | apply at_end_alive; assumption ]
  | |- fault (move ?s) = false => apply move_nofault; salive
  | |- fault (set_found ?s) = false => apply set_found_nofault; salive
  | |- fault _ = false => first [ assumption | apply alive_nofault; salive ]
  end.

Ltac sauto := first [ assumption | solve [salive] | lia | congruence ].

Ltac sf_post :=
  first [ solve [salive]
        | split; [ solve [salive]
                 | first [ reflexivity | congruence
                         | intro; first [ discriminate | congruence | solve [salive] ] ] ] ].

Ltac sf_leaf :=
  repeat match goal with |- context [if ?b then _ else _] => destruct b end;
  unfold safe2, safe3, safep, Qd in *; cbn [fst snd is_container_or_string] in *; sfwd;
  first [ solve [salive]
        | split; [ solve [salive]
                 | intro; try discriminate; sfwd; sf_post ] ].

Ltac sf_leaf_hook := sf_leaf.
Ltac sf_go D :=
  unfold safe2, safe3, safep, Qd in * |-; cbn [fst snd] in *; sfwd;
  lazymatch goal with
  | |- ?P ?r =>
      let h := head_scrut r in
      lazymatch h with
      | (_, _) => sf_leaf_hook
      | _ =>
          first [ D h
                | is_var h; destruct h
                | let E := fresh "E" in destruct h eqn:E; conv E ];
          sf_go D
      end
  end.

Ltac s_prim h :=
  lazymatch h with
  | current ?X =>
      let A := fresh "A" in
      assert (A : alive X) by sauto;
      pose proof (current_alive X A); pose proof (current_cur X); pose proof (current_latched X);
      destruct (current X) as [? ?]
  | eat ?c ?X =>
      let A := fresh "A" in let B := fresh "B" in
      assert (A : alive X) by sauto; assert (B : c <> 0) by lia;
      pose proof (eat_safe c X B A); destruct (eat c X) as [[] ?]
  end.

Lemma block_comment_safe : forall fuel w s, alive s -> safe2 alive (block_comment fuel w s).
Proof.
  induction fuel as [|fuel IH]; intros w s A; cbn [block_comment].
  - sf_leaf.
  - sf_go ltac:(fun h => lazymatch h with
      | block_comment fuel ?w ?X =>
          let A := fresh "A" in assert (A : alive X) by sauto;
          pose proof (IH w X A); destruct (block_comment fuel w X) as [? ?]
      | _ => s_prim h end).
Qed.

Lemma line_comment_safe : forall fuel s, good s -> safe2 alive (line_comment fuel s).
Proof.
  induction fuel as [|fuel IH]; intros s A; cbn [line_comment].
  - sf_leaf.
  - sf_go ltac:(fun h => lazymatch h with
      | line_comment fuel ?X =>
          let A := fresh "A" in assert (A : good X) by sauto;
          pose proof (IH X A); destruct (line_comment fuel X) as [? ?]
      | _ => s_prim h end).
Qed.

Ltac s_comm h :=
  lazymatch h with
  | block_comment ?f ?w ?X =>
      let A := fresh "A" in assert (A : alive X) by sauto;
      pose proof (block_comment_safe f w X A); destruct (block_comment f w X) as [? ?]
  | line_comment ?f ?X =>
      let A := fresh "A" in assert (A : good X) by sauto;
      pose proof (line_comment_safe f X A); destruct (line_comment f X) as [? ?]
  | _ => s_prim h
  end.

Lemma skip_spaces_safe : forall cf fuel s, alive s -> safe2 alive (skip_spaces cf fuel s).
Proof.
  intros cf. induction fuel as [|fuel IH]; intros s A; cbn [skip_spaces].
  - sf_leaf.
  - sf_go ltac:(fun h => lazymatch h with
      | skip_spaces cf fuel ?X =>
          let A := fresh "A" in assert (A : alive X) by sauto;
          pose proof (IH X A); destruct (skip_spaces cf fuel X) as [? ?]
      | _ => s_comm h end).
Qed.

Lemma skip_keyword_safe : forall kw s, alive s -> safe2 alive (skip_keyword kw s).
Proof.
  induction kw as [|k kw IH]; intros s A; cbn [skip_keyword].
  - sf_leaf.
  - sf_go ltac:(fun h => lazymatch h with
      | skip_keyword kw ?X =>
          let A := fresh "A" in assert (A : alive X) by sauto;
          pose proof (IH X A); destruct (skip_keyword kw X) as [? ?]
      | _ => s_prim h end).
Qed.

Lemma parse_hex4_safe : forall n acc s, alive s -> safe3 (fun _ => alive) (parse_hex4 n acc s).
Proof.
  induction n as [|n IH]; intros acc s A; cbn [parse_hex4].
  - sf_leaf.
  - sf_go ltac:(fun h => lazymatch h with
      | parse_hex4 n ?a ?X =>
          let A := fresh "A" in assert (A : alive X) by sauto;
          pose proof (IH a X A); destruct (parse_hex4 n a X) as [[? ?] ?]
      | _ => s_prim h end).
Qed.

Ltac s_lex1 h :=
  lazymatch h with
  | skip_spaces ?cf ?f ?X =>
      let A := fresh "A" in assert (A : alive X) by sauto;
      pose proof (skip_spaces_safe cf f X A); destruct (skip_spaces cf f X) as [? ?]
  | skip_keyword ?k ?X =>
      let A := fresh "A" in assert (A : alive X) by sauto;
      pose proof (skip_keyword_safe k X A); destruct (skip_keyword k X) as [? ?]
  | parse_hex4 ?n ?a ?X =>
      let A := fresh "A" in assert (A : alive X) by sauto;
      pose proof (parse_hex4_safe n a X A); destruct (parse_hex4 n a X) as [[? ?] ?]
  | _ => s_comm h
  end.

Lemma quoted_loop_safe : forall cf fuel stop cp acc s,
  stop <> 0 -> alive s -> safe3 (fun _ => good) (quoted_loop cf fuel stop cp acc s).
Proof.
  intros cf. induction fuel as [|fuel IH]; intros stop cp acc s Hs A; cbn [quoted_loop].
  - sf_leaf.
  - sf_go ltac:(fun h => lazymatch h with
      | quoted_loop cf fuel ?st ?c ?a ?X =>
          let A := fresh "A" in assert (A : alive X) by sauto;
          pose proof (IH st c a X Hs A); destruct (quoted_loop cf fuel st c a X) as [[? ?] ?]
      | _ => s_lex1 h end).
Qed.

Lemma cap_string_safe : forall (Q : ps -> Prop) r,
  safe3 (fun _ => Q) r -> safe3 (fun _ => Q) (cap_string r).
Proof.
  intros Q [[e a] s'] [H1 H2]. unfold safe3, cap_string in *. cbn [fst snd] in *.
  destruct e; try (split; assumption).
  destruct (too_long a); cbn [fst snd]; split; try assumption. intro X; discriminate X.
Qed.

Lemma parse_quoted_string_safe : forall cf fuel s,
  good s -> cur s <> None -> safe3 (fun _ => good) (parse_quoted_string cf fuel s).
Proof.
  intros cf fuel s G C. unfold parse_quoted_string.
  sf_go ltac:(fun h => lazymatch h with
      | cap_string _ => apply cap_string_safe
      | quoted_loop cf fuel ?st ?c ?a ?X =>
          let A := fresh "A" in let B := fresh "B" in
          assert (A : alive X) by sauto; assert (B : st <> 0) by sauto;
          pose proof (quoted_loop_safe cf fuel st c a X B A);
          destruct (quoted_loop cf fuel st c a X) as [[? ?] ?]
      | _ => s_lex1 h end).
Qed.

Lemma non_quoted_loop_safe : forall fuel acc c s,
  good s -> safe3 (fun _ => alive) (non_quoted_loop fuel acc c s).
Proof.
  induction fuel as [|fuel IH]; intros acc c s G; cbn [non_quoted_loop].
  - sf_leaf.
  - sf_go ltac:(fun h => lazymatch h with
      | non_quoted_loop fuel ?a ?c ?X =>
          let A := fresh "A" in assert (A : good X) by sauto;
          pose proof (IH a c X A); destruct (non_quoted_loop fuel a c X) as [[? ?] ?]
      | _ => s_lex1 h end).
Qed.

Lemma parse_non_quoted_string_safe : forall fuel s,
  alive s -> safe3 (fun _ => alive) (parse_non_quoted_string fuel s).
Proof.
  intros fuel s A. unfold parse_non_quoted_string.
  sf_go ltac:(fun h => lazymatch h with
      | cap_string _ => apply cap_string_safe
      | non_quoted_loop fuel ?a ?c ?X =>
          let A := fresh "A" in assert (A : good X) by sauto;
          pose proof (non_quoted_loop_safe fuel a c X A);
          destruct (non_quoted_loop fuel a c X) as [[? ?] ?]
      | _ => s_lex1 h end).
Qed.

Lemma parse_key_safe : forall cf fuel s, alive s -> safe3 (fun _ => alive) (parse_key cf fuel s).
Proof.
  intros cf fuel s A. unfold parse_key.
  sf_go ltac:(fun h => lazymatch h with
      | parse_quoted_string cf fuel ?X =>
          let A := fresh "A" in let B := fresh "B" in
          assert (A : good X) by sauto; assert (B : cur X <> None) by sauto;
          pose proof (parse_quoted_string_safe cf fuel X A B);
          destruct (parse_quoted_string cf fuel X) as [[? ?] ?]
      | parse_non_quoted_string fuel ?X =>
          let A := fresh "A" in assert (A : alive X) by sauto;
          pose proof (parse_non_quoted_string_safe fuel X A);
          destruct (parse_non_quoted_string fuel X) as [[? ?] ?]
      | _ => s_lex1 h end).
Qed.

Lemma skip_quoted_loop_safe : forall fuel stop s,
  stop <> 0 -> alive s -> safe2 good (skip_quoted_loop fuel stop s).
Proof.
  induction fuel as [|fuel IH]; intros stop s Hs A; cbn [skip_quoted_loop].
  - sf_leaf.
  - sf_go ltac:(fun h => lazymatch h with
      | skip_quoted_loop fuel ?st ?X =>
          let A := fresh "A" in assert (A : alive X) by sauto;
          pose proof (IH st X Hs A); destruct (skip_quoted_loop fuel st X) as [? ?]
      | _ => s_lex1 h end).
Qed.

Lemma skip_quoted_string_safe : forall fuel s,
  good s -> cur s <> None -> safe2 good (skip_quoted_string fuel s).
Proof.
  intros fuel s G C. unfold skip_quoted_string.
  sf_go ltac:(fun h => lazymatch h with
      | skip_quoted_loop fuel ?st ?X =>
          let A := fresh "A" in let B := fresh "B" in
          assert (A : alive X) by sauto; assert (B : st <> 0) by sauto;
          pose proof (skip_quoted_loop_safe fuel st X B A);
          destruct (skip_quoted_loop fuel st X) as [? ?]
      | _ => s_lex1 h end).
Qed.

Lemma skip_non_quoted_loop_safe : forall fuel s,
  alive s -> safe2 alive (skip_non_quoted_loop fuel s).
Proof.
  induction fuel as [|fuel IH]; intros s A; cbn [skip_non_quoted_loop].
  - sf_leaf.
  - sf_go ltac:(fun h => lazymatch h with
      | skip_non_quoted_loop fuel ?X =>
          let A := fresh "A" in assert (A : alive X) by sauto;
          pose proof (IH X A); destruct (skip_non_quoted_loop fuel X) as [? ?]
      | _ => s_lex1 h end).
Qed.

Lemma skip_key_safe : forall fuel s, alive s -> safe2 alive (skip_key fuel s).
Proof.
  intros fuel s A. unfold skip_key.
  sf_go ltac:(fun h => lazymatch h with
      | skip_quoted_string fuel ?X =>
          let A := fresh "A" in let B := fresh "B" in
          assert (A : good X) by sauto; assert (B : cur X <> None) by sauto;
          pose proof (skip_quoted_string_safe fuel X A B);
          destruct (skip_quoted_string fuel X) as [? ?]
      | skip_non_quoted_loop fuel ?X =>
          let A := fresh "A" in assert (A : alive X) by sauto;
          pose proof (skip_non_quoted_loop_safe fuel X A);
          destruct (skip_non_quoted_loop fuel X) as [? ?]
      | _ => s_lex1 h end).
Qed.

Lemma scan_number_safe : forall cf n acc s, alive s -> safep (scan_number cf n acc s).
Proof.
  intros cf. induction n as [|n IH]; intros acc s A; cbn [scan_number].
  - sf_leaf.
  - sf_go ltac:(fun h => lazymatch h with
      | scan_number cf n ?a ?X =>
          let A := fresh "A" in assert (A : alive X) by sauto;
          pose proof (IH a X A); destruct (scan_number cf n a X) as [? ?]
      | _ => s_lex1 h end).
Qed.

Lemma skip_numeric_loop_safe : forall cf fuel s,
  alive s -> safe2 alive (skip_numeric_loop cf fuel s).
Proof.
  intros cf. induction fuel as [|fuel IH]; intros s A; cbn [skip_numeric_loop].
  - sf_leaf.
  - sf_go ltac:(fun h => lazymatch h with
      | skip_numeric_loop cf fuel ?X =>
          let A := fresh "A" in assert (A : alive X) by sauto;
          pose proof (IH X A); destruct (skip_numeric_loop cf fuel X) as [? ?]
      | _ => s_lex1 h end).
Qed.

Lemma parse_numeric_value_safe : forall cf s, alive s ->
  safe3 (fun v s' => alive s' /\ is_container_or_string v = false) (parse_numeric_value cf s).
Proof.
  intros cf s A. unfold parse_numeric_value.
  pose proof (scan_number_safe cf 63 [] s A) as H. destruct (scan_number cf 63 [] s) as [buf s1].
  unfold safep in H; cbn [snd] in H. cbv beta iota zeta.
  assert (X : alive (if Nat.eqb (length buf) 63 then snd (current s1) else s1))
    by (destruct (Nat.eqb (length buf) 63); [apply current_alive; exact H | exact H]).
  revert X. generalize (if Nat.eqb (length buf) 63 then snd (current s1) else s1). intros s2 X.
  destruct (parse_number cf buf); cbn [jv_of_number]; try sf_leaf.
  unfold jv_of_double. destruct (use_double cf);
    [match goal with |- context [if ?b then JFloat _ else _] => destruct b end|]; sf_leaf.
Qed.

Ltac s_lex2 h :=
  lazymatch h with
  | parse_key ?cf ?f ?X =>
      let A := fresh "A" in assert (A : alive X) by sauto;
      pose proof (parse_key_safe cf f X A); destruct (parse_key cf f X) as [[? ?] ?]
  | skip_key ?f ?X =>
      let A := fresh "A" in assert (A : alive X) by sauto;
      pose proof (skip_key_safe f X A); destruct (skip_key f X) as [? ?]
  | parse_quoted_string ?cf ?f ?X =>
      let A := fresh "A" in let B := fresh "B" in
      assert (A : good X) by sauto; assert (B : cur X <> None) by sauto;
      pose proof (parse_quoted_string_safe cf f X A B);
      destruct (parse_quoted_string cf f X) as [[? ?] ?]
  | skip_quoted_string ?f ?X =>
      let A := fresh "A" in let B := fresh "B" in
      assert (A : good X) by sauto; assert (B : cur X <> None) by sauto;
      pose proof (skip_quoted_string_safe f X A B); destruct (skip_quoted_string f X) as [? ?]
  | parse_numeric_value ?cf ?X =>
      let A := fresh "A" in assert (A : alive X) by sauto;
      pose proof (parse_numeric_value_safe cf X A);
      destruct (parse_numeric_value cf X) as [[? ?] ?]
  | skip_numeric_loop ?cf ?f ?X =>
      let A := fresh "A" in assert (A : alive X) by sauto;
      pose proof (skip_numeric_loop_safe cf f X A); destruct (skip_numeric_loop cf f X) as [? ?]
  | _ => s_lex1 h
  end.

Section ContainersSafe.
  Variable cf : cfg.
  Variable pv : filter -> ps -> code * jv * ps.
  Variable sv : ps -> code * ps.
  Hypothesis pv_sf : forall f s, alive s -> safe3 Qd (pv f s).
  Hypothesis sv_sf : forall s, alive s -> safe2 alive (sv s).

  Lemma array_loop_safe : forall fuel ef acc s,
    alive s -> safe3 (fun _ => good) (array_loop cf pv sv fuel ef acc s).
  Proof.
    induction fuel as [|fuel IH]; intros ef acc s A; cbn [array_loop].
    - sf_leaf.
    - sf_go ltac:(fun h => lazymatch h with
        | array_loop cf pv sv fuel ?e ?a ?X =>
            let A := fresh "A" in assert (A : alive X) by sauto;
            pose proof (IH e a X A); destruct (array_loop cf pv sv fuel e a X) as [[? ?] ?]
        | pv ?f ?X =>
            let A := fresh "A" in assert (A : alive X) by sauto;
            pose proof (pv_sf f X A); destruct (pv f X) as [[? ?] ?]
        | sv ?X =>
            let A := fresh "A" in assert (A : alive X) by sauto;
            pose proof (sv_sf X A); destruct (sv X) as [? ?]
        | _ => s_lex2 h end).
  Qed.

  Lemma skip_array_loop_safe : forall fuel s,
    alive s -> safe2 good (skip_array_loop cf sv fuel s).
  Proof.
    induction fuel as [|fuel IH]; intros s A; cbn [skip_array_loop].
    - sf_leaf.
    - sf_go ltac:(fun h => lazymatch h with
        | skip_array_loop cf sv fuel ?X =>
            let A := fresh "A" in assert (A : alive X) by sauto;
            pose proof (IH X A); destruct (skip_array_loop cf sv fuel X) as [? ?]
        | sv ?X =>
            let A := fresh "A" in assert (A : alive X) by sauto;
            pose proof (sv_sf X A); destruct (sv X) as [? ?]
        | _ => s_lex2 h end).
  Qed.

  Lemma object_loop_safe : forall fuel f acc s,
    alive s -> safe3 (fun _ => good) (object_loop cf pv sv fuel f acc s).
  Proof.
    induction fuel as [|fuel IH]; intros f acc s A; cbn [object_loop].
    - sf_leaf.
    - sf_go ltac:(fun h => lazymatch h with
        | object_loop cf pv sv fuel ?e ?a ?X =>
            let A := fresh "A" in assert (A : alive X) by sauto;
            pose proof (IH e a X A); destruct (object_loop cf pv sv fuel e a X) as [[? ?] ?]
        | pv ?f ?X =>
            let A := fresh "A" in assert (A : alive X) by sauto;
            pose proof (pv_sf f X A); destruct (pv f X) as [[? ?] ?]
        | sv ?X =>
            let A := fresh "A" in assert (A : alive X) by sauto;
            pose proof (sv_sf X A); destruct (sv X) as [? ?]
        | _ => s_lex2 h end).
  Qed.

  Lemma skip_object_loop_safe : forall fuel s,
    alive s -> safe2 good (skip_object_loop cf sv fuel s).
  Proof.
    induction fuel as [|fuel IH]; intros s A; cbn [skip_object_loop].
    - sf_leaf.
    - sf_go ltac:(fun h => lazymatch h with
        | skip_object_loop cf sv fuel ?X =>
            let A := fresh "A" in assert (A : alive X) by sauto;
            pose proof (IH X A); destruct (skip_object_loop cf sv fuel X) as [? ?]
        | sv ?X =>
            let A := fresh "A" in assert (A : alive X) by sauto;
            pose proof (sv_sf X A); destruct (sv X) as [? ?]
        | _ => s_lex2 h end).
  Qed.
End ContainersSafe.

Lemma skip_variant_safe : forall cf fuel L s,
  alive s -> safe2 alive (skip_variant cf fuel L s).
Proof.
  intros cf fuel. induction L as [|L IH]; intros s A; cbn [skip_variant].
  - sf_go s_lex2.
  - sf_go ltac:(fun h => lazymatch h with
      | skip_array_loop cf ?sv fuel ?X =>
          let A := fresh "A" in assert (A : alive X) by sauto;
          pose proof (skip_array_loop_safe cf sv IH fuel X A);
          destruct (skip_array_loop cf sv fuel X) as [? ?]
      | skip_object_loop cf ?sv fuel ?X =>
          let A := fresh "A" in assert (A : alive X) by sauto;
          pose proof (skip_object_loop_safe cf sv IH fuel X A);
          destruct (skip_object_loop cf sv fuel X) as [? ?]
      | _ => s_lex2 h end).
Qed.

Lemma parse_variant_safe : forall cf fuel L f s,
  alive s -> safe3 Qd (parse_variant cf fuel L f s).
Proof.
  intros cf fuel. induction L as [|L IH]; intros f s A; cbn [parse_variant].
  - sf_go ltac:(fun h => lazymatch h with
      | skip_variant cf fuel ?l ?X =>
          let A := fresh "A" in assert (A : alive X) by sauto;
          pose proof (skip_variant_safe cf fuel l X A);
          destruct (skip_variant cf fuel l X) as [? ?]
      | _ => s_lex2 h end).
  - sf_go ltac:(fun h => lazymatch h with
      | skip_variant cf fuel ?l ?X =>
          let A := fresh "A" in assert (A : alive X) by sauto;
          pose proof (skip_variant_safe cf fuel l X A);
          destruct (skip_variant cf fuel l X) as [? ?]
      | array_loop cf ?pv ?sv fuel ?e ?a ?X =>
          let A := fresh "A" in assert (A : alive X) by sauto;
          pose proof (array_loop_safe cf pv sv IH (skip_variant_safe cf fuel L) fuel e a X A);
          destruct (array_loop cf pv sv fuel e a X) as [[? ?] ?]
      | object_loop cf ?pv ?sv fuel ?e ?a ?X =>
          let A := fresh "A" in assert (A : alive X) by sauto;
          pose proof (object_loop_safe cf pv sv IH (skip_variant_safe cf fuel L) fuel e a X A);
          destruct (object_loop cf pv sv fuel e a X) as [[? ?] ?]
      | _ => s_lex2 h end).
Qed.

(* ------------------------------------------------------------------------------------- *)
(* (B) no read after the end of input *)
Theorem parse_variant_no_fault : forall cf fuel L f s e v s',
  alive s -> parse_variant cf fuel L f s = (e, v, s') ->
  fault s' = false /\ (e = Ok -> alive s').
Proof.
  intros cf fuel L f s e v s' A H.
  pose proof (parse_variant_safe cf fuel L f s A) as [F Q]. rewrite H in F, Q.
  cbn [fst snd] in F, Q. split; [exact F|]. intro X. apply (Q X).
Qed.

Theorem skip_variant_no_fault : forall cf fuel L s e s',
  alive s -> skip_variant cf fuel L s = (e, s') ->
  fault s' = false /\ (e = Ok -> alive s').
Proof.
  intros cf fuel L s e s' A H.
  pose proof (skip_variant_safe cf fuel L s A) as [F Q]. rewrite H in F, Q.
  cbn [fst snd] in F, Q. split; [exact F|exact Q].
Qed.

Theorem json_run_no_fault : forall cf f L i, fault (j_st (json_run cf f L i)) = false.
Proof.
  intros cf f L i. unfold json_run.
  destruct (parse_variant cf (json_fuel i) L f (ps_init i)) as [[e v] s'] eqn:E. cbn [j_st].
  exact (proj1 (parse_variant_no_fault _ _ _ _ _ _ _ _ (good_alive _ (good_init i)) E)).
Qed.

(* (D) an unclosed string / array / object is never accepted *)
Theorem closed_before_end : forall cf fuel L f s v s',
  good s -> parse_variant cf fuel L f s = (Ok, v, s') ->
  is_container_or_string v = true -> ended s' = false.
Proof.
  intros cf fuel L f s v s' G H C.
  pose proof (parse_variant_safe cf fuel L f s (good_alive s G)) as [_ Q]. rewrite H in Q.
  cbn [fst snd] in Q. destruct (Q eq_refl) as [_ Q']. destruct (Q' C) as [He _]. exact He.
Qed.

Theorem json_run_unclosed_never_accepted : forall cf f L i,
  j_err (json_run cf f L i) = Ok -> is_container_or_string (j_doc (json_run cf f L i)) = true ->
  ended (j_st (json_run cf f L i)) = false.
Proof.
  intros cf f L i. unfold json_run.
  destruct (parse_variant cf (json_fuel i) L f (ps_init i)) as [[e v] s'] eqn:E.
  cbn [j_err j_doc j_st]. intros He Hv.
  destruct e; try discriminate He.
  exact (closed_before_end _ _ _ _ _ _ _ (good_init i) E Hv).
Qed.
