(* ParseSafe.v — safety, accounting and termination of the JSON reader model.

   Part 1: accounting (budget) and termination (a measure that never increases, and fuel).
   Part 2: no read after the end of input, and "closed before the end".                       *)
From Coq Require Import NArith ZArith List Bool Lia.
From AJ Require Import Model.Base Model.Value Model.Utf Model.NumParse Model.JsonParse Proofs.Lex Spec.ParseSpec.
Local Open Scope N_scope.

(* ===================================================================================== *)
(* Part 1 — budget and measure                                                            *)

(* number of non-NUL bytes the parser can still consume: unread bytes, plus the latched one
   when it is not the end marker *)
Definition meas (s : ps) : nat :=
  (length (rest s) + match cur s with Some c => if (c =? 0)%N then 0 else 1 | None => 0 end)%nat.

Definition le_st (s' s : ps) : Prop := budget s' = budget s /\ (meas s' <= meas s)%nat.

Definition latched (s : ps) : Prop := exists c, cur s = Some c /\ c <> 0.

Lemma latched_intro : forall s c, cur s = Some c -> c <> 0 -> latched s.
Proof. intros s c H1 H2. exists c. auto. Qed.

(* result shapes: the final state is below the initial one, and (given enough fuel) the code is
   not OutOfFuel *)
Definition mf2 (P : Prop) (s : ps) (r : code * ps) : Prop :=
  le_st (snd r) s /\ (P -> fst r <> OutOfFuel).
Definition mf3 {A : Type} (P : Prop) (s : ps) (r : code * A * ps) : Prop :=
  le_st (snd r) s /\ (P -> fst (fst r) <> OutOfFuel).
Definition mfp {A : Type} (s : ps) (r : A * ps) : Prop := le_st (snd r) s.

Lemma le_st_refl : forall s, le_st s s.
Proof. intro s. split; [reflexivity|lia]. Qed.

Lemma move_le : forall s, le_st (move s) s.
Proof.
  intro s. unfold le_st, budget, meas, move; cbn [rest reads cur]. split; [reflexivity|lia].
Qed.

Lemma move_lt : forall s, latched s -> (S (meas (move s)) <= meas s)%nat.
Proof.
  intros s (c & Ec & Hc). unfold meas, move; cbn [rest cur]. rewrite Ec.
  apply N.eqb_neq in Hc. rewrite Hc. lia.
Qed.

Lemma set_found_le : forall s, le_st (set_found s) s.
Proof.
  intro s. unfold le_st, budget, meas, set_found; cbn [rest reads cur]. split; [reflexivity|lia].
Qed.

Lemma current_le : forall s, le_st (snd (current s)) s.
Proof.
  intro s. unfold current. destruct (cur s) as [c|] eqn:Ec; cbn [snd].
  - apply le_st_refl.
  - unfold load, le_st, budget, meas. rewrite Ec.
    destruct (rest s) as [|b t]; cbn [rest reads cur length].
    + change (0 =? 0) with true. cbv iota. split; lia.
    + split; [lia|]. destruct (b =? 0); lia.
Qed.

Lemma current_cur : forall s, cur (snd (current s)) = Some (fst (current s)).
Proof.
  intro s. unfold current. destruct (cur s) as [c|] eqn:Ec; cbn [fst snd].
  - exact Ec.
  - unfold load. destruct (rest s); reflexivity.
Qed.

Lemma current_lt : forall s, fst (current s) <> 0 ->
  (S (meas (move (snd (current s)))) <= meas s)%nat.
Proof.
  intros s H. pose proof (current_le s) as [_ L]. pose proof (current_cur s) as C.
  assert (X : latched (snd (current s))) by (eapply latched_intro; eauto).
  pose proof (move_lt _ X). lia.
Qed.

Lemma eat_mf : forall c s,
  le_st (snd (eat c s)) s /\
  (if fst (eat c s) then c <> 0 -> (S (meas (snd (eat c s))) <= meas s)%nat else True).
Proof.
  intros c s. unfold eat.
  pose proof (current_le s) as L. pose proof (current_lt s) as T.
  destruct (current s) as [x s1]. cbn [fst snd] in *.
  destruct (x =? c) eqn:E; cbn [fst snd].
  - apply N.eqb_eq in E. subst x. pose proof (move_le s1) as M. unfold le_st in *.
    split; [split; [|lia]|exact T]. destruct M as [M _], L as [L _]. congruence.
  - split; [exact L|exact I].
Qed.

(* class facts: NUL belongs to no character class *)
Lemma cbin_nz : forall cf c, can_be_in_number cf c = true -> c <> 0.
Proof.
  intros cf c H E. subst c. unfold can_be_in_number in H.
  destruct (enable_nan cf || enable_inf cf); discriminate H.
Qed.

Lemma cbinqs_nz : forall c, can_be_in_non_quoted_string c = true -> c <> 0.
Proof. intros c H E. subst c. discriminate H. Qed.

Lemma is_quote_nz : forall c, is_quote c = true -> c <> 0.
Proof. intros c H E. subst c. discriminate H. Qed.

(* ---- proof engine: follow the head of the expression, posing the lemma of each call ---- *)
Ltac head_scrut e :=
  lazymatch e with
  | match ?x with _ => _ end => head_scrut x
  | _ => e
  end.

Ltac conv E :=
  try (apply N.eqb_neq in E); try (apply N.eqb_eq in E);
  try (pose proof (cbin_nz _ _ E)); try (pose proof (cbinqs_nz _ E));
  try (pose proof (is_quote_nz _ E)).

Ltac pose_moves :=
  repeat match goal with
  | |- context [move ?Y] =>
      lazymatch goal with H : le_st (move Y) Y |- _ => fail | _ => pose proof (move_le Y) end
  | _ : context [move ?Y] |- _ =>
      lazymatch goal with H : le_st (move Y) Y |- _ => fail | _ => pose proof (move_le Y) end
  | |- context [set_found ?Y] =>
      lazymatch goal with H : le_st (set_found Y) Y |- _ => fail
      | _ => pose proof (set_found_le Y) end
  end.

Ltac fwd :=
  repeat match goal with
  | H : _ /\ _ |- _ => destruct H
  | H : ?A -> _, H' : ?A |- _ => specialize (H H')
  end.
Ltac solve_prem :=
  repeat split; first [ lia | (eapply latched_intro; [eassumption | lia]) | exact I ].
Ltac solve_nf :=
  first [ discriminate | assumption
        | match goal with |- (if ?b then _ else _) <> _ => destruct b; discriminate end
        | match goal with
          | H : _ -> ?e <> OutOfFuel |- ?e <> OutOfFuel => apply H; solve_prem
          end ].

Ltac mf_leaf :=
  pose_moves; unfold mf2, mf3, mfp, le_st in *; cbn [fst snd] in *;
  fwd;
  first [ lia | split; [lia | intros; fwd; solve_nf] ].

Ltac mf_leaf_hook := mf_leaf.
Ltac mf_go D :=
  cbn [fst snd] in *;
  lazymatch goal with
  | |- ?P ?r =>
      let h := head_scrut r in
      lazymatch h with
      | (_, _) => mf_leaf_hook
      | _ =>
          first [ D h
                | is_var h; destruct h
                | let E := fresh "E" in destruct h eqn:E; conv E ];
          mf_go D
      end
  end.

(* primitives *)
Ltac d_prim h :=
  lazymatch h with
  | current (move ?Y) =>
      pose proof (move_le Y); pose proof (move_lt Y);
      pose proof (current_le (move Y)); pose proof (current_lt (move Y));
      pose proof (current_cur (move Y)); pose proof (move_le (snd (current (move Y))));
      destruct (current (move Y)) as [? ?]
  | current ?X =>
      pose proof (current_le X); pose proof (current_lt X); pose proof (current_cur X);
      pose proof (move_le (snd (current X)));
      destruct (current X) as [? ?]
  | eat ?c (move ?Y) =>
      pose proof (move_le Y); pose proof (eat_mf c (move Y)); destruct (eat c (move Y)) as [[] ?]
  | eat ?c ?X => pose proof (eat_mf c X); destruct (eat c X) as [[] ?]
  end.

Lemma block_comment_mf : forall fuel w s, mf2 (meas s < fuel)%nat s (block_comment fuel w s).
Proof.
  induction fuel as [|fuel IH]; intros w s; cbn [block_comment].
  - mf_leaf.
  - mf_go ltac:(fun h => lazymatch h with
      | block_comment fuel ?w ?X => pose proof (IH w X); destruct (block_comment fuel w X) as [? ?]
      | _ => d_prim h end).
Qed.

Lemma line_comment_mf : forall fuel s,
  mf2 (latched s /\ meas s <= fuel)%nat s (line_comment fuel s).
Proof.
  induction fuel as [|fuel IH]; intros s; cbn [line_comment].
  - unfold mf2; cbn [fst snd]. split; [apply le_st_refl|].
    intros [X Y]. pose proof (move_lt s X). lia.
  - mf_go ltac:(fun h => lazymatch h with
      | line_comment fuel ?X => pose proof (IH X); destruct (line_comment fuel X) as [? ?]
      | _ => d_prim h end).
Qed.

Ltac d_comm h :=
  lazymatch h with
  | block_comment ?f ?w (move ?Y) =>
      pose proof (move_le Y);
      pose proof (block_comment_mf f w (move Y)); destruct (block_comment f w (move Y)) as [? ?]
  | line_comment ?f ?X => pose proof (line_comment_mf f X); destruct (line_comment f X) as [? ?]
  | _ => d_prim h
  end.

Lemma skip_spaces_mf : forall cf fuel s, mf2 (meas s < fuel)%nat s (skip_spaces cf fuel s).
Proof.
  intros cf. induction fuel as [|fuel IH]; intros s; cbn [skip_spaces].
  - mf_leaf.
  - mf_go ltac:(fun h => lazymatch h with
      | skip_spaces cf fuel ?X => pose proof (IH X); destruct (skip_spaces cf fuel X) as [? ?]
      | _ => d_comm h end).
Qed.

Lemma skip_keyword_mf : forall kw s, mf2 True s (skip_keyword kw s).
Proof.
  induction kw as [|k kw IH]; intros s; cbn [skip_keyword].
  - mf_leaf.
  - mf_go ltac:(fun h => lazymatch h with
      | skip_keyword kw ?X => pose proof (IH X); destruct (skip_keyword kw X) as [? ?]
      | _ => d_prim h end).
Qed.

Lemma parse_hex4_mf : forall n acc s, mf3 True s (parse_hex4 n acc s).
Proof.
  induction n as [|n IH]; intros acc s; cbn [parse_hex4].
  - mf_leaf.
  - mf_go ltac:(fun h => lazymatch h with
      | parse_hex4 n ?a ?X => pose proof (IH a X); destruct (parse_hex4 n a X) as [[? ?] ?]
      | _ => d_prim h end).
Qed.

Ltac d_lex1 h :=
  lazymatch h with
  | skip_spaces ?cf ?f ?X => pose proof (skip_spaces_mf cf f X); destruct (skip_spaces cf f X) as [? ?]
  | skip_keyword ?k ?X => pose proof (skip_keyword_mf k X); destruct (skip_keyword k X) as [? ?]
  | parse_hex4 ?n ?a ?X => pose proof (parse_hex4_mf n a X); destruct (parse_hex4 n a X) as [[? ?] ?]
  | _ => d_comm h
  end.

Lemma quoted_loop_mf : forall cf fuel stop cp acc s,
  mf3 (meas s < fuel)%nat s (quoted_loop cf fuel stop cp acc s).
Proof.
  intros cf. induction fuel as [|fuel IH]; intros stop cp acc s; cbn [quoted_loop].
  - mf_leaf.
  - mf_go ltac:(fun h => lazymatch h with
      | quoted_loop cf fuel ?st ?c ?a ?X =>
          pose proof (IH st c a X); destruct (quoted_loop cf fuel st c a X) as [[? ?] ?]
      | _ => d_lex1 h end).
Qed.

Lemma parse_quoted_string_mf : forall cf fuel s,
  mf3 (meas s < fuel)%nat s (parse_quoted_string cf fuel s).
Proof.
  intros cf fuel s. unfold parse_quoted_string.
  mf_go ltac:(fun h => lazymatch h with
      | quoted_loop cf fuel ?st ?c ?a ?X =>
          pose proof (quoted_loop_mf cf fuel st c a X);
          destruct (quoted_loop cf fuel st c a X) as [[? ?] ?]
      | _ => d_lex1 h end).
Qed.

Lemma non_quoted_loop_mf : forall fuel acc c s,
  mf3 (latched s /\ meas s <= fuel)%nat s (non_quoted_loop fuel acc c s).
Proof.
  induction fuel as [|fuel IH]; intros acc c s; cbn [non_quoted_loop].
  - unfold mf3; cbn [fst snd]. split; [apply le_st_refl|].
    intros [X Y]. pose proof (move_lt s X). lia.
  - mf_go ltac:(fun h => lazymatch h with
      | non_quoted_loop fuel ?a ?c ?X =>
          pose proof (IH a c X); destruct (non_quoted_loop fuel a c X) as [[? ?] ?]
      | _ => d_lex1 h end).
Qed.

Lemma parse_non_quoted_string_mf : forall fuel s,
  mf3 (meas s < fuel)%nat s (parse_non_quoted_string fuel s).
Proof.
  intros fuel s. unfold parse_non_quoted_string.
  mf_go ltac:(fun h => lazymatch h with
      | non_quoted_loop fuel ?a ?c ?X =>
          pose proof (non_quoted_loop_mf fuel a c X);
          destruct (non_quoted_loop fuel a c X) as [[? ?] ?]
      | _ => d_lex1 h end).
Qed.

Lemma parse_key_mf : forall cf fuel s, mf3 (meas s < fuel)%nat s (parse_key cf fuel s).
Proof.
  intros cf fuel s. unfold parse_key.
  mf_go ltac:(fun h => lazymatch h with
      | parse_quoted_string cf fuel ?X =>
          pose proof (parse_quoted_string_mf cf fuel X);
          destruct (parse_quoted_string cf fuel X) as [[? ?] ?]
      | parse_non_quoted_string fuel ?X =>
          pose proof (parse_non_quoted_string_mf fuel X);
          destruct (parse_non_quoted_string fuel X) as [[? ?] ?]
      | _ => d_lex1 h end).
Qed.

Lemma skip_quoted_loop_mf : forall fuel stop s,
  mf2 (meas s < fuel)%nat s (skip_quoted_loop fuel stop s).
Proof.
  induction fuel as [|fuel IH]; intros stop s; cbn [skip_quoted_loop].
  - mf_leaf.
  - mf_go ltac:(fun h => lazymatch h with
      | skip_quoted_loop fuel ?st ?X =>
          pose proof (IH st X); destruct (skip_quoted_loop fuel st X) as [? ?]
      | _ => d_lex1 h end).
Qed.

Lemma skip_quoted_string_mf : forall fuel s,
  mf2 (meas s < fuel)%nat s (skip_quoted_string fuel s).
Proof.
  intros fuel s. unfold skip_quoted_string.
  mf_go ltac:(fun h => lazymatch h with
      | skip_quoted_loop fuel ?st ?X =>
          pose proof (skip_quoted_loop_mf fuel st X); destruct (skip_quoted_loop fuel st X) as [? ?]
      | _ => d_lex1 h end).
Qed.

Lemma skip_non_quoted_loop_mf : forall fuel s,
  mf2 (meas s < fuel)%nat s (skip_non_quoted_loop fuel s).
Proof.
  induction fuel as [|fuel IH]; intros s; cbn [skip_non_quoted_loop].
  - mf_leaf.
  - mf_go ltac:(fun h => lazymatch h with
      | skip_non_quoted_loop fuel ?X =>
          pose proof (IH X); destruct (skip_non_quoted_loop fuel X) as [? ?]
      | _ => d_lex1 h end).
Qed.

Lemma skip_key_mf : forall fuel s, mf2 (meas s < fuel)%nat s (skip_key fuel s).
Proof.
  intros fuel s. unfold skip_key.
  mf_go ltac:(fun h => lazymatch h with
      | skip_quoted_string fuel ?X =>
          pose proof (skip_quoted_string_mf fuel X); destruct (skip_quoted_string fuel X) as [? ?]
      | skip_non_quoted_loop fuel ?X =>
          pose proof (skip_non_quoted_loop_mf fuel X);
          destruct (skip_non_quoted_loop fuel X) as [? ?]
      | _ => d_lex1 h end).
Qed.

Lemma scan_number_mf : forall cf n acc s, mfp s (scan_number cf n acc s).
Proof.
  intros cf. induction n as [|n IH]; intros acc s; cbn [scan_number].
  - mf_leaf.
  - mf_go ltac:(fun h => lazymatch h with
      | scan_number cf n ?a ?X => pose proof (IH a X); destruct (scan_number cf n a X) as [? ?]
      | _ => d_lex1 h end).
Qed.

Lemma skip_numeric_loop_mf : forall cf fuel s,
  mf2 (meas s < fuel)%nat s (skip_numeric_loop cf fuel s).
Proof.
  intros cf. induction fuel as [|fuel IH]; intros s; cbn [skip_numeric_loop].
  - mf_leaf.
  - mf_go ltac:(fun h => lazymatch h with
      | skip_numeric_loop cf fuel ?X =>
          pose proof (IH X); destruct (skip_numeric_loop cf fuel X) as [? ?]
      | _ => d_lex1 h end).
Qed.

Lemma parse_numeric_value_mf : forall cf s, mf3 True s (parse_numeric_value cf s).
Proof.
  intros cf s. unfold parse_numeric_value.
  pose proof (scan_number_mf cf 63 [] s) as H. destruct (scan_number cf 63 [] s) as [buf s1].
  unfold mfp in H; cbn [snd] in H. cbv beta iota zeta.
  assert (X : le_st (if Nat.eqb (length buf) 63 then snd (current s1) else s1) s1)
    by (destruct (Nat.eqb (length buf) 63); [apply current_le | apply le_st_refl]).
  revert X. generalize (if Nat.eqb (length buf) 63 then snd (current s1) else s1). intros s2 X.
  destruct (jv_of_number cf (parse_number cf buf)); mf_leaf.
Qed.

Ltac d_lex2 h :=
  lazymatch h with
  | parse_key ?cf ?f ?X => pose proof (parse_key_mf cf f X); destruct (parse_key cf f X) as [[? ?] ?]
  | skip_key ?f ?X => pose proof (skip_key_mf f X); destruct (skip_key f X) as [? ?]
  | parse_quoted_string ?cf ?f ?X =>
      pose proof (parse_quoted_string_mf cf f X); destruct (parse_quoted_string cf f X) as [[? ?] ?]
  | skip_quoted_string ?f ?X =>
      pose proof (skip_quoted_string_mf f X); destruct (skip_quoted_string f X) as [? ?]
  | parse_numeric_value ?cf ?X =>
      pose proof (parse_numeric_value_mf cf X); destruct (parse_numeric_value cf X) as [[? ?] ?]
  | skip_numeric_loop ?cf ?f ?X =>
      pose proof (skip_numeric_loop_mf cf f X); destruct (skip_numeric_loop cf f X) as [? ?]
  | _ => d_lex1 h
  end.

Section ContainersMF.
  Variable cf : cfg.
  Variable pv : filter -> ps -> code * jv * ps.
  Variable sv : ps -> code * ps.
  Variable F : nat.
  Hypothesis pv_mf : forall f s, mf3 (meas s + 2 <= F)%nat s (pv f s).
  Hypothesis sv_mf : forall s, mf2 (meas s + 2 <= F)%nat s (sv s).

  Lemma array_loop_mf : forall fuel ef acc s,
    mf3 (meas s + 2 <= fuel /\ fuel <= F)%nat s (array_loop cf pv sv fuel ef acc s).
  Proof.
    induction fuel as [|fuel IH]; intros ef acc s; cbn [array_loop].
    - mf_leaf.
    - mf_go ltac:(fun h => lazymatch h with
        | array_loop cf pv sv fuel ?e ?a ?X =>
            pose proof (IH e a X); destruct (array_loop cf pv sv fuel e a X) as [[? ?] ?]
        | pv ?f ?X => pose proof (pv_mf f X); destruct (pv f X) as [[? ?] ?]
        | sv ?X => pose proof (sv_mf X); destruct (sv X) as [? ?]
        | _ => d_lex2 h end).
  Qed.

  Lemma skip_array_loop_mf : forall fuel s,
    mf2 (meas s + 2 <= fuel /\ fuel <= F)%nat s (skip_array_loop cf sv fuel s).
  Proof.
    induction fuel as [|fuel IH]; intros s; cbn [skip_array_loop].
    - mf_leaf.
    - mf_go ltac:(fun h => lazymatch h with
        | skip_array_loop cf sv fuel ?X =>
            pose proof (IH X); destruct (skip_array_loop cf sv fuel X) as [? ?]
        | sv ?X => pose proof (sv_mf X); destruct (sv X) as [? ?]
        | _ => d_lex2 h end).
  Qed.

  Lemma object_loop_mf : forall fuel f acc s,
    mf3 (meas s + 2 <= fuel /\ fuel <= F)%nat s (object_loop cf pv sv fuel f acc s).
  Proof.
    induction fuel as [|fuel IH]; intros f acc s; cbn [object_loop].
    - mf_leaf.
    - mf_go ltac:(fun h => lazymatch h with
        | object_loop cf pv sv fuel ?e ?a ?X =>
            pose proof (IH e a X); destruct (object_loop cf pv sv fuel e a X) as [[? ?] ?]
        | pv ?f ?X => pose proof (pv_mf f X); destruct (pv f X) as [[? ?] ?]
        | sv ?X => pose proof (sv_mf X); destruct (sv X) as [? ?]
        | _ => d_lex2 h end).
  Qed.

  Lemma skip_object_loop_mf : forall fuel s,
    mf2 (meas s + 2 <= fuel /\ fuel <= F)%nat s (skip_object_loop cf sv fuel s).
  Proof.
    induction fuel as [|fuel IH]; intros s; cbn [skip_object_loop].
    - mf_leaf.
    - mf_go ltac:(fun h => lazymatch h with
        | skip_object_loop cf sv fuel ?X =>
            pose proof (IH X); destruct (skip_object_loop cf sv fuel X) as [? ?]
        | sv ?X => pose proof (sv_mf X); destruct (sv X) as [? ?]
        | _ => d_lex2 h end).
  Qed.
End ContainersMF.
