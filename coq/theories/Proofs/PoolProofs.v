(* PoolProofs.v — the slot allocator (Model/Pool.v) never hands out a wrapped, duplicate or NULL identifier;
   the string pool stores equal strings once and releases them with their last user. *)
From Coq Require Import NArith List Lia Bool Permutation.
From AJ Require Import Model.Base Model.Pool Proofs.Sweep.
Local Open Scope N_scope.

Definition good_geom (g : geom) : Prop :=
  1 <= id_bits g /\ 2 <= pool_cap g /\ pool_cap g <= 2 ^ id_bits g /\ 1 <= inline_pools g.

(* ------------------------------------------------------------------------------------------ *)
(* arithmetic of the geometry                                                                  *)

Lemma null_slot_pos : forall g, good_geom g -> 1 <= null_slot g.
Proof.
  intros g (Hb & _). unfold null_slot.
  assert (2 ^ 1 <= 2 ^ id_bits g) by (apply N.pow_le_mono_r; lia).
  change (2 ^ 1) with 2 in H. lia.
Qed.

(* the last possible pool starts strictly below NULL_SLOT and ends at or above it *)
Lemma max_pools_spec : forall g, good_geom g ->
  1 <= max_pools g /\
  (max_pools g - 1) * pool_cap g < null_slot g /\
  null_slot g - (max_pools g - 1) * pool_cap g <= pool_cap g.
Proof.
  intros g Hg. pose proof (null_slot_pos g Hg) as Hn.
  destruct Hg as (_ & Hc & _ & _).
  unfold max_pools.
  set (NS := null_slot g) in *. set (C := pool_cap g) in *.
  assert (HC : C <> 0) by lia.
  pose proof (N.div_mod NS C HC) as Hdm.
  pose proof (N.mod_lt NS C HC) as Hlt.
  set (q := NS / C) in *. set (r := NS mod C) in *.
  destruct (r =? 0) eqn:Er.
  - apply N.eqb_eq in Er. rewrite Er in Hdm. rewrite N.add_0_r in *.
    assert (Hq : 1 <= q) by (destruct (N.eq_dec q 0) as [Z|Z]; [rewrite Z in Hdm; lia | lia]).
    assert (Hq' : q = (q - 1) + 1) by lia.
    assert (E : NS = (q - 1) * C + C) by (rewrite Hdm at 1; rewrite Hq' at 1; lia).
    repeat split; lia.
  - apply N.eqb_neq in Er.
    replace (q + 1 - 1) with q by lia.
    assert (E : NS = q * C + r) by lia.
    repeat split; lia.
Qed.

(* ids decompose uniquely as pool * capacity + offset *)
Lemma decomp_unique : forall C k j k' j',
  j < C -> j' < C -> k * C + j = k' * C + j' -> k = k' /\ j = j'.
Proof.
  intros C k j k' j' Hj Hj' E.
  assert (Hk : k = (k * C + j) / C) by (apply N.div_unique with j; lia).
  assert (Hk' : k' = (k' * C + j') / C) by (apply N.div_unique with j'; lia).
  rewrite E in Hk. rewrite <- Hk' in Hk. subst k'. split; [reflexivity | lia].
Qed.

(* ------------------------------------------------------------------------------------------ *)
(* list helpers                                                                                *)

Lemma nth_error_snoc : forall (A : Type) (l : list A) (x q : A) (k : nat),
  nth_error (l ++ [x]) k = Some q ->
  nth_error l k = Some q \/ (k = length l /\ q = x).
Proof.
  intros A l x q k H.
  destruct (Nat.lt_ge_cases k (length l)) as [Hk | Hk].
  - rewrite nth_error_app1 in H by exact Hk. left; exact H.
  - rewrite nth_error_app2 in H by exact Hk.
    destruct (k - length l)%nat as [|m] eqn:Em.
    + cbn in H. injection H as <-. right. split; [lia | reflexivity].
    + cbn in H. destruct m; discriminate.
Qed.

Lemma nth_error_snoc_last : forall (A : Type) (l : list A) (x : A),
  nth_error (l ++ [x]) (length l) = Some x.
Proof.
  intros. rewrite nth_error_app2 by lia. rewrite Nat.sub_diag. reflexivity.
Qed.

Lemma nth_error_snoc_old : forall (A : Type) (l : list A) (x q : A) (k : nat),
  nth_error l k = Some q -> nth_error (l ++ [x]) k = Some q.
Proof.
  intros A l x q k H. rewrite nth_error_app1; [exact H|].
  apply nth_error_Some. rewrite H. discriminate.
Qed.

Lemma rev_cons_inv : forall (A : Type) (l : list A) x t, rev l = x :: t -> l = rev t ++ [x].
Proof.
  intros A l x t H. apply (f_equal (@rev A)) in H. rewrite rev_involutive in H. exact H.
Qed.

(* ------------------------------------------------------------------------------------------ *)
(* Part 1 — invariant of the pool list                                                         *)

Definition pool_ok (g : geom) (k : nat) (q : pool) : Prop :=
  p_usage q <= p_cap q /\
  p_cap q <= pool_cap g /\
  (N.of_nat k + 1 = max_pools g -> p_cap q <= null_slot g - (max_pools g - 1) * pool_cap g).

Definition InvL (g : geom) (l : list pool) : Prop :=
  N.of_nat (length l) <= max_pools g /\
  forall k q, nth_error l k = Some q -> pool_ok g k q.

Definition Inv (g : geom) (p : plist) : Prop := InvL g (pools p).

(* the id designates a slot that was handed out at some point and not reclaimed by clear *)
Definition allocated (g : geom) (p : plist) (id : N) : Prop :=
  exists k pl_k j, nth_error (pools p) k = Some pl_k /\ j < p_usage pl_k /\ id = N.of_nat k * pool_cap g + j.

Lemma InvL_nil : forall g, InvL g [].
Proof.
  intros g. split; [cbn; lia|]. intros k q H. destruct k; discriminate.
Qed.

Lemma InvL_snoc : forall g l x, InvL g l -> N.of_nat (length l) < max_pools g ->
  pool_ok g (length l) x -> InvL g (l ++ [x]).
Proof.
  intros g l x [Hc Hp] Hlt Hx. split.
  - rewrite app_length. cbn. lia.
  - intros k q H. apply nth_error_snoc in H as [H | [-> ->]]; [apply Hp; exact H | exact Hx].
Qed.

Lemma InvL_set_last : forall g l x y, InvL g (l ++ [x]) -> pool_ok g (length l) y -> InvL g (l ++ [y]).
Proof.
  intros g l x y [Hc Hp] Hy. split.
  - rewrite app_length in *. exact Hc.
  - intros k q H. apply nth_error_snoc in H as [H | [-> ->]]; [|exact Hy].
    apply Hp. apply nth_error_snoc_old. exact H.
Qed.

Theorem Inv_init : forall g, Inv g (pl_init g).
Proof. intros g. apply InvL_nil. Qed.

Theorem Inv_clear : forall g p, Inv g (pl_clear g p).
Proof. intros g p. apply InvL_nil. Qed.

Theorem Inv_free_slot : forall g id p, Inv g p -> Inv g (free_slot id p).
Proof. intros g id p H. exact H. Qed.

Theorem Inv_shrink : forall g p, Inv g p -> Inv g (pl_shrink p).
Proof.
  intros g p H. unfold Inv, pl_shrink in *. cbn [pools].
  destruct (rev (pools p)) as [|last before] eqn:E.
  - apply InvL_nil.
  - apply rev_cons_inv in E. rewrite E in H.
    apply InvL_set_last with last; [exact H|].
    destruct H as [_ Hp]. specialize (Hp _ _ (nth_error_snoc_last _ (rev before) last)).
    destruct Hp as (Hu & Hc & Hl). unfold pool_ok. cbn [p_cap p_usage].
    destruct (p_cap last =? 0) eqn:Ez.
    + apply N.eqb_eq in Ez. repeat split; try lia.
    + repeat split; try lia.
Qed.

(* specification of allocFromLastPool *)
Lemma alloc_from_last_some : forall g p id p',
  alloc_from_last g p = Some (id, p') ->
  exists bef last,
    pools p = bef ++ [last] /\ p_usage last < p_cap last /\
    id = N.of_nat (length bef) * pool_cap g + p_usage last /\
    pools p' = bef ++ [{| p_cap := p_cap last; p_usage := p_usage last + 1 |}] /\
    table_cap p' = table_cap p /\ on_heap p' = on_heap p /\ free_list p' = free_list p.
Proof.
  intros g p id p' H. unfold alloc_from_last in H.
  destruct (rev (pools p)) as [|last before] eqn:E; [discriminate|].
  apply rev_cons_inv in E.
  destruct ((p_cap last =? 0) || (p_cap last <=? p_usage last)) eqn:Eb; [discriminate|].
  apply orb_false_elim in Eb as [_ Eb]. apply N.leb_gt in Eb.
  injection H as <- <-. exists (rev before), last. cbn [pools table_cap on_heap free_list].
  repeat split; try assumption.
  unfold count. rewrite E, app_length. cbn [length].
  replace (N.of_nat (length (rev before) + 1) - 1) with (N.of_nat (length (rev before))) by lia.
  reflexivity.
Qed.

Lemma Inv_alloc_from_last : forall g p id p', Inv g p -> alloc_from_last g p = Some (id, p') -> Inv g p'.
Proof.
  intros g p id p' H Ha.
  apply alloc_from_last_some in Ha as (bef & last & Ep & Hu & _ & Ep' & _).
  unfold Inv in *. rewrite Ep in H. rewrite Ep'.
  apply InvL_set_last with last; [exact H|].
  destruct H as [_ Hp]. specialize (Hp _ _ (nth_error_snoc_last _ bef last)).
  destruct Hp as (Hu' & Hc & Hl). unfold pool_ok. cbn [p_cap p_usage].
  repeat split; try lia.
Qed.

(* specification of addPool *)
Lemma add_pool_some : forall g a b p p', add_pool g a b p = Some p' ->
  count p < max_pools g /\
  exists c, pools p' = pools p ++ [{| p_cap := c; p_usage := 0 |}] /\
            (c = 0 \/ c = new_pool_cap g (count p + 1)) /\ free_list p' = free_list p.
Proof.
  intros g a b p p' H. unfold add_pool in H.
  destruct (max_pools g <=? count p) eqn:Em; [discriminate|]. apply N.leb_gt in Em.
  split; [exact Em|].
  match type of H with match ?G with _ => _ end = _ => destruct G as [[tc oh]|]; [|discriminate] end.
  injection H as <-. cbn [pools free_list].
  eexists. split; [reflexivity|]. split; [|reflexivity].
  destruct b; [right|left]; reflexivity.
Qed.

Lemma new_pool_cap_ok : forall g (l : list pool), good_geom g -> N.of_nat (length l) < max_pools g ->
  pool_ok g (length l) {| p_cap := new_pool_cap g (N.of_nat (length l) + 1); p_usage := 0 |}.
Proof.
  intros g l Hg Hlt. destruct (max_pools_spec g Hg) as (H1 & H2 & H3).
  unfold pool_ok, new_pool_cap. cbn [p_cap p_usage].
  destruct (N.of_nat (length l) + 1 =? max_pools g) eqn:E.
  - repeat split; try lia.
  - apply N.eqb_neq in E. repeat split; try lia.
Qed.

Lemma zero_pool_ok : forall g k, pool_ok g k {| p_cap := 0; p_usage := 0 |}.
Proof. intros g k. unfold pool_ok. cbn [p_cap p_usage]. repeat split; lia. Qed.

Lemma Inv_add_pool : forall g a b p p', good_geom g -> Inv g p -> add_pool g a b p = Some p' -> Inv g p'.
Proof.
  intros g a b p p' Hg H Ha.
  apply add_pool_some in Ha as (Hlt & c & Ep' & Hc & _).
  unfold Inv, count in *. rewrite Ep'. apply InvL_snoc; [exact H | exact Hlt |].
  destruct Hc as [-> | ->]; [apply zero_pool_ok | apply new_pool_cap_ok; assumption].
Qed.

Theorem Inv_alloc_slot : forall g a b p r p', good_geom g -> Inv g p -> alloc_slot g a b p = (r, p') -> Inv g p'.
Proof.
  intros g a b p r p' Hg H Ha. unfold alloc_slot in Ha.
  destruct (free_list p) as [|id rest].
  - destruct (alloc_from_last g p) as [[id1 p1]|] eqn:E1.
    + injection Ha as <- <-. eapply Inv_alloc_from_last; eassumption.
    + destruct (add_pool g a b p) as [p2|] eqn:E2.
      * pose proof (Inv_add_pool _ _ _ _ _ Hg H E2) as H2.
        destruct (alloc_from_last g p2) as [[id3 p3]|] eqn:E3.
        -- injection Ha as <- <-. eapply Inv_alloc_from_last; eassumption.
        -- injection Ha as <- <-. exact H2.
      * injection Ha as <- <-. exact H.
  - injection Ha as <- <-. exact H.
Qed.

(* every allocated id is a valid identifier *)
Lemma allocated_below_null : forall g p id, good_geom g -> Inv g p -> allocated g p id -> id < null_slot g.
Proof.
  intros g p id Hg [Hc Hp] (k & q & j & Hn & Hj & ->).
  destruct (max_pools_spec g Hg) as (H1 & H2 & H3).
  assert (Hk : (k < length (pools p))%nat) by (apply nth_error_Some; rewrite Hn; discriminate).
  destruct (Hp _ _ Hn) as (Hu & Hcap & Hl).
  destruct (N.eq_dec (N.of_nat k + 1) (max_pools g)) as [E | E].
  - specialize (Hl E). replace (N.of_nat k) with (max_pools g - 1) by lia. lia.
  - assert (Hle : (N.of_nat k + 1) * pool_cap g <= (max_pools g - 1) * pool_cap g)
      by (apply N.mul_le_mono_r; lia).
    lia.
Qed.

(* ------------------------------------------------------------------------------------------ *)
(* how [allocated] evolves                                                                     *)

Lemma allocated_same_pools : forall g p p' x, pools p' = pools p -> allocated g p x -> allocated g p' x.
Proof. intros g p p' x E H. unfold allocated in *. rewrite E. exact H. Qed.

Lemma allocated_add_pool : forall g a b p p' x, add_pool g a b p = Some p' -> allocated g p x -> allocated g p' x.
Proof.
  intros g a b p p' x Ha (k & q & j & Hn & Hj & E).
  apply add_pool_some in Ha as (_ & c & Ep' & _).
  exists k, q, j. rewrite Ep'. split; [apply nth_error_snoc_old; exact Hn | split; assumption].
Qed.

Lemma allocated_set_last_mono : forall g p p' bef last last' x,
  pools p = bef ++ [last] -> pools p' = bef ++ [last'] -> p_usage last <= p_usage last' ->
  allocated g p x -> allocated g p' x.
Proof.
  intros g p p' bef last last' x Ep Ep' Hle (k & q & j & Hn & Hj & E).
  rewrite Ep in Hn. apply nth_error_snoc in Hn as [Hn | [-> ->]].
  - exists k, q, j. rewrite Ep'. split; [apply nth_error_snoc_old; exact Hn | split; assumption].
  - exists (length bef), last', j. rewrite Ep'. split; [apply nth_error_snoc_last | split; [lia | exact E]].
Qed.

Lemma allocated_shrink : forall g p x, allocated g p x -> allocated g (pl_shrink p) x.
Proof.
  intros g p x H. destruct (rev (pools p)) as [|last before] eqn:E.
  - destruct H as (k & q & j & Hn & _). apply (f_equal (@rev pool)) in E. rewrite rev_involutive in E.
    rewrite E in Hn. destruct k; discriminate.
  - pose proof (rev_cons_inv _ _ _ _ E) as Ep.
    eapply allocated_set_last_mono; [exact Ep | | | exact H].
    + unfold pl_shrink. cbn [pools]. rewrite E. reflexivity.
    + cbn [p_usage]. lia.
Qed.

Lemma alloc_from_last_fresh : forall g p id p', good_geom g -> Inv g p ->
  alloc_from_last g p = Some (id, p') ->
  ~ allocated g p id /\ allocated g p' id /\ (forall x, allocated g p x -> allocated g p' x).
Proof.
  intros g p id p' Hg HI Ha.
  apply alloc_from_last_some in Ha as (bef & last & Ep & Hu & -> & Ep' & _).
  destruct HI as [_ Hp]. 
  pose proof (Hp _ _ (eq_ind_r (fun l => nth_error l (length bef) = Some last) (nth_error_snoc_last _ bef last) Ep)) as (HuL & HcL & _).
  split; [|split].
  - intros (k & q & j & Hn & Hj & E).
    destruct (Hp _ _ Hn) as (Hu' & Hc' & _).
    symmetry in E. apply decomp_unique in E as [Ek Ej]; [|lia|lia].
    apply Nat2N.inj in Ek. subst k. rewrite Ep, nth_error_snoc_last in Hn. injection Hn as <-. lia.
  - exists (length bef), {| p_cap := p_cap last; p_usage := p_usage last + 1 |}, (p_usage last).
    rewrite Ep'. split; [apply nth_error_snoc_last | split; [cbn [p_usage]; lia | reflexivity]].
  - intros x Hx. eapply allocated_set_last_mono; [exact Ep | exact Ep' | | exact Hx]. cbn [p_usage]. lia.
Qed.

(* ------------------------------------------------------------------------------------------ *)
(* history invariant: live ids and free-list ids are allocated, pairwise distinct               *)

Definition HI (g : geom) (p : plist) (live : list N) : Prop :=
  Inv g p /\ NoDup (live ++ free_list p) /\ (forall x, In x (live ++ free_list p) -> allocated g p x).

Lemma HI_init : forall g, HI g (pl_init g) [].
Proof.
  intros g. split; [apply Inv_init | split; [constructor | intros x []]].
Qed.

Lemma HI_add_pool : forall g a b p p' live, good_geom g -> HI g p live -> add_pool g a b p = Some p' -> HI g p' live.
Proof.
  intros g a b p p' live Hg (H1 & H2 & H3) Ha.
  pose proof (add_pool_some _ _ _ _ _ Ha) as (_ & c & _ & _ & Ef).
  split; [eapply Inv_add_pool; eassumption | rewrite Ef; split; [exact H2|]].
  intros x Hx. eapply allocated_add_pool; [exact Ha | apply H3; exact Hx].
Qed.

Lemma HI_alloc_last : forall g p id p' live, good_geom g -> HI g p live ->
  alloc_from_last g p = Some (id, p') -> free_list p = [] -> HI g p' (live ++ [id]).
Proof.
  intros g p id p' live Hg (H1 & H2 & H3) Ha Efl.
  pose proof (alloc_from_last_fresh _ _ _ _ Hg H1 Ha) as (Hfresh & Hnew & Hmono).
  pose proof (alloc_from_last_some _ _ _ _ Ha) as (_ & _ & _ & _ & _ & _ & _ & _ & Ef).
  rewrite Efl in *. rewrite app_nil_r in *.
  split; [eapply Inv_alloc_from_last; eassumption | rewrite Ef, app_nil_r; split].
  - apply (Permutation_NoDup (Permutation_cons_append live id)). constructor; [|exact H2].
    intro Hin. apply Hfresh. apply H3. exact Hin.
  - intros x Hx. apply in_app_or in Hx as [Hx | [<- | []]]; [apply Hmono, H3; exact Hx | exact Hnew].
Qed.

Lemma HI_alloc_slot : forall g a b p r p' live, good_geom g -> HI g p live -> alloc_slot g a b p = (r, p') ->
  match r with Some id => HI g p' (live ++ [id]) | None => HI g p' live end.
Proof.
  intros g a b p r p' live Hg H Ha. unfold alloc_slot in Ha.
  destruct (free_list p) as [|id rest] eqn:Efl.
  - destruct (alloc_from_last g p) as [[id1 p1]|] eqn:E1.
    + injection Ha as <- <-. eapply HI_alloc_last; eassumption.
    + destruct (add_pool g a b p) as [p2|] eqn:E2.
      * pose proof (HI_add_pool _ _ _ _ _ _ Hg H E2) as H2.
        pose proof (add_pool_some _ _ _ _ _ E2) as (_ & c & _ & _ & Ef). rewrite Efl in Ef.
        destruct (alloc_from_last g p2) as [[id3 p3]|] eqn:E3.
        -- injection Ha as <- <-. eapply HI_alloc_last; eassumption.
        -- injection Ha as <- <-. exact H2.
      * injection Ha as <- <-. exact H.
  - injection Ha as <- <-. destruct H as (H1 & H2 & H3). rewrite Efl in *.
    split; [exact H1 | cbn [free_list]; rewrite <- app_assoc; cbn [app]; split].
    + exact H2.
    + intros x Hx. eapply allocated_same_pools; [|apply H3; exact Hx]. reflexivity.
Qed.

Lemma remove_at_perm : forall (l : list N) k, (k < length l)%nat -> Permutation l (nth k l 0 :: remove_at k l).
Proof.
  induction l as [|x l IH]; intros k Hk; [cbn in Hk; lia|].
  destruct k as [|k]; cbn [nth remove_at]; [apply Permutation_refl|].
  cbn in Hk. eapply Permutation_trans; [apply perm_skip, (IH k); lia | apply perm_swap].
Qed.

Lemma HI_free : forall g p live k, HI g p live -> (k < length live)%nat ->
  HI g (free_slot (nth k live 0) p) (remove_at k live).
Proof.
  intros g p live k (H1 & H2 & H3) Hk.
  assert (P : Permutation (live ++ free_list p) (remove_at k live ++ nth k live 0 :: free_list p)).
  { eapply Permutation_trans; [apply Permutation_app_tail, remove_at_perm; exact Hk|].
    cbn [app]. apply Permutation_middle. }
  split; [exact H1 | cbn [free_slot free_list]; split].
  - eapply Permutation_NoDup; eassumption.
  - intros x Hx. eapply allocated_same_pools; [reflexivity|]. apply H3.
    eapply Permutation_in; [apply Permutation_sym; exact P | exact Hx].
Qed.

Lemma HI_shrink : forall g p live, HI g p live -> HI g (pl_shrink p) live.
Proof.
  intros g p live (H1 & H2 & H3).
  split; [apply Inv_shrink; exact H1 | cbn [pl_shrink free_list]; split; [exact H2|]].
  intros x Hx. apply allocated_shrink, H3, Hx.
Qed.

(* ------------------------------------------------------------------------------------------ *)
(* histories                                                                                   *)

Definition prun_step (g : geom) (acc : pstate * list (option N)) (o : pop) : pstate * list (option N) :=
  let '(s, outs) := acc in let '(s', r) := pstep g s o in (s', outs ++ [r]).

Lemma prun_snoc : forall g ops o, prun g (ops ++ [o]) = prun_step g (prun g ops) o.
Proof. intros g ops o. unfold prun. rewrite fold_left_app. reflexivity. Qed.

Definition SI (g : geom) (acc : pstate * list (option N)) : Prop :=
  HI g (pl (fst acc)) (lv (fst acc)) /\ forall id, In (Some id) (snd acc) -> id < null_slot g.

Lemma HI_below_null : forall g p live id, good_geom g -> HI g p live -> In id live -> id < null_slot g.
Proof.
  intros g p live id Hg (H1 & _ & H3) Hin.
  eapply allocated_below_null; [exact Hg | exact H1 | apply H3, in_or_app; left; exact Hin].
Qed.

Lemma SI_step : forall g acc o, good_geom g -> SI g acc -> SI g (prun_step g acc o).
Proof.
  intros g [s outs] o Hg [H Ho]. cbn [fst snd] in *. unfold prun_step.
  assert (Houts : forall r, (forall id, r = Some id -> id < null_slot g) ->
            forall id, In (Some id) (outs ++ [r]) -> id < null_slot g).
  { intros r Hr id Hin. apply in_app_or in Hin as [Hin | [Hin | []]]; [apply Ho; exact Hin | apply Hr; exact Hin]. }
  destruct o as [a b | k | | ]; cbn [pstep].
  - destruct (alloc_slot g a b (pl s)) as [[id|] p'] eqn:Ea;
      pose proof (HI_alloc_slot _ _ _ _ _ _ _ Hg H Ea) as H'; cbn in H'.
    + split; cbn [fst snd pl lv]; [exact H'|]. apply (Houts _). intros id' E. injection E as <-.
      eapply HI_below_null; [exact Hg | exact H' | apply in_or_app; right; left; reflexivity].
    + split; cbn [fst snd pl lv]; [exact H'|]. apply (Houts _). intros id' E. discriminate.
  - destruct (lv s) as [|x t] eqn:El.
    + split; cbn [fst snd]; [rewrite El; exact H|]. apply (Houts _). intros id' E. discriminate.
    + rewrite <- El in *.
      assert (Hk : (Nat.modulo k (length (lv s)) < length (lv s))%nat)
        by (apply Nat.mod_upper_bound; rewrite El; discriminate).
      split; cbn [fst snd pl lv]; [apply HI_free; assumption|].
      apply (Houts _). intros id' E. injection E as <-.
      eapply HI_below_null; [exact Hg | exact H | apply nth_In; exact Hk].
  - split; cbn [fst snd pl lv]; [apply HI_shrink; exact H|]. apply (Houts _). intros id' E. discriminate.
  - split; cbn [fst snd pl lv ps0]; [apply HI_init|]. apply (Houts _). intros id' E. discriminate.
Qed.

Lemma SI_prun : forall g ops, good_geom g -> SI g (prun g ops).
Proof.
  intros g ops Hg. induction ops as [|o ops IH] using rev_ind.
  - split; cbn; [apply HI_init | intros id []].
  - rewrite prun_snoc. apply SI_step; assumption.
Qed.

(* ------------------------------------------------------------------------------------------ *)
(* Part 2 — the theorems                                                                       *)

Theorem alloc_below_null : forall g ops, good_geom g ->
  forall id, In (Some id) (snd (prun g ops)) -> id < null_slot g.
Proof. intros g ops Hg. exact (proj2 (SI_prun g ops Hg)). Qed.

Theorem count_bounded : forall g ops, good_geom g -> count (pl (fst (prun g ops))) <= max_pools g.
Proof. intros g ops Hg. destruct (SI_prun g ops Hg) as [([Hc _] & _) _]. exact Hc. Qed.

Theorem reuse_before_new_pool : forall g a b p id rest, free_list p = id :: rest ->
  alloc_slot g a b p = (Some id, {| pools := pools p; table_cap := table_cap p; on_heap := on_heap p; free_list := rest |}).
Proof. intros g a b p id rest H. unfold alloc_slot. rewrite H. reflexivity. Qed.

Theorem clear_resets : forall g p, pl_clear g p = pl_init g.
Proof. reflexivity. Qed.

Theorem failed_alloc_keeps_slots : forall g a b p p', alloc_slot g a b p = (None, p') ->
  free_list p' = free_list p /\ (forall k pk, nth_error (pools p) k = Some pk -> nth_error (pools p') k = Some pk).
Proof.
  intros g a b p p' Ha. unfold alloc_slot in Ha.
  destruct (free_list p) as [|id rest] eqn:Efl; [|discriminate].
  destruct (alloc_from_last g p) as [[id1 p1]|] eqn:E1; [discriminate|].
  destruct (add_pool g a b p) as [p2|] eqn:E2.
  - destruct (alloc_from_last g p2) as [[id3 p3]|] eqn:E3; [discriminate|].
    injection Ha as <-. apply add_pool_some in E2 as (_ & c & Ep & _ & Ef).
    split; [rewrite Ef; exact Efl|]. intros k pk H. rewrite Ep. apply nth_error_snoc_old. exact H.
  - injection Ha as <-. split; [exact Efl | auto].
Qed.

Lemma NoDup_app_l : forall (A : Type) (l l' : list A), NoDup (l ++ l') -> NoDup l.
Proof.
  induction l as [|x l IH]; intros l' H; [constructor|].
  cbn in H. inversion H as [|y t Hn Hd]; subst. constructor; [|eapply IH; exact Hd].
  intro Hin. apply Hn. apply in_or_app. left; exact Hin.
Qed.

Theorem live_distinct : forall g ops, good_geom g -> NoDup (lv (fst (prun g ops))).
Proof.
  intros g ops Hg. destruct (SI_prun g ops Hg) as [(_ & H2 & _) _].
  eapply NoDup_app_l. exact H2.
Qed.

Lemma NoDup_bounded_length : forall (l : list N) n, NoDup l -> (forall x, In x l -> x < n) ->
  N.of_nat (length l) <= n.
Proof.
  intros l n Hnd Hb.
  assert (Hincl : incl l (map N.of_nat (seq 0 (N.to_nat n)))).
  { intros x Hx. specialize (Hb x Hx). rewrite <- (N2Nat.id x). apply in_map. apply in_seq. lia. }
  pose proof (NoDup_incl_length Hnd Hincl) as Hlen. rewrite map_length, seq_length in Hlen. lia.
Qed.

Theorem capacity_reached_cleanly : forall g ops, good_geom g ->
  N.of_nat (length (lv (fst (prun g ops)))) <= null_slot g.
Proof.
  intros g ops Hg. apply NoDup_bounded_length; [apply live_distinct; exact Hg|].
  intros x Hx. destruct (SI_prun g ops Hg) as [H _]. eapply HI_below_null; eassumption.
Qed.

(* ------------------------------------------------------------------------------------------ *)
(* Part 3 — string pool                                                                        *)

Definition sp_wf (p : spool) : Prop :=
  NoDup (map fst p) /\ forall t n, In (t, n) p -> 1 <= n.

Lemma bytes_eqb_refl : forall s, bytes_eqb s s = true.
Proof. intros s. apply bytes_eqb_eq. reflexivity. Qed.

Lemma bytes_eqb_neq : forall a b, bytes_eqb a b = false <-> a <> b.
Proof.
  intros a b. split.
  - intros H E. apply bytes_eqb_eq in E. rewrite E in H. discriminate.
  - intros H. destruct (bytes_eqb a b) eqn:E; [|reflexivity]. apply bytes_eqb_eq in E. contradiction.
Qed.

Lemma sp_wf_tail : forall t n r, sp_wf ((t, n) :: r) -> sp_wf r /\ ~ In t (map fst r) /\ 1 <= n.
Proof.
  intros t n r [Hnd Hr]. cbn in Hnd. inversion Hnd as [|x l Hn Hd]; subst.
  split; [split; [exact Hd | intros u m Hin; apply (Hr u m); right; exact Hin]|].
  split; [exact Hn | apply (Hr t n); left; reflexivity].
Qed.

Lemma sp_refs_absent : forall s p, ~ In s (map fst p) -> sp_refs s p = 0.
Proof.
  intros s p. induction p as [|[t n] r IH]; intros H; [reflexivity|].
  cbn [sp_refs]. cbn in H. destruct (bytes_eqb s t) eqn:E.
  - apply bytes_eqb_eq in E. exfalso. apply H. left. symmetry; exact E.
  - apply IH. intro Hin. apply H. right; exact Hin.
Qed.

Theorem sp_add_refs : forall s p, sp_refs s (sp_add s p) = sp_refs s p + 1.
Proof.
  intros s p. induction p as [|[t n] r IH].
  - cbn [sp_add sp_refs]. rewrite bytes_eqb_refl. reflexivity.
  - cbn [sp_add sp_refs]. destruct (bytes_eqb s t) eqn:E; cbn [sp_refs]; rewrite E; [reflexivity | exact IH].
Qed.

Theorem sp_add_other : forall s t p, s <> t -> sp_refs t (sp_add s p) = sp_refs t p.
Proof.
  intros s t p Hne. induction p as [|[u n] r IH].
  - cbn [sp_add sp_refs]. assert (E : bytes_eqb t s = false) by (apply bytes_eqb_neq; congruence).
    rewrite E. reflexivity.
  - cbn [sp_add sp_refs]. destruct (bytes_eqb s u) eqn:E; cbn [sp_refs].
    + apply bytes_eqb_eq in E. subst u.
      assert (E' : bytes_eqb t s = false) by (apply bytes_eqb_neq; congruence).
      rewrite E'. reflexivity.
    + destruct (bytes_eqb t u); [reflexivity | exact IH].
Qed.

Theorem sp_deref_refs : forall s p, sp_wf p -> 1 <= sp_refs s p -> sp_refs s (sp_deref s p) = sp_refs s p - 1.
Proof.
  intros s p. induction p as [|[t n] r IH]; intros Hwf H1.
  - cbn in H1. lia.
  - apply sp_wf_tail in Hwf as (Hwr & Hni & Hn). cbn [sp_deref sp_refs] in *.
    destruct (bytes_eqb s t) eqn:E.
    + apply bytes_eqb_eq in E. subst t. destruct (n =? 1) eqn:En.
      * apply N.eqb_eq in En. subst n. rewrite sp_refs_absent by exact Hni. reflexivity.
      * cbn [sp_refs]. rewrite bytes_eqb_refl. reflexivity.
    + cbn [sp_refs]. rewrite E. apply IH; assumption.
Qed.

Theorem sp_deref_other : forall s t p, s <> t -> sp_refs t (sp_deref s p) = sp_refs t p.
Proof.
  intros s t p Hne. induction p as [|[u n] r IH]; [reflexivity|].
  cbn [sp_deref sp_refs]. destruct (bytes_eqb s u) eqn:E.
  - apply bytes_eqb_eq in E. subst u.
    assert (E' : bytes_eqb t s = false) by (apply bytes_eqb_neq; congruence).
    rewrite E'. destruct (n =? 1); [reflexivity|]. cbn [sp_refs]. rewrite E'. reflexivity.
  - cbn [sp_refs]. destruct (bytes_eqb t u); [reflexivity | exact IH].
Qed.

Lemma sp_add_keys : forall s t p, In t (map fst (sp_add s p)) -> t = s \/ In t (map fst p).
Proof.
  intros s t p. induction p as [|[u n] r IH]; intros H.
  - cbn in H. destruct H as [H | []]. left; symmetry; exact H.
  - cbn [sp_add] in H. destruct (bytes_eqb s u) eqn:E.
    + right. exact H.
    + cbn in H. destruct H as [H | H]; [right; left; exact H|].
      destruct (IH H) as [H' | H']; [left; exact H' | right; right; exact H'].
Qed.

Lemma sp_deref_keys : forall s t p, In t (map fst (sp_deref s p)) -> In t (map fst p).
Proof.
  intros s t p. induction p as [|[u n] r IH]; intros H; [exact H|].
  cbn [sp_deref] in H. destruct (bytes_eqb s u) eqn:E.
  - destruct (n =? 1); [right; exact H | exact H].
  - cbn in H. destruct H as [H | H]; [left; exact H | right; apply IH; exact H].
Qed.

Lemma sp_wf_add : forall s p, sp_wf p -> sp_wf (sp_add s p).
Proof.
  intros s p. induction p as [|[u n] r IH]; intros Hwf.
  - split; [cbn; constructor; [intros [] | constructor]|].
    intros t m [H | []]. injection H as <- <-. lia.
  - pose proof (sp_wf_tail _ _ _ Hwf) as (Hwr & Hni & Hn). cbn [sp_add].
    destruct (bytes_eqb s u) eqn:E.
    + destruct Hwf as [Hnd Hr]. split; [exact Hnd|].
      intros t m [H | H]; [injection H as <- <-; lia | apply (Hr t m); right; exact H].
    + apply bytes_eqb_neq in E. destruct (IH Hwr) as [Hnd' Hr']. split.
      * cbn. constructor; [|exact Hnd'].
        intro Hin. apply sp_add_keys in Hin as [Hin | Hin]; [congruence | contradiction].
      * intros t m [H | H]; [injection H as <- <-; exact Hn | apply (Hr' t m); exact H].
Qed.

Lemma sp_wf_deref : forall s p, sp_wf p -> sp_wf (sp_deref s p).
Proof.
  intros s p. induction p as [|[u n] r IH]; intros Hwf; [exact Hwf|].
  pose proof (sp_wf_tail _ _ _ Hwf) as (Hwr & Hni & Hn). cbn [sp_deref].
  destruct (bytes_eqb s u) eqn:E.
  - destruct (n =? 1) eqn:En; [exact Hwr|]. apply N.eqb_neq in En.
    destruct Hwf as [Hnd Hr]. split; [exact Hnd|].
    intros t m [H | H]; [injection H as <- <-; lia | apply (Hr t m); right; exact H].
  - destruct (IH Hwr) as [Hnd' Hr']. split.
    + cbn. constructor; [|exact Hnd'].
      intro Hin. apply sp_deref_keys in Hin. contradiction.
    + intros t m [H | H]; [injection H as <- <-; exact Hn | apply (Hr' t m); exact H].
Qed.

Theorem sp_wf_preserved : forall s p, sp_wf p -> sp_wf (sp_add s p) /\ sp_wf (sp_deref s p).
Proof. intros s p H. split; [apply sp_wf_add | apply sp_wf_deref]; exact H. Qed.

Theorem sp_released_with_last_user : forall s p, sp_wf p -> sp_refs s p = 1 -> ~ In s (map fst (sp_deref s p)).
Proof.
  intros s p. induction p as [|[u n] r IH]; intros Hwf H1; [intros []|].
  apply sp_wf_tail in Hwf as (Hwr & Hni & Hn). cbn [sp_deref sp_refs] in *.
  destruct (bytes_eqb s u) eqn:E.
  - apply bytes_eqb_eq in E. subst u. subst n. cbn. exact Hni.
  - apply bytes_eqb_neq in E. cbn. intros [H | H]; [congruence | exact (IH Hwr H1 H)].
Qed.

(* the empty pool is well formed *)
Lemma sp_wf_nil : sp_wf [].
Proof. split; [constructor | intros t n []]. Qed.
