(* StrBufProofs.v — the StringBuffer of the MessagePack reader (second half of Model/StrBuild.v) stores exactly the
   bytes read, once, with at most two allocator calls per string.  The analogue of StrBuildProofs.v. *)
From Coq Require Import List NArith Bool Lia Arith.
From AJ Require Import Model.Base Model.StrBuild Proofs.StrBuildProofs.
Import ListNotations.
Local Open Scope N_scope.

(* ------------------------------------------------------------------------------------------------ *)
(* the invariant                                                                                      *)

Definition BInv (g : sgeom) (st : bfs) : Prop :=
  pool_ok g (bf_pool st) /\ (forall cap, bf_node st = Some cap -> cap <= s_max g).

Definition bmk (p : list snode) (o : option N) : bfs := {| bf_pool := p; bf_node := o |}.

Lemma bfs_eta : forall st, st = bmk (bf_pool st) (bf_node st).
Proof. intros [p o]. reflexivity. Qed.

(* ------------------------------------------------------------------------------------------------ *)
(* bf_reserve, by cases                                                                               *)

(* the node the buffer holds is too small (or there is none): reserve must create one *)
Definition needs_new (st : bfs) (n : N) : Prop :=
  match bf_node st with Some cap => cap < n | None => True end.

(* ... after destroying the too small one *)
Definition free_ev (g : sgeom) (st : bfs) (n : N) : list aev :=
  match bf_node st with
  | Some cap => if cap <? n then [EvFree (size_for g cap)] else []
  | None => []
  end.

Lemma reserve_keep : forall g st ans n cap, bf_node st = Some cap -> n <= cap ->
  bf_reserve g st ans n = (bmk (bf_pool st) (Some cap), ans, [], true).
Proof.
  intros g st ans n cap E L. unfold bf_reserve. rewrite E.
  apply N.ltb_ge in L. rewrite L. reflexivity.
Qed.

Lemma reserve_new : forall g st ans n, needs_new st n ->
  bf_reserve g st ans n =
    if s_max g <? n then (bmk (bf_pool st) None, ans, free_ev g st n, false)
    else if fst (take ans)
         then (bmk (bf_pool st) (Some n), snd (take ans), free_ev g st n ++ [EvAlloc (size_for g n) true], true)
         else (bmk (bf_pool st) None, snd (take ans), free_ev g st n ++ [EvAlloc (size_for g n) false], false).
Proof.
  intros g st ans n. unfold needs_new, bf_reserve, free_ev.
  destruct (bf_node st) as [cap|].
  - intros H. apply N.ltb_lt in H. rewrite H.
    destruct (s_max g <? n); [reflexivity|]. destruct (take ans) as [a r]. destruct a; reflexivity.
  - intros _.
    destruct (s_max g <? n); [reflexivity|]. destruct (take ans) as [a r]. destruct a; reflexivity.
Qed.

Lemma needs_new_dec : forall st n, needs_new st n \/ exists cap, bf_node st = Some cap /\ n <= cap.
Proof.
  intros st n. unfold needs_new. destruct (bf_node st) as [cap|]; [|left; exact I].
  destruct (N.lt_ge_cases cap n) as [H|H]; [left; exact H|right; exists cap; auto].
Qed.

Inductive reserve_case (g : sgeom) (st : bfs) (ans : list bool) (n : N)
  : bfs * list bool * list aev * bool -> Prop :=
| rc_keep : forall cap, bf_node st = Some cap -> n <= cap ->
    reserve_case g st ans n (bmk (bf_pool st) (Some cap), ans, [], true)
| rc_toolarge : needs_new st n -> s_max g < n ->
    reserve_case g st ans n (bmk (bf_pool st) None, ans, free_ev g st n, false)
| rc_alloc : needs_new st n -> n <= s_max g -> fst (take ans) = true ->
    reserve_case g st ans n
      (bmk (bf_pool st) (Some n), snd (take ans), free_ev g st n ++ [EvAlloc (size_for g n) true], true)
| rc_refused : needs_new st n -> n <= s_max g -> fst (take ans) = false ->
    reserve_case g st ans n
      (bmk (bf_pool st) None, snd (take ans), free_ev g st n ++ [EvAlloc (size_for g n) false], false).

Lemma reserve_cases : forall g st ans n, reserve_case g st ans n (bf_reserve g st ans n).
Proof.
  intros g st ans n. destruct (needs_new_dec st n) as [H|(cap & E & L)].
  - rewrite (reserve_new g st ans n H).
    destruct (s_max g <? n) eqn:M.
    + apply N.ltb_lt in M. apply rc_toolarge; assumption.
    + apply N.ltb_ge in M. destruct (fst (take ans)) eqn:T.
      * apply rc_alloc; assumption.
      * apply rc_refused; assumption.
  - rewrite (reserve_keep g st ans n cap E L). apply rc_keep; assumption.
Qed.

Lemma free_ev_shape : forall g st n,
  free_ev g st n = [] \/ exists cap, bf_node st = Some cap /\ cap < n /\ free_ev g st n = [EvFree (size_for g cap)].
Proof.
  intros g st n. unfold free_ev. destruct (bf_node st) as [cap|]; [|left; reflexivity].
  destruct (cap <? n) eqn:L; [|left; reflexivity].
  apply N.ltb_lt in L. right. exists cap. auto.
Qed.

Lemma free_ev_keep : forall g st n cap, bf_node st = Some cap -> n <= cap -> free_ev g st n = [].
Proof.
  intros g st n cap E L. unfold free_ev. rewrite E. apply N.ltb_ge in L. rewrite L. reflexivity.
Qed.

Lemma free_ev_none : forall g st n, bf_node st = None -> free_ev g st n = [].
Proof. intros g st n E. unfold free_ev. rewrite E. reflexivity. Qed.

Lemma free_ev_ok : forall g st n, BInv g st -> Forall (ev_ok g) (free_ev g st n).
Proof.
  intros g st n [_ K]. destruct (free_ev_shape g st n) as [->|(cap & E & _ & ->)]; constructor; [|constructor].
  exists cap. split; [apply K; exact E|reflexivity].
Qed.

(* what reserve leaves: the pool untouched; on success a node of capacity >= n, which is either the node the
   buffer already had (no allocator call, no answer consumed) or a new one of capacity exactly n *)
Lemma reserve_shape : forall g st ans n st1 ans1 e1 ok,
  bf_reserve g st ans n = (st1, ans1, e1, ok) ->
  bf_pool st1 = bf_pool st /\
  (ok = false -> bf_node st1 = None) /\
  (ok = true -> exists cap, bf_node st1 = Some cap /\ n <= cap /\
                  ((bf_node st = Some cap /\ e1 = [] /\ ans1 = ans) \/
                   (cap = n /\ n <= s_max g /\ needs_new st n /\
                    e1 = free_ev g st n ++ [EvAlloc (size_for g n) true]))).
Proof.
  intros g st ans n st1 ans1 e1 ok H. pose proof (reserve_cases g st ans n) as C. rewrite H in C.
  inversion C; subst; cbn [bmk bf_pool bf_node]; (split; [reflexivity|]); (split; [try discriminate; reflexivity|]);
    try discriminate; intros _.
  - exists cap. split; [reflexivity|]. split; [assumption|]. left. auto.
  - exists n. split; [reflexivity|]. split; [lia|]. right. auto.
Qed.

Lemma reserve_node_ok : forall g st ans n st1 ans1 e1 ok, BInv g st ->
  bf_reserve g st ans n = (st1, ans1, e1, ok) ->
  forall cap, bf_node st1 = Some cap -> cap <= s_max g.
Proof.
  intros g st ans n st1 ans1 e1 ok [_ K] H cap E.
  destruct (reserve_shape _ _ _ _ _ _ _ _ H) as (_ & Hf & Ht). destruct ok.
  - destruct (Ht eq_refl) as (cap' & E' & _ & [(E0 & _)|(-> & L & _)]).
    + apply K. congruence.
    + congruence.
  - rewrite (Hf eq_refl) in E. discriminate.
Qed.

Lemma reserve_BInv : forall g st ans n st1 ans1 e1 ok, BInv g st ->
  bf_reserve g st ans n = (st1, ans1, e1, ok) -> BInv g st1.
Proof.
  intros g st ans n st1 ans1 e1 ok K H. split.
  - destruct (reserve_shape _ _ _ _ _ _ _ _ H) as (P & _). rewrite P. destruct K as [K _]. exact K.
  - eapply reserve_node_ok; eassumption.
Qed.

(* the answers are consumed from the front; a refusal consumed a `false` *)
Lemma reserve_frame : forall g st ans n st1 ans1 e1 ok,
  bf_reserve g st ans n = (st1, ans1, e1, ok) ->
  exists pre, ans = pre ++ ans1 /\ (length pre <= 1)%nat /\
              (ok = false -> In false pre \/ s_max g < n) /\
              (ok = true -> forall b, In b pre -> b = true).
Proof.
  intros g st ans n st1 ans1 e1 ok H. pose proof (reserve_cases g st ans n) as C. rewrite H in C.
  destruct (take_frame ans) as (p0 & F1 & F2 & F3).
  assert (L0 : (length p0 <= 1)%nat).
  { destruct ans as [|a r]; cbn [take snd] in F1.
    - destruct p0; [cbn; lia|discriminate].
    - assert (E : length (a :: r) = length (p0 ++ r)) by congruence.
      rewrite app_length in E. cbn [length] in E. lia. }
  inversion C; subst.
  - exists []. split; [reflexivity|]. split; [cbn; lia|]. split; [discriminate|]. intros _ b [].
  - exists []. split; [reflexivity|]. split; [cbn; lia|]. split; [intros _; right; assumption|]. discriminate.
  - exists p0. split; [exact F1|]. split; [exact L0|]. split; [discriminate|].
    intros _ b Hb. rewrite (F3 b Hb). assumption.
  - exists p0. split; [exact F1|]. split; [exact L0|]. split; [|discriminate].
    intros _. left. apply F2. assumption.
Qed.

Lemma reserve_events_ok : forall g st ans n st1 ans1 e1 ok, BInv g st ->
  bf_reserve g st ans n = (st1, ans1, e1, ok) -> Forall (ev_ok g) e1.
Proof.
  intros g st ans n st1 ans1 e1 ok K H. pose proof (reserve_cases g st ans n) as C. rewrite H in C.
  inversion C; subst.
  - constructor.
  - apply free_ev_ok. exact K.
  - apply Forall_app. split; [apply free_ev_ok; exact K|]. constructor; [|constructor]. exists n. auto.
  - apply Forall_app. split; [apply free_ev_ok; exact K|]. constructor; [|constructor]. exists n. auto.
Qed.

(* ------------------------------------------------------------------------------------------------ *)
(* bf_store, by cases                                                                                 *)

Inductive bstore_case (g : sgeom) (st : bfs) (ans : list bool) (s : bytes)
  : bfs * list bool * list aev * option snode -> Prop :=
| bstore_fail : forall ans1 e1,
    bf_reserve g st ans (blen s) = (bmk (bf_pool st) None, ans1, e1, false) ->
    bstore_case g st ans s (bmk (bf_pool st) None, ans1, e1, None)
| bstore_found : forall ans1 e1 cap k y,
    bf_reserve g st ans (blen s) = (bmk (bf_pool st) (Some cap), ans1, e1, true) ->
    blen s <= cap ->
    pool_find s (bf_pool st) = Some k -> nth_error (bf_pool st) k = Some y ->
    bstore_case g st ans s (bmk (pool_addref k (bf_pool st)) (Some cap), ans1, e1, Some (bump y))
| bstore_exact : forall ans1 e1,
    bf_reserve g st ans (blen s) = (bmk (bf_pool st) (Some (blen s)), ans1, e1, true) ->
    pool_find s (bf_pool st) = None ->
    bstore_case g st ans s (bmk (fresh s :: bf_pool st) None, ans1, e1, Some (fresh s))
| bstore_shrink : forall cap,
    bf_reserve g st ans (blen s) = (bmk (bf_pool st) (Some cap), ans, [], true) ->
    bf_node st = Some cap -> blen s < cap ->
    pool_find s (bf_pool st) = None ->
    bstore_case g st ans s
      (bmk (fresh s :: bf_pool st) None, snd (take ans),
       [EvRealloc (size_for g cap) (size_for g (blen s)) true], Some (fresh s)).

Lemma bstore_cases : forall g st ans s, bstore_case g st ans s (bf_store g st ans s).
Proof.
  intros g st ans s. unfold bf_store.
  pose proof (reserve_cases g st ans (blen s)) as C.
  remember (bf_reserve g st ans (blen s)) as r eqn:R. symmetry in R.
  destruct C as [cap E L|NN M|NN M T|NN M T].
  - (* the node is kept *)
    unfold bf_save. cbn [bmk bf_node bf_pool].
    destruct (pool_find s (bf_pool st)) as [k|] eqn:F.
    + destruct (pool_find_some _ _ _ F) as (y & Hy & _).
      rewrite (addref_nth_same _ _ _ Hy). cbn [app].
      eapply bstore_found; eassumption.
    + destruct (cap =? blen s) eqn:Q.
      * apply N.eqb_eq in Q. subst cap. cbn [app]. apply bstore_exact; assumption.
      * apply N.eqb_neq in Q. destruct (take ans) as [a ans'] eqn:T.
        replace ans' with (snd (take ans)) by (rewrite T; reflexivity). cbn [app].
        apply bstore_shrink; try assumption. lia.
  - apply bstore_fail. exact R.
  - (* a node of exactly the size asked *)
    unfold bf_save. cbn [bmk bf_node bf_pool].
    destruct (pool_find s (bf_pool st)) as [k|] eqn:F.
    + destruct (pool_find_some _ _ _ F) as (y & Hy & _).
      rewrite (addref_nth_same _ _ _ Hy). rewrite app_nil_r.
      eapply bstore_found; try eassumption. lia.
    + rewrite N.eqb_refl, app_nil_r. apply bstore_exact; assumption.
  - apply bstore_fail. exact R.
Qed.

(* the pool after a successful store and the node returned are the same functions of the pool and the string
   as for the string builder *)
Theorem bstore_result : forall g st ans s st' ans' ev x,
  bf_store g st ans s = (st', ans', ev, Some x) ->
  bf_pool st' = pool_put s (bf_pool st) /\ pool_node s (bf_pool st) = Some x.
Proof.
  intros g st ans s st' ans' ev x H.
  pose proof (bstore_cases g st ans s) as C. rewrite H in C. unfold pool_put, pool_node.
  inversion C; subst; cbn [bmk bf_pool].
  - match goal with F : pool_find s _ = Some _ |- _ => rewrite F end.
    split; [reflexivity|]. apply addref_nth_same. assumption.
  - match goal with F : pool_find s _ = None |- _ => rewrite F end. split; reflexivity.
  - match goal with F : pool_find s _ = None |- _ => rewrite F end. split; reflexivity.
Qed.

(* ------------------------------------------------------------------------------------------------ *)
(* 1. the invariant                                                                                   *)

Theorem BInv_init : forall g, BInv g bf_init.
Proof. intro g. split; [split; constructor|]. intros cap H. discriminate. Qed.

Lemma fresh_node_ok : forall g s, blen s <= s_max g -> node_ok g (fresh s).
Proof.
  intros g s L. unfold node_ok, fresh. cbn [n_len n_data n_refs]. repeat split; [exact L|lia].
Qed.

Lemma fresh_pool_ok : forall g s p, pool_ok g p -> blen s <= s_max g -> pool_find s p = None ->
  pool_ok g (fresh s :: p).
Proof.
  intros g s p [F ND] L N. split.
  - constructor; [apply fresh_node_ok; exact L|exact F].
  - cbn [map]. rewrite content_fresh. constructor; [|exact ND]. apply pool_find_none. exact N.
Qed.

Theorem bstore_BInv : forall g st ans s st' ans' ev r,
  BInv g st -> bf_store g st ans s = (st', ans', ev, r) -> BInv g st'.
Proof.
  intros g st ans s st' ans' ev r K H.
  pose proof (bstore_cases g st ans s) as C. rewrite H in C.
  destruct K as [P KN].
  inversion C; subst; unfold BInv; cbn [bmk bf_pool bf_node].
  - split; [exact P|]. intros cap E. discriminate.
  - split; [apply addref_pool_ok; exact P|]. intros cap' E. inversion E; subst cap'.
    match goal with R : bf_reserve _ _ _ _ = _ |- _ =>
      apply (reserve_node_ok _ _ _ _ _ _ _ _ (conj P KN) R cap) end. reflexivity.
  - split; [|intros cap E; discriminate]. apply fresh_pool_ok; try assumption.
    match goal with R : bf_reserve _ _ _ _ = _ |- _ =>
      apply (reserve_node_ok _ _ _ _ _ _ _ _ (conj P KN) R (blen s)) end. reflexivity.
  - split; [|intros cap' E; discriminate]. apply fresh_pool_ok; try assumption.
    match goal with E : bf_node st = Some _ |- _ => apply KN in E end. lia.
Qed.

Theorem bderef_BInv : forall g st s st' e, BInv g st -> bf_deref g st s = (st', e) -> BInv g st'.
Proof.
  intros g st s st' e [P K] H. unfold bf_deref in H.
  pose proof (deref_pool_ok g s _ P) as P'.
  destruct (pool_deref g s (bf_pool st)) as [p' e']. inversion H; subst.
  split; assumption.
Qed.

Theorem bstep_BInv : forall g st ans o st' ans' ev r,
  BInv g st -> bf_step g st ans o = (st', ans', ev, r) -> BInv g st'.
Proof.
  intros g st ans [s|s] st' ans' ev r K H; cbn [bf_step] in H.
  - eapply bstore_BInv; eassumption.
  - destruct (bf_deref g st s) as [st1 e] eqn:D. inversion H; subst. eapply bderef_BInv; eassumption.
Qed.

(* any sequence of operations, the allocator answers being threaded through *)
Fixpoint bf_run (g : sgeom) (st : bfs) (ans : list bool) (ops : list sop) : bfs * list bool :=
  match ops with
  | [] => (st, ans)
  | o :: r => let '(st', ans', _, _) := bf_step g st ans o in bf_run g st' ans' r
  end.

Theorem brun_BInv : forall g ops st ans, BInv g st -> BInv g (fst (bf_run g st ans ops)).
Proof.
  intros g. induction ops as [|o r IH]; intros st ans K; cbn [bf_run]; [exact K|].
  destruct (bf_step g st ans o) as [[[st' ans'] ev] x] eqn:S. apply IH.
  eapply bstep_BInv; eassumption.
Qed.

(* every state reached from the empty buffer by any operations and any allocator answers *)
Theorem reachable_BInv : forall g ops ans, BInv g (fst (bf_run g bf_init ans ops)).
Proof. intros g ops ans. apply brun_BInv, BInv_init. Qed.

(* ------------------------------------------------------------------------------------------------ *)
(* 2. what is stored is what was read                                                                 *)

Theorem bstore_stored : forall g st ans s st' ans' ev x,
  BInv g st -> bf_store g st ans s = (st', ans', ev, Some x) ->
  n_content x = s /\ n_len x = N.of_nat (length s) /\ n_data x = s /\
  In x (bf_pool st') /\ occ s (bf_pool st') = 1%nat.
Proof.
  intros g st ans s st' ans' ev x K H.
  pose proof (bstore_BInv _ _ _ _ _ _ _ _ K H) as [[F' ND'] _].
  destruct (bstore_result _ _ _ _ _ _ _ _ H) as [P X].
  assert (I : In x (bf_pool st')).
  { rewrite P. unfold pool_put, pool_node in *. destruct (pool_find s (bf_pool st)) as [k|].
    - eapply nth_error_In. exact X.
    - inversion X; subst. left. reflexivity. }
  assert (Cx : n_content x = s).
  { unfold pool_node in X. destruct (pool_find s (bf_pool st)) as [k|] eqn:Fd.
    - destruct (pool_find_some _ _ _ Fd) as (y & Hy & Hc & _).
      rewrite (addref_nth_same _ _ _ Hy) in X. inversion X; subst. reflexivity.
    - inversion X; subst. apply content_fresh. }
  assert (Kx : node_ok g x) by (rewrite Forall_forall in F'; apply F'; exact I).
  split; [exact Cx|]. split; [rewrite <- Cx; apply (node_ok_len g); exact Kx|].
  split; [rewrite <- (node_ok_content g x Kx); exact Cx|]. split; [exact I|].
  apply occ_nodup_in; [exact ND'|]. rewrite <- Cx. apply in_map. exact I.
Qed.

(* the node returned and the pool do not depend on the node earlier strings left in the buffer, nor on the
   allocator answers (as long as the store succeeds) *)
Theorem bstore_node_indep : forall g sta stb ansa ansb s sta' stb' ansa' ansb' eva evb xa xb,
  bf_pool sta = bf_pool stb ->
  bf_store g sta ansa s = (sta', ansa', eva, Some xa) ->
  bf_store g stb ansb s = (stb', ansb', evb, Some xb) ->
  xa = xb /\ bf_pool sta' = bf_pool stb'.
Proof.
  intros g sta stb ansa ansb s sta' stb' ansa' ansb' eva evb xa xb P Ha Hb.
  destruct (bstore_result _ _ _ _ _ _ _ _ Ha) as [A1 A2].
  destruct (bstore_result _ _ _ _ _ _ _ _ Hb) as [B1 B2].
  rewrite P in A1, A2. split; congruence.
Qed.

(* ------------------------------------------------------------------------------------------------ *)
(* 3. sharing                                                                                         *)

Theorem bstore_shared : forall g st ans s k y st' ans' ev x,
  pool_find s (bf_pool st) = Some k -> nth_error (bf_pool st) k = Some y ->
  bf_store g st ans s = (st', ans', ev, Some x) ->
  (* the node found is returned, with one more reference; every other node is unchanged; no node is made *)
  x = bump y /\ bf_pool st' = pool_addref k (bf_pool st) /\
  nth_error (bf_pool st') k = Some x /\
  (forall j, j <> k -> nth_error (bf_pool st') j = nth_error (bf_pool st) j) /\
  length (bf_pool st') = length (bf_pool st) /\
  (* the events (and the answers consumed) are those of reserve: none from save *)
  (exists st1, bf_reserve g st ans (blen s) = (st1, ans', ev, true) /\ bf_node st' = bf_node st1) /\
  (* the buffer's node is kept: a next string that fits makes no allocator call in reserve *)
  (exists cap, bf_node st' = Some cap /\ blen s <= cap) /\ bf_node st' <> None.
Proof.
  intros g st ans s k y st' ans' ev x F Hy H.
  pose proof (bstore_cases g st ans s) as C. rewrite H in C.
  inversion C; subst; try congruence.
  match goal with F' : pool_find s _ = Some ?k0 |- _ => assert (k0 = k) by congruence; subst k0 end.
  match goal with Y : nth_error (bf_pool st) k = Some ?y0 |- _ => assert (y0 = y) by congruence; subst y0 end.
  cbn [bmk bf_pool bf_node].
  split; [reflexivity|]. split; [reflexivity|].
  split; [apply addref_nth_same; exact Hy|].
  split; [intros j Hj; apply addref_nth_other; exact Hj|].
  split; [apply addref_length|].
  split; [eexists; split; [eassumption|reflexivity]|].
  split; [exists cap; auto|discriminate].
Qed.

(* a sharing store makes at most two allocator events: the free of a too small node and the allocation of one
   of exactly the size of the string; none at all when the buffer's node is large enough *)
Theorem bstore_shared_events : forall g st ans s k st' ans' ev x,
  pool_find s (bf_pool st) = Some k ->
  bf_store g st ans s = (st', ans', ev, Some x) ->
  (exists cap, bf_node st = Some cap /\ blen s <= cap /\ ev = [] /\ ans' = ans /\ bf_node st' = Some cap) \/
  (needs_new st (blen s) /\ blen s <= s_max g /\
   ev = free_ev g st (blen s) ++ [EvAlloc (size_for g (blen s)) true] /\ bf_node st' = Some (blen s)).
Proof.
  intros g st ans s k st' ans' ev x F H.
  destruct (pool_find_some _ _ _ F) as (y & Hy & _).
  destruct (bstore_shared _ _ _ _ _ _ _ _ _ _ F Hy H) as (_ & _ & _ & _ & _ & (st1 & R & N1) & _).
  destruct (reserve_shape _ _ _ _ _ _ _ _ R) as (_ & _ & Ht).
  destruct (Ht eq_refl) as (cap & E & L & [(E0 & -> & ->)|(-> & M & NN & ->)]).
  - left. exists cap. repeat split; try assumption. congruence.
  - right. repeat split; try assumption. congruence.
Qed.

(* ------------------------------------------------------------------------------------------------ *)
(* 4. failure is clean, and when it happens                                                           *)

Theorem bstore_fail_clean : forall g st ans s st' ans' ev,
  bf_store g st ans s = (st', ans', ev, None) ->
  bf_pool st' = bf_pool st /\ bf_node st' = None.
Proof.
  intros g st ans s st' ans' ev H.
  pose proof (bstore_cases g st ans s) as C. rewrite H in C.
  inversion C; subst. split; reflexivity.
Qed.

(* a failed store is a failed reserve: it consumed a `false` answer, or the string does not fit the length field *)
Theorem bstore_fail_why : forall g st ans s st' ans' ev,
  bf_store g st ans s = (st', ans', ev, None) ->
  bf_reserve g st ans (blen s) = (st', ans', ev, false) /\
  exists pre, ans = pre ++ ans' /\ (In false pre \/ s_max g < blen s).
Proof.
  intros g st ans s st' ans' ev H.
  pose proof (bstore_cases g st ans s) as C. rewrite H in C.
  inversion C; subst.
  match goal with R : bf_reserve _ _ _ _ = _ |- _ =>
    split; [exact R|]; destruct (reserve_frame _ _ _ _ _ _ _ _ R) as (pre & P1 & _ & P2 & _) end.
  exists pre. split; [exact P1|]. apply P2. reflexivity.
Qed.

(* a stored string fits the length field *)
Theorem bstore_ok_fits : forall g st ans s st' ans' ev x,
  BInv g st -> bf_store g st ans s = (st', ans', ev, Some x) -> blen s <= s_max g.
Proof.
  intros g st ans s st' ans' ev x K H.
  destruct (bstore_stored _ _ _ _ _ _ _ _ K H) as (_ & L & _ & I & _).
  pose proof (bstore_BInv _ _ _ _ _ _ _ _ K H) as [[F' _] _].
  rewrite Forall_forall in F'. destruct (F' x I) as (_ & M & _). unfold blen. rewrite <- L. exact M.
Qed.

(* with an allocator that never refuses, the store fails exactly when the string does not fit the length field
   (no power-of-two condition: the node is created with exactly the size asked) *)
Theorem bstore_alltrue_iff : forall g st ans s,
  BInv g st -> alltrue ans ->
  (snd (bf_store g st ans s) = None <-> s_max g < blen s).
Proof.
  intros g st ans s K A.
  destruct (bf_store g st ans s) as [[[st' ans'] ev] [x|]] eqn:H; cbn [snd].
  - split; [discriminate|]. intros L.
    pose proof (bstore_ok_fits _ _ _ _ _ _ _ _ K H). lia.
  - split; [|reflexivity]. intros _.
    destruct (bstore_fail_why _ _ _ _ _ _ _ H) as (_ & pre & P1 & [P2|P2]); [|exact P2].
    assert (false = true) by (apply A; rewrite P1; apply in_or_app; left; exact P2). discriminate.
Qed.

Corollary bstore_alltrue_fits : forall g st ans s,
  BInv g st -> alltrue ans -> N.of_nat (length s) <= s_max g ->
  exists st' ans' ev x, bf_store g st ans s = (st', ans', ev, Some x).
Proof.
  intros g st ans s K A L.
  pose proof (bstore_alltrue_iff g st ans s K A) as [H _].
  destruct (bf_store g st ans s) as [[[st' ans'] ev] [x|]]; [exists st', ans', ev, x; reflexivity|].
  specialize (H eq_refl). unfold blen in H. lia.
Qed.

(* a string that does not fit the length field: the node the buffer holds (necessarily smaller) is destroyed,
   the allocator is not asked for anything *)
Theorem bstore_toolarge : forall g st ans s,
  BInv g st -> s_max g < blen s ->
  bf_store g st ans s = (bmk (bf_pool st) None, ans, free_ev g st (blen s), None).
Proof.
  intros g st ans s [_ K] M.
  assert (NN : needs_new st (blen s)).
  { unfold needs_new. destruct (bf_node st) as [cap|] eqn:E; [|exact I]. specialize (K cap eq_refl). lia. }
  unfold bf_store. rewrite (reserve_new g st ans (blen s) NN).
  apply N.ltb_lt in M. rewrite M. reflexivity.
Qed.

(* ------------------------------------------------------------------------------------------------ *)
(* 5. allocator traffic                                                                               *)

Definition is_realloc (e : aev) : Prop := match e with EvRealloc _ _ _ => True | _ => False end.

(* the exact shape of the events of a store: [free of a too small node] ++ [one allocation of exactly
   size_for (blen s)] ++ [one shrinking reallocation down to exactly size_for (blen s)]; the reallocation
   only happens to a kept larger node, i.e. never together with the other two *)
Theorem bstore_events_shape : forall g st ans s st' ans' ev r,
  bf_store g st ans s = (st', ans', ev, r) ->
  exists ef ea er, ev = ef ++ ea ++ er /\
    (ef = [] \/ exists cap, bf_node st = Some cap /\ cap < blen s /\ ef = [EvFree (size_for g cap)]) /\
    (ea = [] \/ exists b, blen s <= s_max g /\ needs_new st (blen s) /\ ea = [EvAlloc (size_for g (blen s)) b]) /\
    (er = [] \/ exists cap, bf_node st = Some cap /\ blen s < cap /\ ef = [] /\ ea = [] /\
                            pool_find s (bf_pool st) = None /\
                            er = [EvRealloc (size_for g cap) (size_for g (blen s)) true]).
Proof.
  intros g st ans s st' ans' ev r H.
  pose proof (bstore_cases g st ans s) as C. rewrite H in C.
  assert (G : forall st1 ans1 e1 ok, bf_reserve g st ans (blen s) = (st1, ans1, e1, ok) ->
    exists ef ea, e1 = ef ++ ea ++ [] /\
    (ef = [] \/ exists cap, bf_node st = Some cap /\ cap < blen s /\ ef = [EvFree (size_for g cap)]) /\
    (ea = [] \/ exists b, blen s <= s_max g /\ needs_new st (blen s) /\ ea = [EvAlloc (size_for g (blen s)) b])).
  { intros st1 ans1 e1 ok R. pose proof (reserve_cases g st ans (blen s)) as RC. rewrite R in RC.
    inversion RC; subst.
    - exists [], []. split; [reflexivity|]. split; left; reflexivity.
    - exists (free_ev g st (blen s)), []. split; [rewrite !app_nil_r; reflexivity|].
      split; [|left; reflexivity].
      destruct (free_ev_shape g st (blen s)) as [->|(cap & E & L & ->)]; [left; reflexivity|right; exists cap; auto].
    - exists (free_ev g st (blen s)), [EvAlloc (size_for g (blen s)) true].
      split; [rewrite app_nil_r; reflexivity|]. split.
      + destruct (free_ev_shape g st (blen s)) as [->|(cap & E & L & ->)]; [left; reflexivity|right; exists cap; auto].
      + right. exists true. auto.
    - exists (free_ev g st (blen s)), [EvAlloc (size_for g (blen s)) false].
      split; [rewrite app_nil_r; reflexivity|]. split.
      + destruct (free_ev_shape g st (blen s)) as [->|(cap & E & L & ->)]; [left; reflexivity|right; exists cap; auto].
      + right. exists false. auto. }
  inversion C; subst.
  - match goal with R : bf_reserve _ _ _ _ = _ |- _ => destruct (G _ _ _ _ R) as (ef & ea & E & A & B) end.
    exists ef, ea, []. split; [exact E|]. split; [exact A|]. split; [exact B|]. left. reflexivity.
  - match goal with R : bf_reserve _ _ _ _ = _ |- _ => destruct (G _ _ _ _ R) as (ef & ea & E & A & B) end.
    exists ef, ea, []. split; [exact E|]. split; [exact A|]. split; [exact B|]. left. reflexivity.
  - match goal with R : bf_reserve _ _ _ _ = _ |- _ => destruct (G _ _ _ _ R) as (ef & ea & E & A & B) end.
    exists ef, ea, []. split; [exact E|]. split; [exact A|]. split; [exact B|]. left. reflexivity.
  - exists [], [], [EvRealloc (size_for g cap) (size_for g (blen s)) true].
    split; [reflexivity|]. split; [left; reflexivity|]. split; [left; reflexivity|].
    right. exists cap. repeat split; assumption.
Qed.

(* at most two allocator events per string (hence at most three) *)
Theorem bstore_events_count2 : forall g st ans s st' ans' ev r,
  bf_store g st ans s = (st', ans', ev, r) -> (length ev <= 2)%nat.
Proof.
  intros g st ans s st' ans' ev r H.
  destruct (bstore_events_shape _ _ _ _ _ _ _ _ H) as (ef & ea & er & -> & A & B & C).
  destruct C as [->|(cap & _ & _ & -> & -> & _ & ->)]; [|cbn; lia].
  rewrite app_nil_r, app_length.
  destruct A as [->|(cap & _ & _ & ->)]; destruct B as [->|(b & _ & _ & ->)]; cbn [length]; lia.
Qed.

Theorem bstore_events_count : forall g st ans s st' ans' ev r,
  bf_store g st ans s = (st', ans', ev, r) -> (length ev <= 3)%nat.
Proof.
  intros g st ans s st' ans' ev r H. pose proof (bstore_events_count2 _ _ _ _ _ _ _ _ H). lia.
Qed.

(* ... and at most one answer of the allocator is consumed *)
Theorem bstore_answers : forall g st ans s st' ans' ev r,
  bf_store g st ans s = (st', ans', ev, r) ->
  exists pre, ans = pre ++ ans' /\ (length pre <= 1)%nat.
Proof.
  intros g st ans s st' ans' ev r H.
  pose proof (bstore_cases g st ans s) as C. rewrite H in C.
  inversion C; subst;
    try (match goal with R : bf_reserve _ _ _ _ = _ |- _ =>
           destruct (reserve_frame _ _ _ _ _ _ _ _ R) as (pre & P1 & P2 & _) end;
         exists pre; split; assumption).
  destruct (take_frame ans) as (p0 & F1 & _). exists p0. split; [exact F1|].
  destruct ans as [|a r0]; cbn [take snd] in F1.
  - destruct p0; [cbn; lia|discriminate].
  - assert (E : length (a :: r0) = length (p0 ++ r0)) by congruence.
    rewrite app_length in E. cbn [length] in E. lia.
Qed.

(* every size handed to the allocator is the size of a node whose capacity fits the length field *)
Theorem bstore_events_ok : forall g st ans s st' ans' ev r,
  BInv g st -> bf_store g st ans s = (st', ans', ev, r) -> Forall (ev_ok g) ev.
Proof.
  intros g st ans s st' ans' ev r K H.
  pose proof (bstore_cases g st ans s) as C. rewrite H in C.
  inversion C; subst; try (eapply reserve_events_ok; eassumption).
  constructor; [|constructor]. destruct K as [_ K].
  match goal with E : bf_node st = Some _ |- _ => apply K in E end.
  exists cap, (blen s). repeat split; try assumption. lia.
Qed.

(* a string that was not in the pool: the buffer's node becomes the pool node *)
Theorem bstore_new_node : forall g st ans s st' ans' ev x,
  pool_find s (bf_pool st) = None ->
  bf_store g st ans s = (st', ans', ev, Some x) ->
  x = fresh s /\ bf_pool st' = fresh s :: bf_pool st /\ bf_node st' = None /\
  ((* the buffer held a node of exactly that capacity: nothing to do *)
   (bf_node st = Some (blen s) /\ ev = [] /\ ans' = ans) \/
   (* the buffer held a larger node: it is shrunk to exactly the string *)
   (exists cap, bf_node st = Some cap /\ blen s < cap /\ ans' = snd (take ans) /\
                ev = [EvRealloc (size_for g cap) (size_for g (blen s)) true]) \/
   (* the buffer held no node or a smaller one (destroyed): a node of exactly the size of the string is made *)
   (needs_new st (blen s) /\ blen s <= s_max g /\ ans' = snd (take ans) /\
    ev = free_ev g st (blen s) ++ [EvAlloc (size_for g (blen s)) true])).
Proof.
  intros g st ans s st' ans' ev x F H.
  pose proof (bstore_cases g st ans s) as C. rewrite H in C.
  inversion C; subst; try congruence; cbn [bmk bf_pool bf_node];
    (split; [reflexivity|]); (split; [reflexivity|]); (split; [reflexivity|]).
  - pose proof (reserve_cases g st ans (blen s)) as RC.
    match goal with R : bf_reserve _ _ _ _ = _ |- _ => rewrite R in RC end.
    inversion RC; subst.
    + left. auto.
    + right. right. auto.
  - right. left. exists cap. auto.
Qed.

(* when the node is created by this store (no node, or a too small one), there is no reallocation *)
Theorem bstore_created_no_realloc : forall g st ans s st' ans' ev r,
  needs_new st (blen s) -> bf_store g st ans s = (st', ans', ev, r) ->
  Forall (fun e => ~ is_realloc e) ev.
Proof.
  intros g st ans s st' ans' ev r NN H.
  destruct (bstore_events_shape _ _ _ _ _ _ _ _ H) as (ef & ea & er & -> & A & B & C).
  destruct C as [->|(cap & E & L & _)].
  - rewrite app_nil_r. apply Forall_app. split.
    + destruct A as [->|(cap & _ & _ & ->)]; constructor; [|constructor]. intros [].
    + destruct B as [->|(b & _ & _ & ->)]; constructor; [|constructor]. intros [].
  - unfold needs_new in NN. rewrite E in NN. lia.
Qed.

(* a new string of exactly the buffer's capacity makes no allocator call at all *)
Theorem bstore_exact_fit : forall g st ans s,
  bf_node st = Some (blen s) -> pool_find s (bf_pool st) = None ->
  bf_store g st ans s = (bmk (fresh s :: bf_pool st) None, ans, [], Some (fresh s)).
Proof.
  intros g st ans s E F. unfold bf_store.
  rewrite (reserve_keep g st ans (blen s) (blen s) E) by lia.
  unfold bf_save. cbn [bmk bf_node bf_pool]. rewrite F, N.eqb_refl. reflexivity.
Qed.

(* the first string through an empty buffer, or any new string after a new string: one allocation of exactly
   the size of the string, no reallocation *)
Theorem bstore_fresh_buffer : forall g st ans s,
  bf_node st = None -> pool_find s (bf_pool st) = None -> blen s <= s_max g -> fst (take ans) = true ->
  bf_store g st ans s =
    (bmk (fresh s :: bf_pool st) None, snd (take ans), [EvAlloc (size_for g (blen s)) true], Some (fresh s)).
Proof.
  intros g st ans s E F L T. unfold bf_store.
  assert (NN : needs_new st (blen s)) by (unfold needs_new; rewrite E; exact I).
  rewrite (reserve_new g st ans (blen s) NN). apply N.ltb_ge in L. rewrite L, T.
  unfold bf_save. cbn [bmk bf_node bf_pool]. rewrite F, N.eqb_refl, (free_ev_none g st _ E). reflexivity.
Qed.

(* ------------------------------------------------------------------------------------------------ *)
(* 6. dereference                                                                                     *)

Theorem bderef_last_ref : forall g st s k x,
  pool_find s (bf_pool st) = Some k -> nth_error (bf_pool st) k = Some x -> n_refs x = 1 ->
  bf_deref g st s = (bmk (firstn k (bf_pool st) ++ skipn (S k) (bf_pool st)) (bf_node st),
                     [EvFree (size_for g (n_len x))]).
Proof.
  intros g st s k x F Hx R. unfold bf_deref. rewrite (deref_last g s _ k x F Hx R). reflexivity.
Qed.

Theorem bderef_shared_ref : forall g st s k x,
  pool_find s (bf_pool st) = Some k -> nth_error (bf_pool st) k = Some x -> n_refs x <> 1 ->
  bf_deref g st s = (bmk (firstn k (bf_pool st) ++ unbump x :: skipn (S k) (bf_pool st)) (bf_node st), []).
Proof.
  intros g st s k x F Hx R. unfold bf_deref. rewrite (deref_shared g s _ k x F Hx R). reflexivity.
Qed.

Theorem bderef_absent_ref : forall g st s,
  ~ In s (map n_content (bf_pool st)) -> bf_deref g st s = (st, []).
Proof.
  intros g st s H. apply pool_find_none in H. unfold bf_deref. rewrite (deref_absent g s _ H).
  destruct st; reflexivity.
Qed.

(* for a node of a pool that satisfies the invariant: the node dereferenced is that very node *)
Lemma bpool_find_node : forall g st x, BInv g st -> In x (bf_pool st) ->
  exists k, pool_find (n_content x) (bf_pool st) = Some k /\ nth_error (bf_pool st) k = Some x.
Proof.
  intros g st x [[_ ND] _] I.
  destruct (pool_find_in (n_content x) (bf_pool st) (in_map _ _ _ I)) as (k & F).
  exists k. split; [exact F|].
  destruct (In_nth_error _ _ I) as (j & Hj).
  rewrite <- (pool_find_unique _ _ _ _ _ ND F Hj eq_refl). exact Hj.
Qed.

Theorem bderef_node_last : forall g st x, BInv g st -> In x (bf_pool st) -> n_refs x = 1 ->
  exists k, nth_error (bf_pool st) k = Some x /\
    bf_deref g st (n_content x) =
      (bmk (firstn k (bf_pool st) ++ skipn (S k) (bf_pool st)) (bf_node st), [EvFree (size_for g (n_len x))]).
Proof.
  intros g st x K I R. destruct (bpool_find_node g st x K I) as (k & F & Hk).
  exists k. split; [exact Hk|]. apply bderef_last_ref; assumption.
Qed.

Theorem bderef_node_shared : forall g st x, BInv g st -> In x (bf_pool st) -> 1 < n_refs x ->
  exists k, nth_error (bf_pool st) k = Some x /\
    bf_deref g st (n_content x) =
      (bmk (firstn k (bf_pool st) ++ unbump x :: skipn (S k) (bf_pool st)) (bf_node st), []).
Proof.
  intros g st x K I R. destruct (bpool_find_node g st x K I) as (k & F & Hk).
  exists k. split; [exact Hk|]. apply bderef_shared_ref; try assumption. lia.
Qed.

(* at most one event, a free of a node that fits the length field *)
Theorem bderef_events_ok : forall g st s st' e, BInv g st -> bf_deref g st s = (st', e) ->
  (length e <= 1)%nat /\ Forall (ev_ok g) e.
Proof.
  intros g st s st' e K H.
  destruct (pool_find s (bf_pool st)) as [k|] eqn:F.
  - destruct (pool_find_some _ _ _ F) as (x & Hx & _).
    destruct (N.eq_dec (n_refs x) 1) as [R|R].
    + rewrite (bderef_last_ref g st s k x F Hx R) in H. inversion H; subst. split; [cbn; lia|].
      constructor; [|constructor]. destruct K as [[FA _] _]. rewrite Forall_forall in FA.
      destruct (FA x (nth_error_In _ _ Hx)) as (_ & M & _). exists (n_len x). auto.
    + rewrite (bderef_shared_ref g st s k x F Hx R) in H. inversion H; subst. split; [cbn; lia|constructor].
  - apply pool_find_none in F. rewrite (bderef_absent_ref g st s F) in H. inversion H; subst.
    split; [cbn; lia|constructor].
Qed.

Lemma bderef_pool : forall g st s, bf_pool (fst (bf_deref g st s)) = pool_drop g s (bf_pool st).
Proof.
  intros g st s. unfold bf_deref, pool_drop. destruct (pool_deref g s (bf_pool st)) as [p' e]. reflexivity.
Qed.

Lemma bderef_node : forall g st s, bf_node (fst (bf_deref g st s)) = bf_node st.
Proof.
  intros g st s. unfold bf_deref. destruct (pool_deref g s (bf_pool st)) as [p' e]. reflexivity.
Qed.

(* store, then dereference: the pool is as before *)
Theorem bstore_deref_1 : forall g st ans s st' ans' ev x,
  BInv g st -> bf_store g st ans s = (st', ans', ev, Some x) ->
  bf_pool (fst (bf_deref g st' s)) = bf_pool st.
Proof.
  intros g st ans s st' ans' ev x [[F _] _] H.
  destruct (bstore_result _ _ _ _ _ _ _ _ H) as [P _].
  rewrite bderef_pool, P. apply drop_put. exact F.
Qed.

(* n successful stores of the same string ... *)
Fixpoint bstore_n (g : sgeom) (st : bfs) (ans : list bool) (s : bytes) (n : nat) : option (bfs * list bool) :=
  match n with
  | O => Some (st, ans)
  | S n' => match bf_store g st ans s with
            | (st', ans', _, Some _) => bstore_n g st' ans' s n'
            | _ => None
            end
  end.
(* ... then n dereferences *)
Fixpoint bderef_n (g : sgeom) (st : bfs) (s : bytes) (n : nat) : bfs :=
  match n with
  | O => st
  | S n' => fst (bf_deref g (bderef_n g st s n') s)
  end.

Theorem bstore_deref_n : forall g s n st ans st' ans',
  BInv g st -> bstore_n g st ans s n = Some (st', ans') ->
  bf_pool (bderef_n g st' s n) = bf_pool st.
Proof.
  intros g s. induction n as [|n IH]; intros st ans st' ans' K H; cbn [bstore_n bderef_n] in *.
  - inversion H; subst. reflexivity.
  - destruct (bf_store g st ans s) as [[[st1 ans1] ev] [x|]] eqn:S1; [|discriminate].
    rewrite bderef_pool.
    rewrite (IH st1 ans1 st' ans' (bstore_BInv _ _ _ _ _ _ _ _ K S1) H).
    rewrite <- bderef_pool. eapply bstore_deref_1; eassumption.
Qed.

(* further stores of the string held by the newest node only count references *)
Lemma bstore_n_head : forall g s m st1 ans1 x1 rest st' ans',
  bf_pool st1 = x1 :: rest -> n_content x1 = s ->
  bstore_n g st1 ans1 s m = Some (st', ans') ->
  exists x, bf_pool st' = x :: rest /\ n_len x = n_len x1 /\ n_data x = n_data x1 /\
            n_refs x = n_refs x1 + N.of_nat m.
Proof.
  intros g s. induction m as [|m IHm]; intros st1 ans1 x1 rest st' ans' P C H; cbn [bstore_n] in H.
  - inversion H; subst. exists x1. rewrite N.add_0_r. auto.
  - destruct (bf_store g st1 ans1 s) as [[[st2 ans2] ev2] [x2|]] eqn:S2; [|discriminate].
    assert (F1 : pool_find s (bf_pool st1) = Some O).
    { rewrite P. cbn [pool_find]. rewrite C, sb_beq_refl. reflexivity. }
    assert (Y1 : nth_error (bf_pool st1) O = Some x1) by (rewrite P; reflexivity).
    destruct (bstore_shared _ _ _ _ _ _ _ _ _ _ F1 Y1 S2) as (_ & P2 & _).
    rewrite P in P2. cbn [pool_addref] in P2. fold (bump x1) in P2.
    destruct (IHm st2 ans2 (bump x1) rest st' ans' P2 C H) as (x & Q1 & Q2 & Q3 & Q4).
    exists x. repeat split; try assumption. rewrite Q4. cbn [bump n_refs]. lia.
Qed.

(* after n >= 1 stores of a string that was not in the pool there is one node for it, with n references *)
Theorem bstore_n_refs : forall g s n st ans st' ans',
  pool_find s (bf_pool st) = None ->
  bstore_n g st ans s (S n) = Some (st', ans') ->
  bf_pool st' = {| n_len := blen s; n_data := s; n_refs := N.of_nat (S n) |} :: bf_pool st.
Proof.
  intros g s n st ans st' ans' F H. cbn [bstore_n] in H.
  destruct (bf_store g st ans s) as [[[st1 ans1] ev] [x|]] eqn:S1; [|discriminate].
  destruct (bstore_new_node _ _ _ _ _ _ _ _ F S1) as (-> & P & _).
  destruct (bstore_n_head g s n st1 ans1 (fresh s) (bf_pool st) st' ans' P (content_fresh s) H)
    as (x & Q1 & Q2 & Q3 & Q4).
  rewrite Q1. f_equal. destruct x as [l d r]. cbn [fresh n_len n_data n_refs] in *. subst. f_equal. lia.
Qed.

(* ------------------------------------------------------------------------------------------------ *)
(* 7. examples (StringNode header of 14 bytes, 16-bit length field: ex_g of StrBuildProofs)            *)

Definition bx_r1 := bf_store ex_g bf_init [] ex_hello.
Definition bx_r2 := bf_store ex_g (fst (fst (fst bx_r1))) [] ex_hello.
Definition bx_r3 := bf_store ex_g (fst (fst (fst bx_r2))) [] (repeat 97 3).
Definition bx_r4 := bf_store ex_g (fst (fst (fst bx_r3))) [] (repeat 98 40).
Definition bx_r5 := bf_store ex_g (fst (fst (fst bx_r4))) [] (repeat 98 40).
Definition bx_r6 := bf_store ex_g (fst (fst (fst bx_r5))) [] (repeat 99 7).
Definition bx_r7 := bf_store ex_g (fst (fst (fst bx_r6))) [] (repeat 99 7).
Definition bx_r8 := bf_store ex_g (fst (fst (fst bx_r7))) [] (repeat 100 50).

(* "hello" (one allocation of exactly 5+1+14 bytes, no reallocation), "hello" again (a node of 5 is allocated for the
   read, the string is found, the node is kept), a 3-byte string (the kept node of capacity 5 is shrunk to 3),
   a 40-byte string (a new exact node), the same again (allocated, found, kept), a 7-byte string (the kept node of
   capacity 40 is shrunk to 7), the same again (allocated, found, a node of 7 kept), a 50-byte string (the kept node
   of 7 is too small: freed, and a node of exactly 50 is allocated) *)
Example bx_events :
  snd (fst bx_r1) = [EvAlloc 20 true] /\
  snd (fst bx_r2) = [EvAlloc 20 true] /\
  snd (fst bx_r3) = [EvRealloc 20 18 true] /\
  snd (fst bx_r4) = [EvAlloc 55 true] /\
  snd (fst bx_r5) = [EvAlloc 55 true] /\
  snd (fst bx_r6) = [EvRealloc 55 22 true] /\
  snd (fst bx_r7) = [EvAlloc 22 true] /\
  snd (fst bx_r8) = [EvFree 22; EvAlloc 65 true].
Proof. vm_compute. repeat split; reflexivity. Qed.

(* the node the buffer holds after each of these stores *)
Example bx_nodes :
  map (fun r => bf_node (fst (fst (fst r)))) [bx_r1; bx_r2; bx_r3; bx_r4; bx_r5; bx_r6; bx_r7; bx_r8] =
    [None; Some 5; None; None; Some 40; None; Some 7; None].
Proof. vm_compute. reflexivity. Qed.

Example bx_shared :
  snd bx_r2 = Some {| n_len := 5; n_data := ex_hello; n_refs := 2 |} /\
  map n_refs (bf_pool (fst (fst (fst bx_r8)))) = [1; 2; 2; 1; 2] /\
  map n_len (bf_pool (fst (fst (fst bx_r8)))) = [50; 7; 40; 3; 5].
Proof. vm_compute. repeat split; reflexivity. Qed.

(* the allocator refuses: nothing is stored, the pool is untouched, the buffer holds no node *)
Example bx_refused :
  bf_store ex_g bf_init [false] ex_hello = (bf_init, [], [EvAlloc 20 false], None) /\
  bf_store ex_g (fst (fst (fst bx_r2))) [false] (repeat 98 40) =
    (bmk (bf_pool (fst (fst (fst bx_r2)))) None, [], [EvFree 20; EvAlloc 55 false], None).
Proof. vm_compute. split; reflexivity. Qed.

(* no power-of-two condition: with maxLength = 100, 100 bytes are stored (the string builder stops at 63:
   ex_not_pow in StrBuildProofs), 101 are not, and then the allocator is not even called *)
Example bx_not_pow :
  let g100 := {| s_hdr := 6; s_max := 100 |} in
  (exists x, snd (bf_store g100 bf_init [] (repeat 97 100)) = Some x /\ n_len x = 100) /\
  snd (fst (bf_store g100 bf_init [] (repeat 97 100))) = [EvAlloc 107 true] /\
  bf_store g100 bf_init [] (repeat 97 101) = (bf_init, [], [], None).
Proof. vm_compute. split; [eexists; split; reflexivity|split; reflexivity]. Qed.

(* stored twice, released twice: one free of the node, the pool is empty again *)
Example bx_deref :
  let st2 := fst (fst (fst bx_r2)) in
  bf_deref ex_g st2 ex_hello = (bmk [{| n_len := 5; n_data := ex_hello; n_refs := 1 |}] (Some 5), []) /\
  bf_deref ex_g (fst (bf_deref ex_g st2 ex_hello)) ex_hello = (bmk [] (Some 5), [EvFree 20]).
Proof. vm_compute. split; reflexivity. Qed.
