(* FilterProofs.v — the filter of the JSON reader model:
   (1) the filter `true` (any filter equal to true) is the identity on every input,
   (2) the skip path accepts every text of the grammar and consumes exactly it,
   (3) reading with a filter = projecting the unfiltered value (Spec/FilterSpec.v). *)
From Coq Require Import NArith ZArith List Bool Lia.
From Coq Require Import Floats.SpecFloat.
From AJ Require Import Model.Base Model.FloatModel Model.Value Model.Utf Model.NumParse Model.JsonParse.
From AJ Require Import Spec.Utf8Spec Spec.Rfc8259 Spec.ParseSpec Spec.FilterSpec.
From AJ Require Import Proofs.Sweep Proofs.UtfProofs Proofs.Lex Proofs.StringRT.
From AJ Require Import Proofs.ParseDepth Proofs.ParseComplete.
Local Open Scope N_scope.

(* ------------------------------------------------------------------------------------- *)
(* Part 1 — a filter that equals true behaves like no filter at all                         *)

Lemma equals_true_truthy : forall v, equals_true v = true -> truthy v = true.
Proof.
  intros v H. destruct v as [|b|z|f|f|s|s|l|l]; cbn [equals_true truthy] in *; try discriminate.
  - exact H.
  - apply Z.eqb_eq in H. subst z. reflexivity.
  - destruct f as [sg| sg | |sg m e]; try discriminate H; destruct sg; try discriminate H; reflexivity.
  - destruct f as [sg| sg | |sg m e]; try discriminate H; destruct sg; try discriminate H; reflexivity.
Qed.

Section TrueLoops.
  Variable cf : cfg.
  Variable pv : filter -> ps -> code * jv * ps.
  Variable sv : ps -> code * ps.
  Variable f : jv.
  Hypothesis Hf : equals_true f = true.
  Hypothesis Hpv : forall s, pv (Some f) s = pv None s.

  Lemma array_loop_true : forall fl acc s,
    array_loop cf pv sv fl (Some f) acc s = array_loop cf pv sv fl None acc s.
  Proof.
    induction fl as [|fl IH]; intros acc s; [reflexivity|].
    rewrite !array_loop_S. cbn [f_allow]. rewrite (equals_true_truthy f Hf), Hpv.
    destruct (pv None s) as [[e v] s1]. destruct e; try reflexivity.
    unfold arr_step. destruct (skip_spaces cf fl s1) as [e2 s2]. destruct e2; try reflexivity.
    destruct (eat 93 s2) as [b s3]. destruct b; [reflexivity|].
    destruct (eat 44 s3) as [b s4]. destruct b; [apply IH|reflexivity].
  Qed.

  Lemma object_loop_true : forall fl acc s,
    object_loop cf pv sv fl (Some f) acc s = object_loop cf pv sv fl None acc s.
  Proof.
    induction fl as [|fl IH]; intros acc s; [reflexivity|].
    rewrite !object_loop_S.
    destruct (parse_key cf fl s) as [[e1 key] s1]. destruct e1; try reflexivity.
    destruct (skip_spaces cf fl s1) as [e2 s2]. destruct e2; try reflexivity.
    destruct (eat 58 s2) as [b s3]. destruct b; cbn [negb]; [|reflexivity].
    cbn [f_member]. rewrite Hf. cbn [f_allow]. rewrite (equals_true_truthy f Hf), Hpv.
    destruct (pv None s3) as [[e4 v4] s4]. destruct e4; try reflexivity.
    unfold obj_after. destruct (skip_spaces cf fl s4) as [e5 s5]. destruct e5; try reflexivity.
    destruct (eat 125 s5) as [b s6]. destruct b; [reflexivity|].
    destruct (eat 44 s6) as [b s7]. destruct b; cbn [negb]; [|reflexivity].
    destruct (skip_spaces cf fl s7) as [e8 s8]. destruct e8; try reflexivity.
    apply IH.
  Qed.

  Lemma pv_body_true : forall fuel deep sk s,
    pv_body cf fuel deep pv sv sk (Some f) s = pv_body cf fuel deep pv sv sk None s.
  Proof.
    intros fuel deep sk s. unfold pv_body.
    destruct (skip_spaces cf fuel s) as [e1 s1]. destruct e1; try reflexivity.
    destruct (current s1) as [c s2].
    cbn [f_allow_array f_allow_object f_element]. rewrite Hf. cbn [orb].
    destruct (c =? 91).
    { destruct deep; [reflexivity|].
      destruct (skip_spaces cf fuel (move s2)) as [e3 s3]. destruct e3; try reflexivity.
      destruct (eat 93 s3) as [b s4]. destruct b; [reflexivity|]. apply array_loop_true. }
    destruct (c =? 123).
    { destruct deep; [reflexivity|].
      destruct (skip_spaces cf fuel (move s2)) as [e3 s3]. destruct e3; try reflexivity.
      destruct (eat 125 s3) as [b s4]. destruct b; [reflexivity|]. apply object_loop_true. }
    unfold pv_scalar. cbn [f_allow_value]. rewrite Hf. reflexivity.
  Qed.
End TrueLoops.

Theorem filter_equals_true_identity : forall cf f, equals_true f = true ->
  forall fuel L s, parse_variant cf fuel L (Some f) s = parse_variant cf fuel L None s.
Proof.
  intros cf f Hf fuel L. induction L as [|L IH]; intro s; rewrite !parse_variant_body;
    apply pv_body_true; try exact Hf.
  - intro s0. reflexivity.
  - exact IH.
Qed.

Theorem filter_true_identity : forall cf fuel L s,
  parse_variant cf fuel L (Some (JBool true)) s = parse_variant cf fuel L None s.
Proof. intros cf fuel L s. apply filter_equals_true_identity. reflexivity. Qed.

Corollary json_run_filter_equals_true : forall cf f, equals_true f = true ->
  forall L i, json_run cf (Some f) L i = json_run cf None L i.
Proof. intros cf f Hf L i. unfold json_run. rewrite (filter_equals_true_identity cf f Hf). reflexivity. Qed.

Corollary json_run_filter_true : forall cf L i, json_run cf (Some (JBool true)) L i = json_run cf None L i.
Proof. intros cf L i. apply json_run_filter_equals_true. reflexivity. Qed.

(* ------------------------------------------------------------------------------------- *)
(* Part 2 — the skip path accepts every text of the grammar and consumes exactly it        *)

(* ---- strings: the skipping loop sees a body as plain bytes and backslash pairs ---- *)

Inductive skippable : bytes -> Prop :=
| sk_nil : skippable []
| sk_plain : forall c r, c <> 0 -> c <> 34 -> c <> 92 -> skippable r -> skippable (c :: r)
| sk_esc : forall e r, e <> 0 -> skippable r -> skippable (92 :: e :: r).

Lemma hex_value_plain : forall d v, hex_value d = Some v -> d <> 0 /\ d <> 34 /\ d <> 92.
Proof.
  intros d v H. unfold hex_value in H.
  destruct ((48 <=? d) && (d <=? 57)) eqn:A.
  { apply andb_prop in A as [A1 A2]. apply N.leb_le in A1, A2. lia. }
  destruct ((65 <=? d) && (d <=? 70)) eqn:B.
  { apply andb_prop in B as [B1 B2]. apply N.leb_le in B1, B2. lia. }
  destruct ((97 <=? d) && (d <=? 102)) eqn:C; [|discriminate].
  apply andb_prop in C as [C1 C2]. apply N.leb_le in C1, C2. lia.
Qed.

Lemma uescape_skippable : forall t u, uescape t u -> forall r, skippable r -> skippable (t ++ r).
Proof.
  intros t u H r R. destruct H as [d1 d2 d3 d4 v1 v2 v3 v4 H1 H2 H3 H4].
  destruct (hex_value_plain _ _ H1) as (A1 & B1 & C1).
  destruct (hex_value_plain _ _ H2) as (A2 & B2 & C2).
  destruct (hex_value_plain _ _ H3) as (A3 & B3 & C3).
  destruct (hex_value_plain _ _ H4) as (A4 & B4 & C4).
  cbn [app]. apply sk_esc; [lia|].
  apply sk_plain; auto. apply sk_plain; auto. apply sk_plain; auto. apply sk_plain; auto.
Qed.

Lemma jchar_skippable : forall t b, jchar t b -> forall r, skippable r -> skippable (t ++ r).
Proof.
  intros t b J r R. destruct J as [c C256 C32 C34 C92 | e c HIn | t u UE NS | t1 t2 h l U1 U2 Hh Hl].
  - cbn [app]. apply sk_plain; auto. lia.
  - destruct (simple_escape e c HIn) as (EZ & _). cbn [app]. apply sk_esc; auto.
  - eapply uescape_skippable; eassumption.
  - rewrite <- app_assoc. eapply uescape_skippable; [eassumption|].
    eapply uescape_skippable; eassumption.
Qed.

Lemma jchars_skippable : forall body str, jchars body str -> skippable body.
Proof.
  intros body str J. induction J as [|t1 b1 t2 b2 J1 J2 IH]; [constructor|].
  eapply jchar_skippable; eassumption.
Qed.

Lemma skip_quoted_ok : forall body, skippable body ->
  forall fuel s tail,
    good s -> stream s = body ++ 34 :: tail -> (length body < fuel)%nat ->
    exists s', skip_quoted_loop fuel 34 s = (Ok, s') /\
               good s' /\ stream s' = tail /\ cur s' = None /\ found s' = found s.
Proof.
  intros body K. induction K as [|c r CZ C34 C92 K IH|e r EZ K IH]; intros fuel s tail G S L.
  - cbn [app] in S. destruct fuel as [|fuel]; [cbn in L; lia|].
    assert (Q : 34 <> 0) by lia.
    destruct (next_cons s 34 tail G S Q) as (s1 & E1 & G1 & S1 & C1 & F1).
    cbn [skip_quoted_loop]. rewrite E1, N.eqb_refl. exists (move s1). auto.
  - cbn [app] in S. cbn [length] in L. destruct fuel as [|fuel]; [lia|].
    destruct (next_cons s c _ G S CZ) as (s1 & E1 & G1 & S1 & C1 & F1).
    cbn [skip_quoted_loop]. rewrite E1.
    rewrite (eqb_false _ _ C34), (eqb_false _ _ CZ), (eqb_false _ _ C92).
    destruct (IH fuel (move s1) tail G1 S1 ltac:(lia)) as (s' & E' & G' & S' & C' & F').
    exists s'. splits; auto. congruence.
  - cbn [app] in S. cbn [length] in L. destruct fuel as [|fuel]; [lia|].
    assert (Q : 92 <> 0) by lia.
    destruct (next_cons s 92 _ G S Q) as (s1 & E1 & G1 & S1 & C1 & F1).
    destruct (next_cons (move s1) e _ G1 S1 EZ) as (s2 & E2 & G2 & S2 & C2 & F2).
    cbn [skip_quoted_loop]. rewrite E1.
    change (92 =? 34) with false. change (92 =? 0) with false. change (92 =? 92) with true.
    cbv iota. rewrite E2. rewrite (eqb_false _ _ EZ). cbn [negb].
    destruct (IH fuel (move s2) tail G2 S2 ltac:(lia)) as (s' & E' & G' & S' & C' & F').
    exists s'. splits; auto. congruence.
Qed.

Lemma skip_string_ok : forall t str, jstring t str ->
  forall fuel s tail,
    good s -> stream s = t ++ tail -> (length t <= fuel)%nat ->
    exists s', skip_quoted_string fuel s = (Ok, s') /\
               good s' /\ stream s' = tail /\ cur s' = None /\ found s' = found s.
Proof.
  intros t str (body & -> & J & _) fuel s tail G S L.
  rewrite <- !app_assoc in S. cbn [app] in S.
  rewrite !app_length in L. cbn [length] in L.
  assert (Q : 34 <> 0) by lia.
  destruct (next_cons s 34 _ G S Q) as (s1 & E1 & G1 & S1 & C1 & F1).
  unfold skip_quoted_string. rewrite E1.
  destruct (skip_quoted_ok body (jchars_skippable _ _ J) fuel _ tail G1 S1 ltac:(lia))
    as (s' & E' & G' & S' & C' & F').
  exists s'. splits; auto. congruence.
Qed.

Lemma skip_key_ok : forall t str, jstring t str ->
  forall fuel s tail,
    good s -> stream s = t ++ tail -> (length t <= fuel)%nat ->
    exists s', skip_key fuel s = (Ok, s') /\
               good s' /\ stream s' = tail /\ cur s' = None /\ found s' = found s.
Proof.
  intros t str J fuel s tail G S L.
  pose proof J as (body & Et & _).
  assert (S2 : stream s = 34 :: (body ++ [34]) ++ tail) by (rewrite S, Et; reflexivity).
  assert (Q : 34 <> 0) by lia.
  destruct (current_cons s 34 _ G S2 Q) as (s1 & E1 & G1 & S1 & C1 & F1 & _).
  unfold skip_key. rewrite E1. change (is_quote 34) with true. cbv iota.
  assert (S3 : stream s1 = t ++ tail) by (rewrite S1, Et; reflexivity).
  destruct (skip_string_ok t str J fuel s1 tail G1 S3 L) as (s' & E' & G' & S' & C' & F').
  exists s'. splits; auto. congruence.
Qed.

(* ---- numbers ---- *)

Lemma delimiter_head : forall cf rest, delimiter cf rest -> can_be_in_number cf (hd 0 rest) = false.
Proof.
  intros cf rest D. destruct rest as [|b r]; [apply not_numchar; auto|exact D].
Qed.

Lemma skip_numeric_all : forall cf t, Forall (fun c => can_be_in_number cf c = true) t ->
  forall fuel s rest,
    good s -> stream s = t ++ rest -> delimiter cf rest -> (length t < fuel)%nat ->
    exists s', skip_numeric_loop cf fuel s = (Ok, s') /\ post s' rest /\ found s' = found s /\
               lastc s' = hd 0 rest.
Proof.
  intros cf t FA. induction FA as [|c t Hc FA IH]; intros fuel s rest G S D L.
  - cbn [app] in S. destruct fuel as [|fuel]; [cbn in L; lia|].
    destruct (peek s rest G S) as (s2 & E2 & F2 & P2 & L2 & C2).
    cbn [skip_numeric_loop]. rewrite E2, (delimiter_head cf rest D).
    exists s2. splits; auto.
  - cbn [app] in S. cbn [length] in L. destruct fuel as [|fuel]; [lia|].
    pose proof (numchar_nonzero _ _ Hc) as CZ.
    destruct (next_cons s c _ G S CZ) as (s1 & E1 & G1 & S1 & C1 & F1).
    cbn [skip_numeric_loop]. rewrite E1, Hc.
    destruct (IH fuel _ rest G1 S1 D ltac:(lia)) as (s' & E' & P' & F' & L').
    exists s'. splits; auto. congruence.
Qed.

(* ---- skip_variant, one lemma per kind of first byte ---- *)

Lemma sv_null : forall cf fuel L s s1,
  skip_spaces cf fuel s = (Ok, s1) -> cur s1 = Some 110 ->
  skip_variant cf fuel L s = skip_keyword kw_null s1.
Proof.
  intros cf fuel L s s1 E C. rewrite skip_variant_body. unfold sv_body.
  rewrite E, (current_some _ _ C). reflexivity.
Qed.

Lemma sv_true : forall cf fuel L s s1,
  skip_spaces cf fuel s = (Ok, s1) -> cur s1 = Some 116 ->
  skip_variant cf fuel L s = skip_keyword kw_true s1.
Proof.
  intros cf fuel L s s1 E C. rewrite skip_variant_body. unfold sv_body.
  rewrite E, (current_some _ _ C). reflexivity.
Qed.

Lemma sv_false : forall cf fuel L s s1,
  skip_spaces cf fuel s = (Ok, s1) -> cur s1 = Some 102 ->
  skip_variant cf fuel L s = skip_keyword kw_false s1.
Proof.
  intros cf fuel L s s1 E C. rewrite skip_variant_body. unfold sv_body.
  rewrite E, (current_some _ _ C). reflexivity.
Qed.

Lemma sv_str : forall cf fuel L s s1,
  skip_spaces cf fuel s = (Ok, s1) -> cur s1 = Some 34 ->
  skip_variant cf fuel L s = skip_quoted_string fuel s1.
Proof.
  intros cf fuel L s s1 E C. rewrite skip_variant_body. unfold sv_body.
  rewrite E, (current_some _ _ C). reflexivity.
Qed.

Lemma sv_num : forall cf fuel L s s1 c,
  skip_spaces cf fuel s = (Ok, s1) -> cur s1 = Some c -> num_start c \/ c = 93 ->
  skip_variant cf fuel L s = skip_numeric_loop cf fuel s1.
Proof.
  intros cf fuel L s s1 c E C H. rewrite skip_variant_body. unfold sv_body.
  rewrite E, (current_some _ _ C).
  destruct H as [[->|D]| ->]; try reflexivity.
  apply digit_range in D. unfold is_quote. rewrite !(eqb_false c) by lia. reflexivity.
Qed.

Lemma sv_arr : forall cf fuel L s s1,
  skip_spaces cf fuel s = (Ok, s1) -> cur s1 = Some 91 ->
  skip_variant cf fuel (S L) s = skip_array_loop cf (skip_variant cf fuel L) fuel (move s1).
Proof.
  intros cf fuel L s s1 E C. rewrite skip_variant_body. unfold sv_body.
  rewrite E, (current_some _ _ C). reflexivity.
Qed.

Lemma sv_obj : forall cf fuel L s s1,
  skip_spaces cf fuel s = (Ok, s1) -> cur s1 = Some 123 ->
  skip_variant cf fuel (S L) s =
    match skip_spaces cf fuel (move s1) with
    | (Ok, s) =>
        let '(b, s) := eat 125 s in
        if b then (Ok, s) else skip_object_loop cf (skip_variant cf fuel L) fuel s
    | r => r
    end.
Proof.
  intros cf fuel L s s1 E C. rewrite skip_variant_body. unfold sv_body.
  rewrite E, (current_some _ _ C). reflexivity.
Qed.

(* ---- what follows a value inside a container (pure lexing) ---- *)

Lemma sarr_step_close : forall cf k fl s1 w2 tl,
  ws w2 -> post s1 (w2 ++ 93 :: tl) -> (length w2 < fl)%nat ->
  exists s', sarr_step cf k fl s1 = (Ok, s') /\
             good s' /\ stream s' = tl /\ cur s' = None /\ found s' = true.
Proof.
  intros cf k fl s1 w2 tl W2 P L.
  destruct (post_good s1 w2 93 tl P W2 ltac:(lia)) as (G1 & S1).
  destruct (skip_ws cf w2 W2 fl s1 93 tl G1 S1 ltac:(lia) eq_refl ltac:(lia) L)
    as (s2 & E2 & G2 & S2 & C2 & F2 & _).
  destruct (eat_yes s2 93 tl G2 S2 ltac:(lia)) as (s3 & E3 & G3 & S3 & C3 & F3).
  unfold sarr_step. rewrite E2. cbv beta iota. rewrite E3.
  exists s3. splits; auto. congruence.
Qed.

Lemma sarr_step_comma : forall cf k fl s1 w2 tl,
  ws w2 -> post s1 (w2 ++ 44 :: tl) -> (length w2 < fl)%nat ->
  exists s3, sarr_step cf k fl s1 = k s3 /\
             good s3 /\ stream s3 = tl /\ cur s3 = None /\ found s3 = true.
Proof.
  intros cf k fl s1 w2 tl W2 P L.
  destruct (post_good s1 w2 44 tl P W2 ltac:(lia)) as (G1 & S1).
  destruct (skip_ws cf w2 W2 fl s1 44 tl G1 S1 ltac:(lia) eq_refl ltac:(lia) L)
    as (s2 & E2 & G2 & S2 & C2 & F2 & _).
  destruct (eat_yes s2 44 tl G2 S2 ltac:(lia)) as (s3 & E3 & G3 & S3 & C3 & F3).
  unfold sarr_step. rewrite E2. cbv beta iota.
  rewrite (eat_no_some s2 44 93 C2 ltac:(lia)). cbv beta iota. rewrite E3.
  exists s3. splits; auto. congruence.
Qed.

Definition sobj_entry (cf : cfg) (sv : ps -> code * ps) (fl : nat) (s : ps) : code * ps :=
  match skip_spaces cf fl s with
  | (Ok, s) => skip_object_loop cf sv fl s
  | r => r
  end.

Lemma sobj_after_close : forall cf k fl s1 w4 tl,
  ws w4 -> post s1 (w4 ++ 125 :: tl) -> (length w4 < fl)%nat ->
  exists s', sobj_after cf k fl s1 = (Ok, s') /\
             good s' /\ stream s' = tl /\ cur s' = None /\ found s' = true.
Proof.
  intros cf k fl s1 w4 tl W4 P L.
  destruct (post_good s1 w4 125 tl P W4 ltac:(lia)) as (G1 & S1).
  destruct (skip_ws cf w4 W4 fl s1 125 tl G1 S1 ltac:(lia) eq_refl ltac:(lia) L)
    as (s2 & E2 & G2 & S2 & C2 & F2 & _).
  destruct (eat_yes s2 125 tl G2 S2 ltac:(lia)) as (s3 & E3 & G3 & S3 & C3 & F3).
  unfold sobj_after. rewrite E2. cbv beta iota. rewrite E3.
  exists s3. splits; auto. congruence.
Qed.

Lemma sobj_after_comma : forall cf sv fl s1 w4 tl,
  ws w4 -> post s1 (w4 ++ 44 :: tl) -> (length w4 < fl)%nat ->
  exists s3, sobj_after cf (skip_object_loop cf sv fl) fl s1 = sobj_entry cf sv fl s3 /\
             good s3 /\ stream s3 = tl /\ cur s3 = None /\ found s3 = true.
Proof.
  intros cf sv fl s1 w4 tl W4 P L.
  destruct (post_good s1 w4 44 tl P W4 ltac:(lia)) as (G1 & S1).
  destruct (skip_ws cf w4 W4 fl s1 44 tl G1 S1 ltac:(lia) eq_refl ltac:(lia) L)
    as (s2 & E2 & G2 & S2 & C2 & F2 & _).
  destruct (eat_yes s2 44 tl G2 S2 ltac:(lia)) as (s3 & E3 & G3 & S3 & C3 & F3).
  unfold sobj_after. rewrite E2. cbv beta iota.
  rewrite (eat_no_some s2 44 125 C2 ltac:(lia)). cbv beta iota. rewrite E3. cbn [negb].
  exists s3. splits; auto. congruence.
Qed.

(* the key and the colon of a member *)
Lemma member_head : forall cf, decode_unicode cf = true ->
  forall w1 kt k w2 tl fl s,
    ws w1 -> jstring kt k -> ws w2 ->
    good s -> stream s = w1 ++ kt ++ w2 ++ 58 :: tl ->
    (length (w1 ++ kt ++ w2 ++ 58%N :: tl) < S fl)%nat ->
    exists s1 s2 s3 s4,
      skip_spaces cf (S fl) s = (Ok, s1) /\
      parse_key cf fl s1 = (Ok, k, s2) /\
      skip_spaces cf fl s2 = (Ok, s3) /\ eat 58 s3 = (true, s4) /\
      good s4 /\ stream s4 = tl /\ cur s4 = None /\ found s4 = true.
Proof.
  intros cf DU w1 kt k w2 tl fl s W1 JK W2 G HS LL.
  pose proof JK as (body & Ek & _).
  assert (S0 : stream s = w1 ++ 34 :: ((body ++ [34]) ++ w2 ++ 58 :: tl))
    by (rewrite HS, Ek; reflexivity).
  destruct (skip_ws cf w1 W1 (S fl) s 34 _ G S0 ltac:(lia) eq_refl ltac:(lia) ltac:(lens))
    as (s1 & E1 & G1 & S1 & C1 & F1 & _).
  assert (S1' : stream s1 = kt ++ w2 ++ 58 :: tl) by (rewrite S1, Ek; reflexivity).
  destruct (parse_key_ok cf DU kt k JK fl s1 _ G1 S1' ltac:(lens)) as (s2 & E2 & G2 & S2 & C2 & F2).
  destruct (skip_ws cf w2 W2 fl s2 58 _ G2 S2 ltac:(lia) eq_refl ltac:(lia) ltac:(lens))
    as (s3 & E3 & G3 & S3 & C3 & F3 & _).
  destruct (eat_yes s3 58 _ G3 S3 ltac:(lia)) as (s4 & E4 & G4 & S4 & C4 & F4).
  exists s1, s2, s3, s4. splits; auto. congruence.
Qed.

Lemma smember_head : forall cf,
  forall w1 kt k w2 tl fl s,
    ws w1 -> jstring kt k -> ws w2 ->
    good s -> stream s = w1 ++ kt ++ w2 ++ 58 :: tl ->
    (length (w1 ++ kt ++ w2 ++ 58%N :: tl) < S fl)%nat ->
    exists s1 s2 s3 s4,
      skip_spaces cf (S fl) s = (Ok, s1) /\
      skip_key fl s1 = (Ok, s2) /\
      skip_spaces cf fl s2 = (Ok, s3) /\ eat 58 s3 = (true, s4) /\
      good s4 /\ stream s4 = tl /\ cur s4 = None /\ found s4 = true.
Proof.
  intros cf w1 kt k w2 tl fl s W1 JK W2 G HS LL.
  pose proof JK as (body & Ek & _).
  assert (S0 : stream s = w1 ++ 34 :: ((body ++ [34]) ++ w2 ++ 58 :: tl))
    by (rewrite HS, Ek; reflexivity).
  destruct (skip_ws cf w1 W1 (S fl) s 34 _ G S0 ltac:(lia) eq_refl ltac:(lia) ltac:(lens))
    as (s1 & E1 & G1 & S1 & C1 & F1 & _).
  assert (S1' : stream s1 = kt ++ w2 ++ 58 :: tl) by (rewrite S1, Ek; reflexivity).
  destruct (skip_key_ok kt k JK fl s1 _ G1 S1' ltac:(lens)) as (s2 & E2 & G2 & S2 & C2 & F2).
  destruct (skip_ws cf w2 W2 fl s2 58 _ G2 S2 ltac:(lia) eq_refl ltac:(lia) ltac:(lens))
    as (s3 & E3 & G3 & S3 & C3 & F3 & _).
  destruct (eat_yes s3 58 _ G3 S3 ltac:(lia)) as (s4 & E4 & G4 & S4 & C4 & F4).
  exists s1, s2, s3, s4. splits; auto. congruence.
Qed.

(* ---- the statements proved by mutual induction on the derivation ---- *)

Definition Sv (cf : cfg) (d : nat) (t : bytes) : Prop :=
  forall L fuel s w rest,
    ws w -> (d <= L)%nat -> good s -> stream s = w ++ t ++ rest -> delimiter cf rest ->
    (length (w ++ t ++ rest) < fuel)%nat ->
    exists s', skip_variant cf fuel L s = (Ok, s') /\ post s' rest /\ found s' = true.

Definition Se (cf : cfg) (d : nat) (t : bytes) : Prop :=
  forall L fuel fl s rest,
    (d <= L)%nat -> good s -> stream s = t ++ 93 :: rest ->
    (length (t ++ 93%N :: rest) < fuel)%nat -> (length (t ++ 93%N :: rest) < fl)%nat ->
    exists s', skip_array_loop cf (skip_variant cf fuel L) fl s = (Ok, s') /\
               good s' /\ stream s' = rest /\ cur s' = None /\ found s' = true.

Definition Sm (cf : cfg) (d : nat) (t : bytes) : Prop :=
  forall L fuel fl s rest,
    (d <= L)%nat -> good s -> stream s = t ++ 125 :: rest ->
    (length (t ++ 125%N :: rest) < fuel)%nat -> (length (t ++ 125%N :: rest) < fl)%nat ->
    exists s', sobj_entry cf (skip_variant cf fuel L) fl s = (Ok, s') /\
               good s' /\ stream s' = rest /\ cur s' = None /\ found s' = true.

(* ---- scalars ---- *)

Lemma scase_keyword : forall cf d kw k0 kr,
  kw = k0 :: kr -> vstart k0 -> Forall (fun c => c <> 0) kw ->
  (forall fuel L s s1, skip_spaces cf fuel s = (Ok, s1) -> cur s1 = Some k0 ->
     skip_variant cf fuel L s = skip_keyword kw s1) ->
  Sv cf d kw.
Proof.
  intros cf d kw k0 kr -> V FA U L fuel s w rest W DL G S D LF.
  cbn [app] in S.
  destruct (pv_enter cf w fuel s k0 _ W G S V ltac:(lens)) as (s1 & E1 & G1 & S1 & C1 & F1).
  rewrite (U fuel L s s1 E1 C1).
  destruct (skip_keyword_ok (k0 :: kr) s1 rest FA G1 S1) as (s' & E' & G' & S' & F').
  exists s'. splits; auto.
  - left. auto.
  - congruence.
Qed.

Lemma scase_null : forall cf d, Sv cf d [110; 117; 108; 108].
Proof.
  intros cf d. apply (scase_keyword cf d kw_null 110 [117; 108; 108]); try reflexivity.
  - unfold vstart; tauto.
  - apply nz_list. reflexivity.
  - intros. apply sv_null; assumption.
Qed.

Lemma scase_true : forall cf d, Sv cf d [116; 114; 117; 101].
Proof.
  intros cf d. apply (scase_keyword cf d kw_true 116 [114; 117; 101]); try reflexivity.
  - unfold vstart; tauto.
  - apply nz_list. reflexivity.
  - intros. apply sv_true; assumption.
Qed.

Lemma scase_false : forall cf d, Sv cf d [102; 97; 108; 115; 101].
Proof.
  intros cf d. apply (scase_keyword cf d kw_false 102 [97; 108; 115; 101]); try reflexivity.
  - unfold vstart; tauto.
  - apply nz_list. reflexivity.
  - intros. apply sv_false; assumption.
Qed.

Lemma scase_num : forall cf d t, jnumber t -> Sv cf d t.
Proof.
  intros cf d t J L fuel s w rest W DL G S D LF.
  destruct (jnumber_chars cf t J) as [FA (c & r & Et & NS)].
  assert (S0 : stream s = w ++ c :: (r ++ rest)) by (rewrite S, Et; reflexivity).
  assert (V : vstart c) by (unfold vstart; tauto).
  destruct (pv_enter cf w fuel s c _ W G S0 V ltac:(lens)) as (s1 & E1 & G1 & S1 & C1 & F1).
  rewrite (sv_num cf fuel L s s1 c E1 C1 (or_introl NS)).
  assert (S2 : stream s1 = t ++ rest) by (rewrite S1, Et; reflexivity).
  destruct (skip_numeric_all cf t FA fuel s1 rest G1 S2 D ltac:(lens)) as (s' & E' & P' & F' & L').
  exists s'. splits; auto. congruence.
Qed.

Lemma scase_str : forall cf d t str, jstring t str -> Sv cf d t.
Proof.
  intros cf d t str J L fuel s w rest W DL G S D LF.
  pose proof J as (body & Et & _).
  assert (S0 : stream s = w ++ 34 :: ((body ++ [34]) ++ rest)) by (rewrite S, Et; reflexivity).
  assert (V : vstart 34) by (unfold vstart; tauto).
  destruct (pv_enter cf w fuel s 34 _ W G S0 V ltac:(lens)) as (s1 & E1 & G1 & S1 & C1 & F1).
  rewrite (sv_str cf fuel L s s1 E1 C1).
  assert (S2 : stream s1 = t ++ rest) by (rewrite S1, Et; reflexivity).
  destruct (skip_string_ok t str J fuel s1 rest G1 S2 ltac:(lens)) as (s' & E' & G' & S' & C' & F').
  exists s'. splits; auto.
  - left. auto.
  - congruence.
Qed.

(* ---- arrays ---- *)

Lemma scase_arr_empty : forall cf d w0, ws w0 -> Sv cf (S d) ([91] ++ w0 ++ [93]).
Proof.
  intros cf d w0 W0 L fuel s w rest W DL G HS D LF.
  destruct L as [|L]; [lia|].
  rewrite <- !app_assoc in HS. cbn [app] in HS.
  assert (V : vstart 91) by (unfold vstart; tauto).
  destruct (pv_enter cf w fuel s 91 _ W G HS V ltac:(lens)) as (s1 & E1 & G1 & S1 & C1 & F1).
  rewrite (sv_arr cf fuel L s s1 E1 C1).
  destruct (move_cons s1 91 _ G1 C1 S1) as (G2 & S2 & C2 & F2).
  destruct fuel as [|fuel0]; [lia|]. rewrite skip_array_loop_S.
  (* the element skipper runs on the closing bracket: it consumes nothing *)
  destruct (skip_ws cf w0 W0 (S fuel0) (move s1) 93 rest G2 S2 ltac:(lia) eq_refl ltac:(lia) ltac:(lens))
    as (s3 & E3 & G3 & S3 & C3 & F3 & _).
  rewrite (sv_num cf (S fuel0) L (move s1) s3 93 E3 C3 (or_intror eq_refl)).
  cbn [skip_numeric_loop]. rewrite (current_some _ _ C3).
  rewrite (not_numchar cf 93) by tauto.
  destruct (sarr_step_close cf (skip_array_loop cf (skip_variant cf (S fuel0) L) fuel0) fuel0 s3 [] rest
              ws_nil (or_introl (conj G3 S3)) ltac:(lens)) as (s' & E' & G' & S' & C' & F').
  rewrite E'. exists s'. splits; auto. left; auto.
Qed.

Lemma scase_e_one : forall cf d w1 t w2, ws w1 -> Sv cf d t -> ws w2 -> Se cf d (w1 ++ t ++ w2).
Proof.
  intros cf d w1 t w2 W1 IH W2 L fuel fl s rest DL G S LF LL.
  rewrite <- !app_assoc in S, LF, LL.
  destruct fl as [|fl]; [lia|]. rewrite skip_array_loop_S.
  destruct (IH L fuel s w1 (w2 ++ 93 :: rest) W1 DL G S
              (delimiter_ws_then cf w2 93 rest W2 ltac:(tauto)) LF) as (s1 & E1 & P1 & F1).
  rewrite E1.
  destruct (sarr_step_close cf (skip_array_loop cf (skip_variant cf fuel L) fl) fl s1 w2 rest W2 P1
              ltac:(lens)) as (s' & E' & R').
  rewrite E'. exists s'. auto.
Qed.

Lemma scase_e_cons : forall cf d w1 t w2 r,
  ws w1 -> Sv cf d t -> ws w2 -> Se cf d r -> Se cf d (w1 ++ t ++ w2 ++ [44] ++ r).
Proof.
  intros cf d w1 t w2 r W1 IHv W2 IHr L fuel fl s rest DL G S LF LL.
  rewrite <- !app_assoc in S, LF, LL. cbn [app] in S, LF, LL.
  destruct fl as [|fl]; [lia|]. rewrite skip_array_loop_S.
  destruct (IHv L fuel s w1 (w2 ++ 44 :: r ++ 93 :: rest) W1 DL G S
              (delimiter_ws_then cf w2 44 _ W2 ltac:(tauto)) LF) as (s1 & E1 & P1 & F1).
  rewrite E1.
  destruct (sarr_step_comma cf (skip_array_loop cf (skip_variant cf fuel L) fl) fl s1 w2 _ W2 P1
              ltac:(lens)) as (s3 & E3 & G3 & S3 & C3 & F3).
  rewrite E3.
  apply (IHr L fuel fl s3 rest DL G3 S3); lens.
Qed.

Lemma scase_arr : forall cf d te, Se cf d te -> Sv cf (S d) ([91] ++ te ++ [93]).
Proof.
  intros cf d te IH L fuel s w rest W DL G HS D LF.
  destruct L as [|L]; [lia|].
  rewrite <- !app_assoc in HS. cbn [app] in HS.
  assert (V : vstart 91) by (unfold vstart; tauto).
  destruct (pv_enter cf w fuel s 91 _ W G HS V ltac:(lens)) as (s1 & E1 & G1 & S1 & C1 & F1).
  rewrite (sv_arr cf fuel L s s1 E1 C1).
  destruct (move_cons s1 91 _ G1 C1 S1) as (G2 & S2 & C2 & F2).
  destruct (IH L fuel fuel (move s1) rest ltac:(lia) G2 S2 ltac:(lens) ltac:(lens))
    as (s' & E' & G' & S' & C' & F').
  exists s'. splits; auto. left; auto.
Qed.

(* ---- objects ---- *)

Lemma scase_obj_empty : forall cf d w0, ws w0 -> Sv cf (S d) ([123] ++ w0 ++ [125]).
Proof.
  intros cf d w0 W0 L fuel s w rest W DL G HS D LF.
  destruct L as [|L]; [lia|].
  rewrite <- !app_assoc in HS. cbn [app] in HS.
  assert (V : vstart 123) by (unfold vstart; tauto).
  destruct (pv_enter cf w fuel s 123 _ W G HS V ltac:(lens)) as (s1 & E1 & G1 & S1 & C1 & F1).
  rewrite (sv_obj cf fuel L s s1 E1 C1).
  destruct (move_cons s1 123 _ G1 C1 S1) as (G2 & S2 & C2 & F2).
  destruct (skip_ws cf w0 W0 fuel (move s1) 125 rest G2 S2 ltac:(lia) eq_refl ltac:(lia) ltac:(lens))
    as (s3 & E3 & G3 & S3 & C3 & F3 & _).
  rewrite E3. cbv beta iota.
  destruct (eat_yes s3 125 rest G3 S3 ltac:(lia)) as (s4 & E4 & G4 & S4 & C4 & F4).
  rewrite E4. exists s4. splits; auto.
  - left; auto.
  - congruence.
Qed.

Lemma scase_m_one : forall cf d w1 kt k w2 w3 t w4,
  ws w1 -> jstring kt k -> ws w2 -> ws w3 -> Sv cf d t -> ws w4 ->
  Sm cf d (w1 ++ kt ++ w2 ++ [58] ++ w3 ++ t ++ w4).
Proof.
  intros cf d w1 kt k w2 w3 t w4 W1 JK W2 W3 IH W4 L fuel fl s rest DL G HS LF LL.
  rewrite <- !app_assoc in HS, LF, LL. cbn [app] in HS, LF, LL.
  destruct fl as [|fl]; [lia|].
  destruct (smember_head cf w1 kt k w2 _ fl s W1 JK W2 G HS LL)
    as (s1 & s2 & s3 & s4 & E1 & E2 & E3 & E4 & G4 & S4 & C4 & F4).
  unfold sobj_entry. rewrite E1, skip_object_loop_S, E2, E3. cbv beta iota. rewrite E4. cbn [negb].
  destruct (IH L fuel s4 w3 (w4 ++ 125 :: rest) W3 DL G4 S4
              (delimiter_ws_then cf w4 125 rest W4 ltac:(tauto)) ltac:(lens)) as (s5 & E5 & P5 & F5).
  rewrite E5.
  destruct (sobj_after_close cf (skip_object_loop cf (skip_variant cf fuel L) fl) fl s5 w4 rest W4 P5
              ltac:(lens)) as (s' & E' & R').
  rewrite E'. exists s'. auto.
Qed.

Lemma scase_m_cons : forall cf d w1 kt k w2 w3 t w4 r,
  ws w1 -> jstring kt k -> ws w2 -> ws w3 -> Sv cf d t -> ws w4 -> Sm cf d r ->
  Sm cf d (w1 ++ kt ++ w2 ++ [58] ++ w3 ++ t ++ w4 ++ [44] ++ r).
Proof.
  intros cf d w1 kt k w2 w3 t w4 r W1 JK W2 W3 IHv W4 IHr L fuel fl s rest DL G HS LF LL.
  rewrite <- !app_assoc in HS, LF, LL. cbn [app] in HS, LF, LL.
  destruct fl as [|fl]; [lia|].
  destruct (smember_head cf w1 kt k w2 _ fl s W1 JK W2 G HS LL)
    as (s1 & s2 & s3 & s4 & E1 & E2 & E3 & E4 & G4 & S4 & C4 & F4).
  unfold sobj_entry at 1. rewrite E1, skip_object_loop_S, E2, E3. cbv beta iota. rewrite E4. cbn [negb].
  destruct (IHv L fuel s4 w3 (w4 ++ 44 :: r ++ 125 :: rest) W3 DL G4 S4
              (delimiter_ws_then cf w4 44 _ W4 ltac:(tauto)) ltac:(lens)) as (s5 & E5 & P5 & F5).
  rewrite E5.
  destruct (sobj_after_comma cf (skip_variant cf fuel L) fl s5 w4 _ W4 P5 ltac:(lens))
    as (s7 & E7 & G7 & S7 & C7 & F7).
  rewrite E7.
  apply (IHr L fuel fl s7 rest DL G7 S7); lens.
Qed.

Lemma scase_obj : forall cf nd d te ms,
  jmembersD nd d te ms -> Sm cf d te -> Sv cf (S d) ([123] ++ te ++ [125]).
Proof.
  intros cf nd d te ms J IH L fuel s w rest W DL G HS D LF.
  destruct L as [|L]; [lia|].
  rewrite <- !app_assoc in HS. cbn [app] in HS.
  assert (V : vstart 123) by (unfold vstart; tauto).
  destruct (pv_enter cf w fuel s 123 _ W G HS V ltac:(lens)) as (s1 & E1 & G1 & S1 & C1 & F1).
  rewrite (sv_obj cf fuel L s s1 E1 C1).
  destruct (move_cons s1 123 _ G1 C1 S1) as (G2 & S2 & C2 & F2).
  destruct (jmembersD_head _ _ _ _ J) as (w1 & r & W1 & Ete).
  assert (S2' : stream (move s1) = w1 ++ 34 :: (r ++ 125 :: rest))
    by (rewrite S2, Ete, <- app_assoc; reflexivity).
  assert (LW : (length w1 < fuel)%nat) by (rewrite Ete in LF; lens).
  destruct (skip_ws cf w1 W1 fuel (move s1) 34 _ G2 S2' ltac:(lia) eq_refl ltac:(lia) LW)
    as (s3 & E3 & G3 & S3 & C3 & F3 & _).
  rewrite E3. cbv beta iota.
  rewrite (eat_no_some s3 34 125 C3 ltac:(lia)). cbv beta iota.
  destruct (IH L fuel fuel (move s1) rest ltac:(lia) G2 S2 ltac:(lens) ltac:(lens))
    as (s' & E' & G' & S' & C' & F').
  unfold sobj_entry in E'. rewrite E3 in E'.
  rewrite E'. exists s'. splits; auto. left; auto.
Qed.

(* ---- tying the knot ---- *)

Lemma skip_all : forall cf nd,
  (forall d t v, jvalueD nd d t v -> Sv cf d t) /\
  (forall d t vs, jelementsD nd d t vs -> Se cf d t) /\
  (forall d t ms, jmembersD nd d t ms -> Sm cf d t).
Proof.
  intros cf nd.
  apply (jvalueD_mutind nd (fun d t _ => Sv cf d t) (fun d t _ => Se cf d t) (fun d t _ => Sm cf d t)).
  - intro d. apply scase_null.
  - intro d. apply scase_true.
  - intro d. apply scase_false.
  - intros d t v J N. apply scase_num; assumption.
  - intros d t s J. eapply scase_str; eassumption.
  - intros d w W. apply scase_arr_empty; assumption.
  - intros d t vs J IH. apply scase_arr; assumption.
  - intros d w W. apply scase_obj_empty; assumption.
  - intros d t ms J IH. eapply scase_obj; eassumption.
  - intros d w1 t v w2 W1 _ IH W2. apply scase_e_one; assumption.
  - intros d w1 t v w2 r vs W1 _ IHv W2 _ IHr. apply scase_e_cons; assumption.
  - intros d w1 kt k w2 w3 t v w4 W1 JK W2 W3 _ IH W4. eapply scase_m_one; eassumption.
  - intros d w1 kt k w2 w3 t v w4 r ms W1 JK W2 W3 _ IHv W4 _ IHr. eapply scase_m_cons; eassumption.
Qed.

Theorem skip_variant_complete_ws : forall cf nd d t v, jvalueD nd d t v ->
  forall L fuel s w rest,
    ws w -> (d <= L)%nat -> good s -> stream s = w ++ t ++ rest -> delimiter cf rest ->
    (length (w ++ t ++ rest) < fuel)%nat ->
    exists s', skip_variant cf fuel L s = (Ok, s') /\ post s' rest /\ found s' = true.
Proof. intros cf nd d t v J. exact (proj1 (skip_all cf nd) d t v J). Qed.

Theorem skip_variant_complete : forall cf, decode_unicode cf = true ->
  forall d t v, jvalueD (num_den cf) d t v ->
  forall L fuel s rest, (d <= L)%nat -> good s -> stream s = t ++ rest -> delimiter cf rest ->
    (length (t ++ rest) < fuel)%nat ->
    exists s', skip_variant cf fuel L s = (Ok, s') /\ post s' rest /\ found s' = true.
Proof.
  intros cf _ d t v J L fuel s rest DL G HS D LF.
  exact (skip_variant_complete_ws cf (num_den cf) d t v J L fuel s [] rest ws_nil DL G HS D LF).
Qed.

(* ------------------------------------------------------------------------------------- *)
(* Part 3 — reading with a filter = projecting the unfiltered value                         *)

(* ---- the projection, equation by equation ---- *)

Fixpoint pgo (fl ms : list (bytes * jv)) : list (bytes * jv) :=
  match ms with
  | [] => []
  | (k, x) :: ms' =>
      match entry_for fl k with
      | Some e => if truthy e then (k, project e x) :: pgo fl ms' else pgo fl ms'
      | None => pgo fl ms'
      end
  end.

Lemma project_obj : forall fl ms, project (JObj fl) (JObj ms) = JObj (pgo fl ms).
Proof.
  intros fl ms. cbn [project equals_true]. f_equal.
  induction ms as [|[k x] ms IH]; [reflexivity|].
  cbn [pgo]. rewrite <- IH. reflexivity.
Qed.

Lemma project_true : forall f v, equals_true f = true -> project f v = v.
Proof. intros f v H. destruct v; cbn [project]; rewrite H; reflexivity. Qed.

Definition is_scalar (v : jv) : bool := match v with JArr _ | JObj _ => false | _ => true end.

Lemma project_scalar : forall f v, equals_true f = false -> is_scalar v = true -> project f v = JNull.
Proof. intros f v H K. destruct v; try discriminate K; cbn [project]; rewrite H; reflexivity. Qed.

Lemma project_arr : forall f vs, equals_true f = false ->
  project f (JArr vs) =
  match f with
  | JArr (e :: _) => if truthy e then JArr (map (project e) vs) else JArr []
  | JArr [] => JArr []
  | _ => JNull
  end.
Proof. intros f vs H. cbn [project]. rewrite H. reflexivity. Qed.

Lemma project_obj_other : forall f ms, equals_true f = false -> is_obj f = false ->
  project f (JObj ms) = JNull.
Proof. intros f ms H K. cbn [project]. rewrite H. destruct f; try reflexivity. discriminate K. Qed.

(* the filter applied to the member k of an object under the filter {fl} *)
Definition mfilt (fl : list (bytes * jv)) (k : bytes) : jv :=
  or_star (JObj fl) (obj_member (JObj fl) k).

Lemma f_member_obj : forall fl k, f_member (Some (JObj fl)) k = Some (mfilt fl k).
Proof. reflexivity. Qed.

Lemma mfilt_entry : forall fl k,
  mfilt fl k = match entry_for fl k with Some e => e | None => JNull end.
Proof.
  intros fl k. unfold mfilt, or_star, obj_member, entry_for, star, star_key.
  destruct (assoc_get k fl); reflexivity.
Qed.

Lemma pgo_cons : forall fl k x ms,
  pgo fl ((k, x) :: ms) =
  if truthy (mfilt fl k) then (k, project (mfilt fl k) x) :: pgo fl ms else pgo fl ms.
Proof.
  intros fl k x ms. cbn [pgo]. rewrite mfilt_entry. destruct (entry_for fl k); reflexivity.
Qed.

Lemma beq_refl : forall k, bytes_eqb k k = true.
Proof. intro k. apply bytes_eqb_eq. reflexivity. Qed.

(* projecting commutes with the merge of repeated keys: both occurrences of a key get the same
   entry of the filter, so they are kept or dropped together *)
Lemma pgo_assoc_set : forall fl k v acc,
  pgo fl (assoc_set k v acc) =
  if truthy (mfilt fl k) then assoc_set k (project (mfilt fl k) v) (pgo fl acc) else pgo fl acc.
Proof.
  intros fl k v acc. induction acc as [|[k' v'] acc IH].
  - cbn [assoc_set]. rewrite pgo_cons. cbn [pgo assoc_set]. reflexivity.
  - cbn [assoc_set]. destruct (bytes_eqb k k') eqn:E.
    + apply bytes_eqb_eq in E. subst k'. rewrite !pgo_cons.
      destruct (truthy (mfilt fl k)); [|reflexivity].
      cbn [assoc_set]. rewrite beq_refl. reflexivity.
    + rewrite !pgo_cons, IH.
      destruct (truthy (mfilt fl k)), (truthy (mfilt fl k')); cbn [assoc_set]; rewrite ?E; reflexivity.
Qed.

Lemma pgo_obj_den : forall fl ms acc,
  pgo fl (obj_den ms acc) = obj_den (pgo fl ms) (pgo fl acc).
Proof.
  intros fl ms. induction ms as [|[k v] ms IH]; intro acc; [reflexivity|].
  unfold obj_den in *. cbn [fold_left fst snd]. rewrite IH, pgo_assoc_set, pgo_cons.
  destruct (truthy (mfilt fl k)); reflexivity.
Qed.

Lemma num_den_is_scalar : forall cf t v, num_den cf t v -> is_scalar v = true.
Proof.
  intros cf t v [_ H]. destruct (parse_number cf t); cbn [jv_of_number] in H; try discriminate;
    injection H as <-; try reflexivity.
  unfold jv_of_double. destruct (use_double cf); [|reflexivity].
  match goal with |- context [if ?b then _ else _] => destruct b end; reflexivity.
Qed.

(* ---- parse_variant under a filter that is not `true`, by kind of first byte ---- *)

Lemma pvf_scalar : forall cf fuel L f s s1 c,
  equals_true f = false ->
  skip_spaces cf fuel s = (Ok, s1) -> cur s1 = Some c -> c <> 91 -> c <> 123 ->
  parse_variant cf fuel L (Some f) s = lift (skip_variant cf fuel L s).
Proof.
  intros cf fuel L f s s1 c Hf E C N91 N123.
  rewrite parse_variant_body, skip_variant_body. unfold pv_body, sv_body.
  rewrite E, (current_some _ _ C). rewrite (eqb_false _ _ N91), (eqb_false _ _ N123).
  unfold pv_scalar. cbn [f_allow_value]. rewrite Hf.
  destruct (is_quote c); [reflexivity|].
  destruct (c =? 116). { unfold lift. destruct (skip_keyword kw_true s1). reflexivity. }
  destruct (c =? 102). { unfold lift. destruct (skip_keyword kw_false s1). reflexivity. }
  destruct (c =? 110); reflexivity.
Qed.

Lemma pvf_skip_container : forall cf fuel L f s s1 c,
  equals_true f = false ->
  skip_spaces cf fuel s = (Ok, s1) -> cur s1 = Some c ->
  (c = 91 /\ is_arr f = false) \/ (c = 123 /\ is_obj f = false) ->
  parse_variant cf fuel L (Some f) s = lift (skip_variant cf fuel L s1).
Proof.
  intros cf fuel L f s s1 c Hf E C H.
  rewrite parse_variant_body. unfold pv_body.
  rewrite E, (current_some _ _ C).
  destruct H as [[-> K]|[-> K]]; cbn [N.eqb Pos.eqb f_allow_array f_allow_object];
    rewrite Hf, K; reflexivity.
Qed.

Lemma pvf_arr : forall cf fuel L fl s s1,
  skip_spaces cf fuel s = (Ok, s1) -> cur s1 = Some 91 ->
  parse_variant cf fuel (S L) (Some (JArr fl)) s =
    match skip_spaces cf fuel (move s1) with
    | (Ok, s) =>
        let '(b, s) := eat 93 s in
        if b then (Ok, JArr [], s)
        else array_loop cf (parse_variant cf fuel L) (skip_variant cf fuel L) fuel
                        (Some (hd JNull fl)) [] s
    | (e, s) => (e, JArr [], s)
    end.
Proof.
  intros cf fuel L fl s s1 E C. rewrite parse_variant_body. unfold pv_body.
  rewrite E, (current_some _ _ C). destruct fl; reflexivity.
Qed.

Lemma pvf_obj : forall cf fuel L fl s s1,
  skip_spaces cf fuel s = (Ok, s1) -> cur s1 = Some 123 ->
  parse_variant cf fuel (S L) (Some (JObj fl)) s =
    match skip_spaces cf fuel (move s1) with
    | (Ok, s) =>
        let '(b, s) := eat 125 s in
        if b then (Ok, JObj [], s)
        else object_loop cf (parse_variant cf fuel L) (skip_variant cf fuel L) fuel
                         (Some (JObj fl)) [] s
    | (e, s) => (e, JObj [], s)
    end.
Proof.
  intros cf fuel L fl s s1 E C. rewrite parse_variant_body. unfold pv_body.
  rewrite E, (current_some _ _ C). reflexivity.
Qed.

Lemma sv_skip_eq : forall cf fuel L s s1 c,
  skip_spaces cf fuel s = (Ok, s1) -> cur s1 = Some c -> found s1 = true -> vstart c ->
  skip_variant cf fuel L s1 = skip_variant cf fuel L s.
Proof.
  intros cf fuel L s s1 c E C F V. destruct (vstart_props c V) as (A & B & D & _).
  destruct fuel as [|fuel]; [discriminate E|].
  rewrite !skip_variant_body. unfold sv_body.
  rewrite E, (skip_fix cf fuel s1 c C F A B D). reflexivity.
Qed.

Lemma array_loop_skip_gen : forall cf fuel L fl ef acc s s1 c,
  skip_spaces cf fuel s = (Ok, s1) -> cur s1 = Some c -> found s1 = true -> vstart c ->
  array_loop cf (parse_variant cf fuel L) (skip_variant cf fuel L) (S fl) ef acc s1 =
  array_loop cf (parse_variant cf fuel L) (skip_variant cf fuel L) (S fl) ef acc s.
Proof.
  intros cf fuel L fl ef acc s s1 c E C F V. rewrite !array_loop_S.
  rewrite (pv_skip_eq cf fuel L ef s s1 c E C F V), (sv_skip_eq cf fuel L s s1 c E C F V).
  reflexivity.
Qed.

(* an element filter that is not true-ish: every element is skipped *)
Lemma array_loop_noallow : forall cf pv sv ef, f_allow ef = false ->
  forall fl acc s,
    array_loop cf pv sv fl ef acc s =
    (let '(e, s') := skip_array_loop cf sv fl s in (e, JArr acc, s')).
Proof.
  intros cf pv sv ef H. induction fl as [|fl IH]; intros acc s; [reflexivity|].
  rewrite array_loop_S, skip_array_loop_S, H.
  destruct (sv s) as [e1 s1]. destruct e1; try reflexivity.
  unfold arr_step, sarr_step.
  destruct (skip_spaces cf fl s1) as [e2 s2]. destruct e2; try reflexivity.
  destruct (eat 93 s2) as [b s3]. destruct b; [reflexivity|].
  destruct (eat 44 s3) as [b s4]. destruct b; [apply IH|reflexivity].
Qed.

(* ---- what follows a value inside a container (pure lexing), parsing loops ---- *)

Lemma arr_step_close : forall cf k fl acc s1 w2 tl,
  ws w2 -> post s1 (w2 ++ 93 :: tl) -> (length w2 < fl)%nat ->
  exists s', arr_step cf k fl acc s1 = (Ok, JArr acc, s') /\
             good s' /\ stream s' = tl /\ cur s' = None /\ found s' = true.
Proof.
  intros cf k fl acc s1 w2 tl W2 P L.
  destruct (post_good s1 w2 93 tl P W2 ltac:(lia)) as (G1 & S1).
  destruct (skip_ws cf w2 W2 fl s1 93 tl G1 S1 ltac:(lia) eq_refl ltac:(lia) L)
    as (s2 & E2 & G2 & S2 & C2 & F2 & _).
  destruct (eat_yes s2 93 tl G2 S2 ltac:(lia)) as (s3 & E3 & G3 & S3 & C3 & F3).
  unfold arr_step. rewrite E2. cbv beta iota. rewrite E3.
  exists s3. splits; auto. congruence.
Qed.

Lemma arr_step_comma : forall cf k fl acc s1 w2 tl,
  ws w2 -> post s1 (w2 ++ 44 :: tl) -> (length w2 < fl)%nat ->
  exists s3, arr_step cf k fl acc s1 = k acc s3 /\
             good s3 /\ stream s3 = tl /\ cur s3 = None /\ found s3 = true.
Proof.
  intros cf k fl acc s1 w2 tl W2 P L.
  destruct (post_good s1 w2 44 tl P W2 ltac:(lia)) as (G1 & S1).
  destruct (skip_ws cf w2 W2 fl s1 44 tl G1 S1 ltac:(lia) eq_refl ltac:(lia) L)
    as (s2 & E2 & G2 & S2 & C2 & F2 & _).
  destruct (eat_yes s2 44 tl G2 S2 ltac:(lia)) as (s3 & E3 & G3 & S3 & C3 & F3).
  unfold arr_step. rewrite E2. cbv beta iota.
  rewrite (eat_no_some s2 44 93 C2 ltac:(lia)). cbv beta iota. rewrite E3.
  exists s3. splits; auto. congruence.
Qed.

Lemma obj_after_close : forall cf k fl acc s1 w4 tl,
  ws w4 -> post s1 (w4 ++ 125 :: tl) -> (length w4 < fl)%nat ->
  exists s', obj_after cf k fl acc s1 = (Ok, JObj acc, s') /\
             good s' /\ stream s' = tl /\ cur s' = None /\ found s' = true.
Proof.
  intros cf k fl acc s1 w4 tl W4 P L.
  destruct (post_good s1 w4 125 tl P W4 ltac:(lia)) as (G1 & S1).
  destruct (skip_ws cf w4 W4 fl s1 125 tl G1 S1 ltac:(lia) eq_refl ltac:(lia) L)
    as (s2 & E2 & G2 & S2 & C2 & F2 & _).
  destruct (eat_yes s2 125 tl G2 S2 ltac:(lia)) as (s3 & E3 & G3 & S3 & C3 & F3).
  unfold obj_after. rewrite E2. cbv beta iota. rewrite E3.
  exists s3. splits; auto. congruence.
Qed.

Lemma obj_after_comma : forall cf pv sv f fl acc s1 w4 tl,
  ws w4 -> post s1 (w4 ++ 44 :: tl) -> (length w4 < fl)%nat ->
  exists s3, obj_after cf (object_loop cf pv sv fl f) fl acc s1 = obj_entry cf pv sv fl f acc s3 /\
             good s3 /\ stream s3 = tl /\ cur s3 = None /\ found s3 = true.
Proof.
  intros cf pv sv f fl acc s1 w4 tl W4 P L.
  destruct (post_good s1 w4 44 tl P W4 ltac:(lia)) as (G1 & S1).
  destruct (skip_ws cf w4 W4 fl s1 44 tl G1 S1 ltac:(lia) eq_refl ltac:(lia) L)
    as (s2 & E2 & G2 & S2 & C2 & F2 & _).
  destruct (eat_yes s2 44 tl G2 S2 ltac:(lia)) as (s3 & E3 & G3 & S3 & C3 & F3).
  unfold obj_after. rewrite E2. cbv beta iota.
  rewrite (eat_no_some s2 44 125 C2 ltac:(lia)). cbv beta iota. rewrite E3. cbn [negb].
  exists s3. splits; auto. congruence.
Qed.

(* ---- the statements proved by mutual induction on the derivation ---- *)

Definition Fconcl (cf : cfg) (d : nat) (t : bytes) (v : jv) (f : jv) : Prop :=
  forall L fuel s w rest,
    ws w -> (d <= L)%nat -> good s -> stream s = w ++ t ++ rest -> delimiter cf rest ->
    (length (w ++ t ++ rest) < fuel)%nat ->
    exists s', parse_variant cf fuel L (Some f) s = (Ok, project f v, s') /\ post s' rest /\
               found s' = true /\ (is_number (project f v) = true -> lastc s' = hd 0 rest).

Definition Fv (cf : cfg) (d : nat) (t : bytes) (v : jv) : Prop := forall f, Fconcl cf d t v f.

Definition Fe (cf : cfg) (d : nat) (t : bytes) (vs : list jv) : Prop :=
  forall e L fuel fl s rest acc,
    truthy e = true ->
    (d <= L)%nat -> good s -> stream s = t ++ 93 :: rest ->
    (length (t ++ 93%N :: rest) < fuel)%nat -> (length (t ++ 93%N :: rest) < fl)%nat ->
    exists s', array_loop cf (parse_variant cf fuel L) (skip_variant cf fuel L) fl (Some e) acc s
                 = (Ok, JArr (acc ++ map (project e) vs), s') /\
               good s' /\ stream s' = rest /\ cur s' = None /\ found s' = true.

Definition Fm (cf : cfg) (d : nat) (t : bytes) (ms : list (bytes * jv)) : Prop :=
  forall flt L fuel fl s rest acc,
    (d <= L)%nat -> good s -> stream s = t ++ 125 :: rest ->
    (length (t ++ 125%N :: rest) < fuel)%nat -> (length (t ++ 125%N :: rest) < fl)%nat ->
    exists s', obj_entry cf (parse_variant cf fuel L) (skip_variant cf fuel L) fl (Some (JObj flt)) acc s
                 = (Ok, JObj (obj_den (pgo flt ms) acc), s') /\
               good s' /\ stream s' = rest /\ cur s' = None /\ found s' = true.

(* a filter that equals true: the unfiltered reader *)
Lemma fconcl_true : forall cf, decode_unicode cf = true ->
  forall d t v, jvalueD (num_den cf) d t v ->
  forall f, equals_true f = true -> Fconcl cf d t v f.
Proof.
  intros cf DU d t v J f Hf L fuel s w rest W DL G HS D LF.
  rewrite (filter_equals_true_identity cf f Hf), (project_true f v Hf).
  exact (parse_variant_complete_ws cf DU d t v J L fuel s w rest W DL G HS D LF).
Qed.

(* a scalar under a filter that is not true: skipped, null *)
Lemma fconcl_scalar : forall cf nd d t v c r,
  jvalueD nd d t v -> t = c :: r -> vstart c -> c <> 91 -> c <> 123 -> is_scalar v = true ->
  forall f, equals_true f = false -> Fconcl cf d t v f.
Proof.
  intros cf nd d t v c r J Et V N91 N123 SC f Hf L fuel s w rest W DL G HS D LF.
  assert (S0 : stream s = w ++ c :: (r ++ rest)) by (rewrite HS, Et; reflexivity).
  destruct (pv_enter cf w fuel s c _ W G S0 V ltac:(lens)) as (s1 & E1 & G1 & S1 & C1 & F1).
  rewrite (pvf_scalar cf fuel L f s s1 c Hf E1 C1 N91 N123), (project_scalar f v Hf SC).
  destruct (skip_variant_complete_ws cf nd d t v J L fuel s w rest W DL G HS D LF)
    as (s' & E' & P' & F').
  rewrite E'. exists s'. splits; auto. discriminate.
Qed.

(* a container under a filter of another kind: skipped, null *)
Lemma fconcl_container_skip : forall cf nd d t v c r f,
  jvalueD nd d t v -> t = c :: r ->
  (c = 91 /\ is_arr f = false) \/ (c = 123 /\ is_obj f = false) ->
  equals_true f = false -> project f v = JNull -> Fconcl cf d t v f.
Proof.
  intros cf nd d t v c r f J Et HC Hf PN L fuel s w rest W DL G HS D LF.
  assert (V : vstart c) by (unfold vstart; destruct HC as [[-> _]|[-> _]]; tauto).
  assert (S0 : stream s = w ++ c :: (r ++ rest)) by (rewrite HS, Et; reflexivity).
  destruct (pv_enter cf w fuel s c _ W G S0 V ltac:(lens)) as (s1 & E1 & G1 & S1 & C1 & F1).
  rewrite (pvf_skip_container cf fuel L f s s1 c Hf E1 C1 HC), PN.
  assert (S2 : stream s1 = [] ++ t ++ rest) by (rewrite S1, Et; reflexivity).
  destruct (skip_variant_complete_ws cf nd d t v J L fuel s1 [] rest ws_nil DL G1 S2 D ltac:(lens))
    as (s' & E' & P' & F').
  rewrite E'. exists s'. splits; auto. discriminate.
Qed.

(* ---- scalars ---- *)

Lemma fcase_scalar : forall cf, decode_unicode cf = true ->
  forall d t v c r, jvalueD (num_den cf) d t v -> t = c :: r -> vstart c -> c <> 91 -> c <> 123 ->
  is_scalar v = true -> Fv cf d t v.
Proof.
  intros cf DU d t v c r J Et V N91 N123 SC f.
  destruct (equals_true f) eqn:Hf.
  - apply fconcl_true; assumption.
  - eapply fconcl_scalar; eassumption.
Qed.

Lemma fcase_null : forall cf, decode_unicode cf = true ->
  forall d, Fv cf d [110; 117; 108; 108] JNull.
Proof.
  intros cf DU d. eapply (fcase_scalar cf DU d _ _ 110); try reflexivity; try lia.
  - constructor.
  - unfold vstart; tauto.
Qed.

Lemma fcase_true : forall cf, decode_unicode cf = true ->
  forall d, Fv cf d [116; 114; 117; 101] (JBool true).
Proof.
  intros cf DU d. eapply (fcase_scalar cf DU d _ _ 116); try reflexivity; try lia.
  - constructor.
  - unfold vstart; tauto.
Qed.

Lemma fcase_false : forall cf, decode_unicode cf = true ->
  forall d, Fv cf d [102; 97; 108; 115; 101] (JBool false).
Proof.
  intros cf DU d. eapply (fcase_scalar cf DU d _ _ 102); try reflexivity; try lia.
  - constructor.
  - unfold vstart; tauto.
Qed.

Lemma fcase_num : forall cf, decode_unicode cf = true ->
  forall d t v, jnumber t -> num_den cf t v -> Fv cf d t v.
Proof.
  intros cf DU d t v J N.
  destruct (jnumber_chars cf t J) as [_ (c & r & Et & NS)].
  assert (R : c = 45 \/ 48 <= c <= 57).
  { destruct NS as [->|Dg]; [left; reflexivity|right; apply digit_range; exact Dg]. }
  apply (fcase_scalar cf DU d t v c r); auto; try lia.
  - apply vd_num; assumption.
  - unfold vstart; tauto.
  - eapply num_den_is_scalar; eassumption.
Qed.

Lemma fcase_str : forall cf, decode_unicode cf = true ->
  forall d t str, jstring t str -> Fv cf d t (JStr str).
Proof.
  intros cf DU d t str J. pose proof J as (body & Et & _).
  apply (fcase_scalar cf DU d t (JStr str) 34 (body ++ [34])); auto; try lia.
  - apply vd_str; assumption.
  - unfold vstart; tauto.
Qed.

(* ---- arrays ---- *)

Lemma fcase_arr_empty : forall cf, decode_unicode cf = true ->
  forall d w0, ws w0 -> Fv cf (S d) ([91] ++ w0 ++ [93]) (JArr []).
Proof.
  intros cf DU d w0 W0 f.
  pose proof (vd_arr_empty (num_den cf) d w0 W0) as J.
  destruct (equals_true f) eqn:Hf; [apply fconcl_true; assumption|].
  destruct (is_arr f) eqn:IA.
  2:{ apply (fconcl_container_skip cf _ _ _ _ 91 (w0 ++ [93]) f J); [reflexivity|tauto|exact Hf|].
      rewrite project_arr by exact Hf. destruct f; try reflexivity; discriminate IA. }
  destruct f as [| | | | | | |fl|]; try discriminate IA.
  intros L fuel s w rest W DL G HS D LF.
  destruct L as [|L]; [lia|].
  rewrite <- !app_assoc in HS. cbn [app] in HS.
  assert (V : vstart 91) by (unfold vstart; tauto).
  destruct (pv_enter cf w fuel s 91 _ W G HS V ltac:(lens)) as (s1 & E1 & G1 & S1 & C1 & F1).
  rewrite (pvf_arr cf fuel L fl s s1 E1 C1).
  destruct (move_cons s1 91 _ G1 C1 S1) as (G2 & S2 & C2 & F2).
  destruct (skip_ws cf w0 W0 fuel (move s1) 93 rest G2 S2 ltac:(lia) eq_refl ltac:(lia) ltac:(lens))
    as (s3 & E3 & G3 & S3 & C3 & F3 & _).
  rewrite E3. cbv beta iota.
  destruct (eat_yes s3 93 rest G3 S3 ltac:(lia)) as (s4 & E4 & G4 & S4 & C4 & F4).
  rewrite E4.
  assert (PE : project (JArr fl) (JArr []) = JArr []).
  { rewrite project_arr by reflexivity. destruct fl as [|e fl]; [reflexivity|].
    destruct (truthy e); reflexivity. }
  rewrite PE. exists s4. splits; auto.
  - left; auto.
  - congruence.
  - discriminate.
Qed.

Lemma fcase_e_one : forall cf d w1 t v w2,
  ws w1 -> Fv cf d t v -> ws w2 -> Fe cf d (w1 ++ t ++ w2) [v].
Proof.
  intros cf d w1 t v w2 W1 IH W2 e L fuel fl s rest acc T DL G HS LF LL.
  rewrite <- !app_assoc in HS, LF, LL.
  destruct fl as [|fl]; [lia|]. rewrite array_loop_S. cbn [f_allow]. rewrite T.
  destruct (IH e L fuel s w1 (w2 ++ 93 :: rest) W1 DL G HS
              (delimiter_ws_then cf w2 93 rest W2 ltac:(tauto)) LF) as (s1 & E1 & P1 & F1 & _).
  rewrite E1. cbv beta iota.
  edestruct (arr_step_close cf) as (s' & E' & R'); [exact W2|exact P1| |].
  2:{ rewrite E'. exists s'. split; [reflexivity|exact R']. }
  lens.
Qed.

Lemma fcase_e_cons : forall cf d w1 t v w2 r vs,
  ws w1 -> Fv cf d t v -> ws w2 -> Fe cf d r vs -> Fe cf d (w1 ++ t ++ w2 ++ [44] ++ r) (v :: vs).
Proof.
  intros cf d w1 t v w2 r vs W1 IHv W2 IHr e L fuel fl s rest acc T DL G HS LF LL.
  rewrite <- !app_assoc in HS, LF, LL. cbn [app] in HS, LF, LL.
  destruct fl as [|fl]; [lia|]. rewrite array_loop_S. cbn [f_allow]. rewrite T.
  destruct (IHv e L fuel s w1 (w2 ++ 44 :: r ++ 93 :: rest) W1 DL G HS
              (delimiter_ws_then cf w2 44 _ W2 ltac:(tauto)) LF) as (s1 & E1 & P1 & F1 & _).
  rewrite E1. cbv beta iota.
  edestruct (arr_step_comma cf) as (s3 & E3 & G3 & S3 & C3 & F3); [exact W2|exact P1| |].
  2:{ rewrite E3.
      destruct (IHr e L fuel fl s3 rest (acc ++ [project e v]) T DL G3 S3 ltac:(lens) ltac:(lens))
        as (s' & E' & R').
      rewrite E'. exists s'. rewrite <- app_assoc. cbn [map app]. split; [reflexivity|exact R']. }
  lens.
Qed.

Lemma fcase_arr : forall cf, decode_unicode cf = true ->
  forall d te vs, jelementsD (num_den cf) d te vs -> Fe cf d te vs ->
  Fv cf (S d) ([91] ++ te ++ [93]) (JArr vs).
Proof.
  intros cf DU d te vs J IH f.
  pose proof (vd_arr (num_den cf) d te vs J) as JV.
  destruct (equals_true f) eqn:Hf; [apply fconcl_true; assumption|].
  destruct (is_arr f) eqn:IA.
  2:{ apply (fconcl_container_skip cf _ _ _ _ 91 (te ++ [93]) f JV); [reflexivity|tauto|exact Hf|].
      rewrite project_arr by exact Hf. destruct f; try reflexivity; discriminate IA. }
  destruct f as [| | | | | | |fl|]; try discriminate IA.
  intros L fuel s w rest W DL G HS D LF.
  destruct L as [|L]; [lia|].
  destruct fuel as [|fuel0]; [lia|].
  rewrite <- !app_assoc in HS. cbn [app] in HS.
  assert (V : vstart 91) by (unfold vstart; tauto).
  destruct (pv_enter cf w (S fuel0) s 91 _ W G HS V ltac:(lens)) as (s1 & E1 & G1 & S1 & C1 & F1).
  rewrite (pvf_arr cf (S fuel0) L fl s s1 E1 C1).
  destruct (move_cons s1 91 _ G1 C1 S1) as (G2 & S2 & C2 & F2).
  destruct (jelementsD_head _ _ _ _ J) as (w1 & c & r & W1 & Ete & Vc).
  assert (S2' : stream (move s1) = w1 ++ c :: (r ++ 93 :: rest))
    by (rewrite S2, Ete, <- app_assoc; reflexivity).
  assert (LW : (length w1 < S fuel0)%nat) by (rewrite Ete in LF; lens).
  destruct (pv_enter cf w1 (S fuel0) (move s1) c _ W1 G2 S2' Vc LW) as (s3 & E3 & G3 & S3 & C3 & F3).
  rewrite E3. cbv beta iota.
  destruct (vstart_props c Vc) as (_ & _ & _ & N93 & _).
  rewrite (eat_no_some s3 c 93 C3 N93). cbv beta iota.
  rewrite (array_loop_skip_gen cf (S fuel0) L fuel0 _ [] (move s1) s3 c E3 C3 F3 Vc).
  rewrite project_arr by reflexivity.
  destruct (truthy (hd JNull fl)) eqn:T.
  - destruct (IH (hd JNull fl) L (S fuel0) (S fuel0) (move s1) rest [] T ltac:(lia) G2 S2
                ltac:(lens) ltac:(lens)) as (s' & E' & G' & S' & C' & F').
    rewrite E'. destruct fl as [|e fl]; [discriminate T|]. cbn [hd] in *. rewrite T.
    exists s'. cbn [app]. splits; auto.
    + left; auto.
    + discriminate.
  - rewrite array_loop_noallow by exact T.
    destruct (proj1 (proj2 (skip_all cf (num_den cf))) d te vs J L (S fuel0) (S fuel0) (move s1) rest
                ltac:(lia) G2 S2 ltac:(lens) ltac:(lens)) as (s' & E' & G' & S' & C' & F').
    rewrite E'.
    assert (PE : match fl with
                 | [] => JArr []
                 | e :: _ => if truthy e then JArr (map (project e) vs) else JArr []
                 end = JArr []).
    { destruct fl as [|e fl]; [reflexivity|]. cbn [hd] in T. rewrite T. reflexivity. }
    rewrite PE. exists s'. splits; auto.
    + left; auto.
    + discriminate.
Qed.

(* ---- objects ---- *)

Lemma fcase_obj_empty : forall cf, decode_unicode cf = true ->
  forall d w0, ws w0 -> Fv cf (S d) ([123] ++ w0 ++ [125]) (JObj []).
Proof.
  intros cf DU d w0 W0 f.
  pose proof (vd_obj_empty (num_den cf) d w0 W0) as J.
  destruct (equals_true f) eqn:Hf; [apply fconcl_true; assumption|].
  destruct (is_obj f) eqn:IO.
  2:{ apply (fconcl_container_skip cf _ _ _ _ 123 (w0 ++ [125]) f J); [reflexivity|tauto|exact Hf|].
      apply project_obj_other; assumption. }
  destruct f as [| | | | | | | |fl]; try discriminate IO.
  intros L fuel s w rest W DL G HS D LF.
  destruct L as [|L]; [lia|].
  rewrite <- !app_assoc in HS. cbn [app] in HS.
  assert (V : vstart 123) by (unfold vstart; tauto).
  destruct (pv_enter cf w fuel s 123 _ W G HS V ltac:(lens)) as (s1 & E1 & G1 & S1 & C1 & F1).
  rewrite (pvf_obj cf fuel L fl s s1 E1 C1).
  destruct (move_cons s1 123 _ G1 C1 S1) as (G2 & S2 & C2 & F2).
  destruct (skip_ws cf w0 W0 fuel (move s1) 125 rest G2 S2 ltac:(lia) eq_refl ltac:(lia) ltac:(lens))
    as (s3 & E3 & G3 & S3 & C3 & F3 & _).
  rewrite E3. cbv beta iota.
  destruct (eat_yes s3 125 rest G3 S3 ltac:(lia)) as (s4 & E4 & G4 & S4 & C4 & F4).
  rewrite E4. rewrite project_obj. cbn [pgo]. exists s4. splits; auto.
  - left; auto.
  - congruence.
  - discriminate.
Qed.

Lemma fcase_m_one : forall cf, decode_unicode cf = true ->
  forall d w1 kt k w2 w3 t v w4,
    ws w1 -> jstring kt k -> ws w2 -> ws w3 -> jvalueD (num_den cf) d t v -> Fv cf d t v -> ws w4 ->
    Fm cf d (w1 ++ kt ++ w2 ++ [58] ++ w3 ++ t ++ w4) [(k, v)].
Proof.
  intros cf DU d w1 kt k w2 w3 t v w4 W1 JK W2 W3 J IH W4 flt L fuel fl s rest acc DL G HS LF LL.
  rewrite <- !app_assoc in HS, LF, LL. cbn [app] in HS, LF, LL.
  destruct fl as [|fl]; [lia|].
  destruct (member_head cf DU w1 kt k w2 _ fl s W1 JK W2 G HS LL)
    as (s1 & s2 & s3 & s4 & E1 & E2 & E3 & E4 & G4 & S4 & C4 & F4).
  unfold obj_entry. rewrite E1, object_loop_S, E2. cbv beta iota. rewrite E3. cbv beta iota.
  rewrite E4. cbn [negb]. cbv beta iota.
  rewrite f_member_obj. cbn [f_allow]. rewrite pgo_cons.
  assert (DLM : delimiter cf (w4 ++ 125 :: rest))
    by (apply delimiter_ws_then; [exact W4|tauto]).
  destruct (truthy (mfilt flt k)) eqn:T.
  - destruct (IH (mfilt flt k) L fuel s4 w3 (w4 ++ 125 :: rest) W3 DL G4 S4 DLM ltac:(lens))
      as (s5 & E5 & P5 & F5 & _).
    rewrite E5. cbv beta iota.
    edestruct (obj_after_close cf) as (s' & E' & R'); [exact W4|exact P5| |].
    2:{ rewrite E'. exists s'. split; [reflexivity|exact R']. }
    lens.
  - destruct (skip_variant_complete_ws cf _ d t v J L fuel s4 w3 _ W3 DL G4 S4 DLM ltac:(lens))
      as (s5 & E5 & P5 & F5).
    rewrite E5. cbv beta iota.
    edestruct (obj_after_close cf) as (s' & E' & R'); [exact W4|exact P5| |].
    2:{ rewrite E'. exists s'. split; [reflexivity|exact R']. }
    lens.
Qed.

Lemma fcase_m_cons : forall cf, decode_unicode cf = true ->
  forall d w1 kt k w2 w3 t v w4 r ms,
    ws w1 -> jstring kt k -> ws w2 -> ws w3 -> jvalueD (num_den cf) d t v -> Fv cf d t v -> ws w4 ->
    Fm cf d r ms ->
    Fm cf d (w1 ++ kt ++ w2 ++ [58] ++ w3 ++ t ++ w4 ++ [44] ++ r) ((k, v) :: ms).
Proof.
  intros cf DU d w1 kt k w2 w3 t v w4 r ms W1 JK W2 W3 J IHv W4 IHr flt L fuel fl s rest acc DL G HS LF LL.
  rewrite <- !app_assoc in HS, LF, LL. cbn [app] in HS, LF, LL.
  destruct fl as [|fl]; [lia|].
  destruct (member_head cf DU w1 kt k w2 _ fl s W1 JK W2 G HS LL)
    as (s1 & s2 & s3 & s4 & E1 & E2 & E3 & E4 & G4 & S4 & C4 & F4).
  unfold obj_entry at 1. rewrite E1, object_loop_S, E2. cbv beta iota. rewrite E3. cbv beta iota.
  rewrite E4. cbn [negb]. cbv beta iota.
  rewrite f_member_obj. cbn [f_allow]. rewrite pgo_cons.
  assert (DLM : delimiter cf (w4 ++ 44 :: r ++ 125 :: rest))
    by (apply delimiter_ws_then; [exact W4|tauto]).
  destruct (truthy (mfilt flt k)) eqn:T.
  - destruct (IHv (mfilt flt k) L fuel s4 w3 _ W3 DL G4 S4 DLM ltac:(lens))
      as (s5 & E5 & P5 & F5 & _).
    rewrite E5. cbv beta iota.
    edestruct (obj_after_comma cf) as (s7 & E7 & G7 & S7 & C7 & F7); [exact W4|exact P5| |].
    2:{ rewrite E7.
        destruct (IHr flt L fuel fl s7 rest (assoc_set k (project (mfilt flt k) v) acc) DL G7 S7
                    ltac:(lens) ltac:(lens)) as (s' & E' & R').
        rewrite E'. exists s'. split; [reflexivity|exact R']. }
    lens.
  - destruct (skip_variant_complete_ws cf _ d t v J L fuel s4 w3 _ W3 DL G4 S4 DLM ltac:(lens))
      as (s5 & E5 & P5 & F5).
    rewrite E5. cbv beta iota.
    edestruct (obj_after_comma cf) as (s7 & E7 & G7 & S7 & C7 & F7); [exact W4|exact P5| |].
    2:{ rewrite E7.
        destruct (IHr flt L fuel fl s7 rest acc DL G7 S7 ltac:(lens) ltac:(lens)) as (s' & E' & R').
        rewrite E'. exists s'. split; [reflexivity|exact R']. }
    lens.
Qed.

Lemma fcase_obj : forall cf, decode_unicode cf = true ->
  forall d te ms, jmembersD (num_den cf) d te ms -> Fm cf d te ms ->
  Fv cf (S d) ([123] ++ te ++ [125])
     (JObj (fold_left (fun acc m => assoc_set (fst m) (snd m) acc) ms [])).
Proof.
  intros cf DU d te ms J IH f.
  pose proof (vd_obj (num_den cf) d te ms J) as JV.
  destruct (equals_true f) eqn:Hf; [apply fconcl_true; assumption|].
  destruct (is_obj f) eqn:IO.
  2:{ apply (fconcl_container_skip cf _ _ _ _ 123 (te ++ [125]) f JV); [reflexivity|tauto|exact Hf|].
      apply project_obj_other; assumption. }
  destruct f as [| | | | | | | |flt]; try discriminate IO.
  intros L fuel s w rest W DL G HS D LF.
  destruct L as [|L]; [lia|].
  rewrite <- !app_assoc in HS. cbn [app] in HS.
  assert (V : vstart 123) by (unfold vstart; tauto).
  destruct (pv_enter cf w fuel s 123 _ W G HS V ltac:(lens)) as (s1 & E1 & G1 & S1 & C1 & F1).
  rewrite (pvf_obj cf fuel L flt s s1 E1 C1).
  destruct (move_cons s1 123 _ G1 C1 S1) as (G2 & S2 & C2 & F2).
  destruct (jmembersD_head _ _ _ _ J) as (w1 & r & W1 & Ete).
  assert (S2' : stream (move s1) = w1 ++ 34 :: (r ++ 125 :: rest))
    by (rewrite S2, Ete, <- app_assoc; reflexivity).
  assert (LW : (length w1 < fuel)%nat) by (rewrite Ete in LF; lens).
  destruct (skip_ws cf w1 W1 fuel (move s1) 34 _ G2 S2' ltac:(lia) eq_refl ltac:(lia) LW)
    as (s3 & E3 & G3 & S3 & C3 & F3 & _).
  rewrite E3. cbv beta iota.
  rewrite (eat_no_some s3 34 125 C3 ltac:(lia)). cbv beta iota.
  destruct (IH flt L fuel fuel (move s1) rest [] ltac:(lia) G2 S2 ltac:(lens) ltac:(lens))
    as (s' & E' & G' & S' & C' & F').
  unfold obj_entry in E'. rewrite E3 in E'.
  rewrite E'. rewrite project_obj.
  change (fold_left (fun acc m => assoc_set (fst m) (snd m) acc) ms []) with (obj_den ms []).
  rewrite pgo_obj_den. cbn [pgo].
  exists s'. splits; auto.
  - left; auto.
  - discriminate.
Qed.

(* ---- tying the knot ---- *)

Lemma filter_all : forall cf, decode_unicode cf = true ->
  (forall d t v, jvalueD (num_den cf) d t v -> Fv cf d t v) /\
  (forall d t vs, jelementsD (num_den cf) d t vs -> Fe cf d t vs) /\
  (forall d t ms, jmembersD (num_den cf) d t ms -> Fm cf d t ms).
Proof.
  intros cf DU. apply jvalueD_mutind.
  - intro d. apply fcase_null; assumption.
  - intro d. apply fcase_true; assumption.
  - intro d. apply fcase_false; assumption.
  - intros d t v J N. apply fcase_num; assumption.
  - intros d t s J. apply fcase_str; assumption.
  - intros d w W. apply fcase_arr_empty; assumption.
  - intros d t vs J IH. apply fcase_arr; assumption.
  - intros d w W. apply fcase_obj_empty; assumption.
  - intros d t ms J IH. apply fcase_obj; assumption.
  - intros d w1 t v w2 W1 _ IH W2. apply fcase_e_one; assumption.
  - intros d w1 t v w2 r vs W1 _ IHv W2 _ IHr. apply fcase_e_cons; assumption.
  - intros d w1 kt k w2 w3 t v w4 W1 JK W2 W3 J IH W4. apply fcase_m_one; assumption.
  - intros d w1 kt k w2 w3 t v w4 r ms W1 JK W2 W3 J IHv W4 _ IHr. apply fcase_m_cons; assumption.
Qed.

(* general form: leading whitespace allowed; after a kept number the latch holds the byte that follows *)
Theorem parse_filtered_is_projection_ws : forall cf, decode_unicode cf = true ->
  forall d t v, jvalueD (num_den cf) d t v ->
  forall f L fuel s w rest,
    ws w -> (d <= L)%nat -> good s -> stream s = w ++ t ++ rest -> delimiter cf rest ->
    (length (w ++ t ++ rest) < fuel)%nat ->
    exists s', parse_variant cf fuel L (Some f) s = (Ok, project f v, s') /\ post s' rest /\
               found s' = true /\ (is_number (project f v) = true -> lastc s' = hd 0 rest).
Proof. intros cf DU d t v J f. exact (proj1 (filter_all cf DU) d t v J f). Qed.

Theorem parse_filtered_is_projection : forall cf, decode_unicode cf = true ->
  forall d t v, jvalueD (num_den cf) d t v ->
  forall f L fuel s rest, (d <= L)%nat -> good s -> stream s = t ++ rest -> delimiter cf rest ->
    (length (t ++ rest) < fuel)%nat ->
    exists s', parse_variant cf fuel L (Some f) s = (Ok, project f v, s') /\ post s' rest /\ found s' = true.
Proof.
  intros cf DU d t v J f L fuel s rest DL G HS D LF.
  destruct (parse_filtered_is_projection_ws cf DU d t v J f L fuel s [] rest ws_nil DL G HS D LF)
    as (s' & E & P & F & _).
  exists s'. auto.
Qed.

Corollary json_run_filtered : forall cf, decode_unicode cf = true ->
  forall d i v, jtextD (num_den cf) d i v -> forall f L, (d <= L)%nat ->
  j_err (json_run cf (Some f) L i) = Ok /\ j_doc (json_run cf (Some f) L i) = project f v.
Proof.
  intros cf DU d i v (w1 & tv & w2 & Ei & W1 & J & W2) f L DL.
  assert (HS : stream (ps_init i) = w1 ++ tv ++ w2) by (rewrite stream_init; exact Ei).
  assert (LF : (length (w1 ++ tv ++ w2) < json_fuel i)%nat) by (rewrite <- Ei; unfold json_fuel; lia).
  destruct (parse_filtered_is_projection_ws cf DU d tv v J f L (json_fuel i) (ps_init i) w1 w2 W1 DL
              (good_init i) HS (delimiter_ws cf w2 W2) LF) as (s' & E & P & F & LC).
  unfold json_run. rewrite E. cbn [j_err j_doc]. split; [|reflexivity].
  destruct (is_number (project f v)) eqn:NV; [|rewrite andb_false_r; reflexivity].
  rewrite (LC eq_refl).
  destruct W2 as [|b w2 Hb W2]; cbn [hd].
  - reflexivity.
  - rewrite <- is_ws_space, Hb. cbn [negb]. rewrite andb_false_r. reflexivity.
Qed.
