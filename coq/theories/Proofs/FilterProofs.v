(* FilterProofs.v — the filter of the JSON reader model:
   (1) the filter `true` (any filter equal to true) is the identity on every input,
   (2) the skip path accepts every text of the grammar and consumes exactly it,
   (3) reading with a filter = projecting the unfiltered value (Spec/FilterSpec.v). *)
From Coq Require Import NArith ZArith List Bool Lia.
From Coq Require Import Floats.SpecFloat.
From AJ Require Import Model.Base Model.FloatModel Model.Value Model.Utf Model.NumParse Model.JsonParse.
From AJ Require Import Spec.Utf8Spec Spec.Rfc8259 Spec.ParseSpec Spec.FilterSpec.
From AJ Require Import Proofs.Sweep Proofs.UtfProofs Proofs.Lex Proofs.StringRT.
From AJ Require Import Proofs.ParseDepth Proofs.ParseComplete.
Local Open Scope N_scope.

(* ------------------------------------------------------------------------------------- *)
(* Part 1 — a filter that equals true behaves like no filter at all                         *)

Lemma equals_true_truthy : forall v, equals_true v = true -> truthy v = true.
Proof.
  intros v H. destruct v as [|b|z|f|f|s|s|l|l]; cbn [equals_true truthy] in *; try discriminate.
  - exact H.
  - apply Z.eqb_eq in H. subst z. reflexivity.
  - destruct f as [sg| sg | |sg m e]; try discriminate H; destruct sg; try discriminate H; reflexivity.
  - destruct f as [sg| sg | |sg m e]; try discriminate H; destruct sg; try discriminate H; reflexivity.
Qed.

Section TrueLoops.
  Variable cf : cfg.
  Variable pv : filter -> ps -> code * jv * ps.
  Variable sv : ps -> code * ps.
  Variable f : jv.
  Hypothesis Hf : equals_true f = true.
  Hypothesis Hpv : forall s, pv (Some f) s = pv None s.

  Lemma array_loop_true : forall fl acc s,
    array_loop cf pv sv fl (Some f) acc s = array_loop cf pv sv fl None acc s.
  Proof.
    induction fl as [|fl IH]; intros acc s; [reflexivity|].
    rewrite !array_loop_S. cbn [f_allow]. rewrite (equals_true_truthy f Hf), Hpv.
    destruct (pv None s) as [[e v] s1]. destruct e; try reflexivity.
    unfold arr_step. destruct (skip_spaces cf fl s1) as [e2 s2]. destruct e2; try reflexivity.
    destruct (eat 93 s2) as [b s3]. destruct b; [reflexivity|].
    destruct (eat 44 s3) as [b s4]. destruct b; [apply IH|reflexivity].
  Qed.

  Lemma object_loop_true : forall fl acc s,
    object_loop cf pv sv fl (Some f) acc s = object_loop cf pv sv fl None acc s.
  Proof.
    induction fl as [|fl IH]; intros acc s; [reflexivity|].
    rewrite !object_loop_S.
    destruct (parse_key cf fl s) as [[e1 key] s1]. destruct e1; try reflexivity.
    destruct (skip_spaces cf fl s1) as [e2 s2]. destruct e2; try reflexivity.
    destruct (eat 58 s2) as [b s3]. destruct b; cbn [negb]; [|reflexivity].
    cbn [f_member]. rewrite Hf. cbn [f_allow]. rewrite (equals_true_truthy f Hf), Hpv.
    destruct (pv None s3) as [[e4 v4] s4]. destruct e4; try reflexivity.
    unfold obj_after. destruct (skip_spaces cf fl s4) as [e5 s5]. destruct e5; try reflexivity.
    destruct (eat 125 s5) as [b s6]. destruct b; [reflexivity|].
    destruct (eat 44 s6) as [b s7]. destruct b; cbn [negb]; [|reflexivity].
    destruct (skip_spaces cf fl s7) as [e8 s8]. destruct e8; try reflexivity.
    apply IH.
  Qed.

  Lemma pv_body_true : forall fuel deep sk s,
    pv_body cf fuel deep pv sv sk (Some f) s = pv_body cf fuel deep pv sv sk None s.
  Proof.
    intros fuel deep sk s. unfold pv_body.
    destruct (skip_spaces cf fuel s) as [e1 s1]. destruct e1; try reflexivity.
    destruct (current s1) as [c s2].
    cbn [f_allow_array f_allow_object f_element]. rewrite Hf. cbn [orb].
    destruct (c =? 91).
    { destruct deep; [reflexivity|].
      destruct (skip_spaces cf fuel (move s2)) as [e3 s3]. destruct e3; try reflexivity.
      destruct (eat 93 s3) as [b s4]. destruct b; [reflexivity|]. apply array_loop_true. }
    destruct (c =? 123).
    { destruct deep; [reflexivity|].
      destruct (skip_spaces cf fuel (move s2)) as [e3 s3]. destruct e3; try reflexivity.
      destruct (eat 125 s3) as [b s4]. destruct b; [reflexivity|]. apply object_loop_true. }
    unfold pv_scalar. cbn [f_allow_value]. rewrite Hf. reflexivity.
  Qed.
End TrueLoops.

Theorem filter_equals_true_identity : forall cf f, equals_true f = true ->
  forall fuel L s, parse_variant cf fuel L (Some f) s = parse_variant cf fuel L None s.
Proof.
  intros cf f Hf fuel L. induction L as [|L IH]; intro s; rewrite !parse_variant_body;
    apply pv_body_true; try exact Hf.
  - intro s0. reflexivity.
  - exact IH.
Qed.

Theorem filter_true_identity : forall cf fuel L s,
  parse_variant cf fuel L (Some (JBool true)) s = parse_variant cf fuel L None s.
Proof. intros cf fuel L s. apply filter_equals_true_identity. reflexivity. Qed.

Corollary json_run_filter_equals_true : forall cf f, equals_true f = true ->
  forall L i, json_run cf (Some f) L i = json_run cf None L i.
Proof. intros cf f Hf L i. unfold json_run. rewrite (filter_equals_true_identity cf f Hf). reflexivity. Qed.

Corollary json_run_filter_true : forall cf L i, json_run cf (Some (JBool true)) L i = json_run cf None L i.
Proof. intros cf L i. apply json_run_filter_equals_true. reflexivity. Qed.
