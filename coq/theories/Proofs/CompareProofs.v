(* CompareProofs.v — the comparison operators of Model/Compare.v form one coherent relation. *)
From Coq Require Import ZArith NArith Bool List Lia.
From Coq Require Import Floats.SpecFloat.
From AJ Require Import Model.Base Model.FloatModel Model.Value Model.Compare.
Local Open Scope Z_scope.

(* ------------------------------------------------------------------------------------------ *)
(* One step of compare_fuel, with the recursive call abstracted                                 *)
(* ------------------------------------------------------------------------------------------ *)

Definition arr_eq_with (cmpv : jv -> jv -> cmp) : list jv -> list jv -> bool :=
  fix arr_eq (x y : list jv) : bool :=
    match x, y with
    | [], [] => true
    | a :: x', b :: y' => is_equal (cmpv b a) && arr_eq x' y'
    | _, _ => false
    end.

Definition obj_eq_with (cmpv : jv -> jv -> cmp) (x y : list (bytes * jv)) : bool :=
  forallb (fun kv => match assoc_get (fst kv) y with
                     | Some w => is_equal (cmpv w (snd kv))
                     | None => false
                     end) x && Nat.eqb (length x) (length y).

Definition str_cmp (s t : bytes) : cmp :=
  let i := string_compare s t in
  cmp_rev (if i <? 0 then CGreater else if 0 <? i then CLess else CEqual).

Definition compare_step (cmpv : jv -> jv -> cmp) (lhs rhs : jv) : cmp :=
  match lhs with
  | JArr la => match rhs with
               | JArr lb => if arr_eq_with cmpv la lb then CEqual else CDiffer
               | _ => CDiffer
               end
  | JObj la => match rhs with
               | JObj lb => if obj_eq_with cmpv lb la then CEqual else CDiffer
               | _ => CDiffer
               end
  | JStr s => match rhs with
              | JStr t => str_cmp s t
              | _ => CDiffer
              end
  | JRaw a => match rhs with
              | JRaw b => cmp_rev (raw_compare b a)
              | _ => CDiffer
              end
  | JNull => match rhs with JNull => CEqual | _ => CDiffer end
  | _ =>
      match numv_of lhs, numv_of rhs with
      | Some a, Some b => cmp_rev (arith b a)
      | _, _ => CDiffer
      end
  end.

Lemma compare_fuel_S : forall n a b, compare_fuel (S n) a b = compare_step (compare_fuel n) a b.
Proof. reflexivity. Qed.

Lemma compare_fuel_O : forall a b, compare_fuel O a b = CDiffer.
Proof. reflexivity. Qed.

Lemma jsize_pos : forall v, (1 <= jsize v)%nat.
Proof. destruct v; cbn [jsize]; lia. Qed.

(* compare always has at least one unit of fuel *)
Lemma compare_unfold : forall a b, exists n, compare a b = compare_step (compare_fuel n) a b.
Proof.
  intros a b. unfold compare.
  pose proof (jsize_pos a) as Ha.
  destruct (jsize a + jsize b)%nat as [|n] eqn:E; [lia|].
  exists n. apply compare_fuel_S.
Qed.

(* ------------------------------------------------------------------------------------------ *)
(* (1) (2) (3): the six operators read one answer                                               *)
(* ------------------------------------------------------------------------------------------ *)

Theorem ne_is_not_eq : forall a b, op_ne a b = negb (op_eq a b).
Proof. intros a b. reflexivity. Qed.

Theorem at_most_one : forall a b,
  (op_lt a b && op_eq a b = false) /\ (op_lt a b && op_gt a b = false) /\ (op_eq a b && op_gt a b = false).
Proof.
  intros a b. unfold op_lt, op_eq, op_gt.
  destruct (compare b a); cbn [is_equal andb]; repeat split; reflexivity.
Qed.

Theorem le_is_lt_or_eq : forall a b, op_le a b = op_lt a b || op_eq a b.
Proof.
  intros a b. unfold op_le, op_lt, op_eq.
  destruct (compare b a); reflexivity.
Qed.

Theorem ge_is_gt_or_eq : forall a b, op_ge a b = op_gt a b || op_eq a b.
Proof.
  intros a b. unfold op_ge, op_gt, op_eq.
  destruct (compare b a); reflexivity.
Qed.

(* ------------------------------------------------------------------------------------------ *)
(* (5) by value for the scalar kinds                                                            *)
(* ------------------------------------------------------------------------------------------ *)

Lemma compare_scalar : forall a b,
  (forall l, a <> JArr l) -> (forall l, a <> JObj l) ->
  compare a b = compare_step (fun _ _ => CDiffer) a b.
Proof.
  intros a b Ha Ho. destruct (compare_unfold a b) as [n E]. rewrite E.
  destruct a; try reflexivity.
  - exfalso. eapply Ha. reflexivity.
  - exfalso. eapply Ho. reflexivity.
Qed.

Lemma compare_scalar_r : forall a b,
  (forall l, b <> JArr l) -> (forall l, b <> JObj l) ->
  compare a b = compare_step (fun _ _ => CDiffer) a b.
Proof.
  intros a b Ha Ho. destruct (compare_unfold a b) as [n E]. rewrite E.
  destruct a; try reflexivity.
  - destruct b; try reflexivity. exfalso. eapply Ha. reflexivity.
  - destruct b; try reflexivity. exfalso. eapply Ho. reflexivity.
Qed.

Lemma cmp_Z_eq : forall x y, is_equal (cmp_Z x y) = Z.eqb x y.
Proof.
  intros x y. unfold cmp_Z.
  destruct (Z.ltb_spec x y); [|destruct (Z.ltb_spec y x)]; cbn [is_equal]; symmetry.
  - apply Z.eqb_neq. lia.
  - apply Z.eqb_neq. lia.
  - apply Z.eqb_eq. lia.
Qed.

Lemma is_equal_rev : forall c, is_equal (cmp_rev c) = is_equal c.
Proof. destruct c; reflexivity. Qed.

Theorem int_by_value : forall x y,
  op_eq (JInt x) (JInt y) = Z.eqb x y /\ op_lt (JInt x) (JInt y) = Z.ltb x y.
Proof.
  intros x y. unfold op_eq, op_lt.
  rewrite compare_scalar by (intros; discriminate).
  cbn [compare_step numv_of arith nv_to_Z]. split.
  - rewrite is_equal_rev. apply cmp_Z_eq.
  - unfold cmp_Z. destruct (Z.ltb_spec x y); [reflexivity|].
    destruct (Z.ltb_spec y x); reflexivity.
Qed.

Lemma raw_compare_eq : forall s t, is_equal (raw_compare s t) = bytes_eqb s t.
Proof.
  induction s as [|x s IH]; destruct t as [|y t]; cbn [raw_compare bytes_eqb]; try reflexivity.
  destruct (N.eqb x y) eqn:E; cbn [andb].
  - apply IH.
  - destruct (N.ltb x y); reflexivity.
Qed.

Theorem raw_eq_by_bytes : forall s t, op_eq (JRaw s) (JRaw t) = bytes_eqb s t.
Proof.
  intros s t. unfold op_eq.
  rewrite compare_scalar by (intros; discriminate).
  cbn [compare_step]. rewrite is_equal_rev. apply raw_compare_eq.
Qed.

Theorem null_only_null : forall v, op_eq JNull v = match v with JNull => true | _ => false end.
Proof.
  intros v. unfold op_eq.
  rewrite compare_scalar_r by (intros; discriminate).
  destruct v; reflexivity.
Qed.

Lemma SFcompare_nan_r : forall x, SFcompare x S754_nan = None.
Proof. destruct x; reflexivity. Qed.

Lemma cmp_f64_nan_l : forall x, cmp_f64 S754_nan x = CDiffer.
Proof. intros x. reflexivity. Qed.

Lemma cmp_f64_nan_r : forall x, cmp_f64 x S754_nan = CDiffer.
Proof.
  intros x. unfold cmp_f64, f_lt, f_gt, f_eq. rewrite SFcompare_nan_r. reflexivity.
Qed.

Lemma arith_nan_l : forall a, arith (NvFlt S754_nan) a = CDiffer.
Proof. intros a. destruct a; reflexivity. Qed.

Lemma arith_nan_r : forall a, arith a (NvFlt S754_nan) = CDiffer.
Proof.
  intros a. destruct a; unfold arith; cbn [nv_to_double]; apply cmp_f64_nan_r.
Qed.

Theorem nan_equals_nothing : forall v,
  op_eq (JDouble S754_nan) v = false /\ op_eq v (JDouble S754_nan) = false.
Proof.
  intros v. unfold op_eq. split.
  - rewrite compare_scalar_r by (intros; discriminate).
    destruct v; try reflexivity;
      cbn [compare_step numv_of]; rewrite arith_nan_l; reflexivity.
  - rewrite compare_scalar by (intros; discriminate).
    destruct v; try reflexivity;
      cbn [compare_step numv_of]; rewrite arith_nan_r; reflexivity.
Qed.

Theorem nan_float_equals_nothing : forall v,
  op_eq (JFloat S754_nan) v = false /\ op_eq v (JFloat S754_nan) = false.
Proof.
  intros v. unfold op_eq. split.
  - rewrite compare_scalar_r by (intros; discriminate).
    destruct v; try reflexivity;
      cbn [compare_step numv_of fconv]; rewrite arith_nan_l; reflexivity.
  - rewrite compare_scalar by (intros; discriminate).
    destruct v; try reflexivity;
      cbn [compare_step numv_of fconv]; rewrite arith_nan_r; reflexivity.
Qed.

(* strings: `byte := N` is unbounded in the model and schar is only injective below 256
   (schar 0 = schar 256 = 0), so equality-by-bytes needs the byte range *)
Lemma schar_inj : forall x y, (x < 256)%N -> (y < 256)%N -> schar x - schar y = 0 -> x = y.
Proof.
  intros x y Hx Hy. unfold schar.
  destruct (N.ltb_spec x 128); destruct (N.ltb_spec y 128); lia.
Qed.

Lemma str_cmp_eq_sign : forall s t, is_equal (str_cmp s t) = Z.eqb (string_compare s t) 0.
Proof.
  intros s t. unfold str_cmp. rewrite is_equal_rev.
  destruct (Z.ltb_spec (string_compare s t) 0) as [H|H].
  - symmetry. apply Z.eqb_neq. lia.
  - destruct (Z.ltb_spec 0 (string_compare s t)) as [H'|H']; symmetry.
    + apply Z.eqb_neq. lia.
    + apply Z.eqb_eq. lia.
Qed.

Lemma string_compare_eq : forall s t,
  Forall (fun b => (b < 256)%N) s -> Forall (fun b => (b < 256)%N) t ->
  Z.eqb (string_compare s t) 0 = bytes_eqb s t.
Proof.
  induction s as [|x s IH]; intros t Hs Ht; destruct t as [|y t];
    cbn [string_compare bytes_eqb]; try reflexivity.
  inversion Hs as [|? ? Hx Hs']; subst. inversion Ht as [|? ? Hy Ht']; subst.
  destruct (N.eqb x y) eqn:E; cbn [andb].
  - apply IH; assumption.
  - apply Z.eqb_neq. intros H. apply schar_inj in H; try assumption.
    apply N.eqb_neq in E. contradiction.
Qed.

Lemma bytes_eqb_sym : forall s t, bytes_eqb s t = bytes_eqb t s.
Proof.
  induction s as [|x s IH]; destruct t as [|y t]; cbn [bytes_eqb]; try reflexivity.
  rewrite (N.eqb_sym x y), (IH t). reflexivity.
Qed.

(* requested statement `forall s t, op_eq (JStr s) (JStr t) = bytes_eqb s t` is false for
   out-of-range bytes (see str_eq_by_bytes_needs_range below); proved for real bytes *)
Theorem str_eq_by_bytes : forall s t,
  Forall (fun b => (b < 256)%N) s -> Forall (fun b => (b < 256)%N) t ->
  op_eq (JStr s) (JStr t) = bytes_eqb s t.
Proof.
  intros s t Hs Ht. unfold op_eq.
  rewrite compare_scalar by (intros; discriminate).
  cbn [compare_step]. rewrite str_cmp_eq_sign. rewrite (bytes_eqb_sym s t).
  apply string_compare_eq; assumption.
Qed.

Theorem str_eq_by_bytes_needs_range :
  op_eq (JStr [0%N]) (JStr [256%N]) = true /\ bytes_eqb [0%N] [256%N] = false.
Proof. split; reflexivity. Qed.

(* ------------------------------------------------------------------------------------------ *)
(* (4) antisymmetry                                                                             *)
(* ------------------------------------------------------------------------------------------ *)

(* well-formed: every object, at any depth, has pairwise distinct keys *)
Fixpoint wf (v : jv) : Prop :=
  match v with
  | JArr l => fold_right (fun x P => wf x /\ P) True l
  | JObj l => NoDup (map fst l) /\ fold_right (fun kv P => wf (snd kv) /\ P) True l
  | _ => True
  end.

Lemma wf_arr_in : forall l x, wf (JArr l) -> In x l -> wf x.
Proof.
  induction l as [|y l IH]; intros x H Hin; [destruct Hin|].
  cbn [wf fold_right] in H. destruct H as [Hy Hl]. destruct Hin as [->|Hin]; [exact Hy|].
  apply IH; assumption.
Qed.

Lemma wf_arr_iff : forall l, wf (JArr l) <-> Forall wf l.
Proof.
  induction l as [|y l IH]; cbn [wf fold_right].
  - split; intros; constructor.
  - split.
    + intros [Hy Hl]. constructor; [exact Hy|]. apply IH. exact Hl.
    + intros H. inversion H as [|? ? Hy Hl]; subst. split; [exact Hy|]. apply IH. exact Hl.
Qed.

Lemma wf_obj_nodup : forall l, wf (JObj l) -> NoDup (map fst l).
Proof. intros l H. exact (proj1 H). Qed.

Lemma wf_obj_in : forall l k v, wf (JObj l) -> In (k, v) l -> wf v.
Proof.
  intros l k v [_ H]. revert H.
  induction l as [|y l IH]; intros H Hin; [destruct Hin|].
  cbn [fold_right] in H. destruct H as [Hy Hl]. destruct Hin as [->|Hin]; [exact Hy|].
  apply IH; assumption.
Qed.

Lemma wf_obj_iff : forall l,
  wf (JObj l) <-> NoDup (map fst l) /\ Forall (fun kv => wf (snd kv)) l.
Proof.
  intros l. cbn [wf].
  assert (H : fold_right (fun kv P => wf (snd kv) /\ P) True l <-> Forall (fun kv => wf (snd kv)) l).
  { induction l as [|y l IH]; cbn [fold_right].
    - split; intros; constructor.
    - split.
      + intros [Hy Hl]. constructor; [exact Hy|]. apply IH. exact Hl.
      + intros H. inversion H as [|? ? Hy Hl]; subst. split; [exact Hy|]. apply IH. exact Hl. }
  rewrite H. reflexivity.
Qed.

(* sizes of members *)
Lemma jsize_arr_in : forall l x, In x l -> (jsize x < jsize (JArr l))%nat.
Proof.
  intros l x Hin. cbn [jsize].
  induction l as [|y l IH]; [destruct Hin|].
  cbn [fold_right]. destruct Hin as [->|Hin]; [lia|]. specialize (IH Hin). lia.
Qed.

Lemma jsize_obj_in : forall l k v, In (k, v) l -> (jsize v < jsize (JObj l))%nat.
Proof.
  intros l k v Hin. cbn [jsize].
  induction l as [|y l IH]; [destruct Hin|].
  cbn [fold_right]. destruct Hin as [->|Hin]; [cbn [snd]; lia|]. specialize (IH Hin). lia.
Qed.

(* scalars *)
Lemma cmp_rev_invol : forall c, cmp_rev (cmp_rev c) = c.
Proof. destruct c; reflexivity. Qed.

Lemma cmp_Z_swap : forall a b, cmp_Z a b = cmp_rev (cmp_Z b a).
Proof.
  intros a b. unfold cmp_Z.
  destruct (Z.ltb_spec a b); destruct (Z.ltb_spec b a); try reflexivity. lia.
Qed.

Lemma SFcompare_swap : forall a b, SFcompare a b = option_map CompOpp (SFcompare b a).
Proof.
  intros a b.
  destruct a as [sa|sa| |sa ma ea]; destruct b as [sb|sb| |sb mb eb];
    try reflexivity;
    try (destruct sa; reflexivity);
    try (destruct sb; reflexivity);
    try (destruct sa, sb; reflexivity).
  cbn [SFcompare option_map].
  rewrite (Z.compare_antisym ea eb).
  change (Pcompare ma mb Eq) with (Pos.compare ma mb).
  change (Pcompare mb ma Eq) with (Pos.compare mb ma).
  rewrite (Pos.compare_antisym ma mb).
  destruct sa, sb; try reflexivity;
    destruct (Z.compare ea eb); cbn [CompOpp]; try reflexivity;
    destruct (Pos.compare ma mb); reflexivity.
Qed.

Lemma cmp_f64_swap : forall a b, cmp_f64 a b = cmp_rev (cmp_f64 b a).
Proof.
  intros a b. unfold cmp_f64, f_lt, f_gt, f_eq. rewrite (SFcompare_swap a b).
  destruct (SFcompare b a) as [[| |]|]; reflexivity.
Qed.

Lemma arith_swap : forall a b, arith a b = cmp_rev (arith b a).
Proof.
  intros a b. destruct a, b; unfold arith; first [apply cmp_f64_swap | apply cmp_Z_swap].
Qed.

Lemma string_compare_swap : forall a b, string_compare a b = - string_compare b a.
Proof.
  induction a as [|x a IH]; destruct b as [|y b]; cbn [string_compare]; try reflexivity.
  rewrite (N.eqb_sym y x). destruct (N.eqb x y); [apply IH|lia].
Qed.

Lemma str_cmp_swap : forall s t, str_cmp s t = cmp_rev (str_cmp t s).
Proof.
  intros s t. unfold str_cmp. rewrite (string_compare_swap s t).
  destruct (Z.ltb_spec (- string_compare t s) 0);
  destruct (Z.ltb_spec 0 (- string_compare t s));
  destruct (Z.ltb_spec (string_compare t s) 0);
  destruct (Z.ltb_spec 0 (string_compare t s)); try reflexivity; lia.
Qed.

Lemma raw_compare_swap : forall a b, raw_compare a b = cmp_rev (raw_compare b a).
Proof.
  induction a as [|x a IH]; destruct b as [|y b]; cbn [raw_compare]; try reflexivity.
  rewrite (N.eqb_sym y x). destruct (N.eqb x y) eqn:E; [apply IH|].
  apply N.eqb_neq in E.
  destruct (N.ltb_spec x y); destruct (N.ltb_spec y x); try reflexivity; lia.
Qed.

(* arrays *)
Lemma arr_eq_with_ext : forall f g la lb,
  (forall a b, In a la -> In b lb -> f b a = g b a) ->
  arr_eq_with f la lb = arr_eq_with g la lb.
Proof.
  induction la as [|a la IH]; intros lb H; destruct lb as [|b lb]; cbn [arr_eq_with]; try reflexivity.
  rewrite (H a b) by (left; reflexivity).
  f_equal. apply IH. intros a' b' Ha Hb. apply H; right; assumption.
Qed.

Lemma arr_eq_with_swap : forall f la lb,
  (forall a b, In a la -> In b lb -> is_equal (f b a) = is_equal (f a b)) ->
  arr_eq_with f la lb = arr_eq_with f lb la.
Proof.
  induction la as [|a la IH]; intros lb H; destruct lb as [|b lb]; cbn [arr_eq_with]; try reflexivity.
  rewrite (H a b) by (left; reflexivity).
  f_equal. apply IH. intros a' b' Ha Hb. apply H; right; assumption.
Qed.

(* objects *)
Lemma beqb_true : forall a b, bytes_eqb a b = true -> a = b.
Proof.
  induction a as [|x a IH]; destruct b as [|y b]; cbn [bytes_eqb]; intros H; try discriminate.
  - reflexivity.
  - apply andb_true_iff in H. destruct H as [H1 H2].
    apply N.eqb_eq in H1. apply IH in H2. subst. reflexivity.
Qed.

Lemma beqb_refl : forall a, bytes_eqb a a = true.
Proof.
  induction a as [|x a IH]; cbn [bytes_eqb]; [reflexivity|].
  rewrite N.eqb_refl. exact IH.
Qed.

Lemma assoc_get_in : forall k l w, assoc_get k l = Some w -> In (k, w) l.
Proof.
  induction l as [|[k0 v0] l IH]; intros w H; cbn [assoc_get] in H; [discriminate|].
  destruct (bytes_eqb k k0) eqn:E.
  - apply beqb_true in E. subst. inversion H; subst. left. reflexivity.
  - right. apply IH. exact H.
Qed.

Lemma assoc_get_nodup : forall k v l, NoDup (map fst l) -> In (k, v) l -> assoc_get k l = Some v.
Proof.
  induction l as [|[k0 v0] l IH]; intros Hnd Hin; [destruct Hin|].
  cbn [map fst] in Hnd. inversion Hnd as [|? ? Hnotin Hnd']; subst.
  cbn [assoc_get]. destruct Hin as [Heq|Hin].
  - inversion Heq; subst. rewrite beqb_refl. reflexivity.
  - destruct (bytes_eqb k k0) eqn:E.
    + apply beqb_true in E. subst. exfalso. apply Hnotin.
      apply in_map_iff. exists (k0, v). split; [reflexivity|exact Hin].
    + apply IH; assumption.
Qed.

Lemma forallb_ext_In : forall (A : Type) (p q : A -> bool) (l : list A),
  (forall x, In x l -> p x = q x) -> forallb p l = forallb q l.
Proof.
  induction l as [|a l IH]; intros H; cbn [forallb]; [reflexivity|].
  rewrite (H a) by (left; reflexivity). f_equal. apply IH. intros x Hx. apply H. right. exact Hx.
Qed.

Lemma obj_eq_with_ext : forall f g x y,
  (forall k v k' w, In (k, v) x -> In (k', w) y -> f w v = g w v) ->
  obj_eq_with f x y = obj_eq_with g x y.
Proof.
  intros f g x y H. unfold obj_eq_with. f_equal.
  apply forallb_ext_In.
  intros [k v] Hin. cbn [fst snd].
  destruct (assoc_get k y) as [w|] eqn:E; [|reflexivity].
  apply assoc_get_in in E. rewrite (H k v k w Hin E). reflexivity.
Qed.

Lemma obj_eq_with_imp : forall f x y,
  NoDup (map fst x) -> NoDup (map fst y) ->
  (forall k v w, In (k, v) x -> In (k, w) y -> is_equal (f w v) = true -> is_equal (f v w) = true) ->
  obj_eq_with f x y = true -> obj_eq_with f y x = true.
Proof.
  intros f x y Hx Hy Hsym H. unfold obj_eq_with in *.
  apply andb_true_iff in H. destruct H as [Hall Hlen].
  apply Nat.eqb_eq in Hlen.
  apply andb_true_iff. split; [|apply Nat.eqb_eq; symmetry; exact Hlen].
  rewrite forallb_forall in Hall.
  assert (Hincl : incl (map fst x) (map fst y)).
  { intros k Hk. apply in_map_iff in Hk. destruct Hk as [[k1 v] [Hk1 Hin]]. cbn [fst] in Hk1. subst k1.
    specialize (Hall _ Hin). cbn [fst snd] in Hall.
    destruct (assoc_get k y) as [w|] eqn:E; [|discriminate].
    apply assoc_get_in in E. apply in_map_iff. exists (k, w). split; [reflexivity|exact E]. }
  assert (Hincl' : incl (map fst y) (map fst x)).
  { apply NoDup_length_incl; [exact Hx| |exact Hincl].
    rewrite !map_length. lia. }
  apply forallb_forall. intros [k w] Hin. cbn [fst snd].
  assert (Hk : In k (map fst x)).
  { apply Hincl'. apply in_map_iff. exists (k, w). split; [reflexivity|exact Hin]. }
  apply in_map_iff in Hk. destruct Hk as [[k1 v] [Hk1 Hinx]]. cbn [fst] in Hk1. subst k1.
  rewrite (assoc_get_nodup k v x Hx Hinx).
  specialize (Hall _ Hinx). cbn [fst snd] in Hall.
  rewrite (assoc_get_nodup k w y Hy Hin) in Hall.
  apply (Hsym k v w Hinx Hin Hall).
Qed.

Lemma obj_eq_with_swap : forall f x y,
  NoDup (map fst x) -> NoDup (map fst y) ->
  (forall k v w, In (k, v) x -> In (k, w) y -> is_equal (f w v) = is_equal (f v w)) ->
  obj_eq_with f x y = obj_eq_with f y x.
Proof.
  intros f x y Hx Hy Hsym.
  destruct (obj_eq_with f x y) eqn:E1; destruct (obj_eq_with f y x) eqn:E2; try reflexivity.
  - rewrite <- E2. symmetry. apply obj_eq_with_imp; try assumption.
    intros k v w Hv Hw H. rewrite <- (Hsym k v w Hv Hw). exact H.
  - rewrite <- E1. apply obj_eq_with_imp; try assumption.
    intros k w v Hw Hv H. rewrite (Hsym k v w Hv Hw). exact H.
Qed.

(* fuel independence *)
Lemma compare_fuel_indep : forall n m a b,
  (jsize a + jsize b <= n)%nat -> (jsize a + jsize b <= m)%nat ->
  compare_fuel n a b = compare_fuel m a b.
Proof.
  induction n as [|n IH]; intros m a b Hn Hm.
  - pose proof (jsize_pos a). lia.
  - destruct m as [|m]; [pose proof (jsize_pos a); lia|].
    rewrite !compare_fuel_S.
    destruct a; try reflexivity; destruct b; try reflexivity; cbn [compare_step].
    + rewrite (arr_eq_with_ext (compare_fuel n) (compare_fuel m) l l0); [reflexivity|].
      intros x y Hx Hy. apply jsize_arr_in in Hx. apply jsize_arr_in in Hy.
      apply IH; lia.
    + rewrite (obj_eq_with_ext (compare_fuel n) (compare_fuel m) l0 l); [reflexivity|].
      intros k v k' w Hv Hw. apply jsize_obj_in in Hv. apply jsize_obj_in in Hw.
      apply IH; lia.
Qed.

Lemma compare_enough_fuel : forall n a b,
  (jsize a + jsize b <= n)%nat -> compare_fuel n a b = compare a b.
Proof. intros n a b H. unfold compare. apply compare_fuel_indep; lia. Qed.

Lemma compare_fuel_swap : forall n a b,
  (jsize a + jsize b <= n)%nat -> wf a -> wf b ->
  compare_fuel n a b = cmp_rev (compare_fuel n b a).
Proof.
  induction n as [|n IH]; intros a b Hn Ha Hb; [reflexivity|].
  rewrite !compare_fuel_S.
  destruct a; destruct b; cbn [compare_step numv_of]; try reflexivity;
    try (f_equal; apply arith_swap).
  - apply str_cmp_swap.
  - f_equal. apply raw_compare_swap.
  - rewrite (arr_eq_with_swap (compare_fuel n) l l0).
    + destruct (arr_eq_with (compare_fuel n) l0 l); reflexivity.
    + intros x y Hx Hy.
      pose proof (jsize_arr_in _ _ Hx). pose proof (jsize_arr_in _ _ Hy).
      rewrite (IH y x); [apply is_equal_rev|lia| |].
      * exact (wf_arr_in _ _ Hb Hy).
      * exact (wf_arr_in _ _ Ha Hx).
  - rewrite (obj_eq_with_swap (compare_fuel n) l0 l).
    + destruct (obj_eq_with (compare_fuel n) l l0); reflexivity.
    + apply wf_obj_nodup. exact Hb.
    + apply wf_obj_nodup. exact Ha.
    + intros k v w Hv Hw.
      pose proof (jsize_obj_in _ _ _ Hv). pose proof (jsize_obj_in _ _ _ Hw).
      rewrite (IH w v); [apply is_equal_rev|lia| |].
      * exact (wf_obj_in _ _ _ Ha Hw).
      * exact (wf_obj_in _ _ _ Hb Hv).
Qed.

Lemma compare_swap : forall a b, wf a -> wf b -> compare a b = cmp_rev (compare b a).
Proof.
  intros a b Ha Hb. unfold compare. rewrite (Nat.add_comm (jsize b) (jsize a)).
  apply compare_fuel_swap; [lia|exact Ha|exact Hb].
Qed.

Theorem eq_symmetric : forall a b, wf a -> wf b -> op_eq a b = op_eq b a.
Proof.
  intros a b Ha Hb. unfold op_eq. rewrite (compare_swap a b Ha Hb). symmetry. apply is_equal_rev.
Qed.

Theorem lt_is_gt_swapped : forall a b, wf a -> wf b -> op_lt a b = op_gt b a.
Proof.
  intros a b Ha Hb. unfold op_lt, op_gt. rewrite (compare_swap a b Ha Hb).
  destruct (compare b a); reflexivity.
Qed.

Theorem gt_is_lt_swapped : forall a b, wf a -> wf b -> op_gt a b = op_lt b a.
Proof. intros a b Ha Hb. symmetry. apply lt_is_gt_swapped; assumption. Qed.

Theorem le_is_ge_swapped : forall a b, wf a -> wf b -> op_le a b = op_ge b a.
Proof.
  intros a b Ha Hb. rewrite le_is_lt_or_eq, ge_is_gt_or_eq.
  rewrite (lt_is_gt_swapped a b Ha Hb), (eq_symmetric a b Ha Hb). reflexivity.
Qed.

Theorem ne_symmetric : forall a b, wf a -> wf b -> op_ne a b = op_ne b a.
Proof. intros a b Ha Hb. rewrite !ne_is_not_eq, (eq_symmetric a b Ha Hb). reflexivity. Qed.

(* wf cannot be dropped: with a repeated key == is not symmetric (known finding) *)
Lemma eq_asymmetric_dup_keys :
  let a := JObj [([107%N], JInt 1); ([107%N], JInt 2)] in
  let b := JObj [([107%N], JInt 1); ([107%N], JInt 1)] in
  op_eq a b = false /\ op_eq b a = true.
Proof. split; reflexivity. Qed.
