(* CompareProofs.v — the comparison operators of Model/Compare.v form one coherent relation. *)
From Coq Require Import ZArith NArith Bool List Lia.
From Coq Require Import Floats.SpecFloat.
From AJ Require Import Model.Base Model.FloatModel Model.Value Model.Compare.
Local Open Scope Z_scope.

(* ------------------------------------------------------------------------------------------ *)
(* One step of compare_fuel, with the recursive call abstracted                                 *)
(* ------------------------------------------------------------------------------------------ *)

Definition arr_eq_with (cmpv : jv -> jv -> cmp) : list jv -> list jv -> bool :=
  fix arr_eq (x y : list jv) : bool :=
    match x, y with
    | [], [] => true
    | a :: x', b :: y' => is_equal (cmpv b a) && arr_eq x' y'
    | _, _ => false
    end.

Definition obj_eq_with (cmpv : jv -> jv -> cmp) (x y : list (bytes * jv)) : bool :=
  forallb (fun kv => match assoc_get (fst kv) y with
                     | Some w => is_equal (cmpv w (snd kv))
                     | None => false
                     end) x && Nat.eqb (length x) (length y).

Definition str_cmp (s t : bytes) : cmp :=
  let i := string_compare s t in
  cmp_rev (if i <? 0 then CGreater else if 0 <? i then CLess else CEqual).

Definition compare_step (cmpv : jv -> jv -> cmp) (lhs rhs : jv) : cmp :=
  match lhs with
  | JArr la => match rhs with
               | JArr lb => if arr_eq_with cmpv la lb then CEqual else CDiffer
               | _ => CDiffer
               end
  | JObj la => match rhs with
               | JObj lb => if obj_eq_with cmpv lb la then CEqual else CDiffer
               | _ => CDiffer
               end
  | JStr s => match rhs with
              | JStr t => str_cmp s t
              | _ => CDiffer
              end
  | JRaw a => match rhs with
              | JRaw b => cmp_rev (raw_compare b a)
              | _ => CDiffer
              end
  | JNull => match rhs with JNull => CEqual | _ => CDiffer end
  | _ =>
      match numv_of lhs, numv_of rhs with
      | Some a, Some b => cmp_rev (arith b a)
      | _, _ => CDiffer
      end
  end.

Lemma compare_fuel_S : forall n a b, compare_fuel (S n) a b = compare_step (compare_fuel n) a b.
Proof. reflexivity. Qed.

Lemma compare_fuel_O : forall a b, compare_fuel O a b = CDiffer.
Proof. reflexivity. Qed.

Lemma jsize_pos : forall v, (1 <= jsize v)%nat.
Proof. destruct v; cbn [jsize]; lia. Qed.

(* compare always has at least one unit of fuel *)
Lemma compare_unfold : forall a b, exists n, compare a b = compare_step (compare_fuel n) a b.
Proof.
  intros a b. unfold compare.
  pose proof (jsize_pos a) as Ha.
  destruct (jsize a + jsize b)%nat as [|n] eqn:E; [lia|].
  exists n. apply compare_fuel_S.
Qed.

(* ------------------------------------------------------------------------------------------ *)
(* (1) (2) (3): the six operators read one answer                                               *)
(* ------------------------------------------------------------------------------------------ *)

Theorem ne_is_not_eq : forall a b, op_ne a b = negb (op_eq a b).
Proof. intros a b. reflexivity. Qed.

Theorem at_most_one : forall a b,
  (op_lt a b && op_eq a b = false) /\ (op_lt a b && op_gt a b = false) /\ (op_eq a b && op_gt a b = false).
Proof.
  intros a b. unfold op_lt, op_eq, op_gt.
  destruct (compare b a); cbn [is_equal andb]; repeat split; reflexivity.
Qed.

Theorem le_is_lt_or_eq : forall a b, op_le a b = op_lt a b || op_eq a b.
Proof.
  intros a b. unfold op_le, op_lt, op_eq.
  destruct (compare b a); reflexivity.
Qed.

Theorem ge_is_gt_or_eq : forall a b, op_ge a b = op_gt a b || op_eq a b.
Proof.
  intros a b. unfold op_ge, op_gt, op_eq.
  destruct (compare b a); reflexivity.
Qed.

(* ------------------------------------------------------------------------------------------ *)
(* (5) by value for the scalar kinds                                                            *)
(* ------------------------------------------------------------------------------------------ *)

Lemma compare_scalar : forall a b,
  (forall l, a <> JArr l) -> (forall l, a <> JObj l) ->
  compare a b = compare_step (fun _ _ => CDiffer) a b.
Proof.
  intros a b Ha Ho. destruct (compare_unfold a b) as [n E]. rewrite E.
  destruct a; try reflexivity.
  - exfalso. eapply Ha. reflexivity.
  - exfalso. eapply Ho. reflexivity.
Qed.

Lemma compare_scalar_r : forall a b,
  (forall l, b <> JArr l) -> (forall l, b <> JObj l) ->
  compare a b = compare_step (fun _ _ => CDiffer) a b.
Proof.
  intros a b Ha Ho. destruct (compare_unfold a b) as [n E]. rewrite E.
  destruct a; try reflexivity.
  - destruct b; try reflexivity. exfalso. eapply Ha. reflexivity.
  - destruct b; try reflexivity. exfalso. eapply Ho. reflexivity.
Qed.

Lemma cmp_Z_eq : forall x y, is_equal (cmp_Z x y) = Z.eqb x y.
Proof.
  intros x y. unfold cmp_Z.
  destruct (Z.ltb_spec x y); [|destruct (Z.ltb_spec y x)]; cbn [is_equal]; symmetry.
  - apply Z.eqb_neq. lia.
  - apply Z.eqb_neq. lia.
  - apply Z.eqb_eq. lia.
Qed.

Lemma is_equal_rev : forall c, is_equal (cmp_rev c) = is_equal c.
Proof. destruct c; reflexivity. Qed.

Theorem int_by_value : forall x y,
  op_eq (JInt x) (JInt y) = Z.eqb x y /\ op_lt (JInt x) (JInt y) = Z.ltb x y.
Proof.
  intros x y. unfold op_eq, op_lt.
  rewrite compare_scalar by (intros; discriminate).
  cbn [compare_step numv_of arith nv_to_Z]. split.
  - rewrite is_equal_rev. apply cmp_Z_eq.
  - unfold cmp_Z. destruct (Z.ltb_spec x y); [reflexivity|].
    destruct (Z.ltb_spec y x); reflexivity.
Qed.

Lemma raw_compare_eq : forall s t, is_equal (raw_compare s t) = bytes_eqb s t.
Proof.
  induction s as [|x s IH]; destruct t as [|y t]; cbn [raw_compare bytes_eqb]; try reflexivity.
  destruct (N.eqb x y) eqn:E; cbn [andb].
  - apply IH.
  - destruct (N.ltb x y); reflexivity.
Qed.

Theorem raw_eq_by_bytes : forall s t, op_eq (JRaw s) (JRaw t) = bytes_eqb s t.
Proof.
  intros s t. unfold op_eq.
  rewrite compare_scalar by (intros; discriminate).
  cbn [compare_step]. rewrite is_equal_rev. apply raw_compare_eq.
Qed.

Theorem null_only_null : forall v, op_eq JNull v = match v with JNull => true | _ => false end.
Proof.
  intros v. unfold op_eq.
  rewrite compare_scalar_r by (intros; discriminate).
  destruct v; reflexivity.
Qed.

Lemma SFcompare_nan_r : forall x, SFcompare x S754_nan = None.
Proof. destruct x; reflexivity. Qed.

Lemma cmp_f64_nan_l : forall x, cmp_f64 S754_nan x = CDiffer.
Proof. intros x. reflexivity. Qed.

Lemma cmp_f64_nan_r : forall x, cmp_f64 x S754_nan = CDiffer.
Proof.
  intros x. unfold cmp_f64, f_lt, f_gt, f_eq. rewrite SFcompare_nan_r. reflexivity.
Qed.

Lemma arith_nan_l : forall a, arith (NvFlt S754_nan) a = CDiffer.
Proof. intros a. destruct a; reflexivity. Qed.

Lemma arith_nan_r : forall a, arith a (NvFlt S754_nan) = CDiffer.
Proof.
  intros a. destruct a; unfold arith; cbn [nv_to_double]; apply cmp_f64_nan_r.
Qed.

Theorem nan_equals_nothing : forall v,
  op_eq (JDouble S754_nan) v = false /\ op_eq v (JDouble S754_nan) = false.
Proof.
  intros v. unfold op_eq. split.
  - rewrite compare_scalar_r by (intros; discriminate).
    destruct v; try reflexivity;
      cbn [compare_step numv_of]; rewrite arith_nan_l; reflexivity.
  - rewrite compare_scalar by (intros; discriminate).
    destruct v; try reflexivity;
      cbn [compare_step numv_of]; rewrite arith_nan_r; reflexivity.
Qed.

Theorem nan_float_equals_nothing : forall v,
  op_eq (JFloat S754_nan) v = false /\ op_eq v (JFloat S754_nan) = false.
Proof.
  intros v. unfold op_eq. split.
  - rewrite compare_scalar_r by (intros; discriminate).
    destruct v; try reflexivity;
      cbn [compare_step numv_of fconv]; rewrite arith_nan_l; reflexivity.
  - rewrite compare_scalar by (intros; discriminate).
    destruct v; try reflexivity;
      cbn [compare_step numv_of fconv]; rewrite arith_nan_r; reflexivity.
Qed.
