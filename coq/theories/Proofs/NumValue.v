(* NumValue.v — the value of a decimal literal and the number parse_number returns (C12, parsing side).

   A literal is   [sign] I [ '.' F ] [ (e|E) [sign] X ]   with I, F, X digit strings.  The model accepts
   an empty I when a '.' is present (".5", and even "." which is read as 0) and an empty X ("1e" is
   read as 1e0); the theorems cover these too.  A literal is described by
     sg : option bool          its sign (None: none, Some true: '-', Some false: '+')
     I  : list N               integer digits
     fo : option (list N)      None: no '.', Some F: '.' followed by the digits F
     eo : option (N * option bool * list N)   None: no exponent; Some (eb, esg, X): eb in {e,E}, sign, digits
   [lit sg I fo eo] is its text, [wf_lit I fo eo] says the pieces are digits and (I <> [] or '.' present),
   [lit_value neg I F E] is its exact real value and [lit_abs I F E] its absolute value V, with
   F = frac_digits fo and E = lit_exp eo the written exponent.
   [int_path sg I fo eo]: no '.', no exponent, value <= 2^64-1 (and <= 2^63 when negative): these
   literals are returned as integers (literal_integer_exact); all others go through [finish].

   Part 1  what the scanner computes
     scan_shape      (in Z, no axiom) parse_number = the integer (int_path) or
                     finish c neg (N / 10^kd) (Es + kd - |F|), N = dec (I ++ F) 0 the value of all the
                     digits, kd >= 0 the number of dropped digits (kd > 0 -> mantissa >= mant_max/10),
                     Es the exponent returned by the saturating accumulator of scan_exp
     scan_value_sat  (in R) 0 <= mant <= mant_max, V = 0 -> mant = 0, V > 0 -> mant >= 1,
                     mant*10^expo <= V, V - mant*10^expo <= trunc_err c * V, with
                     trunc_err c = 1/(mant_max/10) = 1/450359962737049 (< 2.3e-15) with use_double and
                     1/838860 (< 1.2e-6) without; exact when dec (I ++ F) 0 < 10 * (mant_max / 10)
     scan_value      the same against the written exponent, under the exact non-saturation condition
                     dec X 0 < 10000;  scan_value_cases adds the integer alternative
     window_not_saturated   a literal of at most 9000 digits whose value lies in [1e-1000, 1e999] does
                     not saturate the accumulator
     NOTE  "digits worth <= mant_max  ->  exact" is false: scan_frac takes a digit only while
           mant < mant_max/10, so "0.4503599627370495" (digits = 2^52-1) loses its last digit
           (Example mant_max_digit_dropped).  The exactness condition proved is
           dec (I ++ F) 0 < 10 * (mant_max / 10).
   Part 2  the parsing clause of the property
     literal_accuracy_double_cfg (+ _tight: 6e-7 / 4.3e-15, + _all: with the integer alternative),
     more_than_seven_digits_is_double, literal_integer_exact,
     literal_accuracy_float_cfg (window [1e-31, 1e38], 2e-6; _tight: 1.8e-6; 1e-6 is false:
     Example float_cfg_1e6_false, "8388609.0" is returned as 8388600),
     out_of_range_literals (use_double: > 1e309 -> infinity of the sign, < 1e-400 -> zero of the sign),
     out_of_range_overflow (>= 2^1024 (1+5e-15)), out_of_range_huge / out_of_range_tiny (any
     configuration: >= 10^(exp_max + digits + 1), < 10^-(exp_max + 20)),
     examples ex_3_14, ex_small, ex_long.
   Nothing is assumed beyond what Coq's Reals bring (through Flocq); nothing is declared here. *)
From Coq Require Import ZArith NArith Reals Lia Lra List Bool.
From Flocq Require Import Core BinarySingleNaN.
From Coq Require Import Floats.SpecFloat.
From AJ Require Import Model.Base Model.FloatModel Model.Value Model.NumParse Proofs.NumProofs
  Proofs.FloatErr.
Import ListNotations.
Local Open Scope Z_scope.
Set Warnings "-abstract-large-number".

(* ------------------------------------------------------------------------------------------ *)
(* Part A — digit strings                                                                      *)
(* ------------------------------------------------------------------------------------------ *)

Definition len (l : list N) : Z := Z.of_nat (length l).

Lemma len_nonneg : forall l, 0 <= len l.
Proof. intros l. unfold len. lia. Qed.

Lemma len_nil : len [] = 0.
Proof. reflexivity. Qed.

Lemma len_cons : forall b l, len (b :: l) = len l + 1.
Proof. intros b l. unfold len. cbn [length]. lia. Qed.

Lemma len_app : forall a b, len (a ++ b) = len a + len b.
Proof. intros a b. unfold len. rewrite app_length. lia. Qed.

Lemma pow10_pos : forall k, 0 <= k -> 0 < 10 ^ k.
Proof. intros k Hk. apply Z.pow_pos_nonneg; lia. Qed.

Lemma dec_cons : forall b l acc, dec (b :: l) acc = dec l (acc * 10 + digit_val b).
Proof. reflexivity. Qed.

Lemma dec_nil : forall acc, dec [] acc = acc.
Proof. reflexivity. Qed.

Lemma dec_app : forall a b acc, dec (a ++ b) acc = dec b (dec a acc).
Proof. intros a b acc. unfold dec. apply fold_left_app. Qed.

Lemma dec_acc : forall l acc, dec l acc = acc * 10 ^ len l + dec l 0.
Proof.
  induction l as [|b t IH]; intros acc.
  - rewrite !dec_nil, len_nil. change (10 ^ 0) with 1. lia.
  - rewrite !dec_cons, len_cons. rewrite (IH (acc * 10 + digit_val b)), (IH (0 * 10 + digit_val b)).
    rewrite Z.pow_add_r by (pose proof (len_nonneg t); lia). change (10 ^ 1) with 10. ring.
Qed.

Lemma dec_bound : forall l, Forall digitb l -> 0 <= dec l 0 < 10 ^ len l.
Proof.
  induction l as [|b t IH]; intros F.
  - rewrite dec_nil, len_nil. change (10 ^ 0) with 1. lia.
  - inversion F as [|? ? Hb F']; subst. specialize (IH F').
    pose proof (is_digit_val b (digitb_is_digit b Hb)) as Hd.
    rewrite dec_cons, dec_acc, len_cons.
    rewrite Z.pow_add_r by (pose proof (len_nonneg t); lia). change (10 ^ 1) with 10.
    pose proof (pow10_pos (len t) (len_nonneg t)). nia.
Qed.

Lemma dec_div : forall l acc, Forall digitb l -> dec l acc / 10 ^ len l = acc.
Proof.
  intros l acc F. rewrite dec_acc. pose proof (dec_bound l F) as B.
  rewrite Z.div_add_l by lia. rewrite Z.div_small by exact B. lia.
Qed.

Lemma Forall_app_l : forall (P : N -> Prop) a b, Forall P (a ++ b) -> Forall P a.
Proof. intros P a b H. apply Forall_app in H. tauto. Qed.
Lemma Forall_app_r : forall (P : N -> Prop) a b, Forall P (a ++ b) -> Forall P b.
Proof. intros P a b H. apply Forall_app in H. tauto. Qed.

(* ------------------------------------------------------------------------------------------ *)
(* Part B — the scanner loops on digit strings                                                 *)
(* ------------------------------------------------------------------------------------------ *)

Lemma scan_int_stop : forall rest acc, is_digit (hd0 rest) = false -> scan_int rest acc = (acc, rest).
Proof.
  intros rest acc H. destruct rest as [|r rest']; [reflexivity|].
  cbn [hd0] in H. cbn [scan_int]. rewrite H. reflexivity.
Qed.

(* scan_int reads a prefix I1 of the digits; it stops early only on the uint64 overflow guards *)
Lemma scan_int_split : forall I acc rest, Forall digitb I -> 0 <= acc <= maxUint ->
  is_digit (hd0 rest) = false ->
  exists I1 I2, I = I1 ++ I2 /\ scan_int (I ++ rest) acc = (dec I1 acc, I2 ++ rest) /\
    dec I1 acc <= maxUint /\ (I2 <> [] -> maxUint - 9 < dec I1 acc * 10).
Proof.
  induction I as [|b t IH]; intros acc rest F Ha Hr.
  - exists [], []. cbn [app]. rewrite dec_nil, scan_int_stop by exact Hr.
    repeat split; [lia | congruence].
  - inversion F as [|? ? Hb F']; subst.
    pose proof (is_digit_val b (digitb_is_digit b Hb)) as Hd.
    assert (Hmax : maxUint = 18446744073709551615) by reflexivity.
    cbn [app scan_int]. rewrite (digitb_is_digit b Hb).
    rewrite Hmax in *. change (18446744073709551615 / 10) with 1844674407370955161.
    destruct (Z.gtb_spec acc 1844674407370955161) as [X|X].
    { exists [], (b :: t). cbn [app]. rewrite dec_nil. repeat split; lia. }
    destruct (Z.gtb_spec (acc * 10) (18446744073709551615 - digit_val b)) as [Y|Y].
    { exists [], (b :: t). cbn [app]. rewrite dec_nil. repeat split; lia. }
    destruct (IH (acc * 10 + digit_val b) rest F' ltac:(lia) Hr) as [I1 [I2 [E1 [E2 [E3 E4]]]]].
    exists (b :: I1), I2. rewrite dec_cons. cbn [app]. rewrite E1 at 1.
    repeat split; assumption.
Qed.

Lemma shrink_spec : forall fuel mm m e, 0 <= mm -> 0 <= m < 10 ^ Z.of_nat fuel ->
  exists k, 0 <= k /\ shrink_mantissa fuel mm m e = (m / 10 ^ k, e + k) /\ m / 10 ^ k <= mm /\
    (k = 0 -> m <= mm) /\ (0 < k -> mm < m /\ mm / 10 <= m / 10 ^ k).
Proof.
  induction fuel as [|fuel IH]; intros mm m e Hmm Hm.
  - change (10 ^ Z.of_nat 0) with 1 in Hm. assert (m = 0) by lia. subst m.
    exists 0. cbn [shrink_mantissa]. change (10 ^ 0) with 1. rewrite Z.div_1_r, Z.add_0_r.
    repeat split; lia.
  - cbn [shrink_mantissa]. destruct (Z.gtb_spec m mm) as [G|G].
    + rewrite Nat2Z.inj_succ, Z.pow_succ_r in Hm by lia.
      assert (Hm' : 0 <= m / 10 < 10 ^ Z.of_nat fuel).
      { split; [apply Z.div_pos; lia | apply Z.div_lt_upper_bound; lia]. }
      destruct (IH mm (m / 10) (e + 1) Hmm Hm') as [k [K0 [K1 [K2 [K3 K4]]]]].
      assert (E : m / 10 / 10 ^ k = m / 10 ^ (k + 1)).
      { rewrite Z.div_div by (try apply pow10_pos; lia).
        rewrite Z.pow_add_r by lia. change (10 ^ 1) with 10. f_equal. ring. }
      exists (k + 1). rewrite K1, E in *. replace (e + 1 + k) with (e + (k + 1)) by ring.
      repeat split; try lia.
      destruct (Z.eq_dec k 0) as [->|Kn].
      * rewrite <- E. change (10 ^ 0) with 1. rewrite Z.div_1_r.
        apply Z.div_le_mono; lia.
      * apply K4. lia.
    + exists 0. change (10 ^ 0) with 1. rewrite Z.div_1_r, Z.add_0_r. repeat split; lia.
Qed.

Lemma skip_digits_app : forall ds rest e, Forall digitb ds -> is_digit (hd0 rest) = false ->
  skip_digits (ds ++ rest) e = (e + len ds, rest).
Proof.
  induction ds as [|b t IH]; intros rest e F Hr.
  - cbn [app]. rewrite len_nil, Z.add_0_r. destruct rest as [|r rest']; [reflexivity|].
    cbn [hd0] in Hr. cbn [skip_digits]. rewrite Hr. reflexivity.
  - inversion F as [|? ? Hb F']; subst. cbn [app skip_digits].
    rewrite (digitb_is_digit b Hb), IH by assumption. rewrite len_cons. f_equal. ring.
Qed.

(* once the mantissa is full, every further fractional digit is ignored *)
Lemma scan_frac_sat : forall mm ds rest m e, Forall digitb ds -> is_digit (hd0 rest) = false ->
  mm / 10 <= m -> scan_frac mm (ds ++ rest) m e = (m, e, rest).
Proof.
  intros mm. induction ds as [|b t IH]; intros rest m e F Hr Hm.
  - cbn [app]. destruct rest as [|r rest']; [reflexivity|].
    cbn [hd0] in Hr. cbn [scan_frac]. rewrite Hr. reflexivity.
  - inversion F as [|? ? Hb F']; subst. cbn [app scan_frac].
    rewrite (digitb_is_digit b Hb). destruct (Z.ltb_spec m (mm / 10)) as [L|L]; [lia|].
    apply IH; assumption.
Qed.

(* scan_frac: the last kd digits are dropped *)
Lemma scan_frac_spec : forall mm ds rest m e, Forall digitb ds -> is_digit (hd0 rest) = false ->
  0 <= m <= mm ->
  exists kd, 0 <= kd /\
    scan_frac mm (ds ++ rest) m e = (dec ds m / 10 ^ kd, e - len ds + kd, rest) /\
    dec ds m / 10 ^ kd <= mm /\ (0 < kd -> mm / 10 <= dec ds m / 10 ^ kd) /\
    (mm / 10 <= m -> kd = len ds).
Proof.
  intros mm. induction ds as [|b t IH]; intros rest m e F Hr Hm.
  - exists 0. rewrite dec_nil, len_nil. change (10 ^ 0) with 1. rewrite Z.div_1_r.
    cbn [app]. destruct rest as [|r rest'].
    + cbn [scan_frac]. replace (e - 0 + 0) with e by ring. repeat split; lia.
    + cbn [hd0] in Hr. cbn [scan_frac]. rewrite Hr. replace (e - 0 + 0) with e by ring.
      repeat split; lia.
  - inversion F as [|? ? Hb F']; subst.
    pose proof (is_digit_val b (digitb_is_digit b Hb)) as Hd.
    destruct (Z.ltb_spec m (mm / 10)) as [L|L].
    + assert (Hm' : 0 <= m * 10 + digit_val b <= mm).
      { pose proof (Z.mul_div_le mm 10 ltac:(lia)). lia. }
      destruct (IH rest (m * 10 + digit_val b) (e - 1) F' Hr Hm') as [kd [K0 [K1 [K2 [K3 K4]]]]].
      exists kd. cbn [app scan_frac]. rewrite (digitb_is_digit b Hb).
      destruct (Z.ltb_spec m (mm / 10)) as [_|L']; [|lia].
      rewrite K1, dec_cons, len_cons. replace (e - 1 - len t + kd) with (e - (len t + 1) + kd) by ring.
      repeat split; try assumption. lia.
    + exists (len (b :: t)). cbn [app]. change (b :: t ++ rest) with ((b :: t) ++ rest).
      rewrite scan_frac_sat by assumption.
      rewrite dec_div by exact F.
      replace (e - len (b :: t) + len (b :: t)) with e by ring.
      pose proof (len_nonneg (b :: t)). repeat split; lia.
Qed.

(* ------------------------------------------------------------------------------------------ *)
(* Part C — parse_number, phase by phase                                                       *)
(* ------------------------------------------------------------------------------------------ *)

Definition frac_step (mm : Z) (s : bytes) (m e : Z) : Z * Z * bytes :=
  match s with
  | 46%N :: t => scan_frac mm t m e
  | _ => (m, e, s)
  end.

Definition exp_step (c : cfg) (neg : bool) (m e : Z) (s : bytes) : number :=
  match s with
  | b :: t =>
      if (b =? 101)%N || (b =? 69)%N then
        let '(negexp, t) := match t with
                            | 45%N :: t' => (true, t')
                            | 43%N :: t' => (false, t')
                            | _ => (false, t)
                            end in
        let '(x, t) := scan_exp t 0 in
        go_tail c neg m e (if negexp then - x else x) t
      else go_tail c neg m e 0 s
  | [] => go_tail c neg m e 0 s
  end.

Definition float_path (c : cfg) (neg : bool) (mant1 : Z) (s1 : bytes) : number :=
  let '(m2, e2) := shrink_mantissa 30 (mant_max_of c) mant1 0 in
  let '(e3, s3) := skip_digits s1 e2 in
  let '(m3, e4, s4) := frac_step (mant_max_of c) s3 m2 e3 in
  exp_step c neg m3 e4 s4.

Definition int_or_float (c : cfg) (neg : bool) (mant : Z) (s : bytes) : number :=
  match (match s with
         | [] => if neg then (if mant <=? 2 ^ 63 then Some (NumSInt (- mant)) else None)
                 else Some (NumUInt mant)
         | _ => None
         end) with
  | Some r => r
  | None => float_path c neg mant s
  end.

Definition after_sign (c : cfg) (neg : bool) (s : bytes) : number :=
  if enable_nan c && ((hd0 s =? 110)%N || (hd0 s =? 78)%N) then mk_jfloat c S754_nan
  else if enable_inf c && ((hd0 s =? 105)%N || (hd0 s =? 73)%N)
  then mk_jfloat c (S754_infinity neg)
  else if negb (is_digit (hd0 s)) && negb (hd0 s =? 46)%N then NumInvalid
  else let '(mant, s1) := scan_int s 0 in int_or_float c neg mant s1.

Lemma parse_number_phases : forall c s0,
  parse_number c s0 = let '(neg, s) := exp_sign s0 in after_sign c neg s.
Proof. intros c s0. reflexivity. Qed.

(* --- the text of a literal --- *)

Definition frac_bytes (fo : option (list N)) : bytes :=
  match fo with None => [] | Some F => 46%N :: F end.
Definition frac_digits (fo : option (list N)) : list N :=
  match fo with None => [] | Some F => F end.
Definition exp_bytes (eo : option (N * option bool * list N)) : bytes :=
  match eo with None => [] | Some (eb, esg, X) => eb :: sign_bytes esg ++ X end.
Definition exp_digits (eo : option (N * option bool * list N)) : list N :=
  match eo with None => [] | Some (_, _, X) => X end.
(* the exponent written in the literal, and the one the saturating accumulator returns *)
Definition lit_exp (eo : option (N * option bool * list N)) : Z :=
  match eo with None => 0 | Some (_, esg, X) => if sign_neg esg then - dec X 0 else dec X 0 end.
Definition lit_exp_sat (eo : option (N * option bool * list N)) : Z :=
  match eo with None => 0 | Some (_, esg, X) => if sign_neg esg then - exp_of X else exp_of X end.

Definition lit (sg : option bool) (I : list N) (fo : option (list N))
               (eo : option (N * option bool * list N)) : bytes :=
  sign_bytes sg ++ I ++ frac_bytes fo ++ exp_bytes eo.

Definition wf_exp (eo : option (N * option bool * list N)) : Prop :=
  match eo with None => True | Some (eb, _, X) => (eb = 101 \/ eb = 69)%N /\ Forall digitb X end.

Definition wf_lit (I : list N) (fo : option (list N)) (eo : option (N * option bool * list N)) : Prop :=
  Forall digitb I /\ Forall digitb (frac_digits fo) /\ (I <> [] \/ fo <> None) /\ wf_exp eo.

(* plain integer literal that fits the integer types: handled by the integer path *)
Definition int_path (sg : option bool) (I : list N) (fo : option (list N))
                    (eo : option (N * option bool * list N)) : Prop :=
  fo = None /\ eo = None /\ dec I 0 <= maxUint /\ (sign_neg sg = true -> dec I 0 <= 2 ^ 63).

Lemma exp_bytes_head : forall eo, wf_exp eo -> is_digit (hd0 (exp_bytes eo)) = false.
Proof.
  intros [[[eb esg] X]|] W; [|reflexivity]. cbn [exp_bytes hd0]. destruct W as [[->| ->] _]; reflexivity.
Qed.

Lemma rest_head : forall fo eo, wf_exp eo -> is_digit (hd0 (frac_bytes fo ++ exp_bytes eo)) = false.
Proof.
  intros [F|] eo W; cbn [frac_bytes app]; [reflexivity | apply exp_bytes_head; exact W].
Qed.

Lemma frac_step_lit : forall mm fo eo m e, wf_exp eo ->
  frac_step mm (frac_bytes fo ++ exp_bytes eo) m e = scan_frac mm (frac_digits fo ++ exp_bytes eo) m e.
Proof.
  intros mm [F|] eo m e W; cbn [frac_bytes frac_digits app]; [reflexivity|].
  destruct eo as [[[eb esg] X]|]; [|reflexivity].
  cbn [exp_bytes]. destruct W as [[->| ->] _]; reflexivity.
Qed.

Lemma exp_step_lit : forall c neg m e eo, wf_exp eo ->
  exp_step c neg m e (exp_bytes eo) = finish c neg m (lit_exp_sat eo + e).
Proof.
  intros c neg m e [[[eb esg] X]|] W; [|reflexivity].
  destruct W as [Heb FX]. cbn [exp_bytes exp_step lit_exp_sat].
  replace ((eb =? 101)%N || (eb =? 69)%N) with true by (destruct Heb; subst eb; reflexivity).
  change (match sign_bytes esg ++ X with
          | 43%N :: t1 => (false, t1)
          | 45%N :: t2 => (true, t2)
          | _ => (false, sign_bytes esg ++ X)
          end) with (exp_sign (sign_bytes esg ++ X)).
  rewrite (exp_sign_bytes esg X FX). cbv iota beta.
  rewrite (scan_exp_all X FX). cbv iota beta. reflexivity.
Qed.

Lemma exp_sign_gen : forall sg body, hd0 body <> 45%N -> hd0 body <> 43%N ->
  exp_sign (sign_bytes sg ++ body) = (sign_neg sg, body).
Proof.
  intros sg body H1 H2. destruct sg as [[|]|]; cbn [sign_bytes app sign_neg]; try reflexivity.
  destruct body as [|b r]; [reflexivity|]. cbn [hd0] in H1, H2.
  destruct b as [|p]; [reflexivity|].
  do 6 (destruct p as [p|p|]; try reflexivity); contradiction.
Qed.

Lemma body_head : forall I fo eo, Forall digitb I -> (I <> [] \/ fo <> None) ->
  (digitb (hd0 (I ++ frac_bytes fo ++ exp_bytes eo)) \/ hd0 (I ++ frac_bytes fo ++ exp_bytes eo) = 46%N).
Proof.
  intros I fo eo FI Hne. destruct I as [|b t].
  - destruct Hne as [Hne|Hne]; [contradiction|]. destruct fo as [F|]; [|contradiction].
    right. reflexivity.
  - left. cbn [app hd0]. inversion FI; assumption.
Qed.

Lemma after_sign_body : forall c neg s, (digitb (hd0 s) \/ hd0 s = 46%N) ->
  after_sign c neg s = let '(mant, s1) := scan_int s 0 in int_or_float c neg mant s1.
Proof.
  intros c neg s H. unfold after_sign.
  assert (A : ((hd0 s =? 110)%N || (hd0 s =? 78)%N) = false).
  { destruct H as [[H1 H2]|H]; [|rewrite H; reflexivity].
    apply orb_false_iff. split; apply N.eqb_neq; lia. }
  assert (B : ((hd0 s =? 105)%N || (hd0 s =? 73)%N) = false).
  { destruct H as [[H1 H2]|H]; [|rewrite H; reflexivity].
    apply orb_false_iff. split; apply N.eqb_neq; lia. }
  assert (C : negb (is_digit (hd0 s)) && negb (hd0 s =? 46)%N = false).
  { destruct H as [H|H]; [rewrite (digitb_is_digit _ H); reflexivity | rewrite H; reflexivity]. }
  rewrite A, B, C, !andb_false_r. reflexivity.
Qed.

(* the floating-point path on the digits of a literal: the mantissa is the value N of all the
   digits with the last kd digits dropped *)
Lemma float_path_spec : forall c neg I1 I2 fo eo,
  Forall digitb I1 -> Forall digitb I2 -> Forall digitb (frac_digits fo) -> wf_exp eo ->
  dec I1 0 <= maxUint -> (I2 <> [] -> maxUint - 9 < dec I1 0 * 10) ->
  exists kd, 0 <= kd /\
    float_path c neg (dec I1 0) (I2 ++ frac_bytes fo ++ exp_bytes eo)
    = finish c neg (dec (I1 ++ I2 ++ frac_digits fo) 0 / 10 ^ kd)
                   (lit_exp_sat eo + (kd - len (frac_digits fo))) /\
    dec (I1 ++ I2 ++ frac_digits fo) 0 / 10 ^ kd <= mant_max_of c /\
    (0 < kd -> mant_max_of c / 10 <= dec (I1 ++ I2 ++ frac_digits fo) 0 / 10 ^ kd).
Proof.
  intros c neg I1 I2 fo eo F1 F2 FF W Hmax Hov.
  set (mm := mant_max_of c).
  assert (Hmm : 0 <= mm /\ mm * 10 + 9 <= maxUint - 9).
  { unfold mm, mant_max_of. destruct (use_double c); vm_compute; split; discriminate. }
  pose proof (dec_nonneg I1 F1) as H1pos.
  assert (Hfuel : 0 <= dec I1 0 < 10 ^ Z.of_nat 30).
  { split; [exact H1pos|]. eapply Z.le_lt_trans; [exact Hmax|]. vm_compute. reflexivity. }
  destruct (shrink_spec 30 mm (dec I1 0) 0 (proj1 Hmm) Hfuel) as [k [K0 [K1 [K2 [K3 K4]]]]].
  unfold float_path. fold mm. rewrite K1. cbv iota beta.
  rewrite skip_digits_app by (try apply rest_head; assumption). cbv iota beta.
  rewrite frac_step_lit by exact W.
  set (ka := 0 + k + len I2).
  set (m2 := dec I1 0 / 10 ^ k).
  pose proof (len_nonneg I2) as L2.
  assert (Hm2 : m2 = dec (I1 ++ I2) 0 / 10 ^ ka).
  { unfold m2, ka. rewrite dec_app. rewrite <- (dec_div I2 (dec I1 0) F2) at 1.
    rewrite Z.div_div by (try apply pow10_pos; lia).
    rewrite <- Z.pow_add_r by lia. f_equal. f_equal. ring. }
  assert (Hka : 0 < ka -> mm / 10 <= m2).
  { intros Hk. apply K4. destruct (Z.eq_dec k 0) as [->|]; [|lia].
    assert (I2 <> []) by (intros ->; unfold ka in Hk; rewrite len_nil in Hk; lia).
    specialize (Hov H). specialize (K3 eq_refl). lia. }
  assert (Hm2r : 0 <= m2 <= mm).
  { split; [|exact K2]. unfold m2. apply Z.div_pos; [lia | apply pow10_pos; lia]. }
  destruct (scan_frac_spec mm (frac_digits fo) (exp_bytes eo) m2 ka FF (exp_bytes_head eo W) Hm2r)
    as [kd [D0 [D1 [D2 [D3 D4]]]]].
  rewrite D1. cbv iota beta. rewrite exp_step_lit by exact W.
  set (Fd := frac_digits fo) in *. pose proof (len_nonneg Fd) as LF.
  assert (HN : dec (I1 ++ I2 ++ Fd) 0 / 10 ^ (ka + len Fd) = m2).
  { rewrite app_assoc, dec_app. rewrite Z.add_comm, Z.pow_add_r by lia.
    rewrite <- Z.div_div by (try apply pow10_pos; lia).
    rewrite dec_div by exact FF. symmetry. exact Hm2. }
  destruct (Z.eq_dec ka 0) as [Ka0|Kan].
  - (* nothing dropped in the integer part *)
    exists kd. split; [exact D0|].
    assert (E : dec (I1 ++ I2 ++ Fd) 0 = dec Fd m2).
    { rewrite app_assoc, dec_app. f_equal. rewrite Hm2, Ka0. change (10 ^ 0) with 1.
      rewrite Z.div_1_r. reflexivity. }
    rewrite E. split; [|split; assumption].
    f_equal. rewrite Ka0. ring.
  - (* digits dropped in the integer part: the whole fraction is dropped *)
    assert (Kp : 0 < ka) by (unfold ka in *; lia).
    specialize (Hka Kp). specialize (D4 Hka). subst kd.
    rewrite dec_div in * by exact FF.
    exists (ka + len Fd). rewrite HN. split; [lia|]. split; [|split; [lia|intros _; exact Hka]].
    f_equal. ring.
Qed.

Lemma rest_nil : forall fo eo, frac_bytes fo ++ exp_bytes eo = [] -> fo = None /\ eo = None.
Proof.
  intros [F|] eo H; [discriminate|]. destruct eo as [[[eb esg] X]|]; [discriminate|]. auto.
Qed.

(* Part 1, in Z: what parse_number computes on a literal.  N is the value of all the digits,
   kd the number of trailing digits that were dropped *)
Theorem scan_shape : forall c sg I fo eo, wf_lit I fo eo ->
  (int_path sg I fo eo /\
   parse_number c (lit sg I fo eo)
   = if sign_neg sg then NumSInt (- dec I 0) else NumUInt (dec I 0))
  \/
  (~ int_path sg I fo eo /\
   exists kd, 0 <= kd /\
    let N := dec (I ++ frac_digits fo) 0 in
    parse_number c (lit sg I fo eo)
    = finish c (sign_neg sg) (N / 10 ^ kd) (lit_exp_sat eo + (kd - len (frac_digits fo))) /\
    0 <= N / 10 ^ kd <= mant_max_of c /\
    (0 < kd -> mant_max_of c / 10 <= N / 10 ^ kd)).
Proof.
  intros c sg I fo eo [FI [FF [Hne W]]].
  rewrite parse_number_phases. unfold lit.
  pose proof (body_head I fo eo FI Hne) as Hh.
  rewrite exp_sign_gen.
  2:{ destruct Hh as [[A B]|Hh]; [intros E; rewrite E in *; lia | rewrite Hh; discriminate]. }
  2:{ destruct Hh as [[A B]|Hh]; [intros E; rewrite E in *; lia | rewrite Hh; discriminate]. }
  rewrite after_sign_body by exact Hh.
  destruct (scan_int_split I 0 (frac_bytes fo ++ exp_bytes eo) FI
              ltac:(split; [lia | vm_compute; discriminate]) (rest_head fo eo W))
    as [I1 [I2 [E1 [E2 [E3 E4]]]]].
  rewrite E2. subst I.
  assert (F1 : Forall digitb I1) by (eapply Forall_app_l; exact FI).
  assert (F2 : Forall digitb I2) by (eapply Forall_app_r; exact FI).
  destruct (float_path_spec c (sign_neg sg) I1 I2 fo eo F1 F2 FF W E3 E4) as [kd [K0 [K1 [K2 K3]]]].
  assert (Hfloat : ~ int_path sg (I1 ++ I2) fo eo ->
    ~ int_path sg (I1 ++ I2) fo eo /\
    exists kd0, 0 <= kd0 /\
      let N := dec ((I1 ++ I2) ++ frac_digits fo) 0 in
      float_path c (sign_neg sg) (dec I1 0) (I2 ++ frac_bytes fo ++ exp_bytes eo)
      = finish c (sign_neg sg) (N / 10 ^ kd0) (lit_exp_sat eo + (kd0 - len (frac_digits fo))) /\
      0 <= N / 10 ^ kd0 <= mant_max_of c /\
      (0 < kd0 -> mant_max_of c / 10 <= N / 10 ^ kd0)).
  { intros Hn. split; [exact Hn|]. exists kd. split; [exact K0|]. cbv zeta.
    rewrite <- app_assoc. split; [exact K1|]. split; [|exact K3].
    split; [|exact K2]. apply Z.div_pos; [|apply pow10_pos; lia].
    apply dec_nonneg. repeat (apply Forall_app; split); assumption. }
  cbv iota beta.
  destruct (I2 ++ frac_bytes fo ++ exp_bytes eo) as [|x xs] eqn:Es.
  - (* the whole text was read by scan_int: plain integer *)
    apply app_eq_nil in Es. destruct Es as [-> Es]. apply rest_nil in Es. destruct Es as [-> ->].
    rewrite app_nil_r in *. unfold int_or_float.
    destruct (sign_neg sg) eqn:Sg.
    + destruct (Z.leb_spec (dec I1 0) (2 ^ 63)) as [L|L].
      * left. split; [|reflexivity]. split; [reflexivity|]. split; [reflexivity|]. split; [exact E3|].
        intros _. exact L.
      * right. apply Hfloat. intros [_ [_ [_ Hi]]]. specialize (Hi Sg). lia.
    + left. split; [|reflexivity]. split; [reflexivity|]. split; [reflexivity|]. split; [exact E3|].
      intros Hs. congruence.
  - right. apply Hfloat.
    intros [-> [-> [Hi _]]]. cbn [frac_bytes exp_bytes app] in Es. rewrite app_nil_r in Es. subst I2.
    specialize (E4 ltac:(discriminate)).
    (* dec (I1 ++ x :: xs) 0 >= dec I1 0 * 10 > maxUint - 9, and in fact > maxUint *)
    rewrite dec_app, dec_cons in Hi.
    inversion F2 as [|? ? Hx Fxs]; subst.
    pose proof (dec_ge xs (dec I1 0 * 10 + digit_val x) Fxs) as G.
    pose proof (is_digit_val x (digitb_is_digit x Hx)) as Hd.
    pose proof (dec_nonneg I1 F1).
    (* need the precise guard: recompute from scan_int *)
    revert E2. cbn [app]. rewrite app_nil_r.
    intros E2.
    assert (Hov : maxUint < dec I1 0 * 10 + digit_val x).
    { clear - E2 F1 Hx Fxs H E3.
      (* scan_int (I1 ++ x :: xs) 0 = (dec I1 0, x :: xs) *)
      assert (Hgen : forall J acc, Forall digitb J -> 0 <= acc ->
                 scan_int (J ++ x :: xs) acc = (dec J acc, x :: xs) ->
                 maxUint < dec J acc * 10 + digit_val x).
      { induction J as [|j J IH]; intros acc FJ Ha Hs.
        - cbn [app] in Hs. rewrite dec_nil in *. cbn [scan_int] in Hs.
          rewrite (digitb_is_digit x Hx) in Hs.
          assert (Hmax : maxUint = 18446744073709551615) by reflexivity. rewrite Hmax in *.
          change (18446744073709551615 / 10) with 1844674407370955161 in Hs.
          pose proof (is_digit_val x (digitb_is_digit x Hx)) as Hd.
          destruct (Z.gtb_spec acc 1844674407370955161) as [X|X]; [lia|].
          destruct (Z.gtb_spec (acc * 10) (18446744073709551615 - digit_val x)) as [Y|Y]; [lia|].
          exfalso.
          assert (Hl : (length (snd (scan_int xs (acc * 10 + digit_val x))) <= length xs)%nat).
          { clear. generalize (acc * 10 + digit_val x). induction xs as [|y ys IHy]; intros a.
            - cbn. lia.
            - cbn [scan_int]. destruct (is_digit y); [|cbn; lia].
              destruct (a >? maxUint / 10); [cbn; lia|].
              destruct (a * 10 >? maxUint - digit_val y); [cbn; lia|].
              specialize (IHy (a * 10 + digit_val y)). cbn [length]. lia. }
          rewrite Hs in Hl. cbn [snd length] in Hl. lia.
        - inversion FJ as [|? ? Hj FJ']; subst. rewrite dec_cons.
          cbn [app scan_int] in Hs. rewrite (digitb_is_digit j Hj) in Hs.
          pose proof (is_digit_val j (digitb_is_digit j Hj)) as Hd.
          rewrite dec_cons in Hs.
          destruct (acc >? maxUint / 10) eqn:X.
          { exfalso. inversion Hs as [[Hv Hj' Hl]].
            apply (f_equal (@length N)) in Hl. rewrite app_length in Hl. cbn [length] in Hl. lia. }
          destruct (acc * 10 >? maxUint - digit_val j) eqn:Y.
          { exfalso. inversion Hs as [[Hv Hj' Hl]].
            apply (f_equal (@length N)) in Hl. rewrite app_length in Hl. cbn [length] in Hl. lia. }
          apply IH; [assumption | lia | exact Hs]. }
      apply (Hgen I1 0 F1 (Z.le_refl 0) E2). }
    lia.
Qed.

(* ------------------------------------------------------------------------------------------ *)
(* Part D — the value of a literal as a real number                                            *)
(* ------------------------------------------------------------------------------------------ *)

(* V, the absolute value, and the signed value of  [sign] I . F e E *)
Definition lit_abs (I F : list N) (E : Z) : R :=
  ((IZR (dec I 0) + IZR (dec F 0) / 10 ^ length F) * p10 E)%R.
Definition lit_value (neg : bool) (I F : list N) (E : Z) : R :=
  (sgnR neg * (IZR (dec I 0) + IZR (dec F 0) / 10 ^ length F) * p10 E)%R.

Lemma lit_value_abs : forall neg I F E, lit_value neg I F E = (sgnR neg * lit_abs I F E)%R.
Proof. intros. unfold lit_value, lit_abs. ring. Qed.

Lemma IZR_pow10 : forall k, 0 <= k -> IZR (10 ^ k) = p10 k.
Proof. intros k Hk. unfold p10. rewrite <- IZR_Zpower by exact Hk. reflexivity. Qed.

Lemma p10_plus : forall a b, p10 (a + b) = (p10 a * p10 b)%R.
Proof. intros a b. apply bpow_plus. Qed.

Lemma p10_lt_inv : forall a b, (p10 a < p10 b)%R -> a < b.
Proof. intros a b H. apply (lt_bpow radix10). exact H. Qed.

Lemma p10_le_inv : forall a b, (p10 a <= p10 b)%R -> a <= b.
Proof. intros a b H. apply (le_bpow radix10). exact H. Qed.

Lemma p10_lt : forall a b, a < b -> (p10 a < p10 b)%R.
Proof. intros a b H. apply bpow_lt. exact H. Qed.

(* the value of a literal is the value of all its digits scaled by the number of fractional ones *)
Lemma lit_abs_digits : forall I F E,
  lit_abs I F E = (IZR (dec (I ++ F) 0) * p10 (E - len F))%R.
Proof.
  intros I F E. unfold lit_abs. rewrite dec_app, (dec_acc F (dec I 0)).
  rewrite plus_IZR, mult_IZR, IZR_pow10 by apply len_nonneg.
  rewrite pow10_nat. fold (len F).
  replace (E - len F) with (E + - len F) by ring. rewrite p10_plus, p10_opp.
  field. apply Rgt_not_eq, p10_pos.
Qed.

Lemma lit_abs_nonneg : forall I F E, Forall digitb I -> Forall digitb F -> (0 <= lit_abs I F E)%R.
Proof.
  intros I F E FI FF. rewrite lit_abs_digits.
  apply Rmult_le_pos; [|left; apply p10_pos].
  apply IZR_le. apply dec_nonneg. apply Forall_app; split; assumption.
Qed.

(* dropping the last kd digits of N *)
Lemma trunc_bounds : forall N kd, 0 <= kd ->
  (IZR (N / 10 ^ kd) * p10 kd <= IZR N < (IZR (N / 10 ^ kd) + 1) * p10 kd)%R.
Proof.
  intros N kd Hk. pose proof (pow10_pos kd Hk) as Hp.
  pose proof (Z.mul_div_le N (10 ^ kd) Hp) as H1.
  pose proof (Z.mul_succ_div_gt N (10 ^ kd) Hp) as H2.
  rewrite <- IZR_pow10 by exact Hk. split.
  - rewrite <- mult_IZR. apply IZR_le. lia.
  - change 1%R with (IZR 1). rewrite <- plus_IZR, <- mult_IZR. apply IZR_lt. lia.
Qed.

(* the relative error caused by dropped digits: when a digit is dropped the mantissa holds at
   least mant_max / 10, and the dropped tail is worth less than one unit of the mantissa *)
Definition trunc_err (c : cfg) : R := (/ IZR (mant_max_of c / 10))%R.

Lemma mant_max_div10 : forall c,
  mant_max_of c / 10 = if use_double c then 450359962737049 else 838860.
Proof. intros c. unfold mant_max_of. destruct (use_double c); reflexivity. Qed.

Lemma trunc_err_double : forall c, use_double c = true -> (trunc_err c <= 2.3e-15)%R.
Proof. intros c H. unfold trunc_err. rewrite mant_max_div10, H. lra. Qed.

Lemma trunc_err_float : forall c, use_double c = false -> (trunc_err c <= 1.2e-6)%R.
Proof. intros c H. unfold trunc_err. rewrite mant_max_div10, H. lra. Qed.

Lemma trunc_err_pos : forall c, (0 < trunc_err c)%R.
Proof.
  intros c. unfold trunc_err. rewrite mant_max_div10. apply Rinv_0_lt_compat.
  destruct (use_double c); lra.
Qed.

Lemma lit_exp_sat_small : forall eo, wf_exp eo -> dec (exp_digits eo) 0 < 10000 ->
  lit_exp_sat eo = lit_exp eo.
Proof.
  intros [[[eb esg] X]|] W H; [|reflexivity]. cbn [lit_exp_sat lit_exp exp_digits] in *.
  destruct W as [_ FX]. rewrite exp_of_small by assumption. reflexivity.
Qed.

(* the real-number reading of a mantissa obtained by dropping kd digits *)
Lemma dropped_value : forall c N kd q, 0 <= N -> 0 <= kd -> (0 < q)%R ->
  (0 < kd -> mant_max_of c / 10 <= N / 10 ^ kd) ->
  let M := (IZR (N / 10 ^ kd) * (p10 kd * q))%R in
  let V := (IZR N * q)%R in
  (M <= V)%R /\ (V - M <= trunc_err c * V)%R.
Proof.
  intros c N kd q HN Hk Hq Hdrop M V.
  destruct (trunc_bounds N kd Hk) as [B1 B2].
  set (m := IZR (N / 10 ^ kd)) in *. set (P := p10 kd) in *.
  assert (HP : (0 < P)%R) by apply p10_pos.
  assert (HM : (M <= V)%R).
  { unfold M, V. replace (m * (P * q))%R with (m * P * q)%R by ring.
    apply Rmult_le_compat_r; lra. }
  split; [exact HM|].
  pose proof (trunc_err_pos c) as Te.
  destruct (Z.eq_dec kd 0) as [->|Kn].
  - (* nothing dropped: exact *)
    assert (E : M = V).
    { unfold M, V, m, P. change (10 ^ 0) with 1. rewrite Z.div_1_r. change (p10 0) with 1%R. ring. }
    rewrite E. assert (0 <= V)%R by (unfold V; apply Rmult_le_pos; [apply IZR_le; lia | lra]).
    assert (0 <= trunc_err c * V)%R by (apply Rmult_le_pos; lra). lra.
  - specialize (Hdrop ltac:(lia)).
    set (L := IZR (mant_max_of c / 10)) in *.
    assert (HL : (0 < L)%R).
    { unfold L. rewrite mant_max_div10. destruct (use_double c); lra. }
    assert (HmL : (L <= m)%R) by (unfold L, m; apply IZR_le; exact Hdrop).
    assert (H1 : (V - M <= P * q)%R).
    { unfold M, V. replace (IZR N * q - m * (P * q))%R with ((IZR N - m * P) * q)%R by ring.
      apply Rmult_le_compat_r; lra. }
    assert (H2 : (P * q <= trunc_err c * M)%R).
    { unfold trunc_err. fold L. unfold M.
      replace (/ L * (m * (P * q)))%R with ((m * / L) * (P * q))%R by ring.
      assert (1 <= m * / L)%R.
      { rewrite <- (Rinv_r L) by lra. apply Rmult_le_compat_r; [left; apply Rinv_0_lt_compat|]; lra. }
      assert (0 < P * q)%R by (apply Rmult_lt_0_compat; lra).
      nra. }
    assert (H3 : (trunc_err c * M <= trunc_err c * V)%R) by (apply Rmult_le_compat_l; lra).
    lra.
Qed.

(* Part 1, general form: the mantissa and exponent handed to [finish], against the value of the
   literal read with the exponent Es returned by the saturating accumulator of scan_exp
   (Es = the written exponent as soon as its digits are worth less than 10000). *)
Theorem scan_value_sat : forall c sg I fo eo, wf_lit I fo eo -> ~ int_path sg I fo eo ->
  let F := frac_digits fo in
  let E := lit_exp_sat eo in
  let V := lit_abs I F E in
  exists mant expo,
    parse_number c (lit sg I fo eo) = finish c (sign_neg sg) mant expo /\
    0 <= mant <= mant_max_of c /\
    (V = 0%R -> mant = 0) /\
    ((0 < V)%R -> 1 <= mant) /\
    (IZR mant * p10 expo <= V)%R /\
    (V - IZR mant * p10 expo <= trunc_err c * V)%R /\
    (dec (I ++ F) 0 < 10 * (mant_max_of c / 10) ->
       mant = dec (I ++ F) 0 /\ expo = E - len F /\ (IZR mant * p10 expo = V)%R) /\
    (mant < mant_max_of c / 10 -> mant = dec (I ++ F) 0 /\ expo = E - len F).
Proof.
  intros c sg I fo eo WF Hni F E V.
  destruct (scan_shape c sg I fo eo WF) as [[Hi _]|[_ [kd [K0 H]]]]; [contradiction|].
  cbv zeta in H. fold F in H. destruct H as [Hp [Hr Hd]].
  destruct WF as [FI [FF [_ W]]]. fold F in FF.
  fold E in Hp.
  set (N := dec (I ++ F) 0) in *.
  assert (HN : 0 <= N) by (apply dec_nonneg; apply Forall_app; split; assumption).
  set (q := p10 (E - len F)).
  assert (Hq : (0 < q)%R) by apply p10_pos.
  assert (HV : V = (IZR N * q)%R) by (unfold V; apply lit_abs_digits).
  assert (HM : (IZR (N / 10 ^ kd) * p10 (E + (kd - len F)) = IZR (N / 10 ^ kd) * (p10 kd * q))%R).
  { unfold q. rewrite <- p10_plus. do 2 f_equal. ring. }
  destruct (dropped_value c N kd q HN K0 Hq Hd) as [D1 D2]. cbv zeta in D1, D2.
  assert (Hex : kd = 0 -> N / 10 ^ kd = N /\ E + (kd - len F) = E - len F).
  { intros ->. change (10 ^ 0) with 1. rewrite Z.div_1_r. split; [reflexivity | ring]. }
  exists (N / 10 ^ kd), (E + (kd - len F)).
  split; [exact Hp|]. split; [exact Hr|].
  rewrite HM, HV.
  split; [|split; [|split; [exact D1|split; [exact D2|split]]]].
  - intros H0. assert (N = 0).
    { apply eq_IZR. apply Rmult_integral in H0. destruct H0 as [H0|H0]; [exact H0 | lra]. }
    rewrite H. apply Z.div_0_l. pose proof (pow10_pos kd K0). lia.
  - intros Hpos. assert (1 <= N).
    { assert (0 < IZR N)%R by (apply (Rmult_lt_reg_r q); lra). apply lt_IZR in H. lia. }
    destruct (Z.eq_dec kd 0) as [K|K]; [destruct (Hex K) as [-> _]; exact H|].
    specialize (Hd ltac:(lia)). rewrite mant_max_div10 in Hd. destruct (use_double c); lia.
  - intros Hfit. assert (K : kd = 0).
    { destruct (Z.eq_dec kd 0) as [K|K]; [exact K|]. exfalso. specialize (Hd ltac:(lia)).
      assert (N / 10 ^ kd <= N / 10).
      { replace kd with (1 + (kd - 1)) by ring. rewrite Z.pow_add_r by lia. change (10 ^ 1) with 10.
        rewrite <- Z.div_div by (try apply pow10_pos; lia).
        apply Z.div_le_upper_bound; [apply pow10_pos; lia|].
        pose proof (pow10_pos (kd - 1) ltac:(lia)).
        assert (0 <= N / 10) by (apply Z.div_pos; lia). nia. }
      pose proof (Z.mul_div_le N 10 ltac:(lia)). lia. }
    destruct (Hex K) as [E1 E2]. split; [exact E1|]. split; [exact E2|].
    rewrite K. change (10 ^ 0) with 1. rewrite Z.div_1_r. change (p10 0) with 1%R. ring.
  - intros Hlt. assert (K : kd = 0).
    { destruct (Z.eq_dec kd 0) as [K|K]; [exact K|]. specialize (Hd ltac:(lia)). lia. }
    exact (Hex K).
Qed.

(* Part 1: the mantissa and exponent handed to [finish], against the exact value of the literal.
   The hypothesis on the exponent digits is the exact condition for the accumulator of scan_exp not
   to saturate (it holds as soon as the value is in [1e-300, 1e300], see window_not_saturated).
   trunc_err c = 1 / (mant_max / 10): 1/450359962737049 < 2.3e-15 with use_double,
   1/838860 < 1.2e-6 without. *)
Theorem scan_value : forall c sg I fo eo, wf_lit I fo eo -> ~ int_path sg I fo eo ->
  dec (exp_digits eo) 0 < 10000 ->
  let F := frac_digits fo in
  let E := lit_exp eo in
  let V := lit_abs I F E in
  exists mant expo,
    parse_number c (lit sg I fo eo) = finish c (sign_neg sg) mant expo /\
    0 <= mant <= mant_max_of c /\
    (V = 0%R -> mant = 0) /\
    ((0 < V)%R -> 1 <= mant) /\
    (IZR mant * p10 expo <= V)%R /\
    (V - IZR mant * p10 expo <= trunc_err c * V)%R /\
    (* no digit is dropped when the digits fit: the pair is then exact *)
    (dec (I ++ F) 0 < 10 * (mant_max_of c / 10) ->
       mant = dec (I ++ F) 0 /\ expo = E - len F /\ (IZR mant * p10 expo = V)%R) /\
    (mant < mant_max_of c / 10 -> mant = dec (I ++ F) 0 /\ expo = E - len F).
Proof.
  intros c sg I fo eo WF Hni Hsat F E V.
  pose proof (scan_value_sat c sg I fo eo WF Hni) as H. cbv zeta in H.
  rewrite lit_exp_sat_small in H by (try apply WF; assumption). exact H.
Qed.

(* Part 1 as a dichotomy: plain integer handled by the integer path, or [finish] on an accurate pair *)
Theorem scan_value_cases : forall c sg I fo eo, wf_lit I fo eo ->
  dec (exp_digits eo) 0 < 10000 ->
  let F := frac_digits fo in
  let E := lit_exp eo in
  let V := lit_abs I F E in
  (int_path sg I fo eo /\
   parse_number c (lit sg I fo eo) = if sign_neg sg then NumSInt (- dec I 0) else NumUInt (dec I 0))
  \/
  (exists mant expo,
    parse_number c (lit sg I fo eo) = finish c (sign_neg sg) mant expo /\
    0 <= mant <= mant_max_of c /\
    (V = 0%R -> mant = 0) /\
    ((0 < V)%R -> 1 <= mant) /\
    (IZR mant * p10 expo <= V)%R /\
    (V - IZR mant * p10 expo <= trunc_err c * V)%R /\
    (dec (I ++ F) 0 < 10 * (mant_max_of c / 10) ->
       mant = dec (I ++ F) 0 /\ expo = E - len F /\ (IZR mant * p10 expo = V)%R) /\
    (mant < mant_max_of c / 10 -> mant = dec (I ++ F) 0 /\ expo = E - len F)).
Proof.
  intros c sg I fo eo WF Hsat F E V.
  destruct (scan_shape c sg I fo eo WF) as [H|[Hni _]]; [left; exact H|].
  right. apply scan_value; assumption.
Qed.

(* --- size of the value against the number of digits --- *)

Lemma lit_abs_upper : forall I F E, Forall digitb I -> Forall digitb F ->
  (lit_abs I F E < p10 (len I + E))%R.
Proof.
  intros I F E FI FF. rewrite lit_abs_digits.
  assert (FA : Forall digitb (I ++ F)) by (apply Forall_app; split; assumption).
  pose proof (dec_bound (I ++ F) FA) as [B1 B2]. rewrite len_app in B2.
  pose proof (len_nonneg I). pose proof (len_nonneg F).
  replace (len I + E) with ((len I + len F) + (E - len F)) by ring. rewrite p10_plus.
  apply Rmult_lt_compat_r; [apply p10_pos|].
  rewrite <- IZR_pow10 by lia. apply IZR_lt. exact B2.
Qed.

Lemma lit_abs_lower : forall I F E, Forall digitb I -> Forall digitb F ->
  (0 < lit_abs I F E)%R -> (p10 (E - len F) <= lit_abs I F E)%R.
Proof.
  intros I F E FI FF. rewrite lit_abs_digits. intros Hpos.
  pose proof (p10_pos (E - len F)) as Hq.
  assert (0 < IZR (dec (I ++ F) 0))%R by (apply (Rmult_lt_reg_r (p10 (E - len F))); lra).
  apply lt_IZR in H. assert (1 <= IZR (dec (I ++ F) 0))%R by (apply IZR_le; lia).
  nra.
Qed.

Lemma lit_length : forall sg I fo eo,
  (length I + length (frac_digits fo) <= length (lit sg I fo eo))%nat.
Proof.
  intros sg I fo eo. unfold lit. rewrite !app_length.
  destruct fo as [F|]; cbn [frac_bytes frac_digits length]; lia.
Qed.

Lemma lit_length_Z : forall sg I fo eo n, (length (lit sg I fo eo) <= n)%nat ->
  len I <= Z.of_nat n /\ len (frac_digits fo) <= Z.of_nat n.
Proof.
  intros sg I fo eo n H. pose proof (lit_length sg I fo eo) as Hl. unfold len. lia.
Qed.

(* a literal of reasonable length whose value is in [1e-300, 1e300] does not saturate the
   exponent accumulator of scan_exp *)
Lemma window_not_saturated : forall I fo eo lo hi, wf_lit I fo eo ->
  len I <= 9000 -> len (frac_digits fo) <= 9000 -> -1000 <= lo -> hi < 1000 ->
  (p10 lo <= lit_abs I (frac_digits fo) (lit_exp eo) <= p10 hi)%R ->
  dec (exp_digits eo) 0 < 10000.
Proof.
  intros I fo eo lo hi [FI [FF [_ W]]] LI LF Hlo Hhi [V1 V2].
  destruct eo as [[[eb esg] X]|]; [|cbn; lia].
  cbn [exp_digits lit_exp] in *. destruct W as [_ FX].
  destruct (Z.lt_ge_cases (dec X 0) 10000) as [L|G]; [exact L|exfalso].
  pose proof (lit_abs_upper I (frac_digits fo) (if sign_neg esg then - dec X 0 else dec X 0) FI FF) as U.
  assert (Hpos : (0 < lit_abs I (frac_digits fo) (if sign_neg esg then - dec X 0 else dec X 0))%R).
  { eapply Rlt_le_trans; [apply (p10_pos lo) | exact V1]. }
  pose proof (lit_abs_lower I (frac_digits fo) _ FI FF Hpos) as Lw.
  destruct (sign_neg esg).
  - assert (p10 lo < p10 (len I + - dec X 0))%R by lra. apply p10_lt_inv in H. lia.
  - assert (p10 (dec X 0 - len (frac_digits fo)) <= p10 hi)%R by lra. apply p10_le_inv in H. lia.
Qed.

(* ------------------------------------------------------------------------------------------ *)
(* Part E — accuracy of the parsed number (configuration with use_double)                      *)
(* ------------------------------------------------------------------------------------------ *)

Lemma finish_double_gen : forall c neg mant expo, use_double c = true ->
  1 <= mant < 2 ^ 53 -> -328 <= expo <= 308 ->
  (mant > 2 ^ 23 - 1 \/ expo < -38 \/ expo > 38) ->
  (bpow radix2 (-1021) <= IZR mant * p10 expo <= bpow radix2 1022)%R ->
  exists r, finish c neg mant expo = NumDouble r /\ valid F64 r /\
    FloatModel.is_finite r = true /\
    (Rabs (SF2R radix2 r - sgnR neg * (IZR mant * p10 expo)) <= 2e-15 * (IZR mant * p10 expo))%R.
Proof.
  intros c neg mant expo UD Hm He Hbr Hr.
  destruct (make_float64_accuracy_gen mant expo Hm ltac:(lia) Hr) as [r [R1 [R2 [R3 R4]]]].
  destruct (sgn_sf_props F64 neg r R2 R3) as [S1 [S2 S3]].
  exists (sgn_sf neg r). split; [|split; [exact S1|split; [exact S2|]]].
  - unfold finish, exp_max_of. rewrite UD, R1.
    replace (mant =? 0) with false by (symmetry; apply Z.eqb_neq; lia).
    replace (expo >? 308) with false by (symmetry; rewrite Z.gtb_ltb; apply Z.ltb_ge; lia).
    replace (expo <? - (308) - 20) with false by (symmetry; apply Z.ltb_ge; lia).
    replace ((expo <? -38) || (expo >? 38) || (mant >? 2 ^ 23 - 1)) with true; [reflexivity|].
    symmetry. rewrite !orb_true_iff, !Z.gtb_ltb, !Z.ltb_lt. lia.
  - rewrite S3. apply sgn_err. exact R4.
Qed.

(* error of the conversion (relative to M) plus error of the dropped digits (relative to V) *)
Lemma err_combine : forall r neg M V a b, (0 <= M <= V)%R -> (V - M <= b * V)%R -> (0 <= a)%R ->
  (Rabs (r - sgnR neg * M) <= a * M)%R ->
  (Rabs (r - sgnR neg * V) <= (a + b) * V)%R.
Proof.
  intros r neg M V a b [M0 MV] Hb Ha Hr.
  replace (r - sgnR neg * V)%R with ((r - sgnR neg * M) + sgnR neg * (M - V))%R by ring.
  eapply Rle_trans; [apply Rabs_triang|].
  assert (Rabs (sgnR neg * (M - V)) = V - M)%R.
  { rewrite Rabs_mult. replace (Rabs (sgnR neg)) with 1%R.
    - rewrite Rabs_left1 by lra. ring.
    - destruct neg; cbn [sgnR]; [rewrite Rabs_left1 by lra | rewrite Rabs_pos_eq by lra]; ring. }
  rewrite H. assert (a * M <= a * V)%R by (apply Rmult_le_compat_l; lra). lra.
Qed.

Lemma mant_lt_p10 : forall mant k, 0 <= k -> mant < 10 ^ k -> (IZR mant < p10 k)%R.
Proof. intros mant k Hk H. rewrite <- IZR_pow10 by exact Hk. apply IZR_lt. exact H. Qed.

Lemma expo_lower : forall mant expo k lo, 1 <= mant < 10 ^ k -> 0 <= k ->
  (p10 lo <= IZR mant * p10 expo)%R -> lo - k < expo.
Proof.
  intros mant expo k lo Hm Hk H1.
  pose proof (p10_pos expo) as Hq.
  pose proof (mant_lt_p10 mant k Hk (proj2 Hm)) as M2.
  assert (p10 lo < p10 (k + expo))%R.
  { rewrite p10_plus. eapply Rle_lt_trans; [exact H1|]. apply Rmult_lt_compat_r; lra. }
  apply p10_lt_inv in H. lia.
Qed.

(* decimal exponent of mant * 10^expo from the size of the product *)
Lemma expo_bounds : forall mant expo k lo hi, 1 <= mant < 10 ^ k -> 0 <= k ->
  (p10 lo <= IZR mant * p10 expo <= p10 hi)%R -> lo - k < expo <= hi.
Proof.
  intros mant expo k lo hi Hm Hk [H1 H2].
  pose proof (p10_pos expo) as Hq.
  assert (M1 : (1 <= IZR mant)%R) by (apply IZR_le; lia).
  pose proof (mant_lt_p10 mant k Hk (proj2 Hm)) as M2.
  split.
  - assert (p10 lo < p10 (k + expo))%R.
    { rewrite p10_plus. eapply Rle_lt_trans; [exact H1|]. apply Rmult_lt_compat_r; lra. }
    apply p10_lt_inv in H. lia.
  - apply p10_le_inv. eapply Rle_trans; [|exact H2]. nra.
Qed.

Lemma half_p10 : forall e, (p10 (e - 1) <= / 2 * p10 e)%R.
Proof.
  intros e. replace e with ((e - 1) + 1) at 2 by ring. rewrite p10_plus.
  change (p10 1) with 10%R. pose proof (p10_pos (e - 1)). lra.
Qed.

(* tight form: conversion error 2e-15 plus dropped-digit error 2.3e-15 *)
Theorem literal_accuracy_double_cfg_tight : forall c sg I fo eo,
  use_double c = true -> wf_lit I fo eo -> ~ int_path sg I fo eo ->
  (length (lit sg I fo eo) <= 9000)%nat ->
  let F := frac_digits fo in
  let E := lit_exp eo in
  let V := lit_abs I F E in
  (p10 (-300) <= V <= p10 300)%R ->
  (exists r, parse_number c (lit sg I fo eo) = NumFloat r /\ valid F32 r /\
     FloatModel.is_finite r = true /\
     (Rabs (SF2R radix2 r - lit_value (sign_neg sg) I F E) <= 6e-7 * V)%R /\
     dec (I ++ F) 0 <= 2 ^ 23 - 1)
  \/
  (exists r, parse_number c (lit sg I fo eo) = NumDouble r /\ valid F64 r /\
     FloatModel.is_finite r = true /\
     (Rabs (SF2R radix2 r - lit_value (sign_neg sg) I F E) <= 4.3e-15 * V)%R).
Proof.
  intros c sg I fo eo UD WF Hni Hlen F E V [V1 V2].
  destruct (lit_length_Z sg I fo eo 9000 Hlen) as [LI LF]. fold F in LF.
  pose proof (window_not_saturated I fo eo (-300) 300 WF LI LF ltac:(lia) ltac:(lia) (conj V1 V2)) as Hsat.
  destruct (scan_value c sg I fo eo WF Hni Hsat)
    as [mant [expo [Hp [Hr [_ [Hpos [HM [Herr [_ Hsmall]]]]]]]]].
  fold F E V in Hpos, HM, Herr, Hsmall.
  assert (Vpos : (0 < V)%R) by (eapply Rlt_le_trans; [apply (p10_pos (-300)) | exact V1]).
  specialize (Hpos Vpos).
  assert (Hmm : mant_max_of c = 2 ^ 52 - 1) by (unfold mant_max_of; rewrite UD; reflexivity).
  pose proof (trunc_err_double c UD) as Te.
  set (M := (IZR mant * p10 expo)%R) in *.
  assert (HMlo : (/ 2 * V <= M)%R) by nra.
  assert (M0 : (0 < M)%R) by lra.
  (* decimal exponent *)
  assert (Hexpo : -317 < expo <= 300).
  { apply (expo_bounds mant expo 16 (-301) 300); [lia | lia|]. fold M. split; [|lra].
    pose proof (half_p10 (-300)). change (-300 - 1) with (-301) in H. lra. }
  rewrite lit_value_abs. fold V. rewrite Hp.
  assert (Hc : (mant > 2 ^ 23 - 1 \/ expo < -38 \/ expo > 38) \/
               (1 <= mant <= 2 ^ 23 - 1 /\ -38 <= expo <= 38)) by lia.
  destruct Hc as [Hc|[Hc1 Hc2]].
  - right.
    assert (Hrange : (bpow radix2 (-1021) <= M <= bpow radix2 1022)%R).
    { split.
      - apply Rle_trans with (bpow radix2 (- (1020))); [apply bpow_le; lia|].
        apply Rle_trans with (p10 (- (307))).
        + rewrite bpow_opp, p10_opp. apply Rinv_le_contravar; [apply p10_pos|].
          apply p10_le_bpow2; lia.
        + apply Rle_trans with (p10 (-301)); [apply p10_mono; lia|].
          pose proof (half_p10 (-300)). change (-300 - 1) with (-301) in H. lra.
      - apply Rle_trans with (p10 300); [lra|]. apply p10_le_bpow2; lia. }
    destruct (finish_double_gen c (sign_neg sg) mant expo UD ltac:(lia) ltac:(lia) Hc Hrange)
      as [r [R1 [R2 [R3 R4]]]].
    exists r. split; [exact R1|]. split; [exact R2|]. split; [exact R3|].
    fold M in R4.
    apply Rle_trans with ((2e-15 + trunc_err c) * V)%R.
    + apply err_combine with M; try lra.
    + apply Rmult_le_compat_r; lra.
  - (* small mantissa: no digit was dropped, the pair is exact *)
    destruct (Hsmall ltac:(rewrite mant_max_div10, UD; lia)) as [EN Ee].
    assert (MV : M = V).
    { unfold M, V. rewrite lit_abs_digits, <- EN, Ee. reflexivity. }
    destruct (finish_small_accuracy c (sign_neg sg) mant expo UD Hc1 Hc2)
      as [[r [R1 [R2 [R3 R4]]]]|[r [R1 [R2 [R3 R4]]]]].
    + left. exists r. split; [exact R1|]. split; [exact R2|]. split; [exact R3|].
      fold M in R4. rewrite MV in R4. split; [exact R4|]. rewrite <- EN. lia.
    + right. exists r. split; [exact R1|]. split; [exact R2|]. split; [exact R3|].
      fold M in R4. rewrite MV in R4. eapply Rle_trans; [exact R4|].
      apply Rmult_le_compat_r; lra.
Qed.

(* Part 2, main statement for a configuration with use_double (the default): a literal that is not
   a plain integer handled by the integer path, of at most 9000 bytes, with 1e-300 <= |v| <= 1e300,
   is returned either as a binary32 value within 1e-6 |v| — and then its digits (leading zeros
   stripped) are worth at most 2^23 - 1, so there are at most seven significant ones — or as a
   binary64 value within 1e-13 |v|. *)
Theorem literal_accuracy_double_cfg : forall c sg I fo eo,
  use_double c = true -> wf_lit I fo eo -> ~ int_path sg I fo eo ->
  (length (lit sg I fo eo) <= 9000)%nat ->
  let F := frac_digits fo in
  let E := lit_exp eo in
  let V := lit_abs I F E in
  (p10 (-300) <= V <= p10 300)%R ->
  (exists r, parse_number c (lit sg I fo eo) = NumFloat r /\ valid F32 r /\
     FloatModel.is_finite r = true /\
     (Rabs (SF2R radix2 r - lit_value (sign_neg sg) I F E) <= 1e-6 * V)%R /\
     dec (I ++ F) 0 <= 2 ^ 23 - 1)
  \/
  (exists r, parse_number c (lit sg I fo eo) = NumDouble r /\ valid F64 r /\
     FloatModel.is_finite r = true /\
     (Rabs (SF2R radix2 r - lit_value (sign_neg sg) I F E) <= 1e-13 * V)%R).
Proof.
  intros c sg I fo eo UD WF Hni Hlen F E V HV.
  assert (Vpos : (0 < V)%R) by (eapply Rlt_le_trans; [apply (p10_pos (-300)) | apply HV]).
  destruct (literal_accuracy_double_cfg_tight c sg I fo eo UD WF Hni Hlen HV)
    as [[r [R1 [R2 [R3 [R4 R5]]]]]|[r [R1 [R2 [R3 R4]]]]].
  - left. exists r. repeat (split; [assumption|]). split; [|exact R5].
    eapply Rle_trans; [exact R4|]. fold F E V. apply Rmult_le_compat_r; lra.
  - right. exists r. repeat (split; [assumption|]).
    eapply Rle_trans; [exact R4|]. fold F E V. apply Rmult_le_compat_r; lra.
Qed.

(* more than seven significant digits (the digits I ++ F, leading zeros not counting, are worth at
   least 10^7): the literal is parsed as a double, within 1e-13 |v| *)
Corollary more_than_seven_digits_is_double : forall c sg I fo eo,
  use_double c = true -> wf_lit I fo eo -> ~ int_path sg I fo eo ->
  (length (lit sg I fo eo) <= 9000)%nat ->
  let F := frac_digits fo in
  let E := lit_exp eo in
  let V := lit_abs I F E in
  (p10 (-300) <= V <= p10 300)%R ->
  10 ^ 7 <= dec (I ++ F) 0 ->
  exists r, parse_number c (lit sg I fo eo) = NumDouble r /\ valid F64 r /\
     FloatModel.is_finite r = true /\
     (Rabs (SF2R radix2 r - lit_value (sign_neg sg) I F E) <= 1e-13 * V)%R.
Proof.
  intros c sg I fo eo UD WF Hni Hlen F E V HV H7.
  destruct (literal_accuracy_double_cfg c sg I fo eo UD WF Hni Hlen HV)
    as [[r [_ [_ [_ [_ R5]]]]]|H]; [|exact H].
  fold F in R5. exfalso. lia.
Qed.

(* the complementary case: a plain integer literal that fits is returned exactly, as an integer *)
Theorem literal_integer_exact : forall c sg I fo eo, wf_lit I fo eo -> int_path sg I fo eo ->
  exists z, parse_number c (lit sg I fo eo) = (if sign_neg sg then NumSInt z else NumUInt z) /\
    IZR z = lit_value (sign_neg sg) I (frac_digits fo) (lit_exp eo).
Proof.
  intros c sg I fo eo WF Hi.
  destruct (scan_shape c sg I fo eo WF) as [[_ Hp]|[Hn _]]; [|contradiction].
  destruct Hi as [-> [-> _]].
  exists (if sign_neg sg then - dec I 0 else dec I 0). split.
  - rewrite Hp. destruct (sign_neg sg); reflexivity.
  - unfold lit_value. cbn [frac_digits lit_exp dec fold_left length pow]. change (p10 0) with 1%R.
    destruct (sign_neg sg); cbn [sgnR]; [rewrite opp_IZR|]; change (IZR 0) with 0%R; field.
Qed.

(* ------------------------------------------------------------------------------------------ *)
(* Part F — literals outside the range of the format                                           *)
(* ------------------------------------------------------------------------------------------ *)

(* V' (read with the saturated exponent) against V (the exact value) *)
Lemma sat_value_cases : forall I fo eo, wf_lit I fo eo ->
  len I <= 9000 -> len (frac_digits fo) <= 9000 ->
  let F := frac_digits fo in
  let V := lit_abs I F (lit_exp eo) in
  let V' := lit_abs I F (lit_exp_sat eo) in
  V' = V \/ (p10 1000 <= V /\ p10 1000 <= V')%R \/ (V < p10 (-1000) /\ V' < p10 (-1000))%R.
Proof.
  intros I fo eo WF LI LF F V V'. pose proof WF as [FI [FF [_ W]]]. fold F in FF, LF.
  destruct (Z.lt_ge_cases (dec (exp_digits eo) 0) 10000) as [L|G].
  { left. unfold V', V. rewrite lit_exp_sat_small by assumption. reflexivity. }
  destruct eo as [[[eb esg] X]|]; [|cbn in G; lia].
  cbn [exp_digits lit_exp lit_exp_sat] in *. destruct W as [_ FX].
  pose proof (exp_of_large X FX G) as G'.
  destruct (sign_neg esg).
  - right. right. split.
    + eapply Rlt_le_trans; [apply (lit_abs_upper I F _ FI FF)|]. apply p10_mono. lia.
    + eapply Rlt_le_trans; [apply (lit_abs_upper I F _ FI FF)|]. apply p10_mono. lia.
  - unfold V', V. rewrite !lit_abs_digits.
    assert (HN : 0 <= dec (I ++ F) 0) by (apply dec_nonneg; apply Forall_app; split; assumption).
    destruct (Z.eq_dec (dec (I ++ F) 0) 0) as [->|Nz]; [left; ring|].
    right. left.
    assert (N1 : (1 <= IZR (dec (I ++ F) 0))%R) by (apply IZR_le; lia).
    split.
    + apply Rle_trans with (p10 (dec X 0 - len F)); [apply p10_mono; lia|].
      pose proof (p10_pos (dec X 0 - len F)). nra.
    + apply Rle_trans with (p10 (exp_of X - len F)); [apply p10_mono; lia|].
      pose proof (p10_pos (exp_of X - len F)). nra.
Qed.

Lemma int_path_value : forall sg I fo eo, int_path sg I fo eo ->
  lit_abs I (frac_digits fo) (lit_exp eo) = IZR (dec I 0) /\ dec I 0 <= maxUint.
Proof.
  intros sg I fo eo [-> [-> [H _]]]. split; [|exact H].
  unfold lit_abs. cbn [frac_digits lit_exp dec fold_left length pow]. change (p10 0) with 1%R.
  change (IZR 0) with 0%R. field.
Qed.

(* number of decimal digits of the mantissa *)
Definition mant_digits (c : cfg) : Z := if use_double c then 16 else 7.

Lemma mant_max_lt : forall c, mant_max_of c < 10 ^ mant_digits c.
Proof. intros c. unfold mant_max_of, mant_digits. destruct (use_double c); reflexivity. Qed.

Lemma trunc_err_half : forall c, (trunc_err c <= / 2)%R.
Proof.
  intros c. unfold trunc_err. rewrite mant_max_div10. destruct (use_double c); lra.
Qed.

(* below 10^-(exp_max+20) (1e-328 with use_double, 1e-58 without): zero of the literal's sign *)
Theorem out_of_range_tiny : forall c sg I fo eo, wf_lit I fo eo ->
  (length (lit sg I fo eo) <= 9000)%nat ->
  let V := lit_abs I (frac_digits fo) (lit_exp eo) in
  (0 < V)%R -> (V < p10 (- exp_max_of c - 20))%R ->
  parse_number c (lit sg I fo eo) = NumFloat (S754_zero (sign_neg sg)).
Proof.
  intros c sg I fo eo WF Hlen V V0 Vt.
  destruct (lit_length_Z sg I fo eo 9000 Hlen) as [LI LF].
  assert (Hx : 38 <= exp_max_of c <= 308) by (unfold exp_max_of; destruct (use_double c); lia).
  assert (Hni : ~ int_path sg I fo eo).
  { intros Hi. destruct (int_path_value sg I fo eo Hi) as [Hv _]. fold V in Hv.
    rewrite Hv in V0, Vt. apply lt_IZR in V0.
    assert (V1 : (1 <= IZR (dec I 0))%R) by (apply IZR_le; lia).
    assert (p10 (- exp_max_of c - 20) <= p10 0)%R by (apply p10_mono; lia).
    change (p10 0) with 1%R in H. lra. }
  destruct (scan_value_sat c sg I fo eo WF Hni)
    as [mant [expo [Hp [Hr [_ [_ [HM _]]]]]]].
  set (V' := lit_abs I (frac_digits fo) (lit_exp_sat eo)) in *.
  rewrite Hp.
  destruct (Z.eq_dec mant 0) as [->|Mz]; [apply finish_zero|].
  assert (V't : (V' < p10 (- exp_max_of c - 20))%R).
  { destruct (sat_value_cases I fo eo WF LI LF) as [H|[[H _]|[_ H]]].
    - fold V V' in H. rewrite H. exact Vt.
    - fold V in H. exfalso.
      assert (p10 (- exp_max_of c - 20) <= p10 1000)%R by (apply p10_mono; lia). lra.
    - fold V' in H. eapply Rlt_le_trans; [exact H|]. apply p10_mono. lia. }
  apply finish_tiny; [exact Mz|].
  apply p10_lt_inv. eapply Rle_lt_trans; [|exact V't]. eapply Rle_trans; [|exact HM].
  assert (1 <= IZR mant)%R by (apply IZR_le; lia). pose proof (p10_pos expo). nra.
Qed.

(* above 10^(exp_max + digits of the mantissa + 1) (1e325 with use_double, 1e46 without) the decimal
   exponent alone exceeds the format: infinity of the literal's sign *)
Theorem out_of_range_huge : forall c sg I fo eo, wf_lit I fo eo ->
  (length (lit sg I fo eo) <= 9000)%nat ->
  let V := lit_abs I (frac_digits fo) (lit_exp eo) in
  (p10 (exp_max_of c + mant_digits c + 1) <= V)%R ->
  parse_number c (lit sg I fo eo) = mk_jfloat c (S754_infinity (sign_neg sg)).
Proof.
  intros c sg I fo eo WF Hlen V Vh.
  destruct (lit_length_Z sg I fo eo 9000 Hlen) as [LI LF].
  assert (Hx : 38 <= exp_max_of c <= 308) by (unfold exp_max_of; destruct (use_double c); lia).
  assert (Hk : 7 <= mant_digits c <= 16) by (unfold mant_digits; destruct (use_double c); lia).
  set (H := exp_max_of c + mant_digits c + 1) in *.
  assert (Hni : ~ int_path sg I fo eo).
  { intros Hi. destruct (int_path_value sg I fo eo Hi) as [Hv Hm]. fold V in Hv.
    rewrite Hv in Vh.
    assert (IZR (dec I 0) < p10 20)%R by (apply mant_lt_p10; [lia|]; eapply Z.le_lt_trans; [exact Hm|reflexivity]).
    assert (p10 20 <= p10 H)%R by (apply p10_mono; lia). lra. }
  destruct (scan_value_sat c sg I fo eo WF Hni)
    as [mant [expo [Hp [Hr [_ [Hpos [HM [Herr _]]]]]]]].
  set (V' := lit_abs I (frac_digits fo) (lit_exp_sat eo)) in *.
  assert (V'h : (p10 H <= V')%R).
  { destruct (sat_value_cases I fo eo WF LI LF) as [E|[[_ E]|[E _]]].
    - fold V V' in E. rewrite E. exact Vh.
    - fold V' in E. eapply Rle_trans; [|exact E]. apply p10_mono. lia.
    - fold V in E. exfalso.
      assert (p10 (-1000) <= p10 H)%R by (apply p10_mono; lia). lra. }
  assert (V'0 : (0 < V')%R) by (eapply Rlt_le_trans; [apply (p10_pos H)|exact V'h]).
  specialize (Hpos V'0).
  pose proof (trunc_err_half c) as Te.
  set (M := (IZR mant * p10 expo)%R) in *.
  assert (HMlo : (/ 2 * V' <= M)%R) by nra.
  rewrite Hp. apply finish_huge; [lia|].
  pose proof (mant_max_lt c) as Hml.
  assert (Hb : H - 1 - mant_digits c < expo).
  { apply (expo_lower mant expo (mant_digits c) (H - 1)); [lia | lia|].
    fold M. pose proof (half_p10 H). lra. }
  unfold H in Hb. lia.
Qed.

(* --- overflow of the binary64 product: every value above 2^1024 (1 + 5e-15) gives an infinity --- *)

(* the sign of a value ([True] for NaN) *)
Definition sign_is (s : bool) (r : spec_float) : Prop :=
  match r with
  | S754_zero s' | S754_infinity s' | S754_finite s' _ _ => s' = s
  | S754_nan => True
  end.

Lemma bra_sign : forall prec emax sx mx ex lx,
  sign_is sx (SpecFloat.binary_round_aux prec emax sx mx ex lx).
Proof.
  intros prec emax sx mx ex lx. unfold SpecFloat.binary_round_aux.
  destruct (shr_fexp prec emax mx ex lx) as [mrs' e'].
  destruct (shr_fexp prec emax _ e' loc_Exact) as [mrs'' e''].
  destruct (shr_m mrs''); [reflexivity | | exact I].
  destruct (e'' <=? emax - prec); reflexivity.
Qed.

Lemma fmul_sign : forall f x sy my ey, sign_is false x -> sy = false ->
  sign_is false (fmul f x (S754_finite sy my ey)).
Proof.
  intros f x sy my ey Hx ->. unfold fmul. destruct x as [s|s| |s m e]; cbn [sign_is SFmul] in *.
  - subst s. reflexivity.
  - subst s. reflexivity.
  - exact I.
  - subst s. apply bra_sign.
Qed.

Definition pos_fin (v : spec_float) : Prop := exists m e, v = S754_finite false m e.

Lemma loop_sign : forall f tbl fuel x e r, Forall pos_fin tbl -> sign_is false x ->
  make_float_loop f tbl fuel x e = Some r -> sign_is false r.
Proof.
  intros f tbl. induction tbl as [|v t IH]; intros fuel x e r Ht Hx H.
  - destruct fuel; cbn [make_float_loop] in H; destruct (e =? 0); try discriminate;
      inversion H; subst; exact Hx.
  - inversion Ht as [|? ? [m [ev ->]] Pt]; subst.
    destruct fuel as [|fuel]; cbn [make_float_loop] in H; destruct (e =? 0); try discriminate.
    + inversion H; subst; exact Hx.
    + inversion H; subst; exact Hx.
    + destruct (Z.odd e).
      * apply IH in H; try assumption. apply fmul_sign; [exact Hx | reflexivity].
      * apply IH in H; assumption.
Qed.

Lemma table64_pos_fin : forall b, Forall pos_fin (pow10_table F64 b).
Proof. intros [|]; vm_compute; repeat constructor; eexists; eexists; reflexivity. Qed.

Lemma f_of_Z_sign : forall f m, 0 <= m -> sign_is false (f_of_Z f m).
Proof.
  intros f m Hm. unfold f_of_Z, binary_normalize. destruct m as [|p|p]; [reflexivity| |lia].
  unfold binary_round. destruct (shl_align p 0 _) as [mz ez]. apply bra_sign.
Qed.

Lemma make_float64_sign : forall m e r, 0 <= m ->
  make_float F64 (f_of_Z F64 m) e = Some r -> sign_is false r.
Proof.
  intros m e r Hm H. unfold make_float in H.
  eapply loop_sign; [apply table64_pos_fin | apply f_of_Z_sign; exact Hm | exact H].
Qed.

(* an infinite double returned by [finish] carries the sign of the literal *)
Lemma finish_inf_sign : forall c neg mant expo s, 1 <= mant ->
  finish c neg mant expo = NumDouble (S754_infinity s) -> s = neg.
Proof.
  intros c neg mant expo s Hm H. unfold finish in H.
  destruct (mant =? 0); [discriminate|].
  destruct (expo >? exp_max_of c).
  { unfold mk_jfloat in H. destruct (use_double c); inversion H. reflexivity. }
  destruct (expo <? - exp_max_of c - 20); [discriminate|].
  assert (D : match make_float F64 (f_of_Z F64 mant) expo with
              | Some r => NumDouble (if neg then fneg r else r)
              | None => NumFault
              end = NumDouble (S754_infinity s) -> s = neg).
  { destruct (make_float F64 (f_of_Z F64 mant) expo) as [r|] eqn:Hr; [|discriminate].
    apply make_float64_sign in Hr; [|lia]. intros E. inversion E as [E'].
    destruct neg; destruct r as [s'|s'| |s' m' e']; cbn [fneg SFopp sign_is] in *;
      try discriminate; subst s'; inversion E'; reflexivity. }
  destruct (use_double c).
  - destruct ((expo <? -38) || (expo >? 38) || (mant >? 2 ^ 23 - 1)); [exact (D H)|].
    destruct (make_float F32 (f_of_Z F32 mant) expo) as [r32|]; [|discriminate].
    destruct (is_inf r32); [exact (D H)|discriminate].
  - destruct (make_float F32 (f_of_Z F32 mant) expo); discriminate.
Qed.

Lemma valid_lt_emax : forall f r, valid f r -> (Rabs (SF2R radix2 r) < bpow radix2 (emax f))%R.
Proof.
  intros f r H. unfold valid in H. rewrite <- (B2R_SF2B _ _ r H). apply abs_B2R_lt_emax.
Qed.

Lemma sgn_abs : forall neg x, Rabs (sgnR neg * x) = Rabs x.
Proof.
  intros neg x. destruct neg; cbn [sgnR].
  - replace (-1 * x)%R with (- x)%R by ring. apply Rabs_Ropp.
  - f_equal. ring.
Qed.

(* use_double: any literal worth at least 2^1024 (1 + 5e-15) — in particular more than 1e309 —
   is returned as the binary64 infinity of its sign (either because its decimal exponent exceeds
   308, or because the product overflows) *)
Theorem out_of_range_overflow : forall c sg I fo eo, use_double c = true -> wf_lit I fo eo ->
  (length (lit sg I fo eo) <= 9000)%nat ->
  let V := lit_abs I (frac_digits fo) (lit_exp eo) in
  (bpow radix2 1024 * (1 + 5e-15) <= V)%R ->
  parse_number c (lit sg I fo eo) = NumDouble (S754_infinity (sign_neg sg)).
Proof.
  intros c sg I fo eo UD WF Hlen V Vh.
  destruct (lit_length_Z sg I fo eo 9000 Hlen) as [LI LF].
  set (B := bpow radix2 1024) in *.
  assert (B0 : (0 < B)%R) by apply bpow_gt_0.
  assert (B1 : (2 * B <= p10 309)%R).
  { unfold B. rewrite <- (IZR_Zpower radix2) by lia. rewrite <- IZR_pow10 by lia.
    rewrite <- mult_IZR. apply IZR_le. change (radix2 : Z) with 2. lia. }
  assert (B2 : (p10 307 <= / 2 * B)%R).
  { unfold B. replace (/ 2 * bpow radix2 1024)%R with (bpow radix2 1023).
    - apply p10_le_bpow2; lia.
    - change 1024 with (1023 + 1). rewrite bpow_plus. change (bpow radix2 1) with 2%R. field. }
  assert (Hni : ~ int_path sg I fo eo).
  { intros Hi. destruct (int_path_value sg I fo eo Hi) as [Hv Hm]. fold V in Hv.
    rewrite Hv in Vh.
    assert (IZR (dec I 0) < p10 20)%R by (apply mant_lt_p10; [lia|]; eapply Z.le_lt_trans; [exact Hm|reflexivity]).
    assert (p10 20 <= p10 307)%R by (apply p10_mono; lia). lra. }
  destruct (scan_value_sat c sg I fo eo WF Hni)
    as [mant [expo [Hp [Hr [_ [Hpos [HM [Herr _]]]]]]]].
  set (V' := lit_abs I (frac_digits fo) (lit_exp_sat eo)) in *.
  assert (V'h : (B * (1 + 5e-15) <= V')%R).
  { destruct (sat_value_cases I fo eo WF LI LF) as [E|[[_ E]|[E _]]].
    - fold V V' in E. rewrite E. exact Vh.
    - fold V' in E. eapply Rle_trans; [|exact E].
      assert (p10 309 <= p10 1000)%R by (apply p10_mono; lia). lra.
    - fold V in E. exfalso.
      assert (p10 (-1000) <= p10 307)%R by (apply p10_mono; lia). lra. }
  assert (V'0 : (0 < V')%R) by nra.
  specialize (Hpos V'0).
  pose proof (trunc_err_double c UD) as Te. pose proof (trunc_err_pos c) as Te0.
  set (M := (IZR mant * p10 expo)%R) in *.
  assert (Hmm : mant_max_of c = 2 ^ 52 - 1) by (unfold mant_max_of; rewrite UD; reflexivity).
  (* M >= V' (1 - 2.3e-15) >= B (1 + 5e-15) (1 - 2.3e-15) *)
  assert (HMlo : ((1 - 2.3e-15) * V' <= M)%R) by nra.
  assert (HMB : (B * (1 + 2.6e-15) <= M)%R) by nra.
  rewrite Hp.
  destruct (Z_lt_le_dec 308 expo) as [Hbig|Hle].
  - rewrite finish_huge; [unfold mk_jfloat; rewrite UD; reflexivity | lia |].
    unfold exp_max_of. rewrite UD. exact Hbig.
  - assert (Hlo : 307 - 16 < expo).
    { apply (expo_lower mant expo 16 307); [lia | lia|]. fold M. lra. }
    destruct (finish_double_total c (sign_neg sg) mant expo UD ltac:(lia) ltac:(lia) ltac:(lia))
      as [r [R1 [[s ->]|[R2 [R3 R4]]]]].
    + fold M. apply Rle_trans with (p10 307); [|lra].
      apply Rle_trans with 1%R; [change 1%R with (bpow radix2 0); apply bpow_le; lia|].
      change 1%R with (p10 0). apply p10_mono. lia.
    + rewrite R1. f_equal. f_equal. apply (finish_inf_sign c (sign_neg sg) mant expo s); [lia|exact R1].
    + exfalso. fold M in R4.
      pose proof (valid_lt_emax F64 r R2) as Hlt. change (emax F64) with 1024 in Hlt. fold B in Hlt.
      assert (Hge : (M - 2e-15 * M <= Rabs (SF2R radix2 r))%R).
      { pose proof (Rabs_triang_inv (sgnR (sign_neg sg) * M) (SF2R radix2 r)) as T.
        rewrite sgn_abs in T. rewrite (Rabs_pos_eq M) in T by lra.
        rewrite Rabs_minus_sym in T. lra. }
      nra.
Qed.

(* Part 2, out-of-range literals (configuration with use_double):
   above 1e309 the result is the infinity of the literal's sign, below 1e-400 its zero.
   (Sharper thresholds: out_of_range_overflow for 2^1024 (1 + 5e-15) ~ 1.8e308,
   out_of_range_tiny for 1e-328; in between the property allows either outcome.) *)
Theorem out_of_range_literals : forall c sg I fo eo, use_double c = true -> wf_lit I fo eo ->
  (length (lit sg I fo eo) <= 9000)%nat ->
  let V := lit_abs I (frac_digits fo) (lit_exp eo) in
  ((p10 309 < V)%R ->
     parse_number c (lit sg I fo eo) = NumDouble (S754_infinity (sign_neg sg))) /\
  ((0 < V)%R -> (V < p10 (-400))%R ->
     parse_number c (lit sg I fo eo) = NumFloat (S754_zero (sign_neg sg))).
Proof.
  intros c sg I fo eo UD WF Hlen V. split.
  - intros Hv. apply out_of_range_overflow; try assumption. fold V.
    assert (2 * bpow radix2 1024 <= p10 309)%R.
    { rewrite <- (IZR_Zpower radix2) by lia. rewrite <- IZR_pow10 by lia.
      rewrite <- mult_IZR. apply IZR_le. change (radix2 : Z) with 2. lia. }
    pose proof (bpow_gt_0 radix2 1024). lra.
  - intros V0 Vt. apply out_of_range_tiny; try assumption. fold V.
    eapply Rlt_le_trans; [exact Vt|]. apply p10_mono. unfold exp_max_of. rewrite UD. lia.
Qed.

(* ------------------------------------------------------------------------------------------ *)
(* Part G — configuration without use_double (everything is a binary32)                        *)
(* ------------------------------------------------------------------------------------------ *)

Lemma expo_upper : forall mant expo hi, 1 <= mant -> (IZR mant * p10 expo <= p10 hi)%R -> expo <= hi.
Proof.
  intros mant expo hi Hm H. apply p10_le_inv. eapply Rle_trans; [|exact H].
  assert (1 <= IZR mant)%R by (apply IZR_le; lia). pose proof (p10_pos expo). nra.
Qed.

(* tight form: conversion error 6e-7 plus dropped-digit error 1/838860 < 1.2e-6.  The window is the
   widest for which the decimal exponent handed to make_float stays within [-38, 38] (below, the
   binary32 path has no relative bound; above, the result is an infinity) *)
Theorem literal_accuracy_float_cfg_tight : forall c sg I fo eo,
  use_double c = false -> wf_lit I fo eo -> ~ int_path sg I fo eo ->
  (length (lit sg I fo eo) <= 9000)%nat ->
  let F := frac_digits fo in
  let E := lit_exp eo in
  let V := lit_abs I F E in
  (p10 (-31) <= V <= p10 38)%R ->
  exists r, parse_number c (lit sg I fo eo) = NumFloat r /\
    ((exists s, r = S754_infinity s) \/
     (valid F32 r /\ FloatModel.is_finite r = true /\
      (Rabs (SF2R radix2 r - lit_value (sign_neg sg) I F E) <= 1.8e-6 * V)%R)).
Proof.
  intros c sg I fo eo UD WF Hni Hlen F E V [V1 V2].
  destruct (lit_length_Z sg I fo eo 9000 Hlen) as [LI LF]. fold F in LF.
  pose proof (window_not_saturated I fo eo (-31) 38 WF LI LF ltac:(lia) ltac:(lia) (conj V1 V2)) as Hsat.
  destruct (scan_value c sg I fo eo WF Hni Hsat)
    as [mant [expo [Hp [Hr [_ [Hpos [HM [Herr _]]]]]]]].
  fold F E V in Hpos, HM, Herr.
  assert (Vpos : (0 < V)%R) by (eapply Rlt_le_trans; [apply (p10_pos (-31)) | exact V1]).
  specialize (Hpos Vpos).
  assert (Hmm : mant_max_of c = 2 ^ 23 - 1) by (unfold mant_max_of; rewrite UD; reflexivity).
  pose proof (trunc_err_float c UD) as Te.
  set (M := (IZR mant * p10 expo)%R) in *.
  assert (HMlo : (/ 2 * V <= M)%R) by nra.
  assert (M0 : (0 < M)%R) by lra.
  assert (Hlo : -32 - 7 < expo).
  { apply (expo_lower mant expo 7 (-32)); [lia | lia|]. fold M.
    pose proof (half_p10 (-31)). change (-31 - 1) with (-32) in H. lra. }
  assert (Hhi : expo <= 38) by (apply (expo_upper mant expo 38); [lia | fold M; lra]).
  rewrite lit_value_abs. fold V. rewrite Hp.
  destruct (finish_float_cfg_total c (sign_neg sg) mant expo UD ltac:(lia) ltac:(lia))
    as [r [R1 [R2|[R2 [R3 R4]]]]].
  - exists r. split; [exact R1|]. left. exact R2.
  - exists r. split; [exact R1|]. right. split; [exact R2|]. split; [exact R3|].
    fold M in R4.
    apply Rle_trans with ((6e-7 + trunc_err c) * V)%R.
    + apply err_combine with M; try lra.
    + apply Rmult_le_compat_r; lra.
Qed.

(* Part 2, configuration without use_double, requested form *)
Theorem literal_accuracy_float_cfg : forall c sg I fo eo,
  use_double c = false -> wf_lit I fo eo -> ~ int_path sg I fo eo ->
  (length (lit sg I fo eo) <= 9000)%nat ->
  let F := frac_digits fo in
  let E := lit_exp eo in
  let V := lit_abs I F E in
  (p10 (-31) <= V <= p10 38)%R ->
  exists r, parse_number c (lit sg I fo eo) = NumFloat r /\
    (FloatModel.is_finite r = true ->
     (Rabs (SF2R radix2 r - lit_value (sign_neg sg) I F E) <= 2e-6 * V)%R).
Proof.
  intros c sg I fo eo UD WF Hni Hlen F E V HV.
  assert (Vpos : (0 < V)%R) by (eapply Rlt_le_trans; [apply (p10_pos (-31)) | apply HV]).
  destruct (literal_accuracy_float_cfg_tight c sg I fo eo UD WF Hni Hlen HV)
    as [r [R1 [[s ->]|[R2 [R3 R4]]]]].
  - eexists. split; [exact R1|]. intros Hf. discriminate Hf.
  - exists r. split; [exact R1|]. intros _. eapply Rle_trans; [exact R4|].
    fold F E V. apply Rmult_le_compat_r; lra.
Qed.

(* ------------------------------------------------------------------------------------------ *)
(* Part H — all literals at once, and examples                                                 *)
(* ------------------------------------------------------------------------------------------ *)

(* use_double: every well-formed literal of at most 9000 bytes with 1e-300 <= |v| <= 1e300 is returned
   exactly as an integer, or as a binary32 within 1e-6 |v| (at most seven significant digits), or as
   a binary64 within 1e-13 |v| *)
Theorem literal_accuracy_double_cfg_all : forall c sg I fo eo,
  use_double c = true -> wf_lit I fo eo ->
  (length (lit sg I fo eo) <= 9000)%nat ->
  let F := frac_digits fo in
  let E := lit_exp eo in
  let V := lit_abs I F E in
  (p10 (-300) <= V <= p10 300)%R ->
  (exists z, parse_number c (lit sg I fo eo) = (if sign_neg sg then NumSInt z else NumUInt z) /\
     IZR z = lit_value (sign_neg sg) I F E)
  \/
  (exists r, parse_number c (lit sg I fo eo) = NumFloat r /\ valid F32 r /\
     FloatModel.is_finite r = true /\
     (Rabs (SF2R radix2 r - lit_value (sign_neg sg) I F E) <= 1e-6 * V)%R /\
     dec (I ++ F) 0 <= 2 ^ 23 - 1)
  \/
  (exists r, parse_number c (lit sg I fo eo) = NumDouble r /\ valid F64 r /\
     FloatModel.is_finite r = true /\
     (Rabs (SF2R radix2 r - lit_value (sign_neg sg) I F E) <= 1e-13 * V)%R).
Proof.
  intros c sg I fo eo UD WF Hlen F E V HV.
  destruct (scan_shape c sg I fo eo WF) as [[Hi _]|[Hni _]].
  - left. apply literal_integer_exact; assumption.
  - right. apply literal_accuracy_double_cfg; assumption.
Qed.

Lemma lit_value_digits : forall neg I F E,
  lit_value neg I F E = (sgnR neg * (IZR (dec (I ++ F) 0) * p10 (E - len F)))%R.
Proof. intros. rewrite lit_value_abs, lit_abs_digits. reflexivity. Qed.

Lemma window_by_digits : forall I F E lo hi n, 0 <= n ->
  1 <= dec (I ++ F) 0 < 10 ^ n -> lo <= E - len F -> E - len F + n <= hi ->
  (p10 lo <= lit_abs I F E <= p10 hi)%R.
Proof.
  intros I F E lo hi n Hn [N1 N2] Hlo Hhi. rewrite lit_abs_digits.
  set (q := p10 (E - len F)). assert (Hq : (0 < q)%R) by apply p10_pos.
  assert (A : (1 <= IZR (dec (I ++ F) 0))%R) by (apply IZR_le; exact N1).
  pose proof (mant_lt_p10 _ n Hn N2) as B.
  split.
  - apply Rle_trans with q; [apply p10_mono; exact Hlo | nra].
  - apply Rle_trans with (p10 n * q)%R; [apply Rmult_le_compat_r; lra|].
    unfold q. rewrite <- p10_plus. apply p10_mono. lia.
Qed.

Ltac digits_ok := repeat constructor; unfold digitb; lia.

Example ex_3_14 :
  exists r, parse_number default_cfg [51;46;49;52]%N = NumFloat r /\ valid F32 r /\
    FloatModel.is_finite r = true /\ (Rabs (SF2R radix2 r - 3.14) <= 1e-6 * 3.14)%R.
Proof.
  assert (WF : wf_lit [51]%N (Some [49;52]%N) None).
  { split; [digits_ok|]. split; [digits_ok|]. split; [left; discriminate | exact I]. }
  assert (Hni : ~ int_path None [51]%N (Some [49;52]%N) None) by (intros [H _]; discriminate).
  assert (Hlen : (length (lit None [51]%N (Some [49;52]%N) None) <= 9000)%nat)
    by (apply Nat.leb_le; vm_compute; reflexivity).
  pose proof (literal_accuracy_double_cfg default_cfg None [51]%N (Some [49;52]%N) None
                eq_refl WF Hni Hlen) as H.
  cbv zeta in H.
  assert (Hw : (p10 (-300) <= lit_abs [51]%N (frac_digits (Some [49;52]%N)) (lit_exp None) <= p10 300)%R).
  { apply (window_by_digits _ _ _ _ _ 3); [lia | vm_compute; split; [discriminate | reflexivity] | vm_compute; discriminate | vm_compute; discriminate]. }
  specialize (H Hw).
  assert (HV : lit_abs [51]%N (frac_digits (Some [49;52]%N)) (lit_exp None) = 3.14%R).
  { rewrite lit_abs_digits. cbn [frac_digits lit_exp].
    replace (dec ([51]%N ++ [49;52]%N) 0) with 314 by (vm_compute; reflexivity).
    change (0 - len [49;52]%N) with (-2). unfold p10. cbn. lra. }
  assert (Hv : lit_value (sign_neg None) [51]%N (frac_digits (Some [49;52]%N)) (lit_exp None) = 3.14%R).
  { rewrite lit_value_abs, HV. cbn [sign_neg sgnR]. ring. }
  rewrite HV, Hv in H.
  change (lit None [51]%N (Some [49;52]%N) None) with [51;46;49;52]%N in H.
  destruct H as [[r [R1 [R2 [R3 [R4 _]]]]]|[r [R1 _]]].
  - exists r. auto.
  - exfalso. vm_compute in R1. discriminate R1.
Qed.

Example ex_small :
  exists r, parse_number default_cfg [48;46;48;48;48;48;48;49;50;51;52;53;54;55;101;45;53]%N = NumFloat r /\
    valid F32 r /\ FloatModel.is_finite r = true /\
    (Rabs (SF2R radix2 r - 1.234567e-11) <= 1e-6 * 1.234567e-11)%R.
Proof.
  set (I := [48]%N). set (fo := Some [48;48;48;48;48;49;50;51;52;53;54;55]%N).
  set (eo := Some (101%N, Some true, [53]%N)).
  assert (WF : wf_lit I fo eo).
  { split; [digits_ok|]. split; [digits_ok|]. split; [left; discriminate |].
    split; [left; reflexivity | digits_ok]. }
  assert (Hni : ~ int_path None I fo eo) by (intros [H _]; discriminate).
  assert (Hlen : (length (lit None I fo eo) <= 9000)%nat)
    by (apply Nat.leb_le; vm_compute; reflexivity).
  pose proof (literal_accuracy_double_cfg default_cfg None I fo eo eq_refl WF Hni Hlen) as H.
  cbv zeta in H.
  assert (Hw : (p10 (-300) <= lit_abs I (frac_digits fo) (lit_exp eo) <= p10 300)%R).
  { apply (window_by_digits _ _ _ _ _ 7); [lia | vm_compute; split; [discriminate | reflexivity] | vm_compute; discriminate | vm_compute; discriminate]. }
  specialize (H Hw).
  assert (HV : lit_abs I (frac_digits fo) (lit_exp eo) = 1.234567e-11%R).
  { rewrite lit_abs_digits.
    replace (dec (I ++ frac_digits fo) 0) with 1234567 by (vm_compute; reflexivity).
    replace (lit_exp eo - len (frac_digits fo)) with (Z.opp 17) by (vm_compute; reflexivity).
    rewrite p10_opp, <- (IZR_pow10 17) by lia.
    replace (10 ^ 17) with 100000000000000000 by (vm_compute; reflexivity). lra. }
  assert (Hv : lit_value (sign_neg None) I (frac_digits fo) (lit_exp eo) = 1.234567e-11%R).
  { rewrite lit_value_abs, HV. cbn [sign_neg sgnR]. ring. }
  rewrite HV, Hv in H.
  change (lit None I fo eo) with [48;46;48;48;48;48;48;49;50;51;52;53;54;55;101;45;53]%N in H.
  destruct H as [[r [R1 [R2 [R3 [R4 _]]]]]|[r [R1 _]]].
  - exists r. auto.
  - exfalso. vm_compute in R1. discriminate R1.
Qed.

Example ex_long :
  exists r, parse_number default_cfg
      [49;50;51;52;53;54;55;56;57;48;49;50;51;52;53;54;55;56;57;48;46;49;50;51;101;49;48]%N = NumDouble r /\
    valid F64 r /\ FloatModel.is_finite r = true /\
    (Rabs (SF2R radix2 r - 12345678901234567890.123e10) <= 1e-13 * 12345678901234567890.123e10)%R.
Proof.
  set (I := [49;50;51;52;53;54;55;56;57;48;49;50;51;52;53;54;55;56;57;48]%N).
  set (fo := Some [49;50;51]%N).
  set (eo := Some (101%N, @None bool, [49;48]%N)).
  assert (WF : wf_lit I fo eo).
  { split; [digits_ok|]. split; [digits_ok|]. split; [left; discriminate |].
    split; [left; reflexivity | digits_ok]. }
  assert (Hni : ~ int_path None I fo eo) by (intros [H _]; discriminate).
  assert (Hlen : (length (lit None I fo eo) <= 9000)%nat)
    by (apply Nat.leb_le; vm_compute; reflexivity).
  assert (Hw : (p10 (-300) <= lit_abs I (frac_digits fo) (lit_exp eo) <= p10 300)%R).
  { apply (window_by_digits _ _ _ _ _ 23); [lia | vm_compute; split; [discriminate | reflexivity] | vm_compute; discriminate | vm_compute; discriminate]. }
  pose proof (more_than_seven_digits_is_double default_cfg None I fo eo eq_refl WF Hni Hlen Hw) as H.
  cbv zeta in H. specialize (H ltac:(vm_compute; discriminate)).
  assert (HV : lit_abs I (frac_digits fo) (lit_exp eo) = 12345678901234567890.123e10%R).
  { rewrite lit_abs_digits.
    replace (dec (I ++ frac_digits fo) 0) with 12345678901234567890123 by (vm_compute; reflexivity).
    replace (lit_exp eo - len (frac_digits fo)) with 7 by (vm_compute; reflexivity).
    rewrite <- (IZR_pow10 7) by lia.
    replace (10 ^ 7) with 10000000 by (vm_compute; reflexivity). lra. }
  assert (Hv : lit_value (sign_neg None) I (frac_digits fo) (lit_exp eo) = 12345678901234567890.123e10%R).
  { rewrite lit_value_abs, HV. cbn [sign_neg sgnR]. ring. }
  rewrite HV, Hv in H. exact H.
Qed.

Definition float_cfg : cfg :=
  {| decode_unicode := true; enable_comments := false; enable_nan := false;
     enable_inf := false; use_double := false |}.

Example float_cfg_1e6_false :
  exists r, parse_number float_cfg [56;51;56;56;54;48;57;46;48]%N = NumFloat r /\
    FloatModel.is_finite r = true /\
    lit_abs [56;51;56;56;54;48;57]%N [48]%N 0 = 8388609%R /\
    (1e-6 * 8388609 < Rabs (SF2R radix2 r - lit_value false [56;51;56;56;54;48;57]%N [48]%N 0))%R.
Proof.
  exists (S754_finite false 16777200 (-1)).
  split; [vm_compute; reflexivity|]. split; [reflexivity|].
  assert (HV : lit_abs [56;51;56;56;54;48;57]%N [48]%N 0 = 8388609%R).
  { rewrite lit_abs_digits.
    replace (dec ([56;51;56;56;54;48;57]%N ++ [48]%N) 0) with 83886090 by (vm_compute; reflexivity).
    change (0 - len [48]%N) with (Z.opp 1). rewrite p10_opp. change (p10 1) with 10%R. lra. }
  split; [exact HV|].
  rewrite lit_value_abs, HV. cbn [sgnR].
  replace (SF2R radix2 (S754_finite false 16777200 (-1))) with 8388600%R.
  - replace (8388600 - 1 * 8388609)%R with (-9)%R by ring. rewrite Rabs_left by lra. lra.
  - unfold SF2R, F2R. cbn [cond_Zopp Fnum Fexp]. change (bpow radix2 (-1)) with (/ 2)%R. lra.
Qed.

Example mant_max_digit_dropped :
  dec ([48]%N ++ [52;53;48;51;53;57;57;54;50;55;51;55;48;52;57;53]%N) 0 = mant_max_of default_cfg /\
  parse_number default_cfg [48;46;52;53;48;51;53;57;57;54;50;55;51;55;48;52;57;53]%N
  = parse_number default_cfg [48;46;52;53;48;51;53;57;57;54;50;55;51;55;48;52;57]%N /\
  parse_number default_cfg [48;46;52;53;48;51;53;57;57;54;50;55;51;55;48;52;57;53]%N
  <> parse_number default_cfg [52;53;48;51;53;57;57;54;50;55;51;55;48;52;57;53;101;45;49;54]%N.
Proof.
  split; [vm_compute; reflexivity|]. split; [vm_compute; reflexivity|].
  vm_compute. discriminate.
Qed.

(* the model accepts a literal without integer digits *)
Example dot_five_accepted :
  parse_number default_cfg (lit None [] (Some [53]%N) None) = parse_number default_cfg [48;46;53]%N /\
  parse_number default_cfg [46;53]%N = NumFloat (S754_finite false 8388608 (-24)) /\
  parse_number default_cfg [46]%N = NumFloat (S754_zero false) /\
  parse_number default_cfg [49;101]%N = parse_number default_cfg [49;101;48]%N.
Proof. repeat split; vm_compute; reflexivity. Qed.
