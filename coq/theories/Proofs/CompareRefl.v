(* CompareRefl.v — v == v for every value without floating-point leaves whose objects do not repeat a key
   (a NaN leaf or a repeated key makes a value differ from itself: nan_equals_nothing, eq_not_reflexive_dup). *)
From Coq Require Import ZArith NArith Bool List Lia.
From Coq Require Import Floats.SpecFloat.
From AJ Require Import Model.Base Model.FloatModel Model.Value Model.Compare Proofs.CompareProofs Proofs.CompareMore.
Local Open Scope Z_scope.

Fixpoint float_free (v : jv) : Prop :=
  match v with
  | JFloat _ | JDouble _ => False
  | JArr l => fold_right (fun x P => float_free x /\ P) True l
  | JObj l => fold_right (fun kv P => float_free (snd kv) /\ P) True l
  | _ => True
  end.

Lemma ff_arr_in : forall l x, float_free (JArr l) -> In x l -> float_free x.
Proof.
  induction l as [|y l IH]; intros x H Hin; [destruct Hin|].
  cbn [float_free fold_right] in H. destruct H as [Hy Hl].
  destruct Hin as [->|Hin]; [exact Hy|]. apply IH; assumption.
Qed.

Lemma ff_obj_in : forall l k v, float_free (JObj l) -> In (k, v) l -> float_free v.
Proof.
  induction l as [|y l IH]; intros k v H Hin; [destruct Hin|].
  cbn [float_free fold_right] in H. destruct H as [Hy Hl].
  destruct Hin as [->|Hin]; [exact Hy|]. eapply IH; eassumption.
Qed.

Lemma string_compare_refl : forall s, string_compare s s = 0.
Proof. induction s as [|x s IH]; cbn [string_compare]; [reflexivity|]. rewrite N.eqb_refl. exact IH. Qed.

Lemma all2_refl : forall p l, (forall x, In x l -> p x x = true) -> all2 p l l = true.
Proof.
  induction l as [|x l IH]; intros H; cbn [all2]; [reflexivity|].
  rewrite (H x) by (left; reflexivity). apply IH. intros y Hy. apply H. right. exact Hy.
Qed.

Lemma eq_reflexive_n : forall n v, (jsize v <= n)%nat -> wf v -> float_free v -> op_eq v v = true.
Proof.
  induction n as [|n IH]; intros v Hn W F; [pose proof (jsize_pos v); lia|].
  destruct v as [|b|z|f|f|s|s|l|l].
  - reflexivity.
  - destruct b; reflexivity.
  - destruct (int_all_six z z) as [E _]. rewrite E. apply Z.eqb_refl.
  - destruct F.
  - destruct F.
  - unfold op_eq. rewrite compare_scalar by (intros; discriminate).
    cbn [compare_step]. rewrite str_cmp_eq_sign, string_compare_refl. reflexivity.
  - rewrite raw_eq_by_bytes. apply beqb_refl.
  - rewrite arrays_elementwise. apply all2_refl. intros x Hx.
    pose proof (jsize_arr_in _ _ Hx). apply IH; [lia| |].
    + exact (wf_arr_in _ _ W Hx).
    + exact (ff_arr_in _ _ F Hx).
  - rewrite objects_memberwise. unfold members_match. rewrite Nat.eqb_refl, andb_true_r.
    apply forallb_forall. intros [k v] Hin. cbn [fst snd].
    rewrite (assoc_get_nodup k v l (wf_obj_nodup _ W) Hin).
    pose proof (jsize_obj_in _ _ _ Hin). apply IH; [lia| |].
    + exact (wf_obj_in _ _ _ W Hin).
    + exact (ff_obj_in _ _ _ F Hin).
Qed.

Theorem eq_reflexive : forall v, wf v -> float_free v -> op_eq v v = true.
Proof. intros v. apply (eq_reflexive_n (jsize v)). lia. Qed.

(* both hypotheses are needed *)
Theorem eq_not_reflexive_dup :
  op_eq (JObj [([107%N], JInt 1); ([107%N], JInt 2)]) (JObj [([107%N], JInt 1); ([107%N], JInt 2)]) = false.
Proof. vm_compute. reflexivity. Qed.

Theorem eq_not_reflexive_nan : op_eq (JArr [JDouble S754_nan]) (JArr [JDouble S754_nan]) = false.
Proof. vm_compute. reflexivity. Qed.
