(* CopyBudgetProofs.v — copying a value when only b slots can still be had (Model/CopyBudget.v):
   the copy is complete iff the slots suffice; otherwise the destination holds a clean truncation of the source,
   at most one slot is neither in the destination nor free afterwards, and more slots only make the result grow. *)
From Coq Require Import List NArith ZArith Bool Arith Lia.
From Coq Require Import Floats.SpecFloat.
From AJ Require Import Model.Base Model.Value Model.CopyBudget.
Import ListNotations.

(* ------------------------------------------------------------------------------------------------ *)
(* induction on values with the lists under them                                                     *)
(* ------------------------------------------------------------------------------------------------ *)
Section JvInd.
  Variable P : jv -> Prop.
  Hypothesis Hnull : P JNull.
  Hypothesis Hbool : forall b, P (JBool b).
  Hypothesis Hint : forall z, P (JInt z).
  Hypothesis Hfloat : forall f, P (JFloat f).
  Hypothesis Hdouble : forall f, P (JDouble f).
  Hypothesis Hstr : forall s, P (JStr s).
  Hypothesis Hraw : forall s, P (JRaw s).
  Hypothesis Harr : forall l, Forall P l -> P (JArr l).
  Hypothesis Hobj : forall l, Forall (fun kv => P (snd kv)) l -> P (JObj l).
  Fixpoint jv_ind_cb (v : jv) : P v :=
    match v with
    | JNull => Hnull | JBool b => Hbool b | JInt z => Hint z | JFloat f => Hfloat f
    | JDouble f => Hdouble f | JStr s => Hstr s | JRaw s => Hraw s
    | JArr l =>
        Harr l ((fix go (l : list jv) : Forall P l :=
                   match l with [] => Forall_nil _ | x :: t => Forall_cons _ (jv_ind_cb x) (go t) end) l)
    | JObj l =>
        Hobj l ((fix go (l : list (bytes * jv)) : Forall (fun kv => P (snd kv)) l :=
                   match l with [] => Forall_nil _ | kv :: t => Forall_cons _ (jv_ind_cb (snd kv)) (go t) end) l)
    end.
End JvInd.

(* ------------------------------------------------------------------------------------------------ *)
(* the inner loops as functions of their own                                                         *)
(* ------------------------------------------------------------------------------------------------ *)
Fixpoint slots_arr (l : list jv) : nat :=
  match l with [] => O | e :: t => S (slots e) + slots_arr t end.

Fixpoint slots_obj (l : list (bytes * jv)) : nat :=
  match l with [] => O | (_, e) :: t => S (S (slots e)) + slots_obj t end.

Lemma slots_JArr : forall l, slots (JArr l) = slots_arr l.
Proof. reflexivity. Qed.

Lemma slots_JObj : forall l, slots (JObj l) = slots_obj l.
Proof. reflexivity. Qed.

Lemma slots_arr_app : forall p q, slots_arr (p ++ q) = slots_arr p + slots_arr q.
Proof. induction p as [|e p IH]; intros q; cbn [slots_arr app]; [reflexivity|]. rewrite IH. lia. Qed.

Lemma slots_obj_app : forall p q, slots_obj (p ++ q) = slots_obj p + slots_obj q.
Proof. induction p as [|[k e] p IH]; intros q; cbn [slots_obj app]; [reflexivity|]. rewrite IH. lia. Qed.

(* the loops of copy_budget, with the accumulator *)
Fixpoint copy_arr (l : list jv) (acc : list jv) (b : nat) : jv * nat * bool :=
  match l with
  | [] => (JArr (rev_append acc []), b, true)
  | e :: t =>
      match b with
      | O => (JArr (rev_append acc []), O, false)
      | S b1 =>
          let '(pe, b', ok) := copy_budget e b1 in
          if ok then copy_arr t (pe :: acc) b'
          else (JArr (rev_append acc []), S (b' + slots pe), false)
      end
  end.

Fixpoint copy_obj (l : list (bytes * jv)) (acc : list (bytes * jv)) (b : nat) : jv * nat * bool :=
  match l with
  | [] => (JObj (rev_append acc []), b, true)
  | (k, e) :: t =>
      match b with
      | O => (JObj (rev_append acc []), O, false)
      | S O => (JObj (rev_append acc []), O, false)
      | S (S b2) =>
          let '(pe, b', ok) := copy_budget e b2 in
          if ok then copy_obj t ((k, pe) :: acc) b'
          else (JObj (rev_append ((k, pe) :: acc) []), b', false)
      end
  end.

Lemma copy_budget_JArr : forall l b, copy_budget (JArr l) b = copy_arr l [] b.
Proof. reflexivity. Qed.

Lemma copy_budget_JObj : forall l b, copy_budget (JObj l) b = copy_obj l [] b.
Proof. reflexivity. Qed.

(* the same loops without the accumulator: (members received, slots still free, complete?) *)
Fixpoint cpa (l : list jv) (b : nat) : list jv * nat * bool :=
  match l with
  | [] => ([], b, true)
  | e :: t =>
      match b with
      | O => ([], O, false)
      | S b1 =>
          let '(pe, b', ok) := copy_budget e b1 in
          if ok then let '(p, r, ok') := cpa t b' in (pe :: p, r, ok')
          else ([], S (b' + slots pe), false)
      end
  end.

Fixpoint cpo (l : list (bytes * jv)) (b : nat) : list (bytes * jv) * nat * bool :=
  match l with
  | [] => ([], b, true)
  | (k, e) :: t =>
      match b with
      | O => ([], O, false)
      | S O => ([], O, false)
      | S (S b2) =>
          let '(pe, b', ok) := copy_budget e b2 in
          if ok then let '(p, r, ok') := cpo t b' in ((k, pe) :: p, r, ok')
          else ([(k, pe)], b', false)
      end
  end.

Lemma copy_arr_cpa : forall l acc b,
  copy_arr l acc b = let '(p, r, ok) := cpa l b in (JArr (rev acc ++ p), r, ok).
Proof.
  induction l as [|e t IH]; intros acc b.
  - cbn [copy_arr cpa]. rewrite rev_append_rev. reflexivity.
  - destruct b as [|b1]; cbn [copy_arr cpa].
    + rewrite rev_append_rev. reflexivity.
    + destruct (copy_budget e b1) as [[pe b'] ok]. destruct ok.
      * rewrite IH. destruct (cpa t b') as [[p r] ok']. cbn [rev]. rewrite <- app_assoc. reflexivity.
      * rewrite rev_append_rev. reflexivity.
Qed.

Lemma copy_obj_cpo : forall l acc b,
  copy_obj l acc b = let '(p, r, ok) := cpo l b in (JObj (rev acc ++ p), r, ok).
Proof.
  induction l as [|[k e] t IH]; intros acc b.
  - cbn [copy_obj cpo]. rewrite rev_append_rev. reflexivity.
  - destruct b as [|[|b2]]; cbn [copy_obj cpo].
    + rewrite rev_append_rev. reflexivity.
    + rewrite rev_append_rev. reflexivity.
    + destruct (copy_budget e b2) as [[pe b'] ok]. destruct ok.
      * rewrite IH. destruct (cpo t b') as [[p r] ok']. cbn [rev]. rewrite <- app_assoc. reflexivity.
      * rewrite rev_append_rev. cbn [rev]. rewrite app_nil_r. reflexivity.
Qed.

Lemma copy_JArr : forall l b,
  copy_budget (JArr l) b = let '(p, r, ok) := cpa l b in (JArr p, r, ok).
Proof. intros. rewrite copy_budget_JArr, copy_arr_cpa. reflexivity. Qed.

Lemma copy_JObj : forall l b,
  copy_budget (JObj l) b = let '(p, r, ok) := cpo l b in (JObj p, r, ok).
Proof. intros. rewrite copy_budget_JObj, copy_obj_cpo. reflexivity. Qed.

(* ------------------------------------------------------------------------------------------------ *)
(* scalars: no slot, or one extension slot (doubles, wide integers)                                  *)
(* ------------------------------------------------------------------------------------------------ *)
Definition scalar (v : jv) : Prop := match v with JArr _ | JObj _ => False | _ => True end.

Lemma ext_le1 : forall v, ext v <= 1.
Proof. destruct v; cbn [ext]; try lia. destruct (_ || _)%bool; lia. Qed.

Lemma ext_scalar : forall v, ext v = 1 -> scalar v.
Proof. destruct v; cbn [ext scalar]; intros H; try exact I; discriminate. Qed.

Lemma slots_scalar : forall v, scalar v -> slots v = ext v.
Proof. destruct v; cbn [scalar]; intros H; try contradiction; reflexivity. Qed.

Lemma scalar_budget_cases : forall v b,
  (ext v <= b /\ scalar_budget v b = (v, b - ext v, true)) \/
  (ext v = 1 /\ b = 0 /\ scalar_budget v b = (JNull, 0, false)).
Proof.
  intros v b. unfold scalar_budget. pose proof (ext_le1 v) as H1. destruct (ext v) as [|n].
  - left. split; [lia|]. rewrite Nat.sub_0_r. reflexivity.
  - assert (n = 0) by lia. subst n. destruct b as [|b1].
    + right. auto.
    + left. split; [lia|]. replace (S b1 - 1) with b1 by lia. reflexivity.
Qed.

(* a scalar is copied whole when its slot (if it needs one) can be had; otherwise the destination is null *)
Lemma copy_scalar_cases : forall v b, scalar v ->
  (slots v <= b /\ copy_budget v b = (v, b - slots v, true)) \/
  (slots v = 1 /\ ext v = 1 /\ b = 0 /\ copy_budget v b = (JNull, 0, false)).
Proof.
  intros v b Hs. rewrite (slots_scalar v Hs).
  assert (HE : copy_budget v b = scalar_budget v b) by (destruct v; try contradiction; reflexivity).
  rewrite HE. destruct (scalar_budget_cases v b) as [[H1 H2]|[H1 [H2 H3]]]; [left|right]; auto.
Qed.

Lemma slots_JNull : slots JNull = 0.
Proof. reflexivity. Qed.

(* ------------------------------------------------------------------------------------------------ *)
(* 1. enough slots: the copy is complete and takes exactly slots v                                    *)
(* ------------------------------------------------------------------------------------------------ *)
Definition complete_at (v : jv) : Prop :=
  forall b, slots v <= b -> copy_budget v b = (v, b - slots v, true).

Lemma cpa_enough : forall l, Forall complete_at l ->
  forall b, slots_arr l <= b -> cpa l b = (l, b - slots_arr l, true).
Proof.
  induction l as [|e t IH]; intros HF b Hb; cbn [cpa slots_arr] in *.
  - rewrite Nat.sub_0_r. reflexivity.
  - inversion HF as [|? ? He Ht]; subst.
    destruct b as [|b1]; [lia|].
    rewrite (He b1) by lia. rewrite (IH Ht) by lia.
    f_equal. f_equal. lia.
Qed.

Lemma cpo_enough : forall l, Forall (fun kv => complete_at (snd kv)) l ->
  forall b, slots_obj l <= b -> cpo l b = (l, b - slots_obj l, true).
Proof.
  induction l as [|[k e] t IH]; intros HF b Hb; cbn [cpo slots_obj] in *.
  - rewrite Nat.sub_0_r. reflexivity.
  - inversion HF as [|? ? He Ht]; subst. cbn [snd] in He.
    destruct b as [|[|b2]]; [lia|lia|].
    rewrite (He b2) by lia. rewrite (IH Ht) by lia.
    f_equal. f_equal. lia.
Qed.

Lemma copy_enough_scalar : forall v, scalar v -> complete_at v.
Proof.
  intros v Hs n Hn. destruct (copy_scalar_cases v n Hs) as [[_ HSeq]|[HS1 [_ [HSb _]]]]; [exact HSeq|lia].
Qed.

Theorem copy_enough : forall v b,
  slots v <= b -> copy_budget v b = (v, b - slots v, true).
Proof.
  intros v. change (complete_at v).
  induction v using jv_ind_cb; try (apply copy_enough_scalar; exact I).
  - intros n Hn. rewrite slots_JArr in *. rewrite copy_JArr, (cpa_enough l H n Hn). reflexivity.
  - intros n Hn. rewrite slots_JObj in *. rewrite copy_JObj, (cpo_enough l H n Hn). reflexivity.
Qed.

Lemma all_complete_arr : forall l : list jv, Forall complete_at l.
Proof. intros l. apply Forall_forall. intros e _ b. apply copy_enough. Qed.

Lemma all_complete_obj : forall l : list (bytes * jv), Forall (fun kv => complete_at (snd kv)) l.
Proof. intros l. apply Forall_forall. intros e _ b. apply copy_enough. Qed.

Lemma cpa_enough' : forall l b, slots_arr l <= b -> cpa l b = (l, b - slots_arr l, true).
Proof. intros l. apply cpa_enough, all_complete_arr. Qed.

Lemma cpo_enough' : forall l b, slots_obj l <= b -> cpo l b = (l, b - slots_obj l, true).
Proof. intros l. apply cpo_enough, all_complete_obj. Qed.

(* ------------------------------------------------------------------------------------------------ *)
(* 2. complete iff enough                                                                            *)
(* ------------------------------------------------------------------------------------------------ *)
Definition fails_at (v : jv) : Prop := forall b, b < slots v -> snd (copy_budget v b) = false.

Lemma cpa_short : forall l, Forall fails_at l ->
  forall b, b < slots_arr l -> snd (cpa l b) = false.
Proof.
  induction l as [|e t IH]; intros HF b Hb; cbn [cpa slots_arr] in *; [lia|].
  inversion HF as [|? ? He Ht]; subst.
  destruct b as [|b1]; [reflexivity|].
  destruct (le_lt_dec (slots e) b1) as [Hle|Hlt].
  - rewrite (copy_enough e b1 Hle).
    specialize (IH Ht (b1 - slots e)). destruct (cpa t (b1 - slots e)) as [[p r] ok'].
    cbn [snd] in *. apply IH. lia.
  - specialize (He b1 Hlt). destruct (copy_budget e b1) as [[pe b'] ok]. cbn [snd] in He. subst ok.
    reflexivity.
Qed.

Lemma cpo_short : forall l, Forall (fun kv => fails_at (snd kv)) l ->
  forall b, b < slots_obj l -> snd (cpo l b) = false.
Proof.
  induction l as [|[k e] t IH]; intros HF b Hb; cbn [cpo slots_obj] in *; [lia|].
  inversion HF as [|? ? He Ht]; subst. cbn [snd] in He.
  destruct b as [|[|b2]]; [reflexivity|reflexivity|].
  destruct (le_lt_dec (slots e) b2) as [Hle|Hlt].
  - rewrite (copy_enough e b2 Hle).
    specialize (IH Ht (b2 - slots e)). destruct (cpo t (b2 - slots e)) as [[p r] ok'].
    cbn [snd] in *. apply IH. lia.
  - specialize (He b2 Hlt). destruct (copy_budget e b2) as [[pe b'] ok]. cbn [snd] in He. subst ok.
    reflexivity.
Qed.

Lemma copy_short_scalar : forall v, scalar v -> fails_at v.
Proof.
  intros v Hs n Hn. destruct (copy_scalar_cases v n Hs) as [[HSle _]|[_ [_ [_ HSeq]]]]; [lia|].
  rewrite HSeq. reflexivity.
Qed.

Theorem copy_short : forall v b, b < slots v -> snd (copy_budget v b) = false.
Proof.
  intros v. change (fails_at v).
  induction v using jv_ind_cb; try (apply copy_short_scalar; exact I).
  - intros n Hn. rewrite slots_JArr in Hn. rewrite copy_JArr.
    pose proof (cpa_short l H n Hn) as HS. destruct (cpa l n) as [[p r] ok]. exact HS.
  - intros n Hn. rewrite slots_JObj in Hn. rewrite copy_JObj.
    pose proof (cpo_short l H n Hn) as HS. destruct (cpo l n) as [[p r] ok]. exact HS.
Qed.

Theorem copy_complete_iff : forall v b, snd (copy_budget v b) = true <-> slots v <= b.
Proof.
  intros v b. split.
  - intros H. destruct (le_lt_dec (slots v) b) as [Hle|Hlt]; [exact Hle|].
    rewrite (copy_short v b Hlt) in H. discriminate.
  - intros H. rewrite (copy_enough v b H). reflexivity.
Qed.

(* the two cases, in the form used below *)
Lemma copy_cases : forall v b,
  (slots v <= b /\ copy_budget v b = (v, b - slots v, true)) \/
  (b < slots v /\ exists p r, copy_budget v b = (p, r, false)).
Proof.
  intros v b. destruct (le_lt_dec (slots v) b) as [Hle|Hlt].
  - left. split; [exact Hle|]. apply copy_enough, Hle.
  - right. split; [exact Hlt|]. pose proof (copy_short v b Hlt) as HS.
    destruct (copy_budget v b) as [[p r] ok]. cbn [snd] in HS. subst ok. eauto.
Qed.

(* ------------------------------------------------------------------------------------------------ *)
(* 3. what the destination holds is a truncation of the source                                       *)
(* ------------------------------------------------------------------------------------------------ *)
(* trunc p v: p is v cut short.  An array keeps a prefix of whole elements; an object keeps its first n members
   unchanged and possibly one more member, with the same key, whose value is itself cut short.  Keys are never
   changed, and a member always has a value (by the type of JObj).  A double or a wide integer (ext v = 1) whose
   extension slot could not be had is null. *)
Inductive trunc : jv -> jv -> Prop :=
| trunc_refl : forall v, trunc v v
| trunc_arr : forall p l, (exists t, l = p ++ t) -> trunc (JArr p) (JArr l)
| trunc_obj_cut : forall p l n, p = firstn n l -> trunc (JObj p) (JObj l)
| trunc_obj_part : forall p l n k e pe,
    p = firstn n l ++ [(k, pe)] -> nth_error l n = Some (k, e) -> trunc pe e -> trunc (JObj p) (JObj l)
| trunc_ext : forall v, ext v = 1 -> trunc JNull v.   (* a scalar whose extension slot could not be had: null *)

(* the same for the member lists, by recursion on the list *)
Inductive otrunc : list (bytes * jv) -> list (bytes * jv) -> Prop :=
| ot_nil : forall l, otrunc [] l
| ot_part : forall k pe e t, trunc pe e -> otrunc [(k, pe)] ((k, e) :: t)
| ot_cons : forall x p l, otrunc p l -> otrunc (x :: p) (x :: l).

Lemma otrunc_shape : forall p l, otrunc p l ->
  (exists n, p = firstn n l) \/
  (exists n k e pe, p = firstn n l ++ [(k, pe)] /\ nth_error l n = Some (k, e) /\ trunc pe e).
Proof.
  induction 1 as [l|k pe e t HT|x p l HO IH].
  - left. exists 0. reflexivity.
  - right. exists 0, k, e, pe. auto.
  - destruct IH as [[n Hn]|[n [k [e [pe [Hp [Hn HT]]]]]]].
    + left. exists (S n). cbn [firstn]. rewrite Hn. reflexivity.
    + right. exists (S n), k, e, pe. cbn [firstn nth_error]. rewrite Hp. auto.
Qed.

Lemma otrunc_trunc : forall p l, otrunc p l -> trunc (JObj p) (JObj l).
Proof.
  intros p l H. destruct (otrunc_shape p l H) as [[n Hn]|[n [k [e [pe [Hp [Hn HT]]]]]]].
  - eapply trunc_obj_cut; eauto.
  - eapply trunc_obj_part; eauto.
Qed.

Lemma cpa_prefix : forall l b, exists t, l = fst (fst (cpa l b)) ++ t.
Proof.
  induction l as [|e t IH]; intros b; cbn [cpa].
  - exists []. reflexivity.
  - destruct b as [|b1]; [exists (e :: t); reflexivity|].
    destruct (copy_cases e b1) as [[Hle Heq]|[Hlt [pe [r Heq]]]]; rewrite Heq.
    + destruct (IH (b1 - slots e)) as [t' Ht']. destruct (cpa t (b1 - slots e)) as [[p r] ok].
      cbn [fst] in *. exists t'. cbn [app]. rewrite <- Ht'. reflexivity.
    + exists (e :: t). reflexivity.
Qed.

Definition trunc_at (v : jv) : Prop := forall b, trunc (fst (fst (copy_budget v b))) v.

Lemma cpo_otrunc : forall l, Forall (fun kv => trunc_at (snd kv)) l ->
  forall b, otrunc (fst (fst (cpo l b))) l.
Proof.
  induction l as [|[k e] t IH]; intros HF b; cbn [cpo].
  - apply ot_nil.
  - inversion HF as [|? ? He Ht]; subst. cbn [snd] in He.
    destruct b as [|[|b2]]; [apply ot_nil|apply ot_nil|].
    destruct (copy_cases e b2) as [[Hle Heq]|[Hlt [pe [r Heq]]]].
    + rewrite Heq. specialize (IH Ht (b2 - slots e)). destruct (cpo t (b2 - slots e)) as [[p r] ok].
      cbn [fst] in *. apply ot_cons, IH.
    + specialize (He b2). rewrite Heq in *. cbn [fst] in *. apply ot_part, He.
Qed.

Lemma copy_trunc_scalar : forall v, scalar v -> trunc_at v.
Proof.
  intros v Hs n. destruct (copy_scalar_cases v n Hs) as [[_ HSeq]|[_ [HSe [_ HSeq]]]]; rewrite HSeq; cbn [fst].
  - apply trunc_refl.
  - apply trunc_ext, HSe.
Qed.

Theorem copy_trunc : forall v b, trunc (fst (fst (copy_budget v b))) v.
Proof.
  intros v. change (trunc_at v).
  induction v using jv_ind_cb; try (apply copy_trunc_scalar; exact I).
  - intros n. rewrite copy_JArr. destruct (cpa_prefix l n) as [t Ht].
    destruct (cpa l n) as [[p r] ok]. cbn [fst] in *. apply trunc_arr. exists t. exact Ht.
  - intros n. rewrite copy_JObj. pose proof (cpo_otrunc l H n) as HO.
    destruct (cpo l n) as [[p r] ok]. cbn [fst] in *. apply otrunc_trunc, HO.
Qed.

Lemma cpo_otrunc' : forall l b, otrunc (fst (fst (cpo l b))) l.
Proof. intros l. apply cpo_otrunc, Forall_forall. intros kv _ b. apply copy_trunc. Qed.

(* a truncation never has more slots *)
Lemma slots_obj_firstn : forall n l, slots_obj (firstn n l) <= slots_obj l.
Proof.
  induction n as [|n IH]; intros l; [cbn; lia|].
  destruct l as [|[k e] t]; cbn [firstn slots_obj]; [lia|]. specialize (IH t). lia.
Qed.

Lemma slots_obj_firstn_part : forall n l k e pe,
  nth_error l n = Some (k, e) -> slots pe <= slots e ->
  slots_obj (firstn n l ++ [(k, pe)]) <= slots_obj l.
Proof.
  induction n as [|n IH]; intros l k e pe Hn Hs; destruct l as [|[k' e'] t]; cbn [nth_error] in Hn; try discriminate.
  - injection Hn as -> ->. cbn [firstn app slots_obj]. lia.
  - cbn [firstn app slots_obj]. specialize (IH t k e pe Hn Hs). lia.
Qed.

Theorem trunc_slots : forall p v, trunc p v -> slots p <= slots v.
Proof.
  induction 1 as [v|p l [t Ht]|p l n Hp|p l n k e pe Hp Hn HT IH|v Hv].
  - lia.
  - rewrite !slots_JArr. subst l. rewrite slots_arr_app. lia.
  - rewrite !slots_JObj. subst p. apply slots_obj_firstn.
  - rewrite !slots_JObj. subst p. eapply slots_obj_firstn_part; eauto.
  - rewrite slots_JNull. lia.
Qed.

(* ------------------------------------------------------------------------------------------------ *)
(* 4. slots are conserved up to one                                                                  *)
(* ------------------------------------------------------------------------------------------------ *)
Definition conserve_at (v : jv) : Prop :=
  forall b p r ok, copy_budget v b = (p, r, ok) -> r + slots p <= b /\ b <= r + slots p + 1.

Lemma cpa_conserve : forall l, Forall conserve_at l ->
  forall b p r ok, cpa l b = (p, r, ok) -> r + slots_arr p <= b /\ b <= r + slots_arr p + 1.
Proof.
  induction l as [|e t IH]; intros HF b p r ok Heq; cbn [cpa] in Heq.
  - injection Heq as <- <- <-. cbn [slots_arr]. lia.
  - inversion HF as [|? ? He Ht]; subst.
    destruct b as [|b1]; [injection Heq as <- <- <-; cbn [slots_arr]; lia|].
    destruct (copy_budget e b1) as [[pe b'] oke] eqn:Ee. destruct oke.
    + pose proof (proj1 (copy_complete_iff e b1)) as Hc. rewrite Ee in Hc. specialize (Hc eq_refl).
      rewrite (copy_enough e b1 Hc) in Ee. injection Ee as <- <-.
      destruct (cpa t (b1 - slots e)) as [[p' r'] ok'] eqn:Et. injection Heq as <- <- <-.
      destruct (IH Ht _ _ _ _ Et) as [H1 H2]. cbn [slots_arr]. lia.
    + injection Heq as <- <- <-. destruct (He _ _ _ _ Ee) as [H1 H2]. cbn [slots_arr]. lia.
Qed.

Lemma cpo_conserve : forall l, Forall (fun kv => conserve_at (snd kv)) l ->
  forall b p r ok, cpo l b = (p, r, ok) -> r + slots_obj p <= b /\ b <= r + slots_obj p + 1.
Proof.
  induction l as [|[k e] t IH]; intros HF b p r ok Heq; cbn [cpo] in Heq.
  - injection Heq as <- <- <-. cbn [slots_obj]. lia.
  - inversion HF as [|? ? He Ht]; subst. cbn [snd] in He.
    destruct b as [|[|b2]]; [injection Heq as <- <- <-; cbn [slots_obj]; lia|injection Heq as <- <- <-; cbn [slots_obj]; lia|].
    destruct (copy_budget e b2) as [[pe b'] oke] eqn:Ee. destruct oke.
    + pose proof (proj1 (copy_complete_iff e b2)) as Hc. rewrite Ee in Hc. specialize (Hc eq_refl).
      rewrite (copy_enough e b2 Hc) in Ee. injection Ee as <- <-.
      destruct (cpo t (b2 - slots e)) as [[p' r'] ok'] eqn:Et. injection Heq as <- <- <-.
      destruct (IH Ht _ _ _ _ Et) as [H1 H2]. cbn [slots_obj]. lia.
    + injection Heq as <- <- <-. destruct (He _ _ _ _ Ee) as [H1 H2]. cbn [slots_obj]. lia.
Qed.

Lemma copy_conserve_scalar : forall v, scalar v -> conserve_at v.
Proof.
  intros v Hs n p r ok Heq.
  destruct (copy_scalar_cases v n Hs) as [[HSle HSeq]|[_ [_ [HSb HSeq]]]]; rewrite HSeq in Heq; injection Heq as <- <- <-.
  - lia.
  - rewrite slots_JNull. lia.
Qed.

Lemma copy_conserve_aux : forall v, conserve_at v.
Proof.
  induction v using jv_ind_cb; try (apply copy_conserve_scalar; exact I).
  - intros n p r ok Heq. rewrite copy_JArr in Heq. destruct (cpa l n) as [[p' r'] ok'] eqn:El.
    injection Heq as <- <- <-. rewrite slots_JArr. eapply cpa_conserve; eauto.
  - intros n p r ok Heq. rewrite copy_JObj in Heq. destruct (cpo l n) as [[p' r'] ok'] eqn:El.
    injection Heq as <- <- <-. rewrite slots_JObj. eapply cpo_conserve; eauto.
Qed.

(* r + slots p <= b <= r + slots p + 1, and nothing is lost when the copy is complete *)
Theorem copy_conserve : forall v b,
  let '(p, r, ok) := copy_budget v b in
  r + slots p <= b /\ b <= r + slots p + 1 /\ (ok = true -> r + slots p = b).
Proof.
  intros v b. destruct (copy_budget v b) as [[p r] ok] eqn:E.
  destruct (copy_conserve_aux v b p r ok E) as [H1 H2]. split; [exact H1|]. split; [exact H2|].
  intros ->. pose proof (proj1 (copy_complete_iff v b)) as Hc. rewrite E in Hc. specialize (Hc eq_refl).
  rewrite (copy_enough v b Hc) in E. injection E as <- <-. lia.
Qed.

(* when exactly is a slot lost?  Somewhere along the path of first failures, the copy of an object stopped at a
   member with exactly one slot left (addMember took the key slot and was refused the value slot).  A scalar that
   is refused its extension slot loses nothing (there was no slot to take). *)
Inductive loses : jv -> nat -> Prop :=
| loses_arr : forall p e t b1,
    loses e b1 -> loses (JArr (p ++ e :: t)) (slots (JArr p) + S b1)
| loses_key : forall p k e t,
    loses (JObj (p ++ (k, e) :: t)) (slots (JObj p) + 1)
| loses_val : forall p k e t b2,
    loses e b2 -> loses (JObj (p ++ (k, e) :: t)) (slots (JObj p) + S (S b2)).

Lemma loses_lt : forall v b, loses v b -> b < slots v.
Proof.
  induction 1 as [p e t b1 HL IH|p k e t|p k e t b2 HL IH].
  - rewrite !slots_JArr, slots_arr_app. cbn [slots_arr]. lia.
  - rewrite !slots_JObj, slots_obj_app. cbn [slots_obj]. lia.
  - rewrite !slots_JObj, slots_obj_app. cbn [slots_obj]. lia.
Qed.

Lemma cpa_app : forall p l b,
  cpa (p ++ l) (slots_arr p + b) = let '(q, r, ok) := cpa l b in (p ++ q, r, ok).
Proof.
  induction p as [|e p IH]; intros l b.
  - cbn [app slots_arr plus]. destruct (cpa l b) as [[q r] ok]. reflexivity.
  - replace (slots_arr (e :: p) + b) with (S (slots e + (slots_arr p + b))) by (cbn [slots_arr]; lia).
    cbn [app cpa]. rewrite copy_enough by lia.
    replace (slots e + (slots_arr p + b) - slots e) with (slots_arr p + b) by lia.
    rewrite IH. destruct (cpa l b) as [[q r] ok]. reflexivity.
Qed.

Lemma cpo_app : forall p l b,
  cpo (p ++ l) (slots_obj p + b) = let '(q, r, ok) := cpo l b in (p ++ q, r, ok).
Proof.
  induction p as [|[k e] p IH]; intros l b.
  - cbn [app slots_obj plus]. destruct (cpo l b) as [[q r] ok]. reflexivity.
  - replace (slots_obj ((k, e) :: p) + b) with (S (S (slots e + (slots_obj p + b)))) by (cbn [slots_obj]; lia).
    cbn [app cpo]. rewrite copy_enough by lia.
    replace (slots e + (slots_obj p + b) - slots e) with (slots_obj p + b) by lia.
    rewrite IH. destruct (cpo l b) as [[q r] ok]. reflexivity.
Qed.

Definition lost_one (v : jv) (b : nat) : Prop :=
  b = snd (fst (copy_budget v b)) + slots (fst (fst (copy_budget v b))) + 1.

Lemma loses_lost : forall v b, loses v b -> lost_one v b.
Proof.
  unfold lost_one. induction 1 as [p e t b1 HL IH|p k e t|p k e t b2 HL IH].
  - rewrite copy_JArr, slots_JArr, cpa_app. cbn [cpa].
    pose proof (copy_short e b1 (loses_lt e b1 HL)) as HS.
    destruct (copy_budget e b1) as [[pe b'] ok]. cbn [fst snd] in *. subst ok.
    cbn [fst snd]. rewrite slots_JArr, app_nil_r. lia.
  - rewrite copy_JObj, slots_JObj, cpo_app. cbn [cpo fst snd]. rewrite slots_JObj, app_nil_r. lia.
  - rewrite copy_JObj, slots_JObj, cpo_app. cbn [cpo].
    pose proof (copy_short e b2 (loses_lt e b2 HL)) as HS.
    destruct (copy_budget e b2) as [[pe b'] ok]. cbn [fst snd] in *. subst ok.
    cbn [fst snd]. rewrite slots_JObj, slots_obj_app. cbn [slots_obj]. lia.
Qed.

Lemma cpa_lost : forall l, Forall (fun e => forall b, lost_one e b -> loses e b) l ->
  forall b, b = snd (fst (cpa l b)) + slots_arr (fst (fst (cpa l b))) + 1 ->
  exists p e t b1, l = p ++ e :: t /\ b = slots_arr p + S b1 /\ loses e b1.
Proof.
  induction l as [|e t IH]; intros HF b Hb; cbn [cpa] in Hb.
  - cbn [fst snd slots_arr] in Hb. lia.
  - inversion HF as [|? ? He Ht]; subst.
    destruct b as [|b1]; [cbn [fst snd slots_arr] in Hb; lia|].
    destruct (copy_cases e b1) as [[Hle Heq]|[Hlt [pe [r Heq]]]].
    + rewrite Heq in Hb. specialize (IH Ht (b1 - slots e)).
      destruct (cpa t (b1 - slots e)) as [[p' r'] ok']. cbn [fst snd slots_arr] in *.
      destruct IH as [p [e' [t' [b1' [Hl [Hb' HL]]]]]]; [lia|].
      exists (e :: p), e', t', b1'. subst t. cbn [app slots_arr]. repeat split; [lia|exact HL].
    + specialize (He b1). unfold lost_one in He. rewrite Heq in *. cbn [fst snd slots_arr] in *.
      exists [], e, t, b1. cbn [app slots_arr]. repeat split. apply He. lia.
Qed.

Lemma cpo_lost : forall l, Forall (fun kv => forall b, lost_one (snd kv) b -> loses (snd kv) b) l ->
  forall b, b = snd (fst (cpo l b)) + slots_obj (fst (fst (cpo l b))) + 1 ->
  exists p k e t, l = p ++ (k, e) :: t /\
    (b = slots_obj p + 1 \/ exists b2, b = slots_obj p + S (S b2) /\ loses e b2).
Proof.
  induction l as [|[k e] t IH]; intros HF b Hb; cbn [cpo] in Hb.
  - cbn [fst snd slots_obj] in Hb. lia.
  - inversion HF as [|? ? He Ht]; subst. cbn [snd] in He.
    destruct b as [|[|b2]]; [cbn [fst snd slots_obj] in Hb; lia| |].
    { exists [], k, e, t. cbn [app slots_obj]. split; [reflexivity|]. left. reflexivity. }
    destruct (copy_cases e b2) as [[Hle Heq]|[Hlt [pe [r Heq]]]].
    + rewrite Heq in Hb. specialize (IH Ht (b2 - slots e)).
      destruct (cpo t (b2 - slots e)) as [[p' r'] ok']. cbn [fst snd slots_obj] in *.
      destruct IH as [p [k' [e' [t' [Hl Hc]]]]]; [lia|].
      exists ((k, e) :: p), k', e', t'. subst t. cbn [app slots_obj]. split; [reflexivity|].
      destruct Hc as [Hc|[b2' [Hc HL]]]; [left; lia|right; exists b2'; split; [lia|exact HL]].
    + specialize (He b2). unfold lost_one in He. rewrite Heq in *. cbn [fst snd slots_obj] in *.
      exists [], k, e, t. cbn [app slots_obj]. split; [reflexivity|]. right. exists b2. split; [reflexivity|].
      apply He. lia.
Qed.

Lemma lost_loses_scalar : forall v, scalar v -> forall b, lost_one v b -> loses v b.
Proof.
  intros v Hs n Hn. unfold lost_one in Hn. exfalso.
  destruct (copy_scalar_cases v n Hs) as [[HSle HSeq]|[_ [_ [HSb HSeq]]]]; rewrite HSeq in Hn; cbn [fst snd] in Hn.
  - lia.
  - rewrite slots_JNull in Hn. lia.
Qed.

Lemma lost_loses : forall v b, lost_one v b -> loses v b.
Proof.
  induction v using jv_ind_cb; try (apply lost_loses_scalar; exact I).
  - intros n Hn. unfold lost_one in Hn. rewrite copy_JArr in Hn.
    pose proof (cpa_lost l H n) as HL. destruct (cpa l n) as [[p r] ok]. cbn [fst snd] in *.
    rewrite slots_JArr in Hn. destruct (HL Hn) as [p' [e [t [b1 [Hl [Hb HE]]]]]]. subst l. rewrite Hb.
    exact (loses_arr p' e t b1 HE).
  - intros n Hn. unfold lost_one in Hn. rewrite copy_JObj in Hn.
    pose proof (cpo_lost l H n) as HL. destruct (cpo l n) as [[p r] ok]. cbn [fst snd] in *.
    rewrite slots_JObj in Hn. destruct (HL Hn) as [p' [k [e [t [Hl [Hb|[b2 [Hb HE]]]]]]]]; subst l; rewrite Hb.
    + exact (loses_key p' k e t).
    + exact (loses_val p' k e t b2 HE).
Qed.

(* the slot is lost exactly when `loses v b`; otherwise everything is accounted for *)
Theorem copy_lost_iff : forall v b,
  loses v b <-> b = snd (fst (copy_budget v b)) + slots (fst (fst (copy_budget v b))) + 1.
Proof. intros v b. split; [apply loses_lost|apply lost_loses]. Qed.

Theorem copy_not_lost : forall v b,
  ~ loses v b -> snd (fst (copy_budget v b)) + slots (fst (fst (copy_budget v b))) = b.
Proof.
  intros v b HN. pose proof (copy_conserve v b) as HC.
  assert (HX : b <> snd (fst (copy_budget v b)) + slots (fst (fst (copy_budget v b))) + 1).
  { intros HE. apply HN, copy_lost_iff, HE. }
  destruct (copy_budget v b) as [[p r] ok]. cbn [fst snd] in *. lia.
Qed.

(* ------------------------------------------------------------------------------------------------ *)
(* 5. monotone in the budget: with more slots the destination only grows                              *)
(* ------------------------------------------------------------------------------------------------ *)
Definition mono_at (v : jv) : Prop :=
  forall b b', b <= b' -> trunc (fst (fst (copy_budget v b))) (fst (fst (copy_budget v b'))).

Lemma cpa_mono : forall l b b', b <= b' ->
  exists q, fst (fst (cpa l b')) = fst (fst (cpa l b)) ++ q.
Proof.
  induction l as [|e t IH]; intros b b' Hbb.
  - exists []. reflexivity.
  - destruct b as [|b1]; [exists (fst (fst (cpa (e :: t) b'))); reflexivity|].
    destruct b' as [|b1']; [lia|]. cbn [cpa].
    destruct (copy_cases e b1) as [[Hle Heq]|[Hlt [pe [r Heq]]]]; rewrite Heq.
    + rewrite (copy_enough e b1') by lia.
      destruct (IH (b1 - slots e) (b1' - slots e)) as [q Hq]; [lia|].
      destruct (cpa t (b1 - slots e)) as [[p r] ok]. destruct (cpa t (b1' - slots e)) as [[p' r'] ok'].
      cbn [fst] in *. exists q. rewrite Hq. reflexivity.
    + cbn [fst app]. eexists. reflexivity.
Qed.

Lemma cpo_mono : forall l, Forall (fun kv => mono_at (snd kv)) l ->
  forall b b', b <= b' -> otrunc (fst (fst (cpo l b))) (fst (fst (cpo l b'))).
Proof.
  induction l as [|[k e] t IH]; intros HF b b' Hbb.
  - apply ot_nil.
  - inversion HF as [|? ? He Ht]; subst. cbn [snd] in He.
    destruct b as [|[|b2]]; [apply ot_nil|apply ot_nil|].
    destruct b' as [|[|b2']]; [lia|lia|]. cbn [cpo].
    destruct (copy_cases e b2) as [[Hle Heq]|[Hlt [pe [r Heq]]]].
    + rewrite Heq. rewrite (copy_enough e b2') by lia.
      specialize (IH Ht (b2 - slots e) (b2' - slots e)).
      destruct (cpo t (b2 - slots e)) as [[p r] ok]. destruct (cpo t (b2' - slots e)) as [[p' r'] ok'].
      cbn [fst] in *. apply ot_cons, IH. lia.
    + specialize (He b2 b2'). pose proof (copy_trunc e b2) as HT. rewrite Heq in *. cbn [fst] in *.
      destruct (copy_cases e b2') as [[Hle' Heq']|[Hlt' [pe' [r' Heq']]]]; rewrite Heq' in *.
      * destruct (cpo t (b2' - slots e)) as [[p' r'] ok']. cbn [fst]. apply ot_part, HT.
      * cbn [fst] in *. apply ot_part, He. lia.
Qed.

Lemma copy_mono_scalar : forall v, scalar v -> mono_at v.
Proof.
  intros v Hs n n' Hn.
  destruct (copy_scalar_cases v n Hs) as [[HSle HSeq]|[_ [HSe [HSb HSeq]]]];
    destruct (copy_scalar_cases v n' Hs) as [[HSle' HSeq']|[HS1' [_ [HSb' HSeq']]]];
    rewrite HSeq, HSeq'; cbn [fst].
  - apply trunc_refl.
  - lia.
  - apply trunc_ext, HSe.
  - apply trunc_refl.
Qed.

Theorem copy_mono : forall v b b', b <= b' ->
  trunc (fst (fst (copy_budget v b))) (fst (fst (copy_budget v b'))).
Proof.
  intros v. change (mono_at v).
  induction v using jv_ind_cb; try (apply copy_mono_scalar; exact I).
  - intros n n' Hn. rewrite !copy_JArr. destruct (cpa_mono l n n' Hn) as [q Hq].
    destruct (cpa l n) as [[p r] ok]. destruct (cpa l n') as [[p' r'] ok']. cbn [fst] in *.
    apply trunc_arr. exists q. exact Hq.
  - intros n n' Hn. rewrite !copy_JObj. pose proof (cpo_mono l H n n' Hn) as HO.
    destruct (cpo l n) as [[p r] ok]. destruct (cpo l n') as [[p' r'] ok']. cbn [fst] in *.
    apply otrunc_trunc, HO.
Qed.

Corollary copy_mono_slots : forall v b b', b <= b' ->
  slots (fst (fst (copy_budget v b))) <= slots (fst (fst (copy_budget v b'))).
Proof. intros v b b' H. apply trunc_slots, copy_mono, H. Qed.

(* ------------------------------------------------------------------------------------------------ *)
(* 6. failure is strict: an incomplete copy is never the whole value                                 *)
(* ------------------------------------------------------------------------------------------------ *)
Theorem copy_fail_strict : forall v b,
  snd (copy_budget v b) = false ->
  slots (fst (fst (copy_budget v b))) < slots v /\ fst (fst (copy_budget v b)) <> v.
Proof.
  intros v b HF.
  assert (Hlt : b < slots v).
  { destruct (le_lt_dec (slots v) b) as [Hle|Hlt]; [|exact Hlt].
    rewrite (proj2 (copy_complete_iff v b) Hle) in HF. discriminate. }
  pose proof (copy_conserve v b) as HC. destruct (copy_budget v b) as [[p r] ok]. cbn [fst snd] in *.
  assert (HS : slots p < slots v) by lia.
  split; [exact HS|]. intros ->. lia.
Qed.

Corollary copy_whole_iff : forall v b,
  fst (fst (copy_budget v b)) = v <-> snd (copy_budget v b) = true.
Proof.
  intros v b. split.
  - intros HE. destruct (snd (copy_budget v b)) eqn:ES; [reflexivity|].
    destruct (copy_fail_strict v b ES) as [_ HN]. contradiction.
  - intros HT. apply copy_complete_iff in HT. rewrite (copy_enough v b HT). reflexivity.
Qed.

(* ------------------------------------------------------------------------------------------------ *)
(* 7. examples: v = [1,[2,3],{"a":[4,5],"b":{"c":6}},7]                                              *)
(* ------------------------------------------------------------------------------------------------ *)
Definition ex_inner : jv := JArr [JInt 2; JInt 3].
Definition ex_obj : jv :=
  JObj [([97%N], JArr [JInt 4; JInt 5]); ([98%N], JObj [([99%N], JInt 6)])].
Definition ex_v : jv := JArr [JInt 1; ex_inner; ex_obj; JInt 7].

Example ex_slots : slots ex_v = 14.
Proof. vm_compute. reflexivity. Qed.
Example ex_b0 : copy_budget ex_v 0 = (JArr [], 0, false).
Proof. vm_compute. reflexivity. Qed.
Example ex_b3 : copy_budget ex_v 3 = (JArr [JInt 1], 2, false).
Proof. vm_compute. reflexivity. Qed.
Example ex_b4 : copy_budget ex_v 4 = (JArr [JInt 1; ex_inner], 0, false).
Proof. vm_compute. reflexivity. Qed.
(* one slot lost: 1 + 4 < 6 *)
Example ex_b6 : copy_budget ex_v 6 = (JArr [JInt 1; ex_inner], 1, false).
Proof. vm_compute. reflexivity. Qed.
Example ex_b13 : copy_budget ex_v 13 = (JArr [JInt 1; ex_inner; ex_obj], 0, false).
Proof. vm_compute. reflexivity. Qed.
Example ex_b14 : copy_budget ex_v 14 = (ex_v, 0, true).
Proof. vm_compute. reflexivity. Qed.
(* the object itself, short of slots: the member under copy stays with what was copied *)
Example ex_obj_b3 : copy_budget ex_obj 3 = (JObj [([97%N], JArr [JInt 4])], 0, false).
Proof. vm_compute. reflexivity. Qed.
Example ex_obj_b5 : copy_budget ex_obj 5 = (JObj [([97%N], JArr [JInt 4; JInt 5])], 0, false).
Proof. vm_compute. reflexivity. Qed.
Example ex_obj_b7 : copy_budget ex_obj 7 = (JObj [([97%N], JArr [JInt 4; JInt 5]); ([98%N], JObj [])], 0, false).
Proof. vm_compute. reflexivity. Qed.

(* scalars with an extension slot: xv = [0.1, 5000000000] — each element takes its own slot and one more *)
Definition ex_dbl : jv := JDouble (S754_finite false 7205759403792794 (-56)).     (* the double 0.1 *)
Definition ex_wide : jv := JInt 5000000000.
Definition ex_xv : jv := JArr [ex_dbl; ex_wide].

Example exx_dbl_valid : match ex_dbl with JDouble f => valid_binary 53 1024 f | _ => false end = true.
Proof. vm_compute. reflexivity. Qed.
Example exx_ext : (ext ex_dbl, ext ex_wide, ext (JInt 4294967295), ext (JInt (-2147483648)), ext (JInt (-2147483649)))
                  = (1, 1, 0, 0, 1).
Proof. vm_compute. reflexivity. Qed.
Example exx_slots : slots ex_xv = 4.
Proof. vm_compute. reflexivity. Qed.
Example exx_b0 : copy_budget ex_xv 0 = (JArr [], 0, false).
Proof. vm_compute. reflexivity. Qed.
(* the element's slot is had, its extension slot is not: the element (null) is discarded and its slot comes back *)
Example exx_b1 : copy_budget ex_xv 1 = (JArr [], 1, false).
Proof. vm_compute. reflexivity. Qed.
Example exx_b2 : copy_budget ex_xv 2 = (JArr [ex_dbl], 0, false).
Proof. vm_compute. reflexivity. Qed.
Example exx_b3 : copy_budget ex_xv 3 = (JArr [ex_dbl], 1, false).
Proof. vm_compute. reflexivity. Qed.
Example exx_b4 : copy_budget ex_xv 4 = (ex_xv, 0, true).
Proof. vm_compute. reflexivity. Qed.
(* in an object the member stays, holding null: {"a":0.1} with 2 slots, nothing lost; with 1 slot the key slot is lost *)
Example exx_obj_b1 : copy_budget (JObj [([97%N], ex_dbl)]) 1 = (JObj [], 0, false).
Proof. vm_compute. reflexivity. Qed.
Example exx_obj_b2 : copy_budget (JObj [([97%N], ex_dbl)]) 2 = (JObj [([97%N], JNull)], 0, false).
Proof. vm_compute. reflexivity. Qed.
Example exx_obj_b3 : copy_budget (JObj [([97%N], ex_dbl)]) 3 = (JObj [([97%N], ex_dbl)], 0, true).
Proof. vm_compute. reflexivity. Qed.
Example exx_scalar_b0 : copy_budget ex_wide 0 = (JNull, 0, false).
Proof. vm_compute. reflexivity. Qed.
Example exx_scalar_b1 : copy_budget ex_wide 1 = (ex_wide, 0, true).
Proof. vm_compute. reflexivity. Qed.
