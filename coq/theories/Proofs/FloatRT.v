(* FloatRT.v — JSON round trip of documents that contain floating-point values (C07 / C02, float clause).

   Configuration: use_double = true (JsonFloat = double).  [sfr] = [SF2R radix2], [p10 e] = 10^e.

   Part A  decompose_full_rel: PrintErr.decompose_full_gen with its case distinction kept — the printed
           parts are within 10^-P * x of x (relative) unless x > 9e-6 (no exponent printed); needed to
           place the printed value in the window [1e-300, 1e300] of NumValue's theorems.
   Part B  the text printed from the parts is a literal [NumValue.lit] (body_text_nlit, parts_wf_lit:
           well-formed, same exact value), a number of the RFC grammar (parts_jnumber) and at most
           24 bytes long (parts_lit_length).
   Part C  write_float_lit: writeFloat of a finite non-zero value as such a literal.
   Part D  one leaf: leaf_roundtrip_gen (P decimal places), and
             double_roundtrip_close   x binary64, 1e-299 <= |x| <= 1e299, printed by write_f64:
                 the text is a [jnumber] of <= 24 bytes and parse_number returns v with  close64 x v:
                   JInt z     |z - x| <= 1e-9    * max(1,|x|)      (3.0 -> "3" -> 3)
                   JFloat r   |r - x| <= 6.11e-7 * max(1,|x|)      (0.1 -> "0.1" -> (float)0.1)
                   JDouble r  |r - x| <= 1.1e-9  * max(1,|x|)
             float_roundtrip_close (_any: no window needed)   x binary32, printed by write_f32: close32 x v:
                   JInt 1e-6, JFloat 1.61e-6, JDouble 1.1e-6  (times max(1,|x|))
             zero_roundtrip: +0 and -0 are printed "0" and come back as the integer 0.
           DEVIATIONS from the requested statements
             * the tolerance 1.1e-9 for a binary32 result is FALSE (Example double_roundtrip_1e9_false:
               the double 0.1 is printed "0.1", read back as the binary32 13421773*2^-27, 1.49e-9 away;
               1e21 -> "1e21" -> binary32, relative error 2e-8): literals of at most seven digits are
               returned as binary32 (C12's 1e-6 clause), hence 1e-9 + 6e-7*(1+1e-6) <= 6.11e-7.
               For the same reason the binary32 tolerance is 1e-6 + 6e-7*(1+1e-6) <= 1.61e-6 instead of
               1.1e-6 (no counterexample known for 1.1e-6; 6e-7 is the constant of
               NumValue.literal_accuracy_double_cfg_tight).
             * window of x shrunk from [1e-300, 1e300] to [1e-299, 1e299] (the printed value must itself
               lie in [1e-300, 1e300] for NumValue's theorems).
   Part E  documents: [close v w] (same shape / keys / strings / integers / booleans, float leaves related
           by close32 / close64), [ser_ok_floats v],
             ser_parse_roundtrip_close, json_roundtrip_close            (compact serializer)
             pretty_parse_roundtrip_close, json_pretty_roundtrip_close  (pretty serializer)
           close_nofloat (on float-free documents close is equality), nofloat_okf, and a sample document.
   Nothing is assumed beyond what Coq's Reals bring (through Flocq); nothing is declared here. *)
From Coq Require Import ZArith NArith Reals Lia Lra List Bool.
From Flocq Require Import Core BinarySingleNaN Relative.
From Coq Require Import Floats.SpecFloat.
From AJ Require Import Model.Base Model.FloatModel Model.Value Model.Utf Model.NumParse Model.JsonParse
                       Model.JsonSer.
From AJ Require Import Spec.Utf8Spec Spec.Rfc8259 Spec.ParseSpec.
From AJ Require Import Proofs.Sweep Proofs.UtfProofs Proofs.Lex Proofs.StringRT Proofs.ParseComplete
                       Proofs.NumProofs Proofs.FloatErr Proofs.JsonSerRT Proofs.PrintErr Proofs.NumValue.
Import ListNotations.
Local Open Scope Z_scope.
Set Warnings "-abstract-large-number".

Notation sfr := (SF2R radix2).

(* ========================================================================================== *)
(* Part A — the printed parts, with a relative bound below the exponentiation threshold        *)
(* ========================================================================================== *)

Lemma neg_threshold_lower : (9 / 1000000 <= sfr neg_threshold)%R.
Proof.
  assert (E : exists m e, neg_threshold = S754_finite false m e /\
                          9 * snd (num_den m e) <= 1000000 * fst (num_den m e)).
  { vm_compute. eexists. eexists. split; [reflexivity|]. discriminate. }
  destruct E as [m [e [-> H]]]. pose proof (num_den_spec m e) as S.
  destruct (num_den m e) as [N D]. destruct S as [HD S]. rewrite S. cbn [fst snd] in H.
  apply IZR_le in H. rewrite !mult_IZR in H. apply IZR_lt in HD.
  apply Rmult_le_reg_r with (IZR D); [exact HD|].
  replace (IZR N / IZR D * IZR D)%R with (IZR N) by (field; lra). lra.
Qed.

(* normalize64_spec, keeping in its last branch that x is above the negative threshold *)
Lemma normalize64_spec_lower : forall x, valid F64 x -> FloatModel.is_finite x = true ->
  (0 < sfr x)%R -> (p10 (-300) <= sfr x <= p10 300)%R ->
  norm_ok (sfr x) (fst (normalize F64 x)) (snd (normalize F64 x)) \/
  (normalize F64 x = (x, 0) /\ (sfr x < 10000000)%R /\ (9 / 1000000 < sfr x)%R).
Proof.
  intros x Vx Fx Hpos [Hlo Hhi]. set (X := sfr x) in *.
  pose proof u64_half as Hu. pose proof u64_01 as Hu1.
  destruct (fconv64_id x Vx Fx) as [C1 [C2 C3]].
  destruct pos_threshold_val as [PV [PF PR]]. destruct neg_threshold_val as [NV [NF NR]].
  pose proof neg_threshold_lower as NL.
  unfold normalize. change (if mw F64 =? 52 then 8%nat else 5%nat) with 8%nat.
  destruct (f_ge_R F64 (fconv F64 x) pos_threshold good_F64 C2 PV C3 PF) as [G1 G2].
  destruct (f_ge (fconv F64 x) pos_threshold).
  - left. specialize (G1 eq_refl). rewrite C1, PR in G1. fold X in G1. clear G2.
    destruct (normalize_up_ok 8 0 X x 0) as [V [F [He [W [B1 B2]]]]]; [lia | lia | lra | |].
    + split; [exact Vx|]. split; [exact Fx|]. split; [cbn; lia|]. split.
      * change (- 0) with 0. rewrite p10_0, Rmult_1_r. apply within_refl.
      * fold X. change ((1 + u64) ^ 0)%R with 1%R. rewrite Rmult_1_r. split.
        -- assert ((1 - u64) ^ 3 <= 1)%R by apply pow_1mu_le1. lra.
        -- apply Rle_trans with (1 := Hhi). apply p10_mono. cbn. lia.
    + split; [exact V|]. split; [exact F|]. split; [lia|]. split; [exact W|]. split.
      * apply Rle_trans with (2 := B1). apply pow_1mu_le; [lra | lia].
      * rewrite <- p10_1. exact B2.
  - specialize (G2 eq_refl). rewrite C1, PR in G2. fold X in G2. clear G1.
    destruct (pos_finite_form x Fx Hpos) as [m [e Ex]].
    assert (GT : f_gt x f_zero = true) by (rewrite Ex; reflexivity).
    rewrite GT. cbn [andb].
    destruct (f_le_R F64 (fconv F64 x) neg_threshold good_F64 C2 NV C3 NF) as [L1 L2].
    destruct (f_le (fconv F64 x) neg_threshold).
    + left. specialize (L1 eq_refl). rewrite C1 in L1. fold X in L1. clear L2.
      destruct (normalize_down_ok 8 0 X x 0) as [V [F [He [W [B1 B2]]]]]; [lia | lia | lra | |].
      * split; [exact Vx|]. split; [exact Fx|]. split; [cbn; lia|]. split.
        -- change (- 0) with 0. rewrite p10_0, Rmult_1_r. apply within_refl.
        -- fold X. change ((1 - u64) ^ 0)%R with 1%R. rewrite Rmult_1_r. split.
           ++ apply Rle_trans with (2 := Hlo). apply p10_mono. cbn. lia.
           ++ assert (1 <= (1 + u64) ^ 4)%R by apply pow_1pu_ge1. lra.
      * split; [exact V|]. split; [exact F|]. split; [lia|]. split; [exact W|]. split.
        -- change (1 - 1) with 0 in B1. rewrite p10_0, Rmult_1_l in B1. exact B1.
        -- apply Rle_trans with (1 := B2). apply Rmult_le_compat_l; [lra|].
           apply pow_1pu_le; [lra | lia].
    + right. specialize (L2 eq_refl). rewrite C1 in L2. fold X in L2.
      split; [reflexivity|]. split; [exact G2 | lra].
Qed.

(* decompose_full_gen with the disjunction kept: relative bound, or x above 1e-6 *)
Theorem decompose_full_rel : forall x P, valid F64 x -> FloatModel.is_finite x = true ->
  (0 < sfr x)%R -> (p10 (-300) <= sfr x <= p10 300)%R -> 6 <= P <= 9 ->
  parts_wf (decompose_float F64 x P) /\
  (Rabs (parts_value (decompose_float F64 x P) - sfr x) <= p10 (- P) * Rmax 1 (sfr x))%R /\
  ((Rabs (parts_value (decompose_float F64 x P) - sfr x) <= p10 (- P) * sfr x)%R \/
   (9 / 1000000 < sfr x)%R).
Proof.
  intros x P Vx Fx Hpos Hr HP. set (X := sfr x) in *.
  assert (Q0 : (0 < p10 (- P))%R) by apply p10_pos.
  assert (Q9 : (1e-9 <= p10 (- P))%R) by (rewrite <- p10_m9; apply p10_mono; lia).
  pose proof (Rmax_l 1 X) as M1. pose proof (Rmax_r 1 X) as MX.
  destruct (decompose_full_gen x P Vx Fx Hpos Hr HP) as [WF0 ACC0]. fold X in ACC0.
  split; [exact WF0|]. split; [exact ACC0|].
  destruct (normalize64_spec_lower x Vx Fx Hpos Hr) as [NO|[Hn [Hlt Hgt]]]; [|right; exact Hgt].
  left.
  destruct (normalize F64 x) as [y e] eqn:Hn. cbn [fst snd] in NO.
  destruct NO as [Vy [Fy [He [W [B1 B2]]]]]. fold X in W. set (Y := sfr y) in *.
  pose proof u64_up as Uu. pose proof u64_dn as Ud.
  destruct (decompose_core x y e P Hn Vy Fy) as [WF [j [Hj [J E1]]]]; try assumption.
  { fold Y. lra. } { right. fold Y. lra. }
  fold Y in J, E1.
  assert (Pe : (0 < p10 e)%R) by apply p10_pos.
  set (Zv := (Y * p10 e)%R) in *.
  assert (WZ : ((1 - 2e-15) * X <= Zv <= (1 + 2e-15) * X)%R).
  { destruct W as [W1 W2]. unfold Zv.
    assert (EX : (X * p10 (- e) * p10 e = X)%R).
    { rewrite Rmult_assoc, (Rmult_comm (p10 (- e))), p10_inv_l. ring. }
    split.
    - apply Rle_trans with ((1 - u64) ^ 18 * (X * p10 (- e)) * p10 e)%R.
      + rewrite Rmult_assoc, EX. apply Rmult_le_compat_r; lra.
      + apply Rmult_le_compat_r; lra.
    - apply Rle_trans with ((1 + u64) ^ 18 * (X * p10 (- e)) * p10 e)%R.
      + apply Rmult_le_compat_r; lra.
      + rewrite Rmult_assoc, EX. apply Rmult_le_compat_r; lra. }
  assert (JY : (p10 j * (1 - 2e-15) <= Y)%R).
  { destruct J as [->|J]; [rewrite p10_0; lra|].
    assert (0 < p10 j)%R by apply p10_pos. nra. }
  assert (E2 : ((/ 2 + / 1000000) * p10 (j - P) * p10 e <= 51 / 100 * p10 (- P) * X)%R).
  { replace (j - P) with (- P + j) by ring. rewrite PrintErr.p10_plus.
    assert (JZ : (p10 j * p10 e * (1 - 2e-15) <= Zv)%R).
    { unfold Zv. replace (p10 j * p10 e * (1 - 2e-15))%R with ((p10 j * (1 - 2e-15)) * p10 e)%R by ring.
      apply Rmult_le_compat_r; lra. }
    assert (JX : (p10 j * p10 e <= 101 / 100 * X)%R) by lra.
    replace ((/ 2 + / 1000000) * (p10 (- P) * p10 j) * p10 e)%R
      with ((/ 2 + / 1000000) * p10 (- P) * (p10 j * p10 e))%R by ring.
    apply Rle_trans with ((/ 2 + / 1000000) * p10 (- P) * (101 / 100 * X))%R.
    - apply Rmult_le_compat_l; [|exact JX]. apply Rmult_le_pos; lra.
    - assert (0 <= p10 (- P) * X)%R by (apply Rmult_le_pos; lra). nra. }
  replace (parts_value (decompose_float F64 x P) - X)%R
    with ((parts_value (decompose_float F64 x P) - Zv) + (Zv - X))%R by ring.
  apply Rle_trans with (1 := Rabs_triang _ _).
  assert (E3 : (Rabs (Zv - X) <= 2e-15 * X)%R) by (apply Rabs_le; lra).
  assert (E4 : (2e-15 * X <= 49 / 100 * p10 (- P) * X)%R).
  { apply Rmult_le_compat_r; lra. }
  lra.
Qed.

(* ========================================================================================== *)
(* Part B — the printed text as a literal of NumValue and as a number of the RFC grammar       *)
(* ========================================================================================== *)

Definition parts_I (p : float_parts) : bytes := write_uint (fp_integral p).
Definition parts_fo (p : float_parts) : option bytes :=
  if fp_places p =? 0 then None
  else Some (rev (decimals_rev (Z.to_nat (fp_places p)) (fp_decimal p))).
Definition parts_eo (p : float_parts) : option (N * option bool * bytes) :=
  if fp_exponent p =? 0 then None
  else Some (101%N, if fp_exponent p <? 0 then Some true else None, write_uint (Z.abs (fp_exponent p))).
Definition sg_of (neg : bool) : option bool := if neg then Some true else None.

Lemma sign_neg_sg_of : forall neg, sign_neg (sg_of neg) = neg.
Proof. intros []; reflexivity. Qed.

Lemma dec_digits_value : forall l, dec l 0 = digits_value l.
Proof. reflexivity. Qed.

Lemma write_uint_len : forall n z, (1 <= n <= 22)%nat -> 0 <= z < 10 ^ Z.of_nat n ->
  digits_value (write_uint z) = z /\ Forall is_digit_byte (write_uint z) /\ write_uint z <> [] /\
  (z <> 0 -> hd 0%N (write_uint z) <> 48%N) /\ (length (write_uint z) <= n)%nat.
Proof. intros n z Hn Hz. unfold write_uint. apply (digits_rev_spec 22 n z); assumption. Qed.

Lemma body_text_nlit : forall p, parts_wf p ->
  body_text p = lit None (parts_I p) (parts_fo p) (parts_eo p).
Proof.
  intros [I D E PL] [HI [HP [HD HE]]]. cbn [fp_integral fp_decimal fp_exponent fp_places] in *.
  unfold body_text, lit, parts_I, parts_fo, parts_eo.
  cbn [fp_integral fp_decimal fp_exponent fp_places sign_bytes app].
  f_equal. f_equal.
  - destruct (PL =? 0); reflexivity.
  - destruct (Z.eqb_spec E 0) as [E0|N0]; cbn [negb exp_bytes]; [reflexivity|].
    rewrite write_int_spec by lia. destruct (E <? 0); reflexivity.
Qed.

Lemma parts_wf_lit : forall p, parts_wf p ->
  wf_lit (parts_I p) (parts_fo p) (parts_eo p) /\
  lit_abs (parts_I p) (frac_digits (parts_fo p)) (lit_exp (parts_eo p)) = parts_value p /\
  (length (parts_I p) <= 8)%nat /\ (length (frac_bytes (parts_fo p)) <= 10)%nat /\
  (length (exp_bytes (parts_eo p)) <= 5)%nat.
Proof.
  intros [I D E PL] [HI [HP [HD HE]]]. cbn [fp_integral fp_decimal fp_exponent fp_places] in *.
  set (p := {| fp_integral := I; fp_decimal := D; fp_exponent := E; fp_places := PL |}).
  destruct (write_uint_len 8 I) as [IV [IF [INE [_ IL]]]]; [lia | change (10 ^ Z.of_nat 8) with 100000000; lia|].
  (* fraction *)
  set (fo := parts_fo p).
  assert (Ff : Forall digitb (frac_digits fo) /\
               (IZR (dec (frac_digits fo) 0) / 10 ^ length (frac_digits fo) = IZR D / p10 PL)%R /\
               (length (frac_bytes fo) <= 10)%nat).
  { unfold fo, parts_fo, p. cbn [fp_integral fp_decimal fp_exponent fp_places].
    destruct (Z.eqb_spec PL 0) as [E0|N0]; cbn [frac_digits frac_bytes length].
    - subst PL. change (10 ^ 0) with 1 in HD. assert (D = 0) by lia. subst D.
      split; [constructor|]. split; [|lia]. cbn [dec fold_left length pow]. rewrite p10_0. reflexivity.
    - destruct (decimals_rev_spec (Z.to_nat PL) D) as [V [F L]]; [rewrite Z2Nat.id by lia; exact HD|].
      split; [exact F|]. split; [|lia].
      rewrite dec_digits_value, V, L, pow10_nat, Z2Nat.id by lia. reflexivity. }
  destruct Ff as [Ff [Fv Fl]].
  (* exponent *)
  set (eo := parts_eo p).
  assert (Fe : wf_exp eo /\ lit_exp eo = E /\ (length (exp_bytes eo) <= 5)%nat).
  { unfold eo, parts_eo, p. cbn [fp_integral fp_decimal fp_exponent fp_places].
    destruct (Z.eqb_spec E 0) as [E0|N0]; cbn [wf_exp lit_exp exp_bytes length].
    - split; [exact Logic.I|]. split; [congruence | lia].
    - destruct (write_uint_len 3 (Z.abs E)) as [V [F [NE [_ L]]]];
        [lia | change (10 ^ Z.of_nat 3) with 1000; lia|].
      split; [split; [left; reflexivity | exact F]|].
      rewrite dec_digits_value, V. split.
      + destruct (Z.ltb_spec E 0); cbn [sign_neg]; lia.
      + rewrite app_length. destruct (E <? 0); cbn [sign_bytes length]; lia. }
  destruct Fe as [We [Ev El]].
  split; [|split; [|split; [exact IL|split; [exact Fl|exact El]]]].
  - split; [exact IF|]. split; [exact Ff|]. split; [left; exact INE | exact We].
  - unfold lit_abs, parts_value. rewrite Ev, Fv. unfold parts_I, p.
    cbn [fp_integral fp_decimal fp_exponent fp_places]. rewrite dec_digits_value, IV. reflexivity.
Qed.

(* --- the RFC grammar --- *)

Lemma digits_all : forall l, Forall is_digit_byte l -> all_digits l = true.
Proof.
  intros l F. unfold all_digits. apply forallb_forall. rewrite Forall_forall in F.
  intros b Hb. apply digit_byte_rfc. apply F. exact Hb.
Qed.

Lemma write_uint_jint : forall n z, (1 <= n <= 22)%nat -> 0 <= z < 10 ^ Z.of_nat n ->
  jint (write_uint z) = true.
Proof.
  intros n z Hn Hz. destruct (Z.eq_dec z 0) as [->|NZ]; [reflexivity|].
  destruct (write_uint_len n z Hn Hz) as [_ [F [NE [H0 _]]]]. specialize (H0 NZ).
  destruct (write_uint z) as [|b t]; [congruence|]. cbn [hd] in H0.
  inversion F as [|? ? Hb Ft]; subst. unfold is_digit_byte in Hb.
  assert (K : (b = 49 \/ b = 50 \/ b = 51 \/ b = 52 \/ b = 53 \/ b = 54 \/ b = 55 \/
              b = 56 \/ b = 57)%N) by lia.
  assert (E : jint (b :: t) = ((49 <=? b)%N && (b <=? 57)%N && all_digits t)).
  { destruct K as [->|[->|[->|[->|[->|[->|[->|[->| ->]]]]]]]]; reflexivity. }
  rewrite E, (digits_all t Ft).
  assert ((49 <=? b)%N = true) by (apply N.leb_le; lia).
  assert ((b <=? 57)%N = true) by (apply N.leb_le; lia).
  rewrite H, H1. reflexivity.
Qed.

Lemma parts_jnumber : forall p neg, parts_wf p ->
  jnumber (lit (sg_of neg) (parts_I p) (parts_fo p) (parts_eo p)).
Proof.
  intros p neg WF. pose proof WF as [HI [HP [HD HE]]].
  set (ex := match parts_eo p with
             | Some (_, esg, X) => Some (sign_bytes esg, X)
             | None => None end).
  assert (T : lit (sg_of neg) (parts_I p) (parts_fo p) (parts_eo p) =
              (if neg then [45%N] else []) ++ parts_I p ++
              (match parts_fo p with Some f => 46%N :: f | None => [] end) ++
              (match ex with Some (sg, e) => 101%N :: sg ++ e | None => [] end)).
  { unfold lit, ex. f_equal; [destruct neg; reflexivity|]. f_equal. f_equal.
    unfold parts_eo. destruct (fp_exponent p =? 0); reflexivity. }
  rewrite T. apply jnum.
  - unfold parts_I. apply (write_uint_jint 8); [lia | change (10 ^ Z.of_nat 8) with 100000000; lia].
  - intros f Hf. unfold parts_fo in Hf.
    destruct (Z.eqb_spec (fp_places p) 0) as [E0|N0]; [discriminate|]. inversion Hf; subst f.
    destruct (decimals_rev_spec (Z.to_nat (fp_places p)) (fp_decimal p)) as [_ [F L]];
      [rewrite Z2Nat.id by lia; exact HD|].
    split; [|apply digits_all; exact F].
    intro Hnil. rewrite Hnil in L. cbn in L. lia.
  - intros sg e Hex. unfold ex, parts_eo in Hex.
    destruct (Z.eqb_spec (fp_exponent p) 0) as [E0|N0]; [discriminate|]. inversion Hex; subst sg e.
    destruct (write_uint_len 3 (Z.abs (fp_exponent p))) as [_ [F [NE _]]];
      [lia | change (10 ^ Z.of_nat 3) with 1000; lia|].
    split; [|split; [exact NE | apply digits_all; exact F]].
    destruct (fp_exponent p <? 0); cbn [sign_bytes]; auto.
  - left. reflexivity.
Qed.

Lemma parts_lit_length : forall p neg, parts_wf p ->
  (length (lit (sg_of neg) (parts_I p) (parts_fo p) (parts_eo p)) <= 24)%nat.
Proof.
  intros p neg WF. destruct (parts_wf_lit p WF) as [_ [_ [L1 [L2 L3]]]].
  unfold lit. rewrite !app_length. destruct neg; cbn [sg_of sign_bytes length]; lia.
Qed.

(* ========================================================================================== *)
(* Part C — writeFloat prints a literal of NumValue                                            *)
(* ========================================================================================== *)

Theorem write_float_lit : forall c x P, use_double c = true ->
  valid F64 x -> FloatModel.is_finite x = true ->
  (p10 (-300) <= Rabs (sfr x) <= p10 300)%R -> 6 <= P <= 9 ->
  exists neg p, parts_wf p /\
    write_float c x P = lit (sg_of neg) (parts_I p) (parts_fo p) (parts_eo p) /\
    sfr x = (sgnR neg * Rabs (sfr x))%R /\
    (Rabs (parts_value p - Rabs (sfr x)) <= p10 (- P) * Rmax 1 (Rabs (sfr x)))%R /\
    ((Rabs (parts_value p - Rabs (sfr x)) <= p10 (- P) * Rabs (sfr x))%R \/
     (9 / 1000000 < Rabs (sfr x))%R).
Proof.
  intros c x P Hc Vx Fx Hr HP.
  rewrite (write_float_body c x P Fx). unfold jfmt. rewrite Hc.
  assert (VZ : valid F64 f_zero) by (vm_compute; reflexivity).
  destruct (f_lt_R F64 x f_zero good_F64 Vx VZ Fx eq_refl) as [G1 G2].
  change (sfr f_zero) with 0%R in G1, G2.
  assert (Hp : (0 < Rabs (sfr x))%R) by (apply Rlt_le_trans with (2 := proj1 Hr); apply p10_pos).
  set (neg := f_lt x f_zero) in *.
  destruct (sgn_sf_props F64 neg x Vx Fx) as [S1 [S2 S3]]. unfold sgn_sf in S1, S2, S3.
  set (x' := if neg then fneg x else x) in *.
  assert (AX : sfr x' = Rabs (sfr x)).
  { rewrite S3. destruct neg; cbn [sgnR].
    - specialize (G1 eq_refl). rewrite Rabs_left by exact G1. ring.
    - specialize (G2 eq_refl). rewrite Rabs_pos_eq by exact G2. ring. }
  destruct (decompose_full_rel x' P S1 S2) as [WF [ACC REL]];
    [rewrite AX; exact Hp | rewrite AX; exact Hr | exact HP |].
  rewrite AX in ACC, REL.
  exists neg, (decompose_float F64 x' P). split; [exact WF|]. split.
  - rewrite (body_text_nlit _ WF). unfold lit. destruct neg; reflexivity.
  - split; [|split; [exact ACC | exact REL]].
    rewrite <- AX, S3. destruct neg; cbn [sgnR]; ring.
Qed.

(* ========================================================================================== *)
(* Part D — one floating-point leaf: print, then read back                                     *)
(* ========================================================================================== *)

(* what a printed floating-point value x may come back as, with the tolerances (relative to
   max(1,|x|)) for an integer, a binary32 and a binary64 result *)
Definition leaf_close (ti tf td : R) (x : spec_float) (w : jv) : Prop :=
  match w with
  | JInt z => (Rabs (IZR z - sfr x) <= ti * Rmax 1 (Rabs (sfr x)))%R
  | JFloat r => valid F32 r /\ FloatModel.is_finite r = true /\
                (Rabs (sfr r - sfr x) <= tf * Rmax 1 (Rabs (sfr x)))%R
  | JDouble r => valid F64 r /\ FloatModel.is_finite r = true /\
                 (Rabs (sfr r - sfr x) <= td * Rmax 1 (Rabs (sfr x)))%R
  | _ => False
  end.

Lemma fconv_valid : forall f r, good_fmt f -> valid f (fconv f r).
Proof.
  intros f r [H0 H1]. destruct r as [s|s| |s m e]; try reflexivity.
  cbn [fconv]. unfold valid. rewrite (bnorm_equiv (prec f) (emax f) H0 H1).
  apply valid_binary_B2SF.
Qed.

(* VariantData::setFloat(double): the value is unchanged *)
Lemma jv_of_double_value : forall r, valid F64 r -> FloatModel.is_finite r = true ->
  (exists g, jv_of_double true r = JFloat g /\ valid F32 g /\ FloatModel.is_finite g = true /\
             sfr g = sfr r) \/
  jv_of_double true r = JDouble r.
Proof.
  intros r Vr Fr. unfold jv_of_double. set (g := fconv F32 r).
  destruct (f_eq r (fconv F64 g)) eqn:E; [left|right; reflexivity].
  exists g. split; [reflexivity|].
  assert (Vg : valid F32 g) by (apply fconv_valid; exact good_F32).
  assert (Fg : FloatModel.is_finite g = true).
  { destruct g as [s|s| |s m e]; try reflexivity; exfalso.
    - cbn [fconv] in E. destruct r as [s'|s'| |s' m' e']; try discriminate Fr; destruct s, s'; discriminate E.
    - cbn [fconv] in E. destruct r as [s'|s'| |s' m' e']; try discriminate Fr; discriminate E. }
  split; [exact Vg|]. split; [exact Fg|].
  destruct (fconv64_of32 g Vg Fg) as [C1 [C2 C3]].
  unfold f_eq in E. rewrite (fcmp_correct F64 r (fconv F64 g) good_F64 Vr C2 Fr C3) in E.
  destruct (Rcompare_spec (sfr r) (sfr (fconv F64 g))) as [H|H|H]; try discriminate E.
  rewrite <- C1. symmetry. exact H.
Qed.

Lemma p10_m299 : (p10 (-299) = 10 * p10 (-300))%R.
Proof. replace (-299) with (1 + -300) by ring. rewrite PrintErr.p10_plus, p10_1. reflexivity. Qed.
Lemma p10_300 : (p10 300 = 10 * p10 299)%R.
Proof. replace 300 with (1 + 299) by ring. rewrite PrintErr.p10_plus, p10_1. reflexivity. Qed.

Theorem leaf_roundtrip_gen : forall c x P, use_double c = true ->
  valid F64 x -> FloatModel.is_finite x = true ->
  (p10 (-299) <= Rabs (sfr x) <= p10 299)%R -> 6 <= P <= 9 ->
  jnumber (write_float c x P) /\ (length (write_float c x P) <= 24)%nat /\
  exists v, jv_of_number c (parse_number c (write_float c x P)) = Some v /\
    leaf_close (p10 (- P)) (p10 (- P) + 6.1e-7) (1.1 * p10 (- P)) x v.
Proof.
  intros c x P UD Vx Fx [Hlo Hhi] HP.
  set (X := Rabs (sfr x)) in *.
  assert (L300 : (0 < p10 (-300))%R) by apply p10_pos.
  assert (H299 : (1 <= p10 299)%R) by (rewrite <- p10_0; apply p10_mono; lia).
  pose proof p10_m299 as E299. pose proof p10_300 as E300.
  assert (Q0 : (0 < p10 (- P))%R) by apply p10_pos.
  assert (Q9 : (1e-9 <= p10 (- P))%R) by (rewrite <- p10_m9; apply p10_mono; lia).
  assert (Q6 : (p10 (- P) <= 1e-6)%R) by (rewrite <- p10_m6; apply p10_mono; lia).
  assert (Xpos : (0 < X)%R) by lra.
  destruct (write_float_lit c x P UD Vx Fx) as [neg [p [WF [T [SX [ACC REL]]]]]];
    [fold X; lra | exact HP|].
  fold X in SX, ACC, REL.
  rewrite T.
  split; [apply parts_jnumber; exact WF|].
  split; [apply parts_lit_length; exact WF|].
  destruct (parts_wf_lit p WF) as [WL [VAL _]].
  set (I := parts_I p) in *. set (fo := parts_fo p) in *. set (eo := parts_eo p) in *.
  set (V := parts_value p) in *.
  set (M := Rmax 1 X) in *.
  pose proof (Rmax_l 1 X) as M1. pose proof (Rmax_r 1 X) as MX. fold M in M1, MX.
  assert (MU : (M <= p10 299)%R) by (unfold M; apply Rmax_lub; lra).
  apply Rabs_le_inv in ACC.
  (* the window *)
  assert (Vhi : (V <= (1 + 1e-6) * M)%R) by nra.
  assert (Vlo : (p10 (-300) <= V)%R).
  { destruct REL as [REL|BIG].
    - apply Rabs_le_inv in REL. nra.
    - assert (p10 (-300) <= 1e-6)%R by (rewrite <- p10_m6; apply p10_mono; lia).
      destruct (Rle_lt_dec 1 X) as [G1|L1].
      + assert (M = X) by (unfold M; apply Rmax_right; exact G1). nra.
      + assert (M = 1%R) by (unfold M; apply Rmax_left; lra). nra. }
  assert (HV : (p10 (-300) <= lit_abs I (frac_digits fo) (lit_exp eo) <= p10 300)%R).
  { rewrite VAL. split; [exact Vlo|]. nra. }
  assert (Hlen : (length (lit (sg_of neg) I fo eo) <= 9000)%nat).
  { unfold I, fo, eo. pose proof (parts_lit_length p neg WF) as HH.
    apply Nat.le_trans with (1 := HH). apply Nat.leb_le. vm_compute. reflexivity. }
  assert (LV : NumValue.lit_value (sign_neg (sg_of neg)) I (frac_digits fo) (lit_exp eo)
               = (sgnR neg * V)%R).
  { rewrite lit_value_abs, VAL, sign_neg_sg_of. reflexivity. }
  assert (ERR : (Rabs (sgnR neg * V - sfr x) <= p10 (- P) * M)%R).
  { rewrite SX. apply sgn_err. apply Rabs_le. exact ACC. }
  (* e * V against M *)
  assert (EV : forall e r, (0 <= e <= 1e-6)%R ->
             (Rabs (sfr r - sgnR neg * V) <= e * V)%R ->
             (Rabs (sfr r - sfr x) <= (p10 (- P) + e * (1 + 1e-6)) * M)%R).
  { intros e r He Hr.
    replace (sfr r - sfr x)%R with ((sfr r - sgnR neg * V) + (sgnR neg * V - sfr x))%R by ring.
    apply Rle_trans with (1 := Rabs_triang _ _).
    assert (e * V <= e * ((1 + 1e-6) * M))%R by (apply Rmult_le_compat_l; lra). lra. }
  destruct (scan_shape c (sg_of neg) I fo eo WL) as [[Hi _]|[Hni _]].
  - destruct (literal_integer_exact c (sg_of neg) I fo eo WL Hi) as [z [Pz Vz]].
    exists (JInt z). split.
    + rewrite Pz. destruct (sign_neg (sg_of neg)); reflexivity.
    + cbn [leaf_close]. fold X. fold M. rewrite Vz, LV. exact ERR.
  - destruct (literal_accuracy_double_cfg_tight c (sg_of neg) I fo eo UD WL Hni Hlen HV)
      as [[r [R1 [R2 [R3 [R4 _]]]]]|[r [R1 [R2 [R3 R4]]]]];
      rewrite LV, VAL in R4; fold V in R4.
    + exists (JFloat r). split; [rewrite R1; reflexivity|].
      cbn [leaf_close]. fold X. fold M. split; [exact R2|]. split; [exact R3|].
      eapply Rle_trans; [apply (EV 6e-7%R r); [lra | exact R4]|].
      apply Rmult_le_compat_r; lra.
    + assert (B : (Rabs (sfr r - sfr x) <= (p10 (- P) + 4.3e-15 * (1 + 1e-6)) * M)%R)
        by (apply EV; [lra | exact R4]).
      rewrite R1. cbn [jv_of_number]. rewrite UD.
      destruct (jv_of_double_value r R2 R3) as [[g [G1 [G2 [G3 G4]]]]| G1]; rewrite G1.
      * exists (JFloat g). split; [reflexivity|]. cbn [leaf_close]. fold X. fold M.
        split; [exact G2|]. split; [exact G3|]. rewrite G4.
        eapply Rle_trans; [exact B|]. apply Rmult_le_compat_r; lra.
      * exists (JDouble r). split; [reflexivity|]. cbn [leaf_close]. fold X. fold M.
        split; [exact R2|]. split; [exact R3|].
        eapply Rle_trans; [exact B|]. apply Rmult_le_compat_r; lra.
Qed.

Lemma leaf_close_ext : forall ti tf td x y w, sfr x = sfr y ->
  leaf_close ti tf td x w -> leaf_close ti tf td y w.
Proof.
  intros ti tf td x y w E H. destruct w; cbn [leaf_close] in *; try contradiction; rewrite <- E; exact H.
Qed.

Lemma leaf_close_mono : forall ti tf td ti' tf' td' x w,
  (ti <= ti')%R -> (tf <= tf')%R -> (td <= td')%R ->
  leaf_close ti tf td x w -> leaf_close ti' tf' td' x w.
Proof.
  intros ti tf td ti' tf' td' x w Hi Hf Hd H.
  pose proof (Rmax_l 1 (Rabs (sfr x))) as M1.
  destruct w; cbn [leaf_close] in *; try exact H.
  - eapply Rle_trans; [exact H|]. apply Rmult_le_compat_r; lra.
  - destruct H as [A [B C]]. split; [exact A|]. split; [exact B|].
    eapply Rle_trans; [exact C|]. apply Rmult_le_compat_r; lra.
  - destruct H as [A [B C]]. split; [exact A|]. split; [exact B|].
    eapply Rle_trans; [exact C|]. apply Rmult_le_compat_r; lra.
Qed.

(* a binary64 value printed by writeFloat(double) (9 decimal places) and read back *)
Definition close64 (x : spec_float) (w : jv) : Prop := leaf_close 1e-9 6.11e-7 1.1e-9 x w.
(* a binary32 value printed by writeFloat(float) (6 decimal places) and read back *)
Definition close32 (x : spec_float) (w : jv) : Prop := leaf_close 1e-6 1.61e-6 1.1e-6 x w.

Theorem double_roundtrip_close : forall c x, use_double c = true ->
  valid F64 x -> FloatModel.is_finite x = true ->
  (p10 (-299) <= Rabs (sfr x) <= p10 299)%R ->
  jnumber (write_f64 c x) /\ (length (write_f64 c x) <= 24)%nat /\
  exists v, jv_of_number c (parse_number c (write_f64 c x)) = Some v /\ close64 x v.
Proof.
  intros c x UD Vx Fx Hr. unfold write_f64, jfmt. rewrite UD.
  destruct (fconv64_id x Vx Fx) as [C1 [C2 C3]]. rewrite <- C1 in Hr.
  destruct (leaf_roundtrip_gen c (fconv F64 x) 9 UD C2 C3 Hr ltac:(lia)) as [J [L [v [E H]]]].
  split; [exact J|]. split; [exact L|]. exists v. split; [exact E|].
  apply (leaf_close_ext _ _ _ (fconv F64 x) x v C1).
  assert (E9 : p10 (Z.opp 9) = 1e-9%R) by exact p10_m9. rewrite E9 in H.
  revert H. apply leaf_close_mono; lra.
Qed.

Theorem float_roundtrip_close : forall c x, use_double c = true ->
  valid F32 x -> FloatModel.is_finite x = true ->
  (p10 (-299) <= Rabs (sfr x) <= p10 299)%R ->
  jnumber (write_f32 c x) /\ (length (write_f32 c x) <= 24)%nat /\
  exists v, jv_of_number c (parse_number c (write_f32 c x)) = Some v /\ close32 x v.
Proof.
  intros c x UD Vx Fx Hr. unfold write_f32, jfmt. rewrite UD.
  destruct (fconv64_of32 x Vx Fx) as [C1 [C2 C3]]. rewrite <- C1 in Hr.
  destruct (leaf_roundtrip_gen c (fconv F64 x) 6 UD C2 C3 Hr ltac:(lia)) as [J [L [v [E H]]]].
  split; [exact J|]. split; [exact L|]. exists v. split; [exact E|].
  apply (leaf_close_ext _ _ _ (fconv F64 x) x v C1).
  assert (E6 : p10 (Z.opp 6) = 1e-6%R) by exact p10_m6. rewrite E6 in H.
  revert H. apply leaf_close_mono; lra.
Qed.

(* every finite non-zero binary32 value is in the window *)
Lemma f32_in_window : forall x, valid F32 x -> FloatModel.is_finite x = true ->
  (sfr x <> 0)%R -> (p10 (-299) <= Rabs (sfr x) <= p10 299)%R.
Proof.
  intros x Vx Fx NZ. split.
  - destruct x as [s|s| |s m e]; try discriminate Fx; [cbn in NZ; lra|].
    pose proof (valid_emin F32 s m e Vx) as EM. change (femin F32) with (-149) in EM.
    cbn [SF2R]. rewrite <- F2R_Zabs. cbn [Fnum]. rewrite abs_cond_Zopp. cbn [Z.abs].
    unfold F2R. cbn [Fnum Fexp].
    assert (1 <= IZR (Z.pos m))%R by (apply IZR_le; lia).
    assert (B : (bpow radix2 (-149) <= bpow radix2 e)%R) by (apply bpow_le; exact EM).
    assert (P : (p10 (-299) <= bpow radix2 (-149))%R).
    { change (p10 (-299)) with (p10 (Z.opp 299)).
      change (bpow radix2 (-149)) with (bpow radix2 (Z.opp 149)).
      rewrite bpow_opp, p10_opp. apply Rinv_le_contravar; [apply bpow_gt_0|].
      rewrite <- (IZR_Zpower radix2) by lia. rewrite <- PrintErr.IZR_pow10 by lia.
      apply IZR_le. vm_compute. discriminate. }
    pose proof (bpow_gt_0 radix2 e). nra.
  - apply Rle_trans with (bpow radix2 128).
    + left. exact (valid_lt_max F32 x good_F32 Vx).
    + rewrite <- (IZR_Zpower radix2) by lia. rewrite <- PrintErr.IZR_pow10 by lia.
      apply IZR_le. vm_compute. discriminate.
Qed.

(* --- zeros: both print as "0" and come back as the integer 0 --- *)
Theorem zero_roundtrip : forall c s, use_double c = true ->
  write_f64 c (S754_zero s) = [48%N] /\ write_f32 c (S754_zero s) = [48%N] /\
  jv_of_number c (parse_number c [48%N]) = Some (JInt 0) /\ jnumber [48%N].
Proof.
  intros [du ec en ei ud] s UD. cbn [use_double] in UD. subst ud.
  split; [destruct s, en, ei; vm_compute; reflexivity|].
  split; [destruct s, en, ei; vm_compute; reflexivity|].
  split; [change [48%N] with (write_int 0); rewrite parse_write_int by (change (2 ^ 63) with 9223372036854775808; change (2 ^ 64) with 18446744073709551616; lia); reflexivity|].
  exact (jnum false [48%N] None None eq_refl ltac:(discriminate) ltac:(discriminate) 101%N (or_introl eq_refl)).
Qed.

Lemma close64_zero : forall s, close64 (S754_zero s) (JInt 0).
Proof.
  intros s. unfold close64. cbn [leaf_close SF2R]. rewrite Rminus_0_r, Rabs_R0.
  pose proof (Rmax_l 1 0). lra.
Qed.
Lemma close32_zero : forall s, close32 (S754_zero s) (JInt 0).
Proof.
  intros s. unfold close32. cbn [leaf_close SF2R]. rewrite Rminus_0_r, Rabs_R0.
  pose proof (Rmax_l 1 0). lra.
Qed.

(* --- the tolerance 1.1e-9 requested for every result is false: the double nearest to 0.1 is
       printed "0.1", which parse_number returns as the binary32 nearest to 0.1 --- *)
Example double_roundtrip_1e9_false :
  let x := sf_of_bits F64 0x3FB999999999999A in
  let r := S754_finite false 13421773 (-27) in
  write_f64 default_cfg x = [48; 46; 49]%N /\
  jv_of_number default_cfg (parse_number default_cfg (write_f64 default_cfg x)) = Some (JFloat r) /\
  (1.4e-9 * Rmax 1 (Rabs (sfr x)) < Rabs (sfr r - sfr x))%R.
Proof.
  cbv zeta. split; [vm_compute; reflexivity|]. split; [vm_compute; reflexivity|].
  assert (E : sf_of_bits F64 0x3FB999999999999A = S754_finite false 7205759403792794 (-56))
    by (vm_compute; reflexivity).
  rewrite E.
  pose proof (num_den_spec 7205759403792794 (-56)) as S1.
  destruct (num_den 7205759403792794 (-56)) as [N1 D1] eqn:ND1. destruct S1 as [_ S1].
  assert (N1 = 7205759403792794 /\ D1 = 72057594037927936) as [-> ->]
    by (vm_compute in ND1; inversion ND1; split; reflexivity).
  pose proof (num_den_spec 13421773 (-27)) as S2.
  destruct (num_den 13421773 (-27)) as [N2 D2] eqn:ND2. destruct S2 as [_ S2].
  assert (N2 = 13421773 /\ D2 = 134217728) as [-> ->]
    by (vm_compute in ND2; inversion ND2; split; reflexivity).
  rewrite S1, S2.
  rewrite (Rabs_pos_eq (7205759403792794 / 72057594037927936)) by lra.
  rewrite Rmax_left by lra. rewrite Rabs_pos_eq by lra. lra.
Qed.

(* ========================================================================================== *)
(* Part E — documents                                                                          *)
(* ========================================================================================== *)
Local Open Scope N_scope.

(* same shape, same keys / strings / integers / booleans; a floating-point leaf may come back as
   an integer, a binary32 or a binary64 value close to it *)
Inductive close : jv -> jv -> Prop :=
| cl_null : close JNull JNull
| cl_bool : forall b, close (JBool b) (JBool b)
| cl_int : forall z, close (JInt z) (JInt z)
| cl_str : forall s, close (JStr s) (JStr s)
| cl_float : forall x w, close32 x w -> close (JFloat x) w
| cl_double : forall x w, close64 x w -> close (JDouble x) w
| cl_arr : forall l m, Forall2 close l m -> close (JArr l) (JArr m)
| cl_obj : forall l m,
    Forall2 (fun a b => fst b = fst a /\ close (snd a) (snd b)) l m -> close (JObj l) (JObj m).

(* documents whose floating-point leaves are finite, doubles being zero or within
   [1e-299, 1e299]; no raw values, integers in range, object keys pairwise distinct *)
Fixpoint ser_ok_floats (v : jv) : Prop :=
  match v with
  | JNull | JBool _ => True
  | JInt z => (- 2 ^ 63 <= z < 2 ^ 64)%Z
  | JStr s => bytes_ok s
  | JFloat x => valid F32 x /\ FloatModel.is_finite x = true
  | JDouble x => valid F64 x /\ FloatModel.is_finite x = true /\
                 (sfr x = 0%R \/ (p10 (-299) <= Rabs (sfr x) <= p10 299)%R)
  | JRaw _ => False
  | JArr l => fold_right (fun x P => ser_ok_floats x /\ P) True l
  | JObj l => NoDup (map fst l) /\
              fold_right (fun kv P => (bytes_ok (fst kv) /\ ser_ok_floats (snd kv)) /\ P) True l
  end.

Lemma okf_arr : forall l, ser_ok_floats (JArr l) <-> Forall ser_ok_floats l.
Proof. intro l. cbn [ser_ok_floats]. apply fold_and_Forall. Qed.

Lemma okf_obj : forall l, ser_ok_floats (JObj l) <->
  NoDup (map fst l) /\ Forall (fun kv => bytes_ok (fst kv) /\ ser_ok_floats (snd kv)) l.
Proof.
  intro l. cbn [ser_ok_floats].
  rewrite (fold_and_Forall _ (fun kv => bytes_ok (fst kv) /\ ser_ok_floats (snd kv))). tauto.
Qed.

Lemma nofloat_okf : forall v, nofloat v -> ser_ok_floats v.
Proof.
  fix IH 1. intros v. destruct v as [|b|z|f|f|s|r|l|l]; cbn [nofloat ser_ok_floats]; auto; try contradiction.
  - induction l as [|x l IHl]; cbn [fold_right]; [auto|]. intros [A B]. split; [apply IH; exact A | apply IHl; exact B].
  - intros [ND H]. split; [exact ND|]. clear ND.
    induction l as [|x l IHl]; cbn [fold_right] in *; [auto|]. destruct H as [[A1 A2] B].
    split; [split; [exact A1 | apply IH; exact A2] | apply IHl; exact B].
Qed.

(* ---- a floating-point leaf ---- *)
Lemma finite_zero_form : forall x, FloatModel.is_finite x = true -> sfr x = 0%R ->
  exists s, x = S754_zero s.
Proof.
  intros [s|s| |s m e] F Z; try discriminate F; [eauto|]. exfalso.
  cbn [SF2R] in Z. apply eq_0_F2R in Z. destruct s; discriminate Z.
Qed.

Lemma case_number_text : forall cf d t w, jnumber t -> (length t <= 63)%nat ->
  jv_of_number cf (parse_number cf t) = Some w -> PvH cf d t w.
Proof.
  intros cf d t w J L E. split.
  - apply case_num; [exact J | split; assumption].
  - destruct (jnumber_chars cf t J) as [_ (c & r & Et & NS)].
    exists c, r. split; [exact Et | unfold vstart; tauto].
Qed.

Lemma case_double : forall cf, use_double cf = true -> forall d x, ser_ok_floats (JDouble x) ->
  exists w, close64 x w /\ PvH cf d (write_f64 cf x) w.
Proof.
  intros cf UD d x [Vx [Fx [Z|W]]].
  - destruct (finite_zero_form x Fx Z) as [s ->].
    destruct (zero_roundtrip cf s UD) as [T [_ [P J]]].
    exists (JInt 0). split; [apply close64_zero|]. rewrite T.
    apply case_number_text; [exact J | cbn; lia | exact P].
  - destruct (double_roundtrip_close cf x UD Vx Fx W) as [J [L [w [P C]]]].
    exists w. split; [exact C|]. apply case_number_text; [exact J | lia | exact P].
Qed.

Lemma case_float32 : forall cf, use_double cf = true -> forall d x, ser_ok_floats (JFloat x) ->
  exists w, close32 x w /\ PvH cf d (write_f32 cf x) w.
Proof.
  intros cf UD d x [Vx Fx].
  destruct (Req_dec (sfr x) 0) as [Z|NZ].
  - destruct (finite_zero_form x Fx Z) as [s ->].
    destruct (zero_roundtrip cf s UD) as [_ [T [P J]]].
    exists (JInt 0). split; [apply close32_zero|]. rewrite T.
    apply case_number_text; [exact J | cbn; lia | exact P].
  - pose proof (f32_in_window x Vx Fx NZ) as W.
    destruct (float_roundtrip_close cf x UD Vx Fx W) as [J [L [w [P C]]]].
    exists w. split; [exact C|]. apply case_number_text; [exact J | lia | exact P].
Qed.

Lemma ser_scalar_close : forall cf, decode_unicode cf = true -> use_double cf = true -> forall d v,
  match v with JArr _ | JObj _ => False | _ => True end -> ser_ok_floats v ->
  exists w, close v w /\ PvH cf d (ser cf v) w.
Proof.
  intros cf DU UD d v SC OK. destruct v as [|b|z|f|f|s|r|l|l]; try contradiction.
  - exists JNull. split; [constructor | apply ser_scalar_cases; auto].
  - exists (JBool b). split; [constructor | apply ser_scalar_cases; auto].
  - exists (JInt z). split; [constructor | apply ser_scalar_cases; auto].
  - destruct (case_float32 cf UD d f OK) as [w [C P]]. exists w. split; [constructor; exact C | exact P].
  - destruct (case_double cf UD d f OK) as [w [C P]]. exists w. split; [constructor; exact C | exact P].
  - exists (JStr s). split; [constructor | apply ser_scalar_cases; auto].
Qed.

(* ---- containers whose members come back as other values ---- *)
Lemma Forall_exists_Forall2 : forall (A B : Type) (R : A -> B -> Prop) l,
  Forall (fun a => exists b, R a b) l -> exists m, Forall2 R l m.
Proof.
  intros A B R l. induction l as [|a l IH]; intro H.
  - exists []. constructor.
  - inversion H as [|? ? [b Hb] H']; subst. destruct (IH H') as [m Hm].
    exists (b :: m). constructor; assumption.
Qed.

Lemma Forall2_imp : forall (A B : Type) (R1 R2 : A -> B -> Prop),
  (forall a b, R1 a b -> R2 a b) -> forall l m, Forall2 R1 l m -> Forall2 R2 l m.
Proof. intros A B R1 R2 H l m F. induction F; constructor; auto. Qed.

Lemma Forall2_left : forall (A B : Type) (P : A -> Prop) (R : A -> B -> Prop) l m,
  (forall a b, R a b -> P a) -> Forall2 R l m -> Forall P l.
Proof. intros A B P R l m H F. induction F; constructor; eauto. Qed.

Lemma Pe_join2 : forall cf d (txt : jv -> bytes) w0 wi wz, ws w0 -> ws wi -> ws wz ->
  forall l m, l <> [] -> Forall2 (fun v w => Pv cf d (txt v) w) l m ->
  Pe cf d (w0 ++ join ([44] ++ w0) (map (fun v => wi ++ txt v) l) ++ wz) m.
Proof.
  intros cf d txt w0 wi wz W0 Wi Wz l. induction l as [|v l IH]; intros m NE FA; [congruence|].
  inversion FA as [|? w ? m' Hv FA']; subst.
  destruct l as [|v' l].
  - inversion FA'; subst. cbn [map join].
    replace (w0 ++ (wi ++ txt v) ++ wz) with ((w0 ++ wi) ++ txt v ++ wz)
      by (rewrite <- !app_assoc; reflexivity).
    apply case_e_one; auto. apply ws_app; assumption.
  - cbn [map]. rewrite join_cons2.
    change ((wi ++ txt v') :: map (fun v => wi ++ txt v) l) with (map (fun v => wi ++ txt v) (v' :: l)).
    set (J := join ([44] ++ w0) (map (fun v => wi ++ txt v) (v' :: l))) in *.
    replace (w0 ++ ((wi ++ txt v) ++ ([44] ++ w0) ++ J) ++ wz)
      with ((w0 ++ wi) ++ txt v ++ [] ++ [44] ++ (w0 ++ J ++ wz))
      by (rewrite <- !app_assoc; reflexivity).
    apply case_e_cons; auto.
    + apply ws_app; assumption.
    + constructor.
    + apply IH; [discriminate|exact FA'].
Qed.

Lemma PvH_arr2 : forall cf d (txt : jv -> bytes) w0 wi wz, ws w0 -> ws wi -> ws wz ->
  forall l m, l <> [] -> Forall2 (fun v w => PvH cf d (txt v) w) l m ->
  PvH cf (S d) ([91] ++ (w0 ++ join ([44] ++ w0) (map (fun v => wi ++ txt v) l) ++ wz) ++ [93]) (JArr m).
Proof.
  intros cf d txt w0 wi wz W0 Wi Wz l m NE FA.
  split; [|eexists _, _; split; [reflexivity|unfold vstart; tauto]].
  assert (FA1 : Forall2 (fun v w => Pv cf d (txt v) w) l m).
  { revert FA. apply Forall2_imp. intros v w [H _]. exact H. }
  assert (FA2 : Forall (fun v => exists c r, txt v = c :: r /\ vstart c) l).
  { apply (Forall2_left _ _ _ _ l m) with (2 := FA). intros v w [_ H]. exact H. }
  destruct (arr_text_head txt w0 wi wz ([44] ++ w0) l NE FA2) as (c & r & E & V).
  apply (case_arr_head cf d _ m (w0 ++ wi) c r); auto.
  - apply ws_app; assumption.
  - apply Pe_join2; assumption.
Qed.

Lemma Pm_join2 : forall cf, decode_unicode cf = true ->
  forall d (txt : jv -> bytes) w0 wi w3 wz, ws w0 -> ws wi -> ws w3 -> ws wz ->
  forall l m, l <> [] ->
    Forall2 (fun kv kw => fst kw = fst kv /\ bytes_ok (fst kv) /\ Pv cf d (txt (snd kv)) (snd kw)) l m ->
    Pm cf d (w0 ++ join ([44] ++ w0)
                     (map (fun kv => wi ++ write_string (fst kv) ++ [58] ++ w3 ++ txt (snd kv)) l) ++ wz) m.
Proof.
  intros cf DU d txt w0 wi w3 wz W0 Wi W3 Wz l. induction l as [|kv l IH]; intros m NE FA; [congruence|].
  inversion FA as [|? kw ? m' [Ek [Bk Hv]] FA']; subst.
  destruct kv as [k v]. destruct kw as [k' w]. cbn [fst snd] in Ek, Bk, Hv. subst k'.
  destruct l as [|kv' l].
  - inversion FA'; subst. cbn [map join fst snd].
    replace (w0 ++ (wi ++ write_string k ++ [58] ++ w3 ++ txt v) ++ wz)
      with ((w0 ++ wi) ++ write_string k ++ [] ++ [58] ++ w3 ++ txt v ++ wz)
      by (rewrite <- !app_assoc; reflexivity).
    apply case_m_one_written; auto; try constructor. apply ws_app; assumption.
  - cbn [map]. rewrite join_cons2. cbn [fst snd].
    change ((wi ++ write_string (fst kv') ++ [58] ++ w3 ++ txt (snd kv')) ::
            map (fun kv => wi ++ write_string (fst kv) ++ [58] ++ w3 ++ txt (snd kv)) l)
      with (map (fun kv => wi ++ write_string (fst kv) ++ [58] ++ w3 ++ txt (snd kv)) (kv' :: l)).
    set (J := join ([44] ++ w0)
                (map (fun kv => wi ++ write_string (fst kv) ++ [58] ++ w3 ++ txt (snd kv)) (kv' :: l))) in *.
    replace (w0 ++ ((wi ++ write_string k ++ [58] ++ w3 ++ txt v) ++ ([44] ++ w0) ++ J) ++ wz)
      with ((w0 ++ wi) ++ write_string k ++ [] ++ [58] ++ w3 ++ txt v ++ [] ++ [44] ++ (w0 ++ J ++ wz))
      by (rewrite <- !app_assoc; reflexivity).
    apply case_m_cons_written; auto; try constructor.
    + apply ws_app; assumption.
    + apply IH; [discriminate|exact FA'].
Qed.

Lemma Forall2_keys : forall (P : jv -> jv -> Prop) (l m : list (bytes * jv)),
  Forall2 (fun kv kw => fst kw = fst kv /\ P (snd kv) (snd kw)) l m -> map fst m = map fst l.
Proof.
  intros P l m F. induction F as [|a b l m [E _] _ IH]; [reflexivity|].
  cbn [map]. rewrite E, IH. reflexivity.
Qed.

Lemma PvH_obj2 : forall cf, decode_unicode cf = true ->
  forall d (txt : jv -> bytes) w0 wi w3 wz, ws w0 -> ws wi -> ws w3 -> ws wz ->
  forall l m, l <> [] -> NoDup (map fst l) ->
    Forall2 (fun kv kw => fst kw = fst kv /\ bytes_ok (fst kv) /\ PvH cf d (txt (snd kv)) (snd kw)) l m ->
    PvH cf (S d)
      ([123] ++ (w0 ++ join ([44] ++ w0)
                        (map (fun kv => wi ++ write_string (fst kv) ++ [58] ++ w3 ++ txt (snd kv)) l) ++ wz)
             ++ [125]) (JObj m).
Proof.
  intros cf DU d txt w0 wi w3 wz W0 Wi W3 Wz l m NE ND FA.
  split; [|eexists _, _; split; [reflexivity|unfold vstart; tauto]].
  assert (FA1 : Forall2 (fun kv kw => fst kw = fst kv /\ bytes_ok (fst kv) /\
                                      Pv cf d (txt (snd kv)) (snd kw)) l m).
  { revert FA. apply Forall2_imp. intros kv kw [E [B [H _]]]. auto. }
  assert (KE : map fst m = map fst l).
  { apply (Forall2_keys (fun _ _ => True)). revert FA. apply Forall2_imp. intros kv kw [E _]. auto. }
  destruct (obj_text_head (fun kv => [58] ++ w3 ++ txt (snd kv)) w0 wi wz ([44] ++ w0) l NE) as (r & E).
  replace (JObj m) with (JObj (obj_den m []))
    by (rewrite obj_den_nodup; [reflexivity|cbn [map app]; rewrite KE; exact ND]).
  apply (case_obj_head cf d _ m (w0 ++ wi) r); auto.
  - apply ws_app; assumption.
  - apply Pm_join2; assumption.
Qed.

(* ---- the compact serializer ---- *)
Lemma ser_PvH_close : forall cf, decode_unicode cf = true -> use_double cf = true ->
  forall d v, (nesting v <= d)%nat -> ser_ok_floats v ->
  exists w, close v w /\ PvH cf d (ser cf v) w.
Proof.
  intros cf DU UD. induction d as [|d IH]; intros v HN OK.
  - destruct v; try (apply ser_scalar_close; auto; exact I); cbn [nesting] in HN; lia.
  - destruct v as [|b|z|f|f|s|r|l|l]; try (apply ser_scalar_close; auto; exact I).
    + (* array *)
      destruct l as [|x l'].
      * exists (JArr []). split; [constructor; constructor|].
        split; [exact (case_arr_empty cf d [] ws_nil)|].
        eexists _, _. split; [reflexivity|unfold vstart; tauto].
      * apply okf_arr in OK. pose proof (nesting_arr_inv _ _ HN) as HL.
        assert (FA : Forall (fun v => exists w, close v w /\ PvH cf d (ser cf v) w) (x :: l')).
        { apply (Forall_and2 _ _ _ _ _ (fun v A B => IH v A B) HL OK). }
        destruct (Forall_exists_Forall2 _ _ _ _ FA) as [m FM].
        exists (JArr m). split.
        { constructor. revert FM. apply Forall2_imp. intros a b [H _]. exact H. }
        assert (FP : Forall2 (fun v w => PvH cf d (ser cf v) w) (x :: l') m).
        { revert FM. apply Forall2_imp. intros a b [_ H]. exact H. }
        pose proof (PvH_arr2 cf d (ser cf) [] [] [] ws_nil ws_nil ws_nil (x :: l') m ltac:(discriminate) FP) as H.
        assert (E : [91] ++ ([] ++ join ([44] ++ []) (map (fun v => [] ++ ser cf v) (x :: l')) ++ []) ++ [93]
                    = ser cf (JArr (x :: l'))) by (rewrite app_nil_r; reflexivity).
        rewrite E in H. exact H.
    + (* object *)
      destruct l as [|x l'].
      * exists (JObj []). split; [constructor; constructor|].
        split; [exact (case_obj_empty cf d [] ws_nil)|].
        eexists _, _. split; [reflexivity|unfold vstart; tauto].
      * apply okf_obj in OK. destruct OK as [ND OK].
        pose proof (nesting_obj_inv _ _ HN) as HL.
        assert (FA : Forall (fun kv => exists kw, fst kw = fst kv /\ bytes_ok (fst kv) /\
                               close (snd kv) (snd kw) /\ PvH cf d (ser cf (snd kv)) (snd kw)) (x :: l')).
        { apply (Forall_and2 _ _ _ _ _ (fun kv A B =>
             match IH (snd kv) A (proj2 B) with
             | ex_intro _ w (conj C P) => ex_intro _ (fst kv, w) (conj eq_refl (conj (proj1 B) (conj C P)))
             end) HL OK). }
        destruct (Forall_exists_Forall2 _ _ _ _ FA) as [m FM].
        exists (JObj m). split.
        { constructor. revert FM. apply Forall2_imp. intros a b [E [_ [H _]]]. auto. }
        assert (FP : Forall2 (fun kv kw => fst kw = fst kv /\ bytes_ok (fst kv) /\
                                PvH cf d (ser cf (snd kv)) (snd kw)) (x :: l') m).
        { revert FM. apply Forall2_imp. intros a b [E [B [_ H]]]. auto. }
        pose proof (PvH_obj2 cf DU d (ser cf) [] [] [] [] ws_nil ws_nil ws_nil ws_nil (x :: l') m
                      ltac:(discriminate) ND FP) as H.
        assert (E : [123] ++ ([] ++ join ([44] ++ [])
                     (map (fun kv => [] ++ write_string (fst kv) ++ [58] ++ [] ++ ser cf (snd kv)) (x :: l')) ++ [])
                     ++ [125]
                    = ser cf (JObj (x :: l'))) by (rewrite app_nil_r; reflexivity).
        rewrite E in H. exact H.
Qed.

Theorem ser_parse_roundtrip_close : forall cf, decode_unicode cf = true -> use_double cf = true ->
  forall v, ser_ok_floats v -> forall L fuel s rest,
    (nesting v <= L)%nat -> good s -> stream s = ser cf v ++ rest -> delimiter cf rest ->
    (length (ser cf v ++ rest) < fuel)%nat ->
    exists w s', parse_variant cf fuel L None s = (Ok, w, s') /\ post s' rest /\ close v w.
Proof.
  intros cf DU UD v OK L fuel s rest HN G S D LF.
  destruct (ser_PvH_close cf DU UD (nesting v) v (le_n _) OK) as [w [C [H _]]].
  destruct (H L fuel s [] rest ws_nil HN G S D LF) as (s' & E & P & _).
  exists w, s'. auto.
Qed.

Theorem json_roundtrip_close : forall cf, decode_unicode cf = true -> use_double cf = true ->
  forall v, ser_ok_floats v -> forall L, (nesting v <= L)%nat ->
  exists w, j_err (json_run cf None L (ser cf v)) = Ok /\
            j_doc (json_run cf None L (ser cf v)) = w /\ close v w.
Proof.
  intros cf DU UD v OK L HN.
  destruct (ser_PvH_close cf DU UD (nesting v) v (le_n _) OK) as [w [C [H _]]].
  destruct (json_run_of_Pv cf _ _ _ H L HN) as [E1 E2].
  exists w. auto.
Qed.

(* ---- the pretty printer: same statement (the extra bytes are whitespace) ---- *)
Lemma ser_pretty_PvH_close : forall cf, decode_unicode cf = true -> use_double cf = true ->
  forall d v nest, (nesting v <= d)%nat -> ser_ok_floats v ->
  exists w, close v w /\ PvH cf d (ser_pretty cf nest v) w.
Proof.
  intros cf DU UD. induction d as [|d IH]; intros v nest HN OK.
  - destruct v; try (rewrite ser_pretty_scalar by exact I; apply ser_scalar_close; auto; exact I);
      cbn [nesting] in HN; lia.
  - destruct v as [|b|z|f|f|s|r|l|l];
      try (rewrite ser_pretty_scalar by exact I; apply ser_scalar_close; auto; exact I).
    + (* array *)
      destruct l as [|x l'].
      * exists (JArr []). split; [constructor; constructor|].
        split; [exact (case_arr_empty cf d [] ws_nil)|].
        eexists _, _. split; [reflexivity|unfold vstart; tauto].
      * apply okf_arr in OK. pose proof (nesting_arr_inv _ _ HN) as HL.
        assert (FA : Forall (fun v => exists w, close v w /\ PvH cf d (ser_pretty cf (nest + 1) v) w) (x :: l')).
        { apply (Forall_and2 _ _ _ _ _ (fun v A B => IH v (nest + 1)%Z A B) HL OK). }
        destruct (Forall_exists_Forall2 _ _ _ _ FA) as [m FM].
        exists (JArr m). split.
        { constructor. revert FM. apply Forall2_imp. intros a b [H _]. exact H. }
        assert (FP : Forall2 (fun v w => PvH cf d (ser_pretty cf (nest + 1) v) w) (x :: l') m).
        { revert FM. apply Forall2_imp. intros a b [_ H]. exact H. }
        pose proof (PvH_arr2 cf d (ser_pretty cf (nest + 1)) crlf (indent (nest + 1)) (crlf ++ indent nest)
                      ws_crlf (ws_indent _) (ws_app _ _ ws_crlf (ws_indent _))
                      (x :: l') m ltac:(discriminate) FP) as H.
        assert (E : [91] ++ (crlf ++ join ([44] ++ crlf)
                       (map (fun v => indent (nest + 1) ++ ser_pretty cf (nest + 1) v) (x :: l'))
                       ++ crlf ++ indent nest) ++ [93]
                    = ser_pretty cf nest (JArr (x :: l'))).
        { change (ser_pretty cf nest (JArr (x :: l'))) with
            ([91] ++ crlf ++ join ([44] ++ crlf)
               (map (fun v => indent (nest + 1) ++ ser_pretty cf (nest + 1) v) (x :: l'))
               ++ crlf ++ indent nest ++ [93]).
          rewrite <- !app_assoc. reflexivity. }
        rewrite E in H. exact H.
    + (* object *)
      destruct l as [|x l'].
      * exists (JObj []). split; [constructor; constructor|].
        split; [exact (case_obj_empty cf d [] ws_nil)|].
        eexists _, _. split; [reflexivity|unfold vstart; tauto].
      * apply okf_obj in OK. destruct OK as [ND OK].
        pose proof (nesting_obj_inv _ _ HN) as HL.
        assert (FA : Forall (fun kv => exists kw, fst kw = fst kv /\ bytes_ok (fst kv) /\
                               close (snd kv) (snd kw) /\
                               PvH cf d (ser_pretty cf (nest + 1) (snd kv)) (snd kw)) (x :: l')).
        { apply (Forall_and2 _ _ _ _ _ (fun kv A B =>
             match IH (snd kv) (nest + 1)%Z A (proj2 B) with
             | ex_intro _ w (conj C P) => ex_intro _ (fst kv, w) (conj eq_refl (conj (proj1 B) (conj C P)))
             end) HL OK). }
        destruct (Forall_exists_Forall2 _ _ _ _ FA) as [m FM].
        exists (JObj m). split.
        { constructor. revert FM. apply Forall2_imp. intros a b [E [_ [H _]]]. auto. }
        assert (FP : Forall2 (fun kv kw => fst kw = fst kv /\ bytes_ok (fst kv) /\
                                PvH cf d (ser_pretty cf (nest + 1) (snd kv)) (snd kw)) (x :: l') m).
        { revert FM. apply Forall2_imp. intros a b [E [B [_ H]]]. auto. }
        pose proof (PvH_obj2 cf DU d (ser_pretty cf (nest + 1)) crlf (indent (nest + 1)) [32] (crlf ++ indent nest)
                      ws_crlf (ws_indent _) ltac:(repeat constructor) (ws_app _ _ ws_crlf (ws_indent _))
                      (x :: l') m ltac:(discriminate) ND FP) as H.
        assert (E : [123] ++ (crlf ++ join ([44] ++ crlf)
                       (map (fun kv => indent (nest + 1) ++ write_string (fst kv) ++ [58] ++ [32] ++
                                       ser_pretty cf (nest + 1) (snd kv)) (x :: l'))
                       ++ crlf ++ indent nest) ++ [125]
                    = ser_pretty cf nest (JObj (x :: l'))).
        { change (ser_pretty cf nest (JObj (x :: l'))) with
            ([123] ++ crlf ++ join ([44] ++ crlf)
               (map (fun kv => indent (nest + 1) ++ write_string (fst kv) ++ [58; 32] ++
                               ser_pretty cf (nest + 1) (snd kv)) (x :: l'))
               ++ crlf ++ indent nest ++ [125]).
          rewrite <- !app_assoc. reflexivity. }
        rewrite E in H. exact H.
Qed.

Theorem pretty_parse_roundtrip_close : forall cf, decode_unicode cf = true -> use_double cf = true ->
  forall v nest, ser_ok_floats v -> forall L fuel s rest,
    (nesting v <= L)%nat -> good s -> stream s = ser_pretty cf nest v ++ rest -> delimiter cf rest ->
    (length (ser_pretty cf nest v ++ rest) < fuel)%nat ->
    exists w s', parse_variant cf fuel L None s = (Ok, w, s') /\ post s' rest /\ close v w.
Proof.
  intros cf DU UD v nest OK L fuel s rest HN G S D LF.
  destruct (ser_pretty_PvH_close cf DU UD (nesting v) v nest (le_n _) OK) as [w [C [H _]]].
  destruct (H L fuel s [] rest ws_nil HN G S D LF) as (s' & E & P & _).
  exists w, s'. auto.
Qed.

Theorem json_pretty_roundtrip_close : forall cf, decode_unicode cf = true -> use_double cf = true ->
  forall v nest, ser_ok_floats v -> forall L, (nesting v <= L)%nat ->
  exists w, j_err (json_run cf None L (ser_pretty cf nest v)) = Ok /\
            j_doc (json_run cf None L (ser_pretty cf nest v)) = w /\ close v w.
Proof.
  intros cf DU UD v nest OK L HN.
  destruct (ser_pretty_PvH_close cf DU UD (nesting v) v nest (le_n _) OK) as [w [C [H _]]].
  destruct (json_run_of_Pv cf _ _ _ H L HN) as [E1 E2].
  exists w. auto.
Qed.

(* float-free documents: [close] is equality, so the theorems above contain JsonSerRT's *)
Lemma close_nofloat : forall v w, nofloat v -> close v w -> v = w.
Proof.
  fix IH 1. intros v w NF C. destruct v as [|b|z|f|f|s|r|l|l]; cbn [nofloat] in NF; try contradiction;
    inversion C as [| | | | | |l0 m F|l0 m F]; subst; try reflexivity.
  - f_equal. apply nofloat_arr in NF. clear C. revert m F.
    induction l as [|x l IHl]; intros m F; inversion F; subst; [reflexivity|].
    inversion NF; subst. f_equal; [apply IH; assumption | apply IHl; assumption].
  - f_equal. apply nofloat_obj in NF. destruct NF as [_ NF]. clear C. revert m F.
    induction l as [|x l IHl]; intros m F; inversion F as [|? y ? ? [E Cx] F']; subst; [reflexivity|].
    inversion NF as [|? ? [_ Nx] NF']; subst. f_equal; [|apply IHl; assumption].
    destruct x as [k v], y as [k' w']. cbn [fst snd] in *. subst k'. f_equal. apply IH; assumption.
Qed.

(* ---- the hypotheses are satisfiable: a sample document with floating-point leaves ---- *)
Definition d_0_1 : spec_float := S754_finite false 7205759403792794 (-56).     (* the double 0.1 *)
Definition f_1_5 : spec_float := S754_finite false 12582912 (-23).             (* the float 1.5 *)

Definition sample_doc_floats : jv :=
  JObj [([97], JArr [JDouble d_0_1; JFloat f_1_5; JDouble (S754_zero true); JInt (-5); JNull]);
        ([98], JStr [104; 105])].

Lemma d_0_1_window : (p10 (-299) <= Rabs (sfr d_0_1) <= p10 299)%R.
Proof.
  unfold d_0_1.
  pose proof (num_den_spec 7205759403792794 (-56)) as S1.
  destruct (num_den 7205759403792794 (-56)) as [N1 D1] eqn:ND1. destruct S1 as [_ S1].
  assert (N1 = 7205759403792794 /\ D1 = 72057594037927936)%Z as [-> ->]
    by (vm_compute in ND1; inversion ND1; split; reflexivity).
  rewrite S1. rewrite Rabs_pos_eq by lra.
  assert (p10 (-299) <= 1e-6)%R by (rewrite <- p10_m6; apply p10_mono; lia).
  assert (1 <= p10 299)%R by (rewrite <- p10_0; apply p10_mono; lia).
  lra.
Qed.

Lemma sample_doc_floats_ok : ser_ok_floats sample_doc_floats.
Proof.
  apply okf_obj. split.
  - repeat constructor; cbn [In]; intuition discriminate.
  - constructor; [|constructor; [|constructor]].
    + split; [split; [repeat constructor; cbn; lia|vm_compute; discriminate]|]. cbn [snd]. apply okf_arr.
      constructor; [|constructor; [|constructor; [|constructor; [|constructor; [|constructor]]]]].
      * split; [vm_compute; reflexivity|]. split; [reflexivity|]. right. exact d_0_1_window.
      * split; [vm_compute; reflexivity | reflexivity].
      * split; [vm_compute; reflexivity|]. split; [reflexivity|]. left. reflexivity.
      * cbn. lia.
      * exact Logic.I.
    + split; [split; [repeat constructor; cbn; lia|vm_compute; discriminate]|]. cbn [snd ser_ok_floats].
      split; [repeat constructor; lia|vm_compute; discriminate].
Qed.

Example sample_floats_roundtrip :
  exists w, j_err (json_run default_cfg None 2 (ser default_cfg sample_doc_floats)) = Ok /\
            j_doc (json_run default_cfg None 2 (ser default_cfg sample_doc_floats)) = w /\
            close sample_doc_floats w.
Proof. exact (json_roundtrip_close default_cfg eq_refl eq_refl _ sample_doc_floats_ok 2%nat (le_n _)). Qed.

(* what comes back: 0.1 as the binary32 0.1, 1.5 unchanged, -0.0 as the integer 0 *)
Example sample_floats_value :
  ser default_cfg sample_doc_floats =
    [123; 34; 97; 34; 58; 91; 48; 46; 49; 44; 49; 46; 53; 44; 48; 44; 45; 53; 44; 110; 117; 108; 108; 93;
     44; 34; 98; 34; 58; 34; 104; 105; 34; 125] /\
  j_doc (json_run default_cfg None 2 (ser default_cfg sample_doc_floats)) =
    JObj [([97], JArr [JFloat (S754_finite false 13421773 (-27)); JFloat f_1_5; JInt 0; JInt (-5); JNull]);
          ([98], JStr [104; 105])].
Proof. split; vm_compute; reflexivity. Qed.

(* a binary32 value needs no window: every finite non-zero one is in [1e-299, 1e299] *)
Corollary float_roundtrip_close_any : forall c x, use_double c = true ->
  valid F32 x -> FloatModel.is_finite x = true -> sfr x <> 0%R ->
  jnumber (write_f32 c x) /\ (length (write_f32 c x) <= 24)%nat /\
  exists v, jv_of_number c (parse_number c (write_f32 c x)) = Some v /\ close32 x v.
Proof.
  intros c x UD Vx Fx NZ. apply float_roundtrip_close; try assumption.
  apply f32_in_window; assumption.
Qed.
