(* NumProofs.v — number parsing (parse_number never faults, classification of extreme literals)
   and typed extraction (integer range tests, float -> integer cast only when defined). *)
From Coq Require Import ZArith NArith Bool List Lia.
From Coq Require Import Floats.SpecFloat.
From AJ Require Import Model.Base Model.FloatModel Model.Value Model.NumParse Model.Convert.
Local Open Scope Z_scope.

(* ------------------------------------------------------------------------------------------ *)
(* Part 1 — make_float never runs off its tables                                               *)
(* ------------------------------------------------------------------------------------------ *)

Lemma make_float_loop_some : forall f tbl fuel m e,
  0 <= e < 2 ^ Z.of_nat (length tbl) -> (length tbl <= fuel)%nat ->
  exists r, make_float_loop f tbl fuel m e = Some r.
Proof.
  intros f tbl. induction tbl as [|p tbl IH]; intros fuel m e He Hf.
  - cbn [length] in He. change (2 ^ Z.of_nat 0) with 1 in He.
    assert (e = 0) by lia. subst e. destruct fuel; cbn; eauto.
  - destruct fuel as [|fuel]; [cbn [length] in Hf; lia|].
    cbn [make_float_loop]. destruct (e =? 0) eqn:E0; [eauto|].
    apply IH.
    + rewrite Z.shiftr_div_pow2 by lia. change (2 ^ 1) with 2.
      cbn [length] in He. rewrite Nat2Z.inj_succ, Z.pow_succ_r in He by lia.
      split; [apply Z.div_pos; lia|]. apply Z.div_lt_upper_bound; lia.
    + cbn [length] in Hf. lia.
Qed.

Lemma pow10_table_length64 : forall b, length (pow10_table F64 b) = 9%nat.
Proof. destruct b; reflexivity. Qed.
Lemma pow10_table_length32 : forall b, length (pow10_table F32 b) = 6%nat.
Proof. destruct b; reflexivity. Qed.

Lemma make_float_some64 : forall m e, -511 <= e <= 511 -> exists r, make_float F64 m e = Some r.
Proof.
  intros m e He. unfold make_float. apply make_float_loop_some.
  - rewrite pow10_table_length64. change (2 ^ Z.of_nat 9) with 512.
    destruct (e <=? 0) eqn:E; [apply Z.leb_le in E | apply Z.leb_gt in E]; lia.
  - rewrite pow10_table_length64. lia.
Qed.

Lemma make_float_some32 : forall m e, -63 <= e <= 63 -> exists r, make_float F32 m e = Some r.
Proof.
  intros m e He. unfold make_float. apply make_float_loop_some.
  - rewrite pow10_table_length32. change (2 ^ Z.of_nat 6) with 64.
    destruct (e <=? 0) eqn:E; [apply Z.leb_le in E | apply Z.leb_gt in E]; lia.
  - rewrite pow10_table_length32. lia.
Qed.

(* The tail of parse_number (its local [go], once the literal has been read completely):
   sign, decimal mantissa, total decimal exponent. *)
Definition exp_max_of (c : cfg) : Z := if use_double c then 308 else 38.

Definition finish (c : cfg) (neg : bool) (mant expo : Z) : number :=
  if mant =? 0 then NumFloat (S754_zero neg)
  else if expo >? exp_max_of c then mk_jfloat c (S754_infinity neg)
  else if expo <? - exp_max_of c - 20 then NumFloat (S754_zero neg)
  else
    let sgn (r : spec_float) := if neg then fneg r else r in
    let as_double :=
      match make_float F64 (f_of_Z F64 mant) expo with
      | Some r => NumDouble (sgn r)
      | None => NumFault
      end in
    if use_double c then
      if (expo <? -38) || (expo >? 38) || (mant >? 2 ^ 23 - 1) then as_double
      else
        match make_float F32 (f_of_Z F32 mant) expo with
        | Some r => if is_inf r then as_double else NumFloat (sgn r)
        | None => NumFault
        end
    else
      match make_float F32 (f_of_Z F32 mant) expo with
      | Some r => NumFloat (sgn r)
      | None => NumFault
      end.

Definition go_tail (c : cfg) (neg : bool) (mant expoff expo : Z) (s : bytes) : number :=
  match s with
  | _ :: _ => NumInvalid
  | [] => finish c neg mant (expo + expoff)
  end.

Lemma finish_no_fault : forall c neg mant expo, finish c neg mant expo <> NumFault.
Proof.
  intros c neg mant expo. unfold finish, exp_max_of.
  destruct (mant =? 0); [discriminate|].
  destruct (use_double c) eqn:UD.
  - destruct (expo >? 308) eqn:E1; [unfold mk_jfloat; rewrite UD; discriminate|].
    destruct (expo <? - (308) - 20) eqn:E2; [discriminate|].
    rewrite Z.gtb_ltb in E1; apply Z.ltb_ge in E1. apply Z.ltb_ge in E2.
    destruct (make_float_some64 (f_of_Z F64 mant) expo) as [r Hr]; [lia|]. rewrite Hr.
    destruct ((expo <? -38) || (expo >? 38) || (mant >? 2 ^ 23 - 1)) eqn:E3; [discriminate|].
    apply orb_false_iff in E3. destruct E3 as [E3 _]. apply orb_false_iff in E3.
    destruct E3 as [E3 E4]. apply Z.ltb_ge in E3. rewrite Z.gtb_ltb in E4; apply Z.ltb_ge in E4.
    destruct (make_float_some32 (f_of_Z F32 mant) expo) as [r' Hr']; [lia|]. rewrite Hr'.
    destruct (is_inf r'); discriminate.
  - destruct (expo >? 38) eqn:E1; [unfold mk_jfloat; rewrite UD; discriminate|].
    destruct (expo <? - (38) - 20) eqn:E2; [discriminate|].
    rewrite Z.gtb_ltb in E1; apply Z.ltb_ge in E1. apply Z.ltb_ge in E2.
    destruct (make_float_some32 (f_of_Z F32 mant) expo) as [r' Hr']; [lia|]. rewrite Hr'.
    discriminate.
Qed.

Lemma go_tail_no_fault : forall c neg mant expoff expo s, go_tail c neg mant expoff expo s <> NumFault.
Proof.
  intros. unfold go_tail. destruct s; [apply finish_no_fault | discriminate].
Qed.

(* parse_number, with the tail named *)
Definition parse_number_alt (c : cfg) (s0 : bytes) : number :=
  let mant_max := if use_double c then 2 ^ 52 - 1 else 2 ^ 23 - 1 in
  let '(neg, s) := match s0 with
                   | 45%N :: t => (true, t)
                   | 43%N :: t => (false, t)
                   | _ => (false, s0)
                   end in
  if enable_nan c && ((hd0 s =? 110)%N || (hd0 s =? 78)%N) then mk_jfloat c S754_nan
  else if enable_inf c && ((hd0 s =? 105)%N || (hd0 s =? 73)%N)
  then mk_jfloat c (S754_infinity neg)
  else if negb (is_digit (hd0 s)) && negb (hd0 s =? 46)%N then NumInvalid
  else
    let '(mant, s) := scan_int s 0 in
    let as_int :=
      match s with
      | [] => if neg then (if mant <=? 2 ^ 63 then Some (NumSInt (- mant)) else None)
              else Some (NumUInt mant)
      | _ => None
      end in
    match as_int with
    | Some r => r
    | None =>
        let '(mant, expoff) := shrink_mantissa 30 mant_max mant 0 in
        let '(expoff, s) := skip_digits s expoff in
        let '(mant, expoff, s) :=
          match s with
          | 46%N :: t => scan_frac mant_max t mant expoff
          | _ => (mant, expoff, s)
          end in
        match s with
        | b :: t =>
            if (b =? 101)%N || (b =? 69)%N then
              let '(negexp, t) := match t with
                                  | 45%N :: t' => (true, t')
                                  | 43%N :: t' => (false, t')
                                  | _ => (false, t)
                                  end in
              let '(e, t) := scan_exp t 0 in
              go_tail c neg mant expoff (if negexp then - e else e) t
            else go_tail c neg mant expoff 0 s
        | [] => go_tail c neg mant expoff 0 s
        end
    end.

Lemma parse_number_alt_eq : forall c s, parse_number c s = parse_number_alt c s.
Proof. intros c s. reflexivity. Qed.

Lemma mk_jfloat_no_fault : forall c r, mk_jfloat c r <> NumFault.
Proof. intros c r. unfold mk_jfloat. destruct (use_double c); discriminate. Qed.

Theorem parse_number_no_fault : forall cf s, parse_number cf s <> NumFault.
Proof.
  intros cf s0. rewrite parse_number_alt_eq. unfold parse_number_alt.
  set (mant_max := if use_double cf then 2 ^ 52 - 1 else 2 ^ 23 - 1).
  set (pre := match s0 with
              | 45%N :: t => (true, t)
              | 43%N :: t => (false, t)
              | _ => (false, s0)
              end).
  destruct pre as [neg s]. clearbody mant_max.
  destruct (enable_nan cf && ((hd0 s =? 110)%N || (hd0 s =? 78)%N)); [apply mk_jfloat_no_fault|].
  destruct (enable_inf cf && ((hd0 s =? 105)%N || (hd0 s =? 73)%N)); [apply mk_jfloat_no_fault|].
  destruct (negb (is_digit (hd0 s)) && negb (hd0 s =? 46)%N); [discriminate|].
  destruct (scan_int s 0) as [mant s1].
  set (ai := match s1 with
             | [] => if neg then (if mant <=? 2 ^ 63 then Some (NumSInt (- mant)) else None)
                     else Some (NumUInt mant)
             | _ => None
             end).
  assert (Hai : forall r, ai = Some r -> r <> NumFault).
  { intros r. subst ai. destruct s1; [|discriminate].
    destruct neg; [destruct (mant <=? 2 ^ 63)|]; intros H; inversion H; discriminate. }
  destruct ai as [r|]; [apply Hai; reflexivity|]. clear Hai.
  destruct (shrink_mantissa 30 mant_max mant 0) as [mant2 expoff].
  destruct (skip_digits s1 expoff) as [expoff2 s2].
  set (fr := match s2 with
             | 46%N :: t => scan_frac mant_max t mant2 expoff2
             | _ => (mant2, expoff2, s2)
             end).
  destruct fr as [[mant3 expoff3] s3].
  destruct s3 as [|b t]; [apply go_tail_no_fault|].
  destruct ((b =? 101)%N || (b =? 69)%N); [|apply go_tail_no_fault].
  set (sg := match t with
             | 45%N :: t' => (true, t')
             | 43%N :: t' => (false, t')
             | _ => (false, t)
             end).
  destruct sg as [negexp t1].
  destruct (scan_exp t1 0) as [e t2]. apply go_tail_no_fault.
Qed.

(* ------------------------------------------------------------------------------------------ *)
(* Part 3 — typed extraction                                                                   *)
(* ------------------------------------------------------------------------------------------ *)

Theorem conv_int_exact : forall t z, conv_int_int t z = if fits t z then z else 0.
Proof. reflexivity. Qed.

Theorem is_then_as : forall c t z, is_int t (JInt z) = true -> as_int c t (JInt z) = z.
Proof. intros c t z H. cbn [is_int] in H. cbn [as_int]. unfold conv_int_int. rewrite H. reflexivity. Qed.

Lemma fits_wider : forall t u z, fits t z = true ->
  ity_lo u <= ity_lo t -> ity_hi t <= ity_hi u -> fits u z = true.
Proof.
  intros t u z H Hlo Hhi. unfold fits in *. apply andb_true_iff in H. destruct H as [H1 H2].
  apply Z.leb_le in H1. apply Z.leb_le in H2. apply andb_true_iff. split; apply Z.leb_le; lia.
Qed.

Theorem wider_agrees : forall c t u z, is_int t (JInt z) = true ->
  ity_lo u <= ity_lo t -> ity_hi t <= ity_hi u -> as_int c u (JInt z) = z.
Proof.
  intros c t u z H Hlo Hhi. apply is_then_as. cbn [is_int] in *. eapply fits_wider; eauto.
Qed.

Lemma conv_int_in_range : forall t z, ity_lo t <= 0 <= ity_hi t ->
  ity_lo t <= conv_int_int t z <= ity_hi t.
Proof.
  intros t z H0. unfold conv_int_int. destruct (fits t z) eqn:F; [|exact H0].
  unfold fits in F. apply andb_true_iff in F. destruct F as [F1 F2].
  apply Z.leb_le in F1. apply Z.leb_le in F2. lia.
Qed.

(* ---- float -> integer ---- *)

(* magnitude of the truncation of m * 2^e *)
Definition mag_trunc (m : positive) (e : Z) : Z :=
  if 0 <=? e then Z.pos m * 2 ^ e else Z.pos m / 2 ^ (- e).

Lemma f_trunc_finite : forall s m e,
  f_trunc (S754_finite s m e) = if s then - mag_trunc m e else mag_trunc m e.
Proof. reflexivity. Qed.

Lemma mag_trunc_nonneg : forall m e, 0 <= mag_trunc m e.
Proof.
  intros m e. unfold mag_trunc. destruct (0 <=? e) eqn:E.
  - apply Z.leb_le in E. assert (0 < 2 ^ e) by (apply Z.pow_pos_nonneg; lia). nia.
  - apply Z.leb_gt in E. apply Z.div_pos; [lia|]. apply Z.pow_pos_nonneg; lia.
Qed.

(* the order used by SFcompare on same-sign finite operands (exponent first, then mantissa) is
   sound for magnitudes as soon as the left mantissa has at most p bits and the right one at
   least p bits *)
Lemma mag_trunc_mono : forall p m1 e1 m2 e2,
  0 < p -> Z.pos m1 < 2 ^ p -> 2 ^ (p - 1) <= Z.pos m2 ->
  (e1 < e2 \/ (e1 = e2 /\ Z.pos m1 <= Z.pos m2)) ->
  mag_trunc m1 e1 <= mag_trunc m2 e2.
Proof.
  intros p m1 e1 m2 e2 Hp H1 H2 Hc.
  assert (Hm : Z.pos m1 < 2 * Z.pos m2).
  { replace p with (Z.succ (p - 1)) in H1 by lia. rewrite Z.pow_succ_r in H1 by lia. lia. }
  destruct Hc as [Hlt | [Heq Hle]].
  - unfold mag_trunc.
    destruct (0 <=? e1) eqn:E1; destruct (0 <=? e2) eqn:E2;
      try apply Z.leb_le in E1; try apply Z.leb_gt in E1;
      try apply Z.leb_le in E2; try apply Z.leb_gt in E2; try lia.
    + (* 0 <= e1 < e2 *)
      replace e2 with (e1 + (e2 - e1)) by lia. rewrite Z.pow_add_r by lia.
      assert (0 < 2 ^ e1) by (apply Z.pow_pos_nonneg; lia).
      assert (2 ^ 1 <= 2 ^ (e2 - e1)) by (apply Z.pow_le_mono_r; lia).
      change (2 ^ 1) with 2 in *.
      set (a := 2 ^ e1) in *. set (b := 2 ^ (e2 - e1)) in *.
      apply Z.le_trans with (Z.pos m2 * (a * 2)); [nia|].
      apply Z.mul_le_mono_nonneg_l; [lia|]. apply Z.mul_le_mono_nonneg_l; lia.
    + (* e1 < 0 <= e2 *)
      assert (2 ^ 1 <= 2 ^ (- e1)) by (apply Z.pow_le_mono_r; lia).
      change (2 ^ 1) with 2 in *.
      assert (0 < 2 ^ e2) by (apply Z.pow_pos_nonneg; lia).
      assert (Z.pos m1 / 2 ^ (- e1) <= Z.pos m1 / 2).
      { apply Z.div_le_compat_l; lia. }
      assert (Z.pos m1 / 2 <= Z.pos m2) by (apply Z.div_le_upper_bound; lia).
      nia.
    + (* e1 < e2 < 0 *)
      replace (- e1) with ((e2 - e1) + (- e2)) by lia. rewrite Z.pow_add_r by lia.
      assert (2 ^ 1 <= 2 ^ (e2 - e1)) by (apply Z.pow_le_mono_r; lia).
      change (2 ^ 1) with 2 in *.
      assert (0 < 2 ^ (- e2)) by (apply Z.pow_pos_nonneg; lia).
      rewrite <- Z.div_div by lia.
      apply Z.div_le_mono; [lia|].
      assert (Z.pos m1 / 2 ^ (e2 - e1) <= Z.pos m1 / 2).
      { apply Z.div_le_compat_l; lia. }
      assert (Z.pos m1 / 2 <= Z.pos m2) by (apply Z.div_le_upper_bound; lia).
      lia.
  - subst e2. unfold mag_trunc. destruct (0 <=? e1) eqn:E1.
    + apply Z.leb_le in E1. assert (0 < 2 ^ e1) by (apply Z.pow_pos_nonneg; lia). nia.
    + apply Z.leb_gt in E1. apply Z.div_le_mono; [apply Z.pow_pos_nonneg; lia | lia].
Qed.

Lemma digits2_pos_bound : forall m, Z.pos m < 2 ^ Z.pos (digits2_pos m).
Proof.
  induction m as [m IH | m IH |]; cbn [digits2_pos].
  - rewrite Pos2Z.inj_succ, Z.pow_succ_r by lia. lia.
  - rewrite Pos2Z.inj_succ, Z.pow_succ_r by lia. lia.
  - reflexivity.
Qed.

(* well-formed values of a format: SpecFloat's [valid_binary] *)
Definition valid (f : fmt) (v : spec_float) : Prop := valid_binary (prec f) (emax f) v = true.

(* all that the soundness direction needs from validity: at most [prec] mantissa bits *)
Definition mant_bounded (p : Z) (v : spec_float) : Prop :=
  match v with S754_finite _ m _ => Z.pos m < 2 ^ p | _ => True end.

Lemma valid_mant_bounded : forall f v, 0 < prec f -> valid f v -> mant_bounded (prec f) v.
Proof.
  intros f v Hp Hv. destruct v as [s | s | | s m e]; cbn [mant_bounded]; auto.
  unfold valid, valid_binary, bounded in Hv. apply andb_true_iff in Hv. destruct Hv as [Hc _].
  unfold canonical_mantissa in Hc. apply Zeq_bool_eq in Hc. unfold fexp in Hc.
  assert (Z.pos (digits2_pos m) <= prec f) by lia.
  eapply Z.lt_le_trans; [apply digits2_pos_bound|]. apply Z.pow_le_mono_r; lia.
Qed.

(* a lower bound float L is adequate for the integer lo *)
Definition lo_ok (p : Z) (L : spec_float) (lo : Z) : bool :=
  match L with
  | S754_zero _ => lo <=? 0
  | S754_finite true mL eL => (2 ^ (p - 1) <=? Z.pos mL) && (lo <=? - mag_trunc mL eL)
  | _ => false
  end.

(* an upper bound float H is adequate for the integer hi *)
Definition hi_ok (p : Z) (H : spec_float) (hi : Z) : bool :=
  match H with
  | S754_finite false mH eH => (2 ^ (p - 1) <=? Z.pos mH) && (mag_trunc mH eH <=? hi)
  | _ => false
  end.

Lemma f_ge_lo : forall p v L lo, 0 < p -> mant_bounded p v -> lo_ok p L lo = true ->
  f_ge v L = true -> lo <= f_trunc v.
Proof.
  intros p v L lo Hp Hb HL Hge.
  destruct L as [sL | sL | | sL mL eL]; cbn [lo_ok] in HL; try discriminate.
  - apply Z.leb_le in HL.
    destruct v as [s | s | | s m e]; try exact HL.
    rewrite f_trunc_finite. destruct s; [discriminate Hge|].
    pose proof (mag_trunc_nonneg m e). lia.
  - destruct sL; [|discriminate].
    apply andb_true_iff in HL. destruct HL as [HL1 HL2].
    apply Z.leb_le in HL1. apply Z.leb_le in HL2.
    pose proof (mag_trunc_nonneg mL eL) as HmL.
    destruct v as [s | s | | s m e]; try (cbn [f_trunc]; lia).
    rewrite f_trunc_finite. destruct s; [|pose proof (mag_trunc_nonneg m e); lia].
    cbn [mant_bounded] in Hb.
    assert (Hmono : mag_trunc m e <= mag_trunc mL eL); [|lia].
    apply (mag_trunc_mono p); auto.
    unfold f_ge in Hge. cbn [SFcompare] in Hge.
    change (Pos.compare_cont Eq m mL) with (Pos.compare m mL) in Hge.
    destruct (Z.compare_spec e eL) as [He | He | He].
    + right. split; [exact He|].
      destruct (Pos.compare_spec m mL) as [Hm | Hm | Hm]; cbn [CompOpp] in Hge.
      * subst. lia.
      * lia.
      * discriminate.
    + left. exact He.
    + discriminate.
Qed.

Lemma f_le_hi : forall p v H hi, 0 < p -> mant_bounded p v -> hi_ok p H hi = true ->
  f_le v H = true -> f_trunc v <= hi.
Proof.
  intros p v H hi Hp Hb HH Hle.
  destruct H as [sH | sH | | sH mH eH]; cbn [hi_ok] in HH; try discriminate.
  destruct sH; [discriminate|].
  apply andb_true_iff in HH. destruct HH as [HH1 HH2].
  apply Z.leb_le in HH1. apply Z.leb_le in HH2.
  pose proof (mag_trunc_nonneg mH eH) as HmH.
  destruct v as [s | s | | s m e]; try (cbn [f_trunc]; lia).
  rewrite f_trunc_finite. destruct s; [pose proof (mag_trunc_nonneg m e); lia|].
  cbn [mant_bounded] in Hb.
  assert (Hmono : mag_trunc m e <= mag_trunc mH eH); [|lia].
  apply (mag_trunc_mono p); auto.
  unfold f_le in Hle. cbn [SFcompare] in Hle.
  change (Pos.compare_cont Eq m mH) with (Pos.compare m mH) in Hle.
  destruct (Z.compare_spec e eH) as [He | He | He].
  + right. split; [exact He|].
    destruct (Pos.compare_spec m mH) as [Hm | Hm | Hm].
    * subst. lia.
    * lia.
    * discriminate.
  + left. exact He.
  + discriminate.
Qed.

(* the upper bound used by can_conv_float_int *)
Definition hi_bound (f : fmt) (t : ity) : spec_float :=
  if bytes_ t <? fmt_bytes f then f_of_Z f (ity_hi t) else highest_for f t.

Lemma can_conv_unfold : forall f t v,
  can_conv_float_int f t v = f_ge v (f_of_Z f (ity_lo t)) && f_le v (hi_bound f t).
Proof. intros. unfold can_conv_float_int, hi_bound. destruct (bytes_ t <? fmt_bytes f); reflexivity. Qed.

Definition bounds_ok (f : fmt) (t : ity) : bool :=
  lo_ok (prec f) (f_of_Z f (ity_lo t)) (ity_lo t) && hi_ok (prec f) (hi_bound f t) (ity_hi t).

Lemma float_cast_sound_gen : forall f t v, 0 < prec f -> bounds_ok f t = true ->
  mant_bounded (prec f) v -> can_conv_float_int f t v = true ->
  ity_lo t <= f_trunc v <= ity_hi t.
Proof.
  intros f t v Hp Hok Hb Hc. rewrite can_conv_unfold in Hc.
  apply andb_true_iff in Hc. destruct Hc as [Hge Hle].
  unfold bounds_ok in Hok. apply andb_true_iff in Hok. destruct Hok as [Hlo Hhi].
  split; [eapply f_ge_lo | eapply f_le_hi]; eauto.
Qed.

Definition ity_ok (t : ity) : Prop := In t [I8; U8; I16; U16; I32; U32; I64; U64].

Lemma bounds_ok_all : forall f t, (f = F32 \/ f = F64) -> ity_ok t -> bounds_ok f t = true.
Proof.
  intros f t Hf Ht. unfold ity_ok in Ht. cbn [In] in Ht.
  destruct Hf; subst f;
    repeat (destruct Ht as [Ht | Ht]; [subst t; vm_compute; reflexivity|]); contradiction.
Qed.

(* the float -> integer cast is evaluated only when it is defined, under the weakest
   well-formedness assumption used by the proof: the mantissa has at most prec bits *)
Theorem float_cast_defined_mb : forall f t v, (f = F32 \/ f = F64) -> ity_ok t ->
  mant_bounded (prec f) v ->
  can_conv_float_int f t v = true ->
  ity_lo t <= f_trunc v <= ity_hi t.
Proof.
  intros f t v Hf Ht Hb Hc. apply (float_cast_sound_gen f); auto.
  - destruct Hf; subst f; reflexivity.
  - apply bounds_ok_all; auto.
Qed.

Theorem float_cast_defined : forall f t v, (f = F32 \/ f = F64) -> ity_ok t ->
  valid f v ->
  can_conv_float_int f t v = true ->
  ity_lo t <= f_trunc v <= ity_hi t.
Proof.
  intros f t v Hf Ht Hv Hc. apply (float_cast_defined_mb f); auto.
  apply valid_mant_bounded; auto. destruct Hf; subst f; reflexivity.
Qed.

Corollary conv_float_int_in_range : forall f t v, (f = F32 \/ f = F64) -> ity_ok t -> valid f v ->
  ity_lo t <= conv_float_int f t v <= ity_hi t.
Proof.
  intros f t v Hf Ht Hv. unfold conv_float_int.
  destruct (can_conv_float_int f t v) eqn:Hc.
  - apply (float_cast_defined f); auto.
  - unfold ity_ok in Ht. cbn [In] in Ht.
    repeat (destruct Ht as [Ht | Ht]; [subst t; vm_compute; split; discriminate|]); contradiction.
Qed.

(* NaN and the infinities are never cast *)
Lemma can_conv_nan : forall f t, can_conv_float_int f t S754_nan = false.
Proof. reflexivity. Qed.

Lemma can_conv_inf : forall f t s, (f = F32 \/ f = F64) -> ity_ok t ->
  can_conv_float_int f t (S754_infinity s) = false.
Proof.
  intros f t s Hf Ht. unfold ity_ok in Ht. cbn [In] in Ht.
  destruct Hf; subst f; destruct s;
    repeat (destruct Ht as [Ht | Ht]; [subst t; vm_compute; reflexivity|]); contradiction.
Qed.

(* ------------------------------------------------------------------------------------------ *)
(* Part 2 — classification of extreme literals                                                 *)
(* ------------------------------------------------------------------------------------------ *)

Lemma finish_zero : forall c neg expo, finish c neg 0 expo = NumFloat (S754_zero neg).
Proof. reflexivity. Qed.

Lemma finish_huge : forall c neg mant expo, mant <> 0 -> exp_max_of c < expo ->
  finish c neg mant expo = mk_jfloat c (S754_infinity neg).
Proof.
  intros c neg mant expo Hm He. unfold finish.
  destruct (Z.eqb_spec mant 0) as [E|_]; [contradiction|].
  rewrite Z.gtb_ltb. destruct (Z.ltb_spec (exp_max_of c) expo); [reflexivity | lia].
Qed.

Lemma finish_tiny : forall c neg mant expo, mant <> 0 -> expo < - exp_max_of c - 20 ->
  finish c neg mant expo = NumFloat (S754_zero neg).
Proof.
  intros c neg mant expo Hm He. unfold finish.
  destruct (Z.eqb_spec mant 0) as [E|_]; [contradiction|].
  assert (0 < exp_max_of c) by (unfold exp_max_of; destruct (use_double c); lia).
  rewrite Z.gtb_ltb. destruct (Z.ltb_spec (exp_max_of c) expo); [lia|].
  destruct (Z.ltb_spec expo (- exp_max_of c - 20)); [reflexivity | lia].
Qed.

(* sign of the literal *)
Definition lit_neg (s : bytes) : bool := match s with 45%N :: _ => true | _ => false end.

Lemma is_digit_val : forall b, is_digit b = true -> 0 <= digit_val b <= 9.
Proof.
  intros b H. unfold is_digit in H. apply andb_true_iff in H. destruct H as [H1 H2].
  apply N.leb_le in H1. apply N.leb_le in H2. unfold digit_val. lia.
Qed.

Lemma scan_int_nonneg : forall s m, 0 <= m -> 0 <= fst (scan_int s m).
Proof.
  induction s as [|b t IH]; intros m Hm; cbn [scan_int]; [exact Hm|].
  destruct (is_digit b) eqn:D; [|exact Hm].
  destruct (m >? maxUint / 10); [exact Hm|].
  destruct (m * 10 >? maxUint - digit_val b); [exact Hm|].
  apply IH. pose proof (is_digit_val b D). lia.
Qed.

Lemma shrink_mantissa_nonneg : forall fuel mm m e, 0 <= m -> 0 <= fst (shrink_mantissa fuel mm m e).
Proof.
  induction fuel as [|fuel IH]; intros mm m e Hm; cbn [shrink_mantissa]; [exact Hm|].
  destruct (m >? mm); [|exact Hm]. apply IH. apply Z.div_pos; lia.
Qed.

Lemma scan_frac_nonneg : forall mm s m e, 0 <= m -> 0 <= fst (fst (scan_frac mm s m e)).
Proof.
  intros mm. induction s as [|b t IH]; intros m e Hm; cbn [scan_frac]; [exact Hm|].
  destruct (is_digit b) eqn:D; [|exact Hm].
  destruct (m <? mm / 10); apply IH; [|exact Hm]. pose proof (is_digit_val b D). lia.
Qed.

(* every outcome of parse_number: rejected, a keyword (NaN / Infinity), an integer, or the
   classification [finish] applied to the literal's sign, a non-negative decimal mantissa and a
   decimal exponent *)
Theorem parse_number_cases : forall c s,
  parse_number c s = NumInvalid \/
  parse_number c s = mk_jfloat c S754_nan \/
  parse_number c s = mk_jfloat c (S754_infinity (lit_neg s)) \/
  (exists z, 0 <= z /\ parse_number c s = NumUInt z) \/
  (exists z, z <= 0 /\ parse_number c s = NumSInt z) \/
  (exists mant expo, 0 <= mant /\ parse_number c s = finish c (lit_neg s) mant expo).
Proof.
  intros cf s0. rewrite parse_number_alt_eq. unfold parse_number_alt.
  set (mant_max := if use_double cf then 2 ^ 52 - 1 else 2 ^ 23 - 1).
  set (pre := match s0 with
              | 45%N :: t => (true, t)
              | 43%N :: t => (false, t)
              | _ => (false, s0)
              end).
  assert (Hneg : fst pre = lit_neg s0).
  { subst pre. destruct s0 as [|b t]; [reflexivity|].
    destruct b as [|p]; [reflexivity|].
    do 6 (destruct p as [p|p|]; try reflexivity). }
  destruct pre as [neg s]. cbn [fst] in Hneg. subst neg. clearbody mant_max.
  destruct (enable_nan cf && ((hd0 s =? 110)%N || (hd0 s =? 78)%N)); [right; left; reflexivity|].
  destruct (enable_inf cf && ((hd0 s =? 105)%N || (hd0 s =? 73)%N)); [do 2 right; left; reflexivity|].
  destruct (negb (is_digit (hd0 s)) && negb (hd0 s =? 46)%N); [left; reflexivity|].
  pose proof (scan_int_nonneg s 0 (Z.le_refl 0)) as Hm1.
  destruct (scan_int s 0) as [mant s1]. cbn [fst] in Hm1.
  set (ai := match s1 with
             | [] => if lit_neg s0 then (if mant <=? 2 ^ 63 then Some (NumSInt (- mant)) else None)
                     else Some (NumUInt mant)
             | _ => None
             end).
  assert (Hai : forall r, ai = Some r ->
            (exists z, 0 <= z /\ r = NumUInt z) \/ (exists z, z <= 0 /\ r = NumSInt z)).
  { intros r. subst ai. destruct s1; [|discriminate].
    destruct (lit_neg s0); [destruct (mant <=? 2 ^ 63)|]; intros H; inversion H.
    - right. exists (- mant). split; [lia | reflexivity].
    - left. exists mant. split; [lia | reflexivity]. }
  destruct ai as [r|];
    [destruct (Hai r eq_refl) as [H|H]; [do 3 right; left; exact H | do 4 right; left; exact H]|].
  clear Hai.
  pose proof (shrink_mantissa_nonneg 30 mant_max mant 0 Hm1) as Hm2.
  destruct (shrink_mantissa 30 mant_max mant 0) as [mant2 expoff]. cbn [fst] in Hm2.
  destruct (skip_digits s1 expoff) as [expoff2 s2].
  set (fr := match s2 with
             | 46%N :: t => scan_frac mant_max t mant2 expoff2
             | _ => (mant2, expoff2, s2)
             end).
  assert (Hm3 : 0 <= fst (fst fr)).
  { subst fr. destruct s2 as [|b t]; [exact Hm2|].
    destruct (N.eq_dec b 46) as [->|Hb]; [apply scan_frac_nonneg; exact Hm2|].
    destruct b as [|p]; [exact Hm2|].
    do 6 (destruct p as [p|p|]; try exact Hm2). contradiction. }
  destruct fr as [[mant3 expoff3] s3]. cbn [fst] in Hm3.
  assert (Hgo : forall e t, go_tail cf (lit_neg s0) mant3 expoff3 e t = NumInvalid \/
            exists mant expo, 0 <= mant /\
              go_tail cf (lit_neg s0) mant3 expoff3 e t = finish cf (lit_neg s0) mant expo).
  { intros e t. unfold go_tail. destruct t; [right; eauto | left; reflexivity]. }
  assert (Hgo' : forall e t, let r := go_tail cf (lit_neg s0) mant3 expoff3 e t in
    r = NumInvalid \/ r = mk_jfloat cf S754_nan \/ r = mk_jfloat cf (S754_infinity (lit_neg s0)) \/
    (exists z, 0 <= z /\ r = NumUInt z) \/ (exists z, z <= 0 /\ r = NumSInt z) \/
    (exists mant expo, 0 <= mant /\ r = finish cf (lit_neg s0) mant expo)).
  { intros e t r. destruct (Hgo e t) as [H|H]; [left; exact H | do 5 right; exact H]. }
  destruct s3 as [|b t]; [apply Hgo'|].
  destruct ((b =? 101)%N || (b =? 69)%N); [|apply Hgo'].
  set (sg := match t with
             | 45%N :: t' => (true, t')
             | 43%N :: t' => (false, t')
             | _ => (false, t)
             end).
  destruct sg as [negexp t1].
  destruct (scan_exp t1 0) as [e t2]. apply Hgo'.
Qed.
