(* NumProofs.v — number parsing (parse_number never faults, classification of extreme literals)
   and typed extraction (integer range tests, float -> integer cast only when defined). *)
From Coq Require Import ZArith NArith Bool List Lia.
From Coq Require Import Floats.SpecFloat.
From AJ Require Import Model.Base Model.FloatModel Model.Value Model.NumParse Model.Convert.
Local Open Scope Z_scope.

(* ------------------------------------------------------------------------------------------ *)
(* Part 1 — make_float never runs off its tables                                               *)
(* ------------------------------------------------------------------------------------------ *)

Lemma make_float_loop_some : forall f tbl fuel m e,
  0 <= e < 2 ^ Z.of_nat (length tbl) -> (length tbl <= fuel)%nat ->
  exists r, make_float_loop f tbl fuel m e = Some r.
Proof.
  intros f tbl. induction tbl as [|p tbl IH]; intros fuel m e He Hf.
  - cbn [length] in He. change (2 ^ Z.of_nat 0) with 1 in He.
    assert (e = 0) by lia. subst e. destruct fuel; cbn; eauto.
  - destruct fuel as [|fuel]; [cbn [length] in Hf; lia|].
    cbn [make_float_loop]. destruct (e =? 0) eqn:E0; [eauto|].
    apply IH.
    + rewrite Z.shiftr_div_pow2 by lia. change (2 ^ 1) with 2.
      cbn [length] in He. rewrite Nat2Z.inj_succ, Z.pow_succ_r in He by lia.
      split; [apply Z.div_pos; lia|]. apply Z.div_lt_upper_bound; lia.
    + cbn [length] in Hf. lia.
Qed.

Lemma pow10_table_length64 : forall b, length (pow10_table F64 b) = 9%nat.
Proof. destruct b; reflexivity. Qed.
Lemma pow10_table_length32 : forall b, length (pow10_table F32 b) = 6%nat.
Proof. destruct b; reflexivity. Qed.

Lemma make_float_some64 : forall m e, -511 <= e <= 511 -> exists r, make_float F64 m e = Some r.
Proof.
  intros m e He. unfold make_float. apply make_float_loop_some.
  - rewrite pow10_table_length64. change (2 ^ Z.of_nat 9) with 512.
    destruct (e <=? 0) eqn:E; [apply Z.leb_le in E | apply Z.leb_gt in E]; lia.
  - rewrite pow10_table_length64. lia.
Qed.

Lemma make_float_some32 : forall m e, -63 <= e <= 63 -> exists r, make_float F32 m e = Some r.
Proof.
  intros m e He. unfold make_float. apply make_float_loop_some.
  - rewrite pow10_table_length32. change (2 ^ Z.of_nat 6) with 64.
    destruct (e <=? 0) eqn:E; [apply Z.leb_le in E | apply Z.leb_gt in E]; lia.
  - rewrite pow10_table_length32. lia.
Qed.

(* The tail of parse_number (its local [go], once the literal has been read completely):
   sign, decimal mantissa, total decimal exponent. *)
Definition exp_max_of (c : cfg) : Z := if use_double c then 308 else 38.

Definition finish (c : cfg) (neg : bool) (mant expo : Z) : number :=
  if mant =? 0 then NumFloat (S754_zero neg)
  else if expo >? exp_max_of c then mk_jfloat c (S754_infinity neg)
  else if expo <? - exp_max_of c - 20 then NumFloat (S754_zero neg)
  else
    let sgn (r : spec_float) := if neg then fneg r else r in
    let as_double :=
      match make_float F64 (f_of_Z F64 mant) expo with
      | Some r => NumDouble (sgn r)
      | None => NumFault
      end in
    if use_double c then
      if (expo <? -38) || (expo >? 38) || (mant >? 2 ^ 23 - 1) then as_double
      else
        match make_float F32 (f_of_Z F32 mant) expo with
        | Some r => if is_inf r then as_double else NumFloat (sgn r)
        | None => NumFault
        end
    else
      match make_float F32 (f_of_Z F32 mant) expo with
      | Some r => NumFloat (sgn r)
      | None => NumFault
      end.

Definition go_tail (c : cfg) (neg : bool) (mant expoff expo : Z) (s : bytes) : number :=
  match s with
  | _ :: _ => NumInvalid
  | [] => finish c neg mant (expo + expoff)
  end.

Lemma finish_no_fault : forall c neg mant expo, finish c neg mant expo <> NumFault.
Proof.
  intros c neg mant expo. unfold finish, exp_max_of.
  destruct (mant =? 0); [discriminate|].
  destruct (use_double c) eqn:UD.
  - destruct (expo >? 308) eqn:E1; [unfold mk_jfloat; rewrite UD; discriminate|].
    destruct (expo <? - (308) - 20) eqn:E2; [discriminate|].
    rewrite Z.gtb_ltb in E1; apply Z.ltb_ge in E1. apply Z.ltb_ge in E2.
    destruct (make_float_some64 (f_of_Z F64 mant) expo) as [r Hr]; [lia|]. rewrite Hr.
    destruct ((expo <? -38) || (expo >? 38) || (mant >? 2 ^ 23 - 1)) eqn:E3; [discriminate|].
    apply orb_false_iff in E3. destruct E3 as [E3 _]. apply orb_false_iff in E3.
    destruct E3 as [E3 E4]. apply Z.ltb_ge in E3. rewrite Z.gtb_ltb in E4; apply Z.ltb_ge in E4.
    destruct (make_float_some32 (f_of_Z F32 mant) expo) as [r' Hr']; [lia|]. rewrite Hr'.
    destruct (is_inf r'); discriminate.
  - destruct (expo >? 38) eqn:E1; [unfold mk_jfloat; rewrite UD; discriminate|].
    destruct (expo <? - (38) - 20) eqn:E2; [discriminate|].
    rewrite Z.gtb_ltb in E1; apply Z.ltb_ge in E1. apply Z.ltb_ge in E2.
    destruct (make_float_some32 (f_of_Z F32 mant) expo) as [r' Hr']; [lia|]. rewrite Hr'.
    discriminate.
Qed.

Lemma go_tail_no_fault : forall c neg mant expoff expo s, go_tail c neg mant expoff expo s <> NumFault.
Proof.
  intros. unfold go_tail. destruct s; [apply finish_no_fault | discriminate].
Qed.

(* parse_number, with the tail named *)
Definition parse_number_alt (c : cfg) (s0 : bytes) : number :=
  let mant_max := if use_double c then 2 ^ 52 - 1 else 2 ^ 23 - 1 in
  let '(neg, s) := match s0 with
                   | 45%N :: t => (true, t)
                   | 43%N :: t => (false, t)
                   | _ => (false, s0)
                   end in
  if enable_nan c && ((hd0 s =? 110)%N || (hd0 s =? 78)%N) then mk_jfloat c S754_nan
  else if enable_inf c && ((hd0 s =? 105)%N || (hd0 s =? 73)%N)
  then mk_jfloat c (S754_infinity neg)
  else if negb (is_digit (hd0 s)) && negb (hd0 s =? 46)%N then NumInvalid
  else
    let '(mant, s) := scan_int s 0 in
    let as_int :=
      match s with
      | [] => if neg then (if mant <=? 2 ^ 63 then Some (NumSInt (- mant)) else None)
              else Some (NumUInt mant)
      | _ => None
      end in
    match as_int with
    | Some r => r
    | None =>
        let '(mant, expoff) := shrink_mantissa 30 mant_max mant 0 in
        let '(expoff, s) := skip_digits s expoff in
        let '(mant, expoff, s) :=
          match s with
          | 46%N :: t => scan_frac mant_max t mant expoff
          | _ => (mant, expoff, s)
          end in
        match s with
        | b :: t =>
            if (b =? 101)%N || (b =? 69)%N then
              let '(negexp, t) := match t with
                                  | 45%N :: t' => (true, t')
                                  | 43%N :: t' => (false, t')
                                  | _ => (false, t)
                                  end in
              let '(e, t) := scan_exp t 0 in
              go_tail c neg mant expoff (if negexp then - e else e) t
            else go_tail c neg mant expoff 0 s
        | [] => go_tail c neg mant expoff 0 s
        end
    end.

Lemma parse_number_alt_eq : forall c s, parse_number c s = parse_number_alt c s.
Proof. intros c s. reflexivity. Qed.

Lemma mk_jfloat_no_fault : forall c r, mk_jfloat c r <> NumFault.
Proof. intros c r. unfold mk_jfloat. destruct (use_double c); discriminate. Qed.

Theorem parse_number_no_fault : forall cf s, parse_number cf s <> NumFault.
Proof.
  intros cf s0. rewrite parse_number_alt_eq. unfold parse_number_alt.
  set (mant_max := if use_double cf then 2 ^ 52 - 1 else 2 ^ 23 - 1).
  set (pre := match s0 with
              | 45%N :: t => (true, t)
              | 43%N :: t => (false, t)
              | _ => (false, s0)
              end).
  destruct pre as [neg s]. clearbody mant_max.
  destruct (enable_nan cf && ((hd0 s =? 110)%N || (hd0 s =? 78)%N)); [apply mk_jfloat_no_fault|].
  destruct (enable_inf cf && ((hd0 s =? 105)%N || (hd0 s =? 73)%N)); [apply mk_jfloat_no_fault|].
  destruct (negb (is_digit (hd0 s)) && negb (hd0 s =? 46)%N); [discriminate|].
  destruct (scan_int s 0) as [mant s1].
  set (ai := match s1 with
             | [] => if neg then (if mant <=? 2 ^ 63 then Some (NumSInt (- mant)) else None)
                     else Some (NumUInt mant)
             | _ => None
             end).
  assert (Hai : forall r, ai = Some r -> r <> NumFault).
  { intros r. subst ai. destruct s1; [|discriminate].
    destruct neg; [destruct (mant <=? 2 ^ 63)|]; intros H; inversion H; discriminate. }
  destruct ai as [r|]; [apply Hai; reflexivity|]. clear Hai.
  destruct (shrink_mantissa 30 mant_max mant 0) as [mant2 expoff].
  destruct (skip_digits s1 expoff) as [expoff2 s2].
  set (fr := match s2 with
             | 46%N :: t => scan_frac mant_max t mant2 expoff2
             | _ => (mant2, expoff2, s2)
             end).
  destruct fr as [[mant3 expoff3] s3].
  destruct s3 as [|b t]; [apply go_tail_no_fault|].
  destruct ((b =? 101)%N || (b =? 69)%N); [|apply go_tail_no_fault].
  set (sg := match t with
             | 45%N :: t' => (true, t')
             | 43%N :: t' => (false, t')
             | _ => (false, t)
             end).
  destruct sg as [negexp t1].
  destruct (scan_exp t1 0) as [e t2]. apply go_tail_no_fault.
Qed.

(* ------------------------------------------------------------------------------------------ *)
(* Part 3 — typed extraction                                                                   *)
(* ------------------------------------------------------------------------------------------ *)

Theorem conv_int_exact : forall t z, conv_int_int t z = if fits t z then z else 0.
Proof. reflexivity. Qed.

Theorem is_then_as : forall c t z, is_int t (JInt z) = true -> as_int c t (JInt z) = z.
Proof. intros c t z H. cbn [is_int] in H. cbn [as_int]. unfold conv_int_int. rewrite H. reflexivity. Qed.

Lemma fits_wider : forall t u z, fits t z = true ->
  ity_lo u <= ity_lo t -> ity_hi t <= ity_hi u -> fits u z = true.
Proof.
  intros t u z H Hlo Hhi. unfold fits in *. apply andb_true_iff in H. destruct H as [H1 H2].
  apply Z.leb_le in H1. apply Z.leb_le in H2. apply andb_true_iff. split; apply Z.leb_le; lia.
Qed.

Theorem wider_agrees : forall c t u z, is_int t (JInt z) = true ->
  ity_lo u <= ity_lo t -> ity_hi t <= ity_hi u -> as_int c u (JInt z) = z.
Proof.
  intros c t u z H Hlo Hhi. apply is_then_as. cbn [is_int] in *. eapply fits_wider; eauto.
Qed.

Lemma conv_int_in_range : forall t z, ity_lo t <= 0 <= ity_hi t ->
  ity_lo t <= conv_int_int t z <= ity_hi t.
Proof.
  intros t z H0. unfold conv_int_int. destruct (fits t z) eqn:F; [|exact H0].
  unfold fits in F. apply andb_true_iff in F. destruct F as [F1 F2].
  apply Z.leb_le in F1. apply Z.leb_le in F2. lia.
Qed.

(* ---- float -> integer ---- *)

(* magnitude of the truncation of m * 2^e *)
Definition mag_trunc (m : positive) (e : Z) : Z :=
  if 0 <=? e then Z.pos m * 2 ^ e else Z.pos m / 2 ^ (- e).

Lemma f_trunc_finite : forall s m e,
  f_trunc (S754_finite s m e) = if s then - mag_trunc m e else mag_trunc m e.
Proof. reflexivity. Qed.

Lemma mag_trunc_nonneg : forall m e, 0 <= mag_trunc m e.
Proof.
  intros m e. unfold mag_trunc. destruct (0 <=? e) eqn:E.
  - apply Z.leb_le in E. assert (0 < 2 ^ e) by (apply Z.pow_pos_nonneg; lia). nia.
  - apply Z.leb_gt in E. apply Z.div_pos; [lia|]. apply Z.pow_pos_nonneg; lia.
Qed.

(* the order used by SFcompare on same-sign finite operands (exponent first, then mantissa) is
   sound for magnitudes as soon as the left mantissa has at most p bits and the right one at
   least p bits *)
Lemma mag_trunc_mono : forall p m1 e1 m2 e2,
  0 < p -> Z.pos m1 < 2 ^ p -> 2 ^ (p - 1) <= Z.pos m2 ->
  (e1 < e2 \/ (e1 = e2 /\ Z.pos m1 <= Z.pos m2)) ->
  mag_trunc m1 e1 <= mag_trunc m2 e2.
Proof.
  intros p m1 e1 m2 e2 Hp H1 H2 Hc.
  assert (Hm : Z.pos m1 < 2 * Z.pos m2).
  { replace p with (Z.succ (p - 1)) in H1 by lia. rewrite Z.pow_succ_r in H1 by lia. lia. }
  destruct Hc as [Hlt | [Heq Hle]].
  - unfold mag_trunc.
    destruct (0 <=? e1) eqn:E1; destruct (0 <=? e2) eqn:E2;
      try apply Z.leb_le in E1; try apply Z.leb_gt in E1;
      try apply Z.leb_le in E2; try apply Z.leb_gt in E2; try lia.
    + (* 0 <= e1 < e2 *)
      replace e2 with (e1 + (e2 - e1)) by lia. rewrite Z.pow_add_r by lia.
      assert (0 < 2 ^ e1) by (apply Z.pow_pos_nonneg; lia).
      assert (2 ^ 1 <= 2 ^ (e2 - e1)) by (apply Z.pow_le_mono_r; lia).
      change (2 ^ 1) with 2 in *.
      set (a := 2 ^ e1) in *. set (b := 2 ^ (e2 - e1)) in *.
      apply Z.le_trans with (Z.pos m2 * (a * 2)); [nia|].
      apply Z.mul_le_mono_nonneg_l; [lia|]. apply Z.mul_le_mono_nonneg_l; lia.
    + (* e1 < 0 <= e2 *)
      assert (2 ^ 1 <= 2 ^ (- e1)) by (apply Z.pow_le_mono_r; lia).
      change (2 ^ 1) with 2 in *.
      assert (0 < 2 ^ e2) by (apply Z.pow_pos_nonneg; lia).
      assert (Z.pos m1 / 2 ^ (- e1) <= Z.pos m1 / 2).
      { apply Z.div_le_compat_l; lia. }
      assert (Z.pos m1 / 2 <= Z.pos m2) by (apply Z.div_le_upper_bound; lia).
      nia.
    + (* e1 < e2 < 0 *)
      replace (- e1) with ((e2 - e1) + (- e2)) by lia. rewrite Z.pow_add_r by lia.
      assert (2 ^ 1 <= 2 ^ (e2 - e1)) by (apply Z.pow_le_mono_r; lia).
      change (2 ^ 1) with 2 in *.
      assert (0 < 2 ^ (- e2)) by (apply Z.pow_pos_nonneg; lia).
      rewrite <- Z.div_div by lia.
      apply Z.div_le_mono; [lia|].
      assert (Z.pos m1 / 2 ^ (e2 - e1) <= Z.pos m1 / 2).
      { apply Z.div_le_compat_l; lia. }
      assert (Z.pos m1 / 2 <= Z.pos m2) by (apply Z.div_le_upper_bound; lia).
      lia.
  - subst e2. unfold mag_trunc. destruct (0 <=? e1) eqn:E1.
    + apply Z.leb_le in E1. assert (0 < 2 ^ e1) by (apply Z.pow_pos_nonneg; lia). nia.
    + apply Z.leb_gt in E1. apply Z.div_le_mono; [apply Z.pow_pos_nonneg; lia | lia].
Qed.

Lemma digits2_pos_bound : forall m, Z.pos m < 2 ^ Z.pos (digits2_pos m).
Proof.
  induction m as [m IH | m IH |]; cbn [digits2_pos].
  - rewrite Pos2Z.inj_succ, Z.pow_succ_r by lia. lia.
  - rewrite Pos2Z.inj_succ, Z.pow_succ_r by lia. lia.
  - reflexivity.
Qed.

(* well-formed values of a format: SpecFloat's [valid_binary] *)
Definition valid (f : fmt) (v : spec_float) : Prop := valid_binary (prec f) (emax f) v = true.

(* all that the soundness direction needs from validity: at most [prec] mantissa bits *)
Definition mant_bounded (p : Z) (v : spec_float) : Prop :=
  match v with S754_finite _ m _ => Z.pos m < 2 ^ p | _ => True end.

Lemma valid_mant_bounded : forall f v, 0 < prec f -> valid f v -> mant_bounded (prec f) v.
Proof.
  intros f v Hp Hv. destruct v as [s | s | | s m e]; cbn [mant_bounded]; auto.
  unfold valid, valid_binary, bounded in Hv. apply andb_true_iff in Hv. destruct Hv as [Hc _].
  unfold canonical_mantissa in Hc. apply Zeq_bool_eq in Hc. unfold fexp in Hc.
  assert (Z.pos (digits2_pos m) <= prec f) by lia.
  eapply Z.lt_le_trans; [apply digits2_pos_bound|]. apply Z.pow_le_mono_r; lia.
Qed.

(* a lower bound float L is adequate for the integer lo *)
Definition lo_ok (p : Z) (L : spec_float) (lo : Z) : bool :=
  match L with
  | S754_zero _ => lo <=? 0
  | S754_finite true mL eL => (2 ^ (p - 1) <=? Z.pos mL) && (lo <=? - mag_trunc mL eL)
  | _ => false
  end.

(* an upper bound float H is adequate for the integer hi *)
Definition hi_ok (p : Z) (H : spec_float) (hi : Z) : bool :=
  match H with
  | S754_finite false mH eH => (2 ^ (p - 1) <=? Z.pos mH) && (mag_trunc mH eH <=? hi)
  | _ => false
  end.

Lemma f_ge_lo : forall p v L lo, 0 < p -> mant_bounded p v -> lo_ok p L lo = true ->
  f_ge v L = true -> lo <= f_trunc v.
Proof.
  intros p v L lo Hp Hb HL Hge.
  destruct L as [sL | sL | | sL mL eL]; cbn [lo_ok] in HL; try discriminate.
  - apply Z.leb_le in HL.
    destruct v as [s | s | | s m e]; try exact HL.
    rewrite f_trunc_finite. destruct s; [discriminate Hge|].
    pose proof (mag_trunc_nonneg m e). lia.
  - destruct sL; [|discriminate].
    apply andb_true_iff in HL. destruct HL as [HL1 HL2].
    apply Z.leb_le in HL1. apply Z.leb_le in HL2.
    pose proof (mag_trunc_nonneg mL eL) as HmL.
    destruct v as [s | s | | s m e]; try (cbn [f_trunc]; lia).
    rewrite f_trunc_finite. destruct s; [|pose proof (mag_trunc_nonneg m e); lia].
    cbn [mant_bounded] in Hb.
    assert (Hmono : mag_trunc m e <= mag_trunc mL eL); [|lia].
    apply (mag_trunc_mono p); auto.
    unfold f_ge in Hge. cbn [SFcompare] in Hge.
    change (Pos.compare_cont Eq m mL) with (Pos.compare m mL) in Hge.
    destruct (Z.compare_spec e eL) as [He | He | He].
    + right. split; [exact He|].
      destruct (Pos.compare_spec m mL) as [Hm | Hm | Hm]; cbn [CompOpp] in Hge.
      * subst. lia.
      * lia.
      * discriminate.
    + left. exact He.
    + discriminate.
Qed.

Lemma f_le_hi : forall p v H hi, 0 < p -> mant_bounded p v -> hi_ok p H hi = true ->
  f_le v H = true -> f_trunc v <= hi.
Proof.
  intros p v H hi Hp Hb HH Hle.
  destruct H as [sH | sH | | sH mH eH]; cbn [hi_ok] in HH; try discriminate.
  destruct sH; [discriminate|].
  apply andb_true_iff in HH. destruct HH as [HH1 HH2].
  apply Z.leb_le in HH1. apply Z.leb_le in HH2.
  pose proof (mag_trunc_nonneg mH eH) as HmH.
  destruct v as [s | s | | s m e]; try (cbn [f_trunc]; lia).
  rewrite f_trunc_finite. destruct s; [pose proof (mag_trunc_nonneg m e); lia|].
  cbn [mant_bounded] in Hb.
  assert (Hmono : mag_trunc m e <= mag_trunc mH eH); [|lia].
  apply (mag_trunc_mono p); auto.
  unfold f_le in Hle. cbn [SFcompare] in Hle.
  change (Pos.compare_cont Eq m mH) with (Pos.compare m mH) in Hle.
  destruct (Z.compare_spec e eH) as [He | He | He].
  + right. split; [exact He|].
    destruct (Pos.compare_spec m mH) as [Hm | Hm | Hm].
    * subst. lia.
    * lia.
    * discriminate.
  + left. exact He.
  + discriminate.
Qed.

(* the upper bound used by can_conv_float_int *)
Definition hi_bound (f : fmt) (t : ity) : spec_float :=
  if bytes_ t <? fmt_bytes f then f_of_Z f (ity_hi t) else highest_for f t.

Lemma can_conv_unfold : forall f t v,
  can_conv_float_int f t v = f_ge v (f_of_Z f (ity_lo t)) && f_le v (hi_bound f t).
Proof. intros. unfold can_conv_float_int, hi_bound. destruct (bytes_ t <? fmt_bytes f); reflexivity. Qed.

Definition bounds_ok (f : fmt) (t : ity) : bool :=
  lo_ok (prec f) (f_of_Z f (ity_lo t)) (ity_lo t) && hi_ok (prec f) (hi_bound f t) (ity_hi t).

Lemma float_cast_sound_gen : forall f t v, 0 < prec f -> bounds_ok f t = true ->
  mant_bounded (prec f) v -> can_conv_float_int f t v = true ->
  ity_lo t <= f_trunc v <= ity_hi t.
Proof.
  intros f t v Hp Hok Hb Hc. rewrite can_conv_unfold in Hc.
  apply andb_true_iff in Hc. destruct Hc as [Hge Hle].
  unfold bounds_ok in Hok. apply andb_true_iff in Hok. destruct Hok as [Hlo Hhi].
  split; [eapply f_ge_lo | eapply f_le_hi]; eauto.
Qed.

Definition ity_ok (t : ity) : Prop := In t [I8; U8; I16; U16; I32; U32; I64; U64].

Lemma bounds_ok_all : forall f t, (f = F32 \/ f = F64) -> ity_ok t -> bounds_ok f t = true.
Proof.
  intros f t Hf Ht. unfold ity_ok in Ht. cbn [In] in Ht.
  destruct Hf; subst f;
    repeat (destruct Ht as [Ht | Ht]; [subst t; vm_compute; reflexivity|]); contradiction.
Qed.

(* the float -> integer cast is evaluated only when it is defined, under the weakest
   well-formedness assumption used by the proof: the mantissa has at most prec bits *)
Theorem float_cast_defined_mb : forall f t v, (f = F32 \/ f = F64) -> ity_ok t ->
  mant_bounded (prec f) v ->
  can_conv_float_int f t v = true ->
  ity_lo t <= f_trunc v <= ity_hi t.
Proof.
  intros f t v Hf Ht Hb Hc. apply (float_cast_sound_gen f); auto.
  - destruct Hf; subst f; reflexivity.
  - apply bounds_ok_all; auto.
Qed.

Theorem float_cast_defined : forall f t v, (f = F32 \/ f = F64) -> ity_ok t ->
  valid f v ->
  can_conv_float_int f t v = true ->
  ity_lo t <= f_trunc v <= ity_hi t.
Proof.
  intros f t v Hf Ht Hv Hc. apply (float_cast_defined_mb f); auto.
  apply valid_mant_bounded; auto. destruct Hf; subst f; reflexivity.
Qed.

Corollary conv_float_int_in_range : forall f t v, (f = F32 \/ f = F64) -> ity_ok t -> valid f v ->
  ity_lo t <= conv_float_int f t v <= ity_hi t.
Proof.
  intros f t v Hf Ht Hv. unfold conv_float_int.
  destruct (can_conv_float_int f t v) eqn:Hc.
  - apply (float_cast_defined f); auto.
  - unfold ity_ok in Ht. cbn [In] in Ht.
    repeat (destruct Ht as [Ht | Ht]; [subst t; vm_compute; split; discriminate|]); contradiction.
Qed.

(* NaN and the infinities are never cast *)
Lemma can_conv_nan : forall f t, can_conv_float_int f t S754_nan = false.
Proof. reflexivity. Qed.

Lemma can_conv_inf : forall f t s, (f = F32 \/ f = F64) -> ity_ok t ->
  can_conv_float_int f t (S754_infinity s) = false.
Proof.
  intros f t s Hf Ht. unfold ity_ok in Ht. cbn [In] in Ht.
  destruct Hf; subst f; destruct s;
    repeat (destruct Ht as [Ht | Ht]; [subst t; vm_compute; reflexivity|]); contradiction.
Qed.

(* ------------------------------------------------------------------------------------------ *)
(* Part 2 — classification of extreme literals                                                 *)
(* ------------------------------------------------------------------------------------------ *)

Lemma finish_zero : forall c neg expo, finish c neg 0 expo = NumFloat (S754_zero neg).
Proof. reflexivity. Qed.

Lemma finish_huge : forall c neg mant expo, mant <> 0 -> exp_max_of c < expo ->
  finish c neg mant expo = mk_jfloat c (S754_infinity neg).
Proof.
  intros c neg mant expo Hm He. unfold finish.
  destruct (Z.eqb_spec mant 0) as [E|_]; [contradiction|].
  rewrite Z.gtb_ltb. destruct (Z.ltb_spec (exp_max_of c) expo); [reflexivity | lia].
Qed.

Lemma finish_tiny : forall c neg mant expo, mant <> 0 -> expo < - exp_max_of c - 20 ->
  finish c neg mant expo = NumFloat (S754_zero neg).
Proof.
  intros c neg mant expo Hm He. unfold finish.
  destruct (Z.eqb_spec mant 0) as [E|_]; [contradiction|].
  assert (0 < exp_max_of c) by (unfold exp_max_of; destruct (use_double c); lia).
  rewrite Z.gtb_ltb. destruct (Z.ltb_spec (exp_max_of c) expo); [lia|].
  destruct (Z.ltb_spec expo (- exp_max_of c - 20)); [reflexivity | lia].
Qed.

(* sign of the literal *)
Definition lit_neg (s : bytes) : bool := match s with 45%N :: _ => true | _ => false end.

Lemma is_digit_val : forall b, is_digit b = true -> 0 <= digit_val b <= 9.
Proof.
  intros b H. unfold is_digit in H. apply andb_true_iff in H. destruct H as [H1 H2].
  apply N.leb_le in H1. apply N.leb_le in H2. unfold digit_val. lia.
Qed.

Lemma scan_int_nonneg : forall s m, 0 <= m -> 0 <= fst (scan_int s m).
Proof.
  induction s as [|b t IH]; intros m Hm; cbn [scan_int]; [exact Hm|].
  destruct (is_digit b) eqn:D; [|exact Hm].
  destruct (m >? maxUint / 10); [exact Hm|].
  destruct (m * 10 >? maxUint - digit_val b); [exact Hm|].
  apply IH. pose proof (is_digit_val b D). lia.
Qed.

Lemma shrink_mantissa_nonneg : forall fuel mm m e, 0 <= m -> 0 <= fst (shrink_mantissa fuel mm m e).
Proof.
  induction fuel as [|fuel IH]; intros mm m e Hm; cbn [shrink_mantissa]; [exact Hm|].
  destruct (m >? mm); [|exact Hm]. apply IH. apply Z.div_pos; lia.
Qed.

Lemma scan_frac_nonneg : forall mm s m e, 0 <= m -> 0 <= fst (fst (scan_frac mm s m e)).
Proof.
  intros mm. induction s as [|b t IH]; intros m e Hm; cbn [scan_frac]; [exact Hm|].
  destruct (is_digit b) eqn:D; [|exact Hm].
  destruct (m <? mm / 10); apply IH; [|exact Hm]. pose proof (is_digit_val b D). lia.
Qed.

(* every outcome of parse_number: rejected, a keyword (NaN / Infinity), an integer, or the
   classification [finish] applied to the literal's sign, a non-negative decimal mantissa and a
   decimal exponent *)
Theorem parse_number_cases : forall c s,
  parse_number c s = NumInvalid \/
  parse_number c s = mk_jfloat c S754_nan \/
  parse_number c s = mk_jfloat c (S754_infinity (lit_neg s)) \/
  (exists z, 0 <= z /\ parse_number c s = NumUInt z) \/
  (exists z, z <= 0 /\ parse_number c s = NumSInt z) \/
  (exists mant expo, 0 <= mant /\ parse_number c s = finish c (lit_neg s) mant expo).
Proof.
  intros cf s0. rewrite parse_number_alt_eq. unfold parse_number_alt.
  set (mant_max := if use_double cf then 2 ^ 52 - 1 else 2 ^ 23 - 1).
  set (pre := match s0 with
              | 45%N :: t => (true, t)
              | 43%N :: t => (false, t)
              | _ => (false, s0)
              end).
  assert (Hneg : fst pre = lit_neg s0).
  { subst pre. destruct s0 as [|b t]; [reflexivity|].
    destruct b as [|p]; [reflexivity|].
    do 6 (destruct p as [p|p|]; try reflexivity). }
  destruct pre as [neg s]. cbn [fst] in Hneg. subst neg. clearbody mant_max.
  destruct (enable_nan cf && ((hd0 s =? 110)%N || (hd0 s =? 78)%N)); [right; left; reflexivity|].
  destruct (enable_inf cf && ((hd0 s =? 105)%N || (hd0 s =? 73)%N)); [do 2 right; left; reflexivity|].
  destruct (negb (is_digit (hd0 s)) && negb (hd0 s =? 46)%N); [left; reflexivity|].
  pose proof (scan_int_nonneg s 0 (Z.le_refl 0)) as Hm1.
  destruct (scan_int s 0) as [mant s1]. cbn [fst] in Hm1.
  set (ai := match s1 with
             | [] => if lit_neg s0 then (if mant <=? 2 ^ 63 then Some (NumSInt (- mant)) else None)
                     else Some (NumUInt mant)
             | _ => None
             end).
  assert (Hai : forall r, ai = Some r ->
            (exists z, 0 <= z /\ r = NumUInt z) \/ (exists z, z <= 0 /\ r = NumSInt z)).
  { intros r. subst ai. destruct s1; [|discriminate].
    destruct (lit_neg s0); [destruct (mant <=? 2 ^ 63)|]; intros H; inversion H.
    - right. exists (- mant). split; [lia | reflexivity].
    - left. exists mant. split; [lia | reflexivity]. }
  destruct ai as [r|];
    [destruct (Hai r eq_refl) as [H|H]; [do 3 right; left; exact H | do 4 right; left; exact H]|].
  clear Hai.
  pose proof (shrink_mantissa_nonneg 30 mant_max mant 0 Hm1) as Hm2.
  destruct (shrink_mantissa 30 mant_max mant 0) as [mant2 expoff]. cbn [fst] in Hm2.
  destruct (skip_digits s1 expoff) as [expoff2 s2].
  set (fr := match s2 with
             | 46%N :: t => scan_frac mant_max t mant2 expoff2
             | _ => (mant2, expoff2, s2)
             end).
  assert (Hm3 : 0 <= fst (fst fr)).
  { subst fr. destruct s2 as [|b t]; [exact Hm2|].
    destruct (N.eq_dec b 46) as [->|Hb]; [apply scan_frac_nonneg; exact Hm2|].
    destruct b as [|p]; [exact Hm2|].
    do 6 (destruct p as [p|p|]; try exact Hm2). contradiction. }
  destruct fr as [[mant3 expoff3] s3]. cbn [fst] in Hm3.
  assert (Hgo : forall e t, go_tail cf (lit_neg s0) mant3 expoff3 e t = NumInvalid \/
            exists mant expo, 0 <= mant /\
              go_tail cf (lit_neg s0) mant3 expoff3 e t = finish cf (lit_neg s0) mant expo).
  { intros e t. unfold go_tail. destruct t; [right; eauto | left; reflexivity]. }
  assert (Hgo' : forall e t, let r := go_tail cf (lit_neg s0) mant3 expoff3 e t in
    r = NumInvalid \/ r = mk_jfloat cf S754_nan \/ r = mk_jfloat cf (S754_infinity (lit_neg s0)) \/
    (exists z, 0 <= z /\ r = NumUInt z) \/ (exists z, z <= 0 /\ r = NumSInt z) \/
    (exists mant expo, 0 <= mant /\ r = finish cf (lit_neg s0) mant expo)).
  { intros e t r. destruct (Hgo e t) as [H|H]; [left; exact H | do 5 right; exact H]. }
  destruct s3 as [|b t]; [apply Hgo'|].
  destruct ((b =? 101)%N || (b =? 69)%N); [|apply Hgo'].
  set (sg := match t with
             | 45%N :: t' => (true, t')
             | 43%N :: t' => (false, t')
             | _ => (false, t)
             end).
  destruct sg as [negexp t1].
  destruct (scan_exp t1 0) as [e t2]. apply Hgo'.
Qed.

(* ------------------------------------------------------------------------------------------ *)
(* Part 3, converse — a valid finite value whose (rational) value lies in the integer range is  *)
(* accepted by can_conv_float_int                                                              *)
(* ------------------------------------------------------------------------------------------ *)

Lemma digits2_pos_lower : forall m, 2 ^ (Z.pos (digits2_pos m) - 1) <= Z.pos m.
Proof.
  induction m as [m IH | m IH |]; cbn [digits2_pos].
  - rewrite Pos2Z.inj_succ. replace (Z.succ (Z.pos (digits2_pos m)) - 1)
      with (Z.succ (Z.pos (digits2_pos m) - 1)) by lia.
    rewrite Z.pow_succ_r by lia. lia.
  - rewrite Pos2Z.inj_succ. replace (Z.succ (Z.pos (digits2_pos m)) - 1)
      with (Z.succ (Z.pos (digits2_pos m) - 1)) by lia.
    rewrite Z.pow_succ_r by lia. lia.
  - cbn. lia.
Qed.

(* a valid finite value above the minimal exponent has a full (normal) mantissa *)
Lemma valid_normal : forall f s m e, valid f (S754_finite s m e) -> femin f < e ->
  2 ^ (prec f - 1) <= Z.pos m.
Proof.
  intros f s m e Hv He. unfold valid, valid_binary, bounded in Hv.
  apply andb_true_iff in Hv. destruct Hv as [Hc _].
  unfold canonical_mantissa in Hc. apply Zeq_bool_eq in Hc. unfold fexp in Hc.
  unfold femin in He.
  assert (Z.pos (digits2_pos m) = prec f) by lia.
  pose proof (digits2_pos_lower m) as Hl. rewrite H in Hl. exact Hl.
Qed.

Lemma valid_emin : forall f s m e, valid f (S754_finite s m e) -> femin f <= e.
Proof.
  intros f s m e Hv. unfold valid, valid_binary, bounded in Hv.
  apply andb_true_iff in Hv. destruct Hv as [Hc _].
  unfold canonical_mantissa in Hc. apply Zeq_bool_eq in Hc. unfold fexp in Hc.
  unfold femin. lia.
Qed.

(* m * 2^e <= B  and  B < m * 2^e, for m, B integers and e of either sign, without rationals *)
Definition mle (m e B : Z) : Prop := if 0 <=? e then m * 2 ^ e <= B else m <= B * 2 ^ (- e).
Definition mlt (B m e : Z) : Prop := if 0 <=? e then B < m * 2 ^ e else B * 2 ^ (- e) < m.

Lemma mle_scale : forall m e B K, 0 <= K -> 0 <= e + K ->
  mle m e B -> m * 2 ^ (e + K) <= B * 2 ^ K.
Proof.
  intros m e B K HK HeK H. unfold mle in H. destruct (0 <=? e) eqn:E.
  - apply Z.leb_le in E. rewrite Z.pow_add_r by lia.
    assert (0 < 2 ^ K) by (apply Z.pow_pos_nonneg; lia). nia.
  - apply Z.leb_gt in E. replace K with ((e + K) + (- e)) at 2 by lia.
    rewrite (Z.pow_add_r 2 (e + K) (- e)) by lia.
    assert (0 < 2 ^ (e + K)) by (apply Z.pow_pos_nonneg; lia). nia.
Qed.

Lemma mlt_scale : forall m e B K, 0 <= K -> 0 <= e + K ->
  mlt B m e -> B * 2 ^ K < m * 2 ^ (e + K).
Proof.
  intros m e B K HK HeK H. unfold mlt in H. destruct (0 <=? e) eqn:E.
  - apply Z.leb_le in E. rewrite Z.pow_add_r by lia.
    assert (0 < 2 ^ K) by (apply Z.pow_pos_nonneg; lia). nia.
  - apply Z.leb_gt in E. replace K with ((e + K) + (- e)) at 1 by lia.
    rewrite (Z.pow_add_r 2 (e + K) (- e)) by lia.
    assert (0 < 2 ^ (e + K)) by (apply Z.pow_pos_nonneg; lia). nia.
Qed.

(* completeness of the exponent-then-mantissa order against a bound (mB, eB) that is tight for
   the integer B: B < (mB + 1) * 2^eB *)
Lemma mag_cmp_complete : forall p emin_ m e mB eB B,
  0 < p -> 0 < m -> (emin_ < e -> 2 ^ (p - 1) <= m) -> emin_ <= eB -> mB + 1 <= 2 ^ p ->
  mlt B (mB + 1) eB -> mle m e B ->
  e < eB \/ (e = eB /\ m <= mB).
Proof.
  intros p emin_ m e mB eB B Hp Hm Hnorm HeB HmB Hlt Hle.
  set (K := Z.abs e + Z.abs eB).
  assert (HK : 0 <= K) by (unfold K; lia).
  assert (Ha : 0 <= e + K) by (unfold K; lia).
  assert (Hb : 0 <= eB + K) by (unfold K; lia).
  pose proof (mle_scale m e B K HK Ha Hle) as H1.
  pose proof (mlt_scale (mB + 1) eB B K HK Hb Hlt) as H2.
  assert (H3 : m * 2 ^ (e + K) < (mB + 1) * 2 ^ (eB + K)) by lia.
  clear H1 H2 Hlt Hle.
  destruct (Z.lt_trichotomy e eB) as [Hc | [Hc | Hc]].
  - left. exact Hc.
  - right. split; [exact Hc|]. subst eB.
    assert (0 < 2 ^ (e + K)) by (apply Z.pow_pos_nonneg; lia). nia.
  - exfalso. assert (Hn : 2 ^ (p - 1) <= m) by (apply Hnorm; lia).
    replace (e + K) with ((eB + K) + (e - eB)) in H3 by lia.
    rewrite Z.pow_add_r in H3 by lia.
    assert (H0 : 0 < 2 ^ (eB + K)) by (apply Z.pow_pos_nonneg; lia).
    assert (H2 : 2 ^ 1 <= 2 ^ (e - eB)) by (apply Z.pow_le_mono_r; lia).
    change (2 ^ 1) with 2 in H2.
    replace p with (Z.succ (p - 1)) in HmB by lia. rewrite Z.pow_succ_r in HmB by lia.
    set (a := 2 ^ (eB + K)) in *. set (b := 2 ^ (e - eB)) in *. set (q := 2 ^ (p - 1)) in *.
    assert ((mB + 1) * a <= m * (a * b)); [|lia].
    apply Z.le_trans with (m * (a * 2)); [nia|].
    apply Z.mul_le_mono_nonneg_l; [lia|]. apply Z.mul_le_mono_nonneg_l; lia.
Qed.

(* z <= value(v) and value(v) <= z for a finite v, stated on integers
   (value (S754_finite s m e) = (-1)^s * m * 2^e) *)
Definition Z_le_sf (z : Z) (v : spec_float) : Prop :=
  match v with
  | S754_zero _ => z <= 0
  | S754_finite s m e =>
      let sm := if s then Z.neg m else Z.pos m in
      if 0 <=? e then z <= sm * 2 ^ e else z * 2 ^ (- e) <= sm
  | _ => False
  end.
Definition sf_le_Z (v : spec_float) (z : Z) : Prop :=
  match v with
  | S754_zero _ => 0 <= z
  | S754_finite s m e =>
      let sm := if s then Z.neg m else Z.pos m in
      if 0 <=? e then sm * 2 ^ e <= z else sm <= z * 2 ^ (- e)
  | _ => False
  end.

Definition lo_tight (p emin_ : Z) (L : spec_float) (lo : Z) : bool :=
  match L with
  | S754_zero _ => lo =? 0
  | S754_finite true mL eL =>
      (lo <=? 0) && (Z.pos mL + 1 <=? 2 ^ p) && (emin_ <=? eL) &&
      (if 0 <=? eL then - lo <? (Z.pos mL + 1) * 2 ^ eL else - lo * 2 ^ (- eL) <? Z.pos mL + 1)
  | _ => false
  end.

Definition hi_tight (p emin_ : Z) (H : spec_float) (hi : Z) : bool :=
  match H with
  | S754_finite false mH eH =>
      (0 <=? hi) && (Z.pos mH + 1 <=? 2 ^ p) && (emin_ <=? eH) &&
      (if 0 <=? eH then hi <? (Z.pos mH + 1) * 2 ^ eH else hi * 2 ^ (- eH) <? Z.pos mH + 1)
  | _ => false
  end.

Lemma pow2_pos : forall e, 0 <= e -> 0 < 2 ^ e.
Proof. intros. apply Z.pow_pos_nonneg; lia. Qed.

Lemma f_ge_complete : forall f v L lo, 0 < prec f -> valid f v ->
  lo_tight (prec f) (femin f) L lo = true -> Z_le_sf lo v -> f_ge v L = true.
Proof.
  intros f v L lo Hp Hv HL Hle.
  destruct L as [sL | sL | | sL mL eL]; cbn [lo_tight] in HL; try discriminate.
  - apply Z.eqb_eq in HL. subst lo.
    destruct v as [s | s | | s m e]; cbn [Z_le_sf] in Hle; try contradiction; [reflexivity|].
    destruct s; [exfalso | reflexivity].
    destruct (0 <=? e) eqn:E.
    + apply Z.leb_le in E. pose proof (pow2_pos e E). change (Z.neg m) with (- Z.pos m) in Hle. nia.
    + change (Z.neg m) with (- Z.pos m) in Hle. lia.
  - destruct sL; [|discriminate].
    apply andb_true_iff in HL. destruct HL as [HL HL4].
    apply andb_true_iff in HL. destruct HL as [HL HL3].
    apply andb_true_iff in HL. destruct HL as [HL1 HL2].
    apply Z.leb_le in HL1. apply Z.leb_le in HL2. apply Z.leb_le in HL3.
    destruct v as [s | s | | s m e]; cbn [Z_le_sf] in Hle; try contradiction; [reflexivity|].
    destruct s; [|reflexivity].
    assert (Hc : e < eL \/ (e = eL /\ Z.pos m <= Z.pos mL)).
    { apply (mag_cmp_complete (prec f) (femin f) (Z.pos m) e (Z.pos mL) eL (- lo)); auto.
      - lia.
      - intros He. apply (valid_normal f true m e Hv He).
      - unfold mlt. destruct (0 <=? eL); apply Z.ltb_lt in HL4; exact HL4.
      - unfold mle. change (Z.neg m) with (- Z.pos m) in Hle.
        destruct (0 <=? e); lia. }
    unfold f_ge. cbn [SFcompare].
    change (Pos.compare_cont Eq m mL) with (Pos.compare m mL).
    destruct Hc as [Hc | [Hc1 Hc2]].
    + apply Z.compare_lt_iff in Hc. rewrite Hc. reflexivity.
    + subst eL. rewrite Z.compare_refl.
      destruct (Pos.compare_spec m mL) as [Hm | Hm | Hm]; try reflexivity. lia.
Qed.

Lemma f_le_complete : forall f v H hi, 0 < prec f -> valid f v ->
  hi_tight (prec f) (femin f) H hi = true -> sf_le_Z v hi -> f_le v H = true.
Proof.
  intros f v H hi Hp Hv HH Hle.
  destruct H as [sH | sH | | sH mH eH]; cbn [hi_tight] in HH; try discriminate.
  destruct sH; [discriminate|].
  apply andb_true_iff in HH. destruct HH as [HH HH4].
  apply andb_true_iff in HH. destruct HH as [HH HH3].
  apply andb_true_iff in HH. destruct HH as [HH1 HH2].
  apply Z.leb_le in HH1. apply Z.leb_le in HH2. apply Z.leb_le in HH3.
  destruct v as [s | s | | s m e]; cbn [sf_le_Z] in Hle; try contradiction; [reflexivity|].
  destruct s; [reflexivity|].
  assert (Hc : e < eH \/ (e = eH /\ Z.pos m <= Z.pos mH)).
  { apply (mag_cmp_complete (prec f) (femin f) (Z.pos m) e (Z.pos mH) eH hi); auto.
    - lia.
    - intros He. apply (valid_normal f false m e Hv He).
    - unfold mlt. destruct (0 <=? eH); apply Z.ltb_lt in HH4; exact HH4. }
  unfold f_le. cbn [SFcompare].
  change (Pos.compare_cont Eq m mH) with (Pos.compare m mH).
  destruct Hc as [Hc | [Hc1 Hc2]].
  + apply Z.compare_lt_iff in Hc. rewrite Hc. reflexivity.
  + subst eH. rewrite Z.compare_refl.
    destruct (Pos.compare_spec m mH) as [Hm | Hm | Hm]; try reflexivity. lia.
Qed.

Definition bounds_tight (f : fmt) (t : ity) : bool :=
  lo_tight (prec f) (femin f) (f_of_Z f (ity_lo t)) (ity_lo t) &&
  hi_tight (prec f) (femin f) (hi_bound f t) (ity_hi t).

Lemma bounds_tight_all : forall f t, (f = F32 \/ f = F64) -> ity_ok t -> bounds_tight f t = true.
Proof.
  intros f t Hf Ht. unfold ity_ok in Ht. cbn [In] in Ht.
  destruct Hf; subst f;
    repeat (destruct Ht as [Ht | Ht]; [subst t; vm_compute; reflexivity|]); contradiction.
Qed.

(* converse of float_cast_defined: every valid finite value lying (as a rational) within the
   integer range is accepted, so conv_float_int returns its truncation *)
Theorem float_cast_complete : forall f t v, (f = F32 \/ f = F64) -> ity_ok t -> valid f v ->
  Z_le_sf (ity_lo t) v -> sf_le_Z v (ity_hi t) ->
  can_conv_float_int f t v = true.
Proof.
  intros f t v Hf Ht Hv Hlo Hhi. rewrite can_conv_unfold.
  pose proof (bounds_tight_all f t Hf Ht) as Hb. unfold bounds_tight in Hb.
  apply andb_true_iff in Hb. destruct Hb as [Hb1 Hb2].
  assert (Hp : 0 < prec f) by (destruct Hf; subst f; reflexivity).
  apply andb_true_iff. split.
  - eapply f_ge_complete; eauto.
  - eapply f_le_complete; eauto.
Qed.

Corollary conv_float_int_exact : forall f t v, (f = F32 \/ f = F64) -> ity_ok t -> valid f v ->
  Z_le_sf (ity_lo t) v -> sf_le_Z v (ity_hi t) ->
  conv_float_int f t v = f_trunc v.
Proof.
  intros f t v Hf Ht Hv Hlo Hhi. unfold conv_float_int.
  rewrite (float_cast_complete f t v); auto.
Qed.

(* the same hypotheses read on rationals *)
From Coq Require Import QArith.
Local Open Scope Z_scope.

Definition sf_Q (v : spec_float) : Q :=
  match v with
  | S754_finite s m e =>
      let sm := if s then Z.neg m else Z.pos m in
      if 0 <=? e then inject_Z (sm * 2 ^ e) else Qmake sm (Z.to_pos (2 ^ (- e)))
  | _ => 0%Q
  end.

Lemma Z_le_sf_Q : forall z v, is_finite v = true -> (Z_le_sf z v <-> (inject_Z z <= sf_Q v)%Q).
Proof.
  intros z v Hf. destruct v as [s | s | | s m e]; try discriminate.
  - cbn [Z_le_sf sf_Q]. unfold Qle, inject_Z; cbn [Qnum Qden]. lia.
  - cbn [Z_le_sf sf_Q]. cbv zeta. destruct (0 <=? e) eqn:E.
    + unfold Qle, inject_Z; cbn [Qnum Qden]. lia.
    + apply Z.leb_gt in E. unfold Qle, inject_Z; cbn [Qnum Qden].
      rewrite Z2Pos.id by (apply pow2_pos; lia). lia.
Qed.

Lemma sf_le_Z_Q : forall z v, is_finite v = true -> (sf_le_Z v z <-> (sf_Q v <= inject_Z z)%Q).
Proof.
  intros z v Hf. destruct v as [s | s | | s m e]; try discriminate.
  - cbn [sf_le_Z sf_Q]. unfold Qle, inject_Z; cbn [Qnum Qden]. lia.
  - cbn [sf_le_Z sf_Q]. cbv zeta. destruct (0 <=? e) eqn:E.
    + unfold Qle, inject_Z; cbn [Qnum Qden]. lia.
    + apply Z.leb_gt in E. unfold Qle, inject_Z; cbn [Qnum Qden].
      rewrite Z2Pos.id by (apply pow2_pos; lia). lia.
Qed.

Theorem float_cast_complete_Q : forall f t v, (f = F32 \/ f = F64) -> ity_ok t -> valid f v ->
  is_finite v = true ->
  (inject_Z (ity_lo t) <= sf_Q v)%Q -> (sf_Q v <= inject_Z (ity_hi t))%Q ->
  can_conv_float_int f t v = true /\ conv_float_int f t v = f_trunc v.
Proof.
  intros f t v Hf Ht Hv Hfin Hlo Hhi.
  apply Z_le_sf_Q in Hlo; auto. apply sf_le_Z_Q in Hhi; auto.
  split; [apply float_cast_complete | apply conv_float_int_exact]; auto.
Qed.

(* ------------------------------------------------------------------------------------------ *)
(* every bit pattern decodes to a valid value (so [valid] holds of anything read from storage) *)
(* ------------------------------------------------------------------------------------------ *)

Lemma digits2_pos_range : forall M k, 2 ^ (k - 1) <= Z.pos M < 2 ^ k -> Z.pos (digits2_pos M) = k.
Proof.
  intros M k [Hl Hu].
  pose proof (digits2_pos_lower M) as Dl. pose proof (digits2_pos_bound M) as Du.
  set (d := Z.pos (digits2_pos M)) in *. assert (0 < d) by (unfold d; lia).
  assert (0 < k).
  { destruct (Z.lt_trichotomy k 0) as [Hk | [Hk | Hk]]; [|subst k; cbn in Hu; lia | exact Hk].
    rewrite (Z.pow_neg_r 2 k) in Hu by lia. lia. }
  assert (d - 1 < k) by (apply (Z.pow_lt_mono_r_iff 2); lia).
  assert (k - 1 < d) by (apply (Z.pow_lt_mono_r_iff 2); lia).
  lia.
Qed.

Lemma digits2_pos_le : forall M k, 0 <= k -> Z.pos M < 2 ^ k -> Z.pos (digits2_pos M) <= k.
Proof.
  intros M k Hk Hu. pose proof (digits2_pos_lower M) as Dl.
  assert (Z.pos (digits2_pos M) - 1 < k) by (apply (Z.pow_lt_mono_r_iff 2); lia). lia.
Qed.

Theorem sf_of_bits_valid_gen : forall f x, 0 < mw f -> 2 <= ew f -> valid f (sf_of_bits f x).
Proof.
  intros f x Hmw Hew. unfold valid, sf_of_bits.
  assert (HE : 2 ^ ew f = 2 * 2 ^ (ew f - 1)).
  { replace (ew f) with (Z.succ (ew f - 1)) at 1 by lia. rewrite Z.pow_succ_r by lia. reflexivity. }
  assert (HE0 : 2 ^ 1 <= 2 ^ (ew f - 1)) by (apply Z.pow_le_mono_r; lia).
  change (2 ^ 1) with 2 in HE0.
  assert (HM0 : 0 < 2 ^ mw f) by (apply pow2_pos; lia).
  pose proof (Z.mod_pos_bound (x / 2 ^ mw f) (2 ^ ew f)) as He.
  pose proof (Z.mod_pos_bound x (2 ^ mw f) HM0) as Hm.
  set (e := (x / 2 ^ mw f) mod 2 ^ ew f) in *. set (m := x mod 2 ^ mw f) in *.
  set (sg := Z.odd (x / 2 ^ (mw f + ew f))).
  assert (He' : 0 <= e < 2 ^ ew f) by (apply He; lia). clear He.
  destruct (Z.eqb_spec e 0) as [E0 | E0].
  - destruct (Z.eqb_spec m 0) as [M0 | M0]; [reflexivity|].
    cbn [valid_binary]. unfold bounded, canonical_mantissa, fexp, femin, SpecFloat.emin, prec, emax.
    assert (Hd : Z.pos (digits2_pos (Z.to_pos m)) <= mw f).
    { apply digits2_pos_le; [lia|]. rewrite Z2Pos.id by lia. lia. }
    apply andb_true_iff. split.
    + apply Zeq_is_eq_bool. lia.
    + apply Z.leb_le. lia.
  - destruct (Z.eqb_spec e (2 ^ ew f - 1)) as [E1 | E1].
    + destruct (m =? 0); reflexivity.
    + cbn [valid_binary]. unfold bounded, canonical_mantissa, fexp, SpecFloat.emin, prec, emax, bias.
      assert (Hd : Z.pos (digits2_pos (Z.to_pos (m + 2 ^ mw f))) = mw f + 1).
      { apply digits2_pos_range. rewrite Z2Pos.id by lia.
        replace (mw f + 1 - 1) with (mw f) by lia. rewrite Z.pow_add_r by lia.
        change (2 ^ 1) with 2. lia. }
      rewrite Hd. apply andb_true_iff. split.
      * apply Zeq_is_eq_bool. lia.
      * apply Z.leb_le. lia.
Qed.

Corollary sf_of_bits_valid : forall f x, (f = F32 \/ f = F64) -> valid f (sf_of_bits f x).
Proof. intros f x [-> | ->]; apply sf_of_bits_valid_gen; cbn; lia. Qed.

Corollary float_cast_defined_bits : forall f t b, (f = F32 \/ f = F64) -> ity_ok t ->
  can_conv_float_int f t (sf_of_bits f b) = true ->
  ity_lo t <= f_trunc (sf_of_bits f b) <= ity_hi t.
Proof.
  intros f t b Hf Ht. apply (float_cast_defined f); auto. apply sf_of_bits_valid; auto.
Qed.

(* ------------------------------------------------------------------------------------------ *)
(* Part 2, end to end — literals  [sign] digits (e|E) [sign] digits                            *)
(* ------------------------------------------------------------------------------------------ *)

Definition digitb (b : N) : Prop := (48 <= b <= 57)%N.
Definition dec (l : list N) (acc : Z) : Z := fold_left (fun a b => a * 10 + digit_val b) l acc.

Lemma digitb_is_digit : forall b, digitb b -> is_digit b = true.
Proof.
  intros b [A B]. unfold is_digit. apply andb_true_intro. split; apply N.leb_le; assumption.
Qed.

Lemma dec_ge : forall l acc, Forall digitb l -> 0 <= acc -> acc <= dec l acc.
Proof.
  induction l as [|b t IH]; intros acc F Ha; cbn [dec fold_left]; [lia|].
  inversion F as [|? ? Hb F']; subst. pose proof (is_digit_val b (digitb_is_digit b Hb)) as Hd.
  pose proof (IH (acc * 10 + digit_val b) F' ltac:(lia)) as H. unfold dec in H. lia.
Qed.

Lemma scan_int_prefix : forall ds acc rest, Forall digitb ds -> 0 <= acc -> dec ds acc <= maxUint ->
  is_digit (hd0 rest) = false -> scan_int (ds ++ rest) acc = (dec ds acc, rest).
Proof.
  induction ds as [|b t IH]; intros acc rest F Ha Hv Hr.
  - cbn [app dec fold_left]. destruct rest as [|r rest']; [reflexivity|].
    cbn [hd0] in Hr. cbn [scan_int]. rewrite Hr. reflexivity.
  - inversion F as [|? ? Hb F']; subst. cbn [app scan_int dec fold_left].
    rewrite (digitb_is_digit b Hb).
    pose proof (is_digit_val b (digitb_is_digit b Hb)) as Hd.
    cbn [dec fold_left] in Hv.
    pose proof (dec_ge t (acc * 10 + digit_val b) F' ltac:(lia)) as G. unfold dec in G.
    assert (Hmax : maxUint = 18446744073709551615) by reflexivity.
    rewrite Hmax in *.
    change (18446744073709551615 / 10) with 1844674407370955161.
    destruct (Z.gtb_spec acc 1844674407370955161) as [X|X]; [lia|].
    destruct (Z.gtb_spec (acc * 10) (18446744073709551615 - digit_val b)) as [Y|Y]; [lia|].
    apply IH; auto. lia.
Qed.

(* the saturating exponent accumulator *)
Definition exp_of (es : list N) : Z := fst (scan_exp es 0).

Lemma scan_exp_digits : forall es e0, Forall digitb es -> 0 <= e0 ->
  snd (scan_exp es e0) = [] /\
  (dec es e0 < 10000 -> fst (scan_exp es e0) = dec es e0) /\
  (10000 <= dec es e0 -> 10000 <= fst (scan_exp es e0)).
Proof.
  induction es as [|b t IH]; intros e0 F He0.
  - cbn [scan_exp dec fold_left fst snd]. repeat split; auto.
  - inversion F as [|? ? Hb F']; subst. cbn [scan_exp dec fold_left].
    rewrite (digitb_is_digit b Hb).
    pose proof (is_digit_val b (digitb_is_digit b Hb)) as Hd.
    destruct (Z.ltb_spec e0 10000) as [Hlt | Hge].
    + apply IH; auto. lia.
    + destruct (IH e0 F' He0) as [I1 [I2 I3]].
      pose proof (dec_ge t e0 F' He0) as G1.
      pose proof (dec_ge t (e0 * 10 + digit_val b) F' ltac:(lia)) as G2. unfold dec in *.
      split; [exact I1|]. split; [lia|]. intros _. 
      destruct (Z.lt_ge_cases (fold_left (fun a b0 => a * 10 + digit_val b0) t e0) 10000); lia.
Qed.

Lemma exp_of_small : forall es, Forall digitb es -> dec es 0 < 10000 -> exp_of es = dec es 0.
Proof. intros es F H. unfold exp_of. apply (scan_exp_digits es 0 F (Z.le_refl 0)); exact H. Qed.

Lemma exp_of_large : forall es, Forall digitb es -> 10000 <= dec es 0 -> 10000 <= exp_of es.
Proof. intros es F H. unfold exp_of. apply (scan_exp_digits es 0 F (Z.le_refl 0)); exact H. Qed.

Lemma exp_of_ge : forall es k, Forall digitb es -> k <= 10000 -> k <= dec es 0 -> k <= exp_of es.
Proof.
  intros es k F Hk H. destruct (Z.lt_ge_cases (dec es 0) 10000) as [L|G].
  - rewrite exp_of_small; auto.
  - pose proof (exp_of_large es F G). lia.
Qed.

Lemma scan_exp_all : forall es, Forall digitb es -> scan_exp es 0 = (exp_of es, []).
Proof.
  intros es F. unfold exp_of. destruct (scan_exp_digits es 0 F (Z.le_refl 0)) as [H _].
  destruct (scan_exp es 0) as [e r]. cbn [fst snd] in *. subst r. reflexivity.
Qed.

Definition mant_max_of (c : cfg) : Z := if use_double c then 2 ^ 52 - 1 else 2 ^ 23 - 1.

Definition sign_bytes (sg : option bool) : bytes :=
  match sg with None => [] | Some true => [45%N] | Some false => [43%N] end.
Definition sign_neg (sg : option bool) : bool := match sg with Some true => true | _ => false end.

Lemma shrink_noop : forall n mm m e, m <= mm -> shrink_mantissa n mm m e = (m, e).
Proof.
  intros n mm m e H. destruct n; cbn [shrink_mantissa]; [reflexivity|].
  destruct (Z.gtb_spec m mm); [lia | reflexivity].
Qed.

Lemma digit_ne : forall b x, digitb b -> (57 < x)%N -> (b =? x)%N = false.
Proof. intros b x [A B] H. apply N.eqb_neq. lia. Qed.

Definition exp_sign (t : bytes) : bool * bytes :=
  match t with
  | 45%N :: t' => (true, t')
  | 43%N :: t' => (false, t')
  | _ => (false, t)
  end.

Lemma exp_sign_bytes : forall esg es, Forall digitb es ->
  exp_sign (sign_bytes esg ++ es) = (sign_neg esg, es).
Proof.
  intros esg es F. destruct esg as [[|]|]; cbn [sign_bytes app sign_neg]; try reflexivity.
  destruct es as [|d es']; [reflexivity|].
  inversion F as [|? ? [A B] _]; subst.
  assert (K : (d = 48 \/ d = 49 \/ d = 50 \/ d = 51 \/ d = 52 \/ d = 53 \/ d = 54 \/ d = 55 \/
              d = 56 \/ d = 57)%N) by lia.
  destruct K as [->|[->|[->|[->|[->|[->|[->|[->|[->| ->]]]]]]]]]; reflexivity.
Qed.

Lemma parse_exp_lit_signed : forall c (neg : bool) b t eb (esg : option bool) es,
  Forall digitb (b :: t) -> dec (b :: t) 0 <= mant_max_of c -> (eb = 101 \/ eb = 69)%N ->
  Forall digitb es ->
  parse_number c ((if neg then 45%N else 43%N) :: (b :: t) ++ eb :: sign_bytes esg ++ es)
  = finish c neg (dec (b :: t) 0) (if sign_neg esg then - exp_of es else exp_of es).
Proof.
  intros c neg b t eb esg es F Hm Heb Fe.
  assert (Hb : digitb b) by (inversion F; assumption).
  assert (Hnd : is_digit eb = false) by (destruct Heb; subst eb; reflexivity).
  assert (Hmm : dec (b :: t) 0 <= maxUint).
  { eapply Z.le_trans; [exact Hm|]. unfold mant_max_of. destruct (use_double c); vm_compute; discriminate. }
  pose proof (scan_int_prefix (b :: t) 0 (eb :: sign_bytes esg ++ es) F (Z.le_refl 0) Hmm Hnd) as Hs.
  rewrite parse_number_alt_eq. unfold parse_number_alt.
  fold (mant_max_of c).
  destruct neg; cbv iota beta; cbn [hd0 app].
  all: rewrite !(digit_ne b _ Hb) by lia; rewrite (digitb_is_digit b Hb); cbn [negb orb andb];
    rewrite !andb_false_r; cbn [app] in Hs; rewrite Hs; cbv iota beta;
    rewrite shrink_noop by exact Hm; cbv iota beta; cbn [skip_digits]; rewrite Hnd; cbv iota beta.
  all: destruct Heb; subst eb; cbv iota beta; cbn [N.eqb Pos.eqb orb]; cbv iota;
    change (match sign_bytes esg ++ es with
            | 43%N :: t1 => (false, t1)
            | 45%N :: t2 => (true, t2)
            | _ => (false, sign_bytes esg ++ es)
            end) with (exp_sign (sign_bytes esg ++ es));
    rewrite (exp_sign_bytes esg es Fe); cbv iota beta;
    rewrite (scan_exp_all es Fe); cbv iota beta; unfold go_tail; rewrite Z.add_0_r; reflexivity.
Qed.

(* a literal that starts with a digit carries no sign *)
Lemma parse_number_plus_head : forall c b t, digitb b ->
  parse_number c (b :: t) = parse_number c (43%N :: b :: t).
Proof.
  intros c b t [A B].
  assert (K : (b = 48 \/ b = 49 \/ b = 50 \/ b = 51 \/ b = 52 \/ b = 53 \/ b = 54 \/ b = 55 \/
              b = 56 \/ b = 57)%N) by lia.
  destruct K as [->|[->|[->|[->|[->|[->|[->|[->|[->| ->]]]]]]]]]; reflexivity.
Qed.

(* [sign] digits (e|E) [sign] digits, with a mantissa that fits the significand: the result is the
   classification of (sign, value of the digits, saturated exponent) *)
Theorem parse_exp_literal : forall c (sg : option bool) ds eb (esg : option bool) es,
  Forall digitb ds -> ds <> [] -> dec ds 0 <= mant_max_of c -> (eb = 101 \/ eb = 69)%N ->
  Forall digitb es ->
  parse_number c (sign_bytes sg ++ ds ++ eb :: sign_bytes esg ++ es)
  = finish c (sign_neg sg) (dec ds 0) (if sign_neg esg then - exp_of es else exp_of es).
Proof.
  intros c sg ds eb esg es F Hne Hm Heb Fe.
  destruct ds as [|b t]; [contradiction|].
  assert (Hb : digitb b) by (inversion F; assumption).
  destruct sg as [[|]|]; cbn [sign_bytes sign_neg app].
  - apply (parse_exp_lit_signed c true b t eb esg es); auto.
  - apply (parse_exp_lit_signed c false b t eb esg es); auto.
  - rewrite parse_number_plus_head by exact Hb.
    apply (parse_exp_lit_signed c false b t eb esg es); auto.
Qed.

Lemma dec_nonneg : forall ds, Forall digitb ds -> 0 <= dec ds 0.
Proof. intros ds F. apply (dec_ge ds 0 F (Z.le_refl 0)). Qed.

(* zero stays zero whatever the exponent *)
Corollary zero_mantissa_literal : forall c sg ds eb esg es,
  Forall digitb ds -> ds <> [] -> dec ds 0 = 0 -> (eb = 101 \/ eb = 69)%N -> Forall digitb es ->
  parse_number c (sign_bytes sg ++ ds ++ eb :: sign_bytes esg ++ es) = NumFloat (S754_zero (sign_neg sg)).
Proof.
  intros c sg ds eb esg es F Hne H0 Heb Fe. rewrite parse_exp_literal; auto.
  - rewrite H0. apply finish_zero.
  - rewrite H0. unfold mant_max_of. destruct (use_double c); vm_compute; discriminate.
Qed.

(* an exponent above the format's decimal range gives an infinity of the literal's sign, never a
   finite value (the saturation of the exponent accumulator keeps arbitrarily long exponents huge) *)
Corollary huge_exponent_literal : forall c sg ds eb esg es,
  Forall digitb ds -> 0 < dec ds 0 <= mant_max_of c -> (eb = 101 \/ eb = 69)%N -> Forall digitb es ->
  sign_neg esg = false -> exp_max_of c < dec es 0 ->
  parse_number c (sign_bytes sg ++ ds ++ eb :: sign_bytes esg ++ es)
  = mk_jfloat c (S754_infinity (sign_neg sg)).
Proof.
  intros c sg ds eb esg es F Hm Heb Fe Hsg He.
  assert (Hne : ds <> []) by (intros ->; cbn in Hm; lia).
  rewrite parse_exp_literal; auto; [|lia]. rewrite Hsg.
  apply finish_huge; [lia|].
  assert (exp_max_of c + 1 <= exp_of es); [|lia].
  apply exp_of_ge; auto; [|lia]. unfold exp_max_of. destruct (use_double c); lia.
Qed.

(* an exponent far below the format's decimal range gives a zero of the literal's sign *)
Corollary tiny_exponent_literal : forall c sg ds eb esg es,
  Forall digitb ds -> 0 < dec ds 0 <= mant_max_of c -> (eb = 101 \/ eb = 69)%N -> Forall digitb es ->
  sign_neg esg = true -> exp_max_of c + 20 < dec es 0 ->
  parse_number c (sign_bytes sg ++ ds ++ eb :: sign_bytes esg ++ es)
  = NumFloat (S754_zero (sign_neg sg)).
Proof.
  intros c sg ds eb esg es F Hm Heb Fe Hsg He.
  assert (Hne : ds <> []) by (intros ->; cbn in Hm; lia).
  rewrite parse_exp_literal; auto; [|lia]. rewrite Hsg.
  apply finish_tiny; [lia|].
  assert (exp_max_of c + 21 <= exp_of es); [|lia].
  apply exp_of_ge; auto; [|lia]. unfold exp_max_of. destruct (use_double c); lia.
Qed.

(* concrete instances *)
Example ex_1e400 : parse_number default_cfg [49; 101; 52; 48; 48]%N = NumDouble (S754_infinity false).
Proof. reflexivity. Qed.
Example ex_m1e400 : parse_number default_cfg [45; 49; 101; 52; 48; 48]%N = NumDouble (S754_infinity true).
Proof. reflexivity. Qed.
Example ex_1em400 : parse_number default_cfg [49; 101; 45; 52; 48; 48]%N = NumFloat (S754_zero false).
Proof. reflexivity. Qed.
Example ex_0e999999 : parse_number default_cfg [48; 101; 57; 57; 57; 57; 57; 57]%N = NumFloat (S754_zero false).
Proof. reflexivity. Qed.
