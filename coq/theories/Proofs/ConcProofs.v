(* ConcProofs.v — any interleaving of per-thread histories over disjoint documents ends in the same
   per-thread state and returns the same per-thread results as running each thread alone (C20). *)
From Coq Require Import NArith List Bool Lia PeanoNat.
From AJ Require Import Model.Base Model.Value Model.Tree Model.Conc.

Lemma nth_set_nth_same : forall l k w w0, nth_error l k = Some w0 -> nth_error (set_nth l k w) k = Some w.
Proof.
  induction l as [|x l IH]; intros [|k] w w0 H; cbn in *; try discriminate; auto.
  eapply IH; eauto.
Qed.

Lemma nth_set_nth_other : forall l k j w, j <> k -> nth_error (set_nth l k w) j = nth_error l j.
Proof.
  induction l as [|x l IH]; intros k j w H.
  - destruct k; reflexivity.
  - destruct k as [|k], j as [|j]; cbn; try reflexivity; try congruence.
    apply IH. congruence.
Qed.

Lemma length_set_nth : forall l k w, length (set_nth l k w) = length l.
Proof. induction l as [|x l IH]; intros [|k] w; cbn; auto. Qed.

(* one step of thread t touches thread t's world only *)
Lemma sys_step_other : forall shared s t o s' r j, sys_step shared s t o = (s', r) -> j <> t ->
  nth_error s' j = nth_error s j.
Proof.
  intros shared s t o s' r j H Hj. unfold sys_step in H.
  destruct (nth_error s t) as [w|] eqn:E.
  - destruct (cstep shared w o) as [w' r']. injection H as <- <-. apply nth_set_nth_other. exact Hj.
  - injection H as <- <-. reflexivity.
Qed.

Lemma sys_step_same : forall shared s t o s' r w, sys_step shared s t o = (s', r) -> nth_error s t = Some w ->
  nth_error s' t = Some (fst (cstep shared w o)) /\ r = snd (cstep shared w o).
Proof.
  intros shared s t o s' r w H E. unfold sys_step in H. rewrite E in H.
  destruct (cstep shared w o) as [w' r'] eqn:C. injection H as <- <-. cbn.
  split; [eapply nth_set_nth_same; eauto | reflexivity].
Qed.

Definition results_of (t : nat) (rs : list (nat * result)) : list result :=
  map snd (filter (fun e => Nat.eqb (fst e) t) rs).

(* the main statement, for one thread *)
Theorem interleaving_invisible_thread : forall shared sch s t w,
  nth_error s t = Some w ->
  let '(s', rs) := run_schedule shared s sch in
  let '(w', rt) := run_thread shared w (project_thread t sch) in
  nth_error s' t = Some w' /\ results_of t rs = rt.
Proof.
  intros shared sch. induction sch as [|[u o] rest IH]; intros s t w E.
  - cbn. auto.
  - cbn [run_schedule].
    destruct (sys_step shared s u o) as [s1 r] eqn:S1.
    destruct (run_schedule shared s1 rest) as [s2 rs] eqn:R.
    unfold project_thread. cbn [filter fst]. fold (project_thread t rest).
    unfold results_of. cbn [filter fst map snd].
    destruct (Nat.eqb u t) eqn:Eut.
    + apply Nat.eqb_eq in Eut. subst u.
      destruct (sys_step_same _ _ _ _ _ _ _ S1 E) as [E1 Er].
      cbn [map snd run_thread].
      destruct (cstep shared w o) as [w1 r1] eqn:C. cbn [fst snd] in *.
      specialize (IH s1 t w1 E1). rewrite R in IH.
      destruct (run_thread shared w1 (project_thread t rest)) as [w2 rt] eqn:T.
      unfold project_thread in T. rewrite T.
      destruct IH as [A B]. split; [exact A|]. subst r. f_equal. exact B.
    + apply Nat.eqb_neq in Eut.
      assert (E1 : nth_error s1 t = Some w).
      { rewrite (sys_step_other _ _ _ _ _ _ t S1); [exact E | congruence]. }
      specialize (IH s1 t w E1). rewrite R in IH.
      destruct (run_thread shared w (project_thread t rest)) as [w2 rt] eqn:T.
      unfold project_thread in T. rewrite T. exact IH.
Qed.

(* two schedules with the same per-thread histories are indistinguishable to every thread *)
Corollary any_two_interleavings_agree : forall shared sch1 sch2 s t w,
  nth_error s t = Some w ->
  project_thread t sch1 = project_thread t sch2 ->
  nth_error (fst (run_schedule shared s sch1)) t = nth_error (fst (run_schedule shared s sch2)) t /\
  results_of t (snd (run_schedule shared s sch1)) = results_of t (snd (run_schedule shared s sch2)).
Proof.
  intros shared sch1 sch2 s t w E P.
  pose proof (interleaving_invisible_thread shared sch1 s t w E) as H1.
  pose proof (interleaving_invisible_thread shared sch2 s t w E) as H2.
  destruct (run_schedule shared s sch1) as [s1 r1]. destruct (run_schedule shared s sch2) as [s2 r2].
  rewrite P in H1.
  destruct (run_thread shared w (project_thread t sch2)) as [w' rt].
  destruct H1 as [A1 B1]. destruct H2 as [A2 B2]. cbn [fst snd]. split; [rewrite A1, A2 | rewrite B1, B2]; reflexivity.
Qed.

(* a step never changes the number of threads, and a thread that does not exist does nothing *)
Lemma sys_step_length : forall shared s t o s' r, sys_step shared s t o = (s', r) -> length s' = length s.
Proof.
  intros shared s t o s' r H. unfold sys_step in H. destruct (nth_error s t) as [w|].
  - destruct (cstep shared w o). injection H as <- <-. apply length_set_nth.
  - injection H as <- <-. reflexivity.
Qed.
