(* CopyArrayProofs.v — copyArray never writes beyond the destination it was given (C13). *)
From Coq Require Import ZArith NArith List Bool Lia.
From AJ Require Import Model.Base Model.Value Model.Convert.
Import ListNotations.

Lemma nth_error_firstn_lt : forall (A : Type) (l : list A) n i, (i < n)%nat ->
  nth_error (firstn n l) i = nth_error l i.
Proof.
  intros A l. induction l as [|x l IH]; intros n i H.
  - rewrite firstn_nil. reflexivity.
  - destruct n as [|n]; [lia|]. destruct i as [|i]; [reflexivity|]. cbn [firstn nth_error]. apply IH. lia.
Qed.

Lemma copy_1d_length : forall c t src dst, length (fst (copy_array_1d c t src dst)) = length dst.
Proof.
  intros c t src dst. unfold copy_array_1d. cbn [fst].
  rewrite app_length, map_length, firstn_length, skipn_length.
  pose proof (Nat.le_min_l (length (elems_of src)) (length dst)).
  pose proof (Nat.le_min_r (length (elems_of src)) (length dst)). lia.
Qed.

(* elements at and beyond the returned count are untouched *)
Lemma copy_1d_tail : forall c t src dst,
  let n := snd (copy_array_1d c t src dst) in
  skipn n (fst (copy_array_1d c t src dst)) = skipn n dst.
Proof.
  intros c t src dst. unfold copy_array_1d. cbn [fst snd].
  set (n := Nat.min (length (elems_of src)) (length dst)).
  assert (Hl : length (map (as_int c t) (firstn n (elems_of src))) = n).
  { rewrite map_length, firstn_length. subst n. pose proof (Nat.le_min_l (length (elems_of src)) (length dst)). lia. }
  rewrite skipn_app, Hl, Nat.sub_diag. cbn [skipn].
  rewrite <- Hl at 1. rewrite skipn_all. reflexivity.
Qed.

Lemma copy_1d_count : forall c t src dst,
  snd (copy_array_1d c t src dst) = Nat.min (length (elems_of src)) (length dst).
Proof. reflexivity. Qed.

(* the copied part: element i < count is as<T>() of the i-th source element *)
Lemma copy_1d_head : forall c t src dst i, (i < snd (copy_array_1d c t src dst))%nat ->
  nth_error (fst (copy_array_1d c t src dst)) i = option_map (as_int c t) (nth_error (elems_of src) i).
Proof.
  intros c t src dst i Hi. unfold copy_array_1d in *. cbn [fst snd] in *.
  set (n := Nat.min (length (elems_of src)) (length dst)) in *.
  assert (Hn : (n <= length (elems_of src))%nat) by (subst n; apply Nat.le_min_l).
  rewrite nth_error_app1 by (rewrite map_length, firstn_length; lia).
  rewrite nth_error_map. f_equal. apply nth_error_firstn_lt. exact Hi.
Qed.

Lemma copy_rows_length : forall c t src dst, length (copy_rows c t src dst) = length dst.
Proof.
  intros c t src. induction src as [|e src IH]; intros dst; [reflexivity|].
  destruct dst as [|row dst]; [reflexivity|]. cbn [copy_rows length]. rewrite IH. reflexivity.
Qed.

(* every row keeps its length: nothing is written beyond a row, nor beyond the rows *)
Lemma copy_rows_row_lengths : forall c t src dst,
  map (@length Z) (copy_rows c t src dst) = map (@length Z) dst.
Proof.
  intros c t src. induction src as [|e src IH]; intros dst; [reflexivity|].
  destruct dst as [|row dst]; [reflexivity|]. cbn [copy_rows map]. rewrite copy_1d_length, IH. reflexivity.
Qed.

(* rows beyond the source are untouched *)
Lemma copy_rows_tail : forall c t src dst,
  skipn (length src) (copy_rows c t src dst) = skipn (length src) dst.
Proof.
  intros c t src. induction src as [|e src IH]; intros dst; [reflexivity|].
  destruct dst as [|row dst]; [reflexivity|]. cbn [copy_rows length skipn]. apply IH.
Qed.

Lemma copy_string_length : forall src dst, (1 <= length dst)%nat -> length (copy_string src dst) = length dst.
Proof.
  intros src dst H. unfold copy_string.
  set (s := match src with JStr s => s | _ => [] end).
  set (len := Nat.min (length dst - 1) (length s)).
  assert (H1 : (len <= length dst - 1)%nat) by (subst len; apply Nat.le_min_l).
  assert (H2 : (len <= length s)%nat) by (subst len; apply Nat.le_min_r).
  rewrite !app_length, firstn_length, skipn_length. cbn [length]. lia.
Qed.

(* the result is NUL-terminated inside the destination, and what precedes the NUL is a prefix of the string *)
Lemma copy_string_terminated : forall src dst, (1 <= length dst)%nat ->
  exists len, (len <= length dst - 1)%nat /\ nth_error (copy_string src dst) len = Some 0%N /\
    firstn len (copy_string src dst) = firstn len (match src with JStr s => s | _ => [] end).
Proof.
  intros src dst H. unfold copy_string.
  set (s := match src with JStr s => s | _ => [] end).
  set (len := Nat.min (length dst - 1) (length s)).
  assert (H1 : (len <= length dst - 1)%nat) by (subst len; apply Nat.le_min_l).
  assert (H2 : (len <= length s)%nat) by (subst len; apply Nat.le_min_r).
  assert (Hl : length (firstn len s) = len) by (rewrite firstn_length; lia).
  exists len. split; [exact H1|]. split.
  - rewrite nth_error_app2 by lia. rewrite Hl, Nat.sub_diag. reflexivity.
  - rewrite firstn_app, Hl, Nat.sub_diag. cbn [firstn]. rewrite app_nil_r.
    rewrite <- Hl at 1. rewrite firstn_all. reflexivity.
Qed.
