(* ParseDepth.v — the nesting limit of the JSON reader model:
   an Ok document never nests deeper than the limit, raising the limit only removes TooDeep,
   and a tower of L+1 opening brackets is refused when the (L+1)-th one is met. *)
From Coq Require Import NArith ZArith List Bool Lia.
From AJ Require Import Model.Base Model.Value Model.Utf Model.NumParse Model.JsonParse.
From AJ Require Import Proofs.Lex Spec.ParseSpec.
Local Open Scope N_scope.

(* ------------------------------------------------------------------------------------- *)
(* maximum nesting of the elements / members of a container *)
Definition maxn (l : list jv) : nat := fold_right (fun x m => Nat.max (nesting x) m) 0%nat l.
Definition maxo (l : list (bytes * jv)) : nat :=
  fold_right (fun x m => Nat.max (nesting (snd x)) m) 0%nat l.

Lemma nesting_arr : forall l, nesting (JArr l) = S (maxn l).
Proof. reflexivity. Qed.
Lemma nesting_obj : forall l, nesting (JObj l) = S (maxo l).
Proof. reflexivity. Qed.

Lemma maxn_snoc : forall acc v n,
  (maxn acc <= n)%nat -> (nesting v <= n)%nat -> (maxn (acc ++ [v]) <= n)%nat.
Proof.
  induction acc as [|a acc IH]; intros v n Ha Hv.
  - unfold maxn; cbn [app fold_right]. lia.
  - unfold maxn in *; cbn [app fold_right] in *.
    assert (X := IH v n). lia.
Qed.

Lemma maxo_set : forall acc k v n,
  (maxo acc <= n)%nat -> (nesting v <= n)%nat -> (maxo (assoc_set k v acc) <= n)%nat.
Proof.
  induction acc as [|[k' v'] acc IH]; intros k v n Ha Hv.
  - unfold maxo; cbn [assoc_set fold_right snd]. lia.
  - cbn [assoc_set]. unfold maxo in *. destruct (bytes_eqb k k').
    + cbn [fold_right snd] in *. lia.
    + cbn [fold_right snd] in *. assert (X := IH k v n). lia.
Qed.

(* ------------------------------------------------------------------------------------- *)
(* One-step unfoldings of the container loops, with the local continuations named. *)

Definition arr_step (cf : cfg) (k : list jv -> ps -> code * jv * ps) (fuel' : nat)
  (acc : list jv) (s : ps) : code * jv * ps :=
  match skip_spaces cf fuel' s with
  | (Ok, s) =>
      let '(b, s) := eat 93 s in
      if b then (Ok, JArr acc, s)
      else
        let '(b, s) := eat 44 s in
        if b then k acc s else (InvalidInput, JArr acc, s)
  | (e, s) => (e, JArr acc, s)
  end.

Lemma array_loop_S : forall cf pv sv fuel' ef acc s,
  array_loop cf pv sv (S fuel') ef acc s =
  if f_allow ef then
    match pv ef s with
    | (Ok, v, s) => arr_step cf (array_loop cf pv sv fuel' ef) fuel' (acc ++ [v]) s
    | (e, v, s) => (e, JArr (acc ++ [v]), s)
    end
  else
    match sv s with
    | (Ok, s) => arr_step cf (array_loop cf pv sv fuel' ef) fuel' acc s
    | (e, s) => (e, JArr acc, s)
    end.
Proof. reflexivity. Qed.

Definition sarr_step (cf : cfg) (k : ps -> code * ps) (fuel' : nat) (s : ps) : code * ps :=
  match skip_spaces cf fuel' s with
  | (Ok, s) =>
      let '(b, s) := eat 93 s in
      if b then (Ok, s)
      else
        let '(b, s) := eat 44 s in
        if b then k s else (InvalidInput, s)
  | r => r
  end.

Lemma skip_array_loop_S : forall cf sv fuel' s,
  skip_array_loop cf sv (S fuel') s =
  match sv s with
  | (Ok, s) => sarr_step cf (skip_array_loop cf sv fuel') fuel' s
  | r => r
  end.
Proof. reflexivity. Qed.

Definition obj_after (cf : cfg) (k : list (bytes * jv) -> ps -> code * jv * ps) (fuel' : nat)
  (acc : list (bytes * jv)) (s : ps) : code * jv * ps :=
  match skip_spaces cf fuel' s with
  | (Ok, s) =>
      let '(b, s) := eat 125 s in
      if b then (Ok, JObj acc, s)
      else
        let '(b, s) := eat 44 s in
        if negb b then (InvalidInput, JObj acc, s)
        else
          match skip_spaces cf fuel' s with
          | (Ok, s) => k acc s
          | (e, s) => (e, JObj acc, s)
          end
  | (e, s) => (e, JObj acc, s)
  end.

Lemma object_loop_S : forall cf pv sv fuel' f acc s,
  object_loop cf pv sv (S fuel') f acc s =
  match parse_key cf fuel' s with
  | (Ok, key, s) =>
      match skip_spaces cf fuel' s with
      | (Ok, s) =>
          let '(b, s) := eat 58 s in
          if negb b then (InvalidInput, JObj acc, s)
          else
            if f_allow (f_member f key) then
              match pv (f_member f key) s with
              | (Ok, v, s) =>
                  obj_after cf (object_loop cf pv sv fuel' f) fuel' (assoc_set key v acc) s
              | (e, v, s) => (e, JObj (assoc_set key v acc), s)
              end
            else
              match sv s with
              | (Ok, s) => obj_after cf (object_loop cf pv sv fuel' f) fuel' acc s
              | (e, s) => (e, JObj acc, s)
              end
      | (e, s) => (e, JObj acc, s)
      end
  | (e, _, s) => (e, JObj acc, s)
  end.
Proof. reflexivity. Qed.

Definition sobj_after (cf : cfg) (k : ps -> code * ps) (fuel' : nat) (s : ps) : code * ps :=
  match skip_spaces cf fuel' s with
  | (Ok, s) =>
      let '(b, s) := eat 125 s in
      if b then (Ok, s)
      else
        let '(b, s) := eat 44 s in
        if negb b then (InvalidInput, s)
        else
          match skip_spaces cf fuel' s with
          | (Ok, s) => k s
          | r => r
          end
  | r => r
  end.

Lemma skip_object_loop_S : forall cf sv fuel' s,
  skip_object_loop cf sv (S fuel') s =
  match skip_key fuel' s with
  | (Ok, s) =>
      match skip_spaces cf fuel' s with
      | (Ok, s) =>
          let '(b, s) := eat 58 s in
          if negb b then (InvalidInput, s)
          else
            match sv s with
            | (Ok, s) => sobj_after cf (skip_object_loop cf sv fuel') fuel' s
            | r => r
            end
      | r => r
      end
  | r => r
  end.
Proof. reflexivity. Qed.

(* ------------------------------------------------------------------------------------- *)
(* parse_variant / skip_variant at budget L, written over the callees at budget L-1 *)

Definition svL (cf : cfg) (fuel L : nat) : ps -> code * ps :=
  match L with O => (fun s => (TooDeep, s)) | S L' => skip_variant cf fuel L' end.
Definition pvL (cf : cfg) (fuel L : nat) : filter -> ps -> code * jv * ps :=
  match L with O => (fun _ s => (TooDeep, JNull, s)) | S L' => parse_variant cf fuel L' end.
Definition deepL (L : nat) : bool := match L with O => true | S _ => false end.

Definition lift (r : code * ps) : code * jv * ps := let '(e, s) := r in (e, JNull, s).

Definition sv_body (cf : cfg) (fuel : nat) (deep : bool) (sv' : ps -> code * ps) (s : ps)
  : code * ps :=
  match skip_spaces cf fuel s with
  | (Ok, s) =>
      let '(c, s) := current s in
      if c =? 91 then
        if deep then (TooDeep, s) else skip_array_loop cf sv' fuel (move s)
      else if c =? 123 then
        if deep then (TooDeep, s)
        else
          match skip_spaces cf fuel (move s) with
          | (Ok, s) =>
              let '(b, s) := eat 125 s in
              if b then (Ok, s) else skip_object_loop cf sv' fuel s
          | r => r
          end
      else if is_quote c then skip_quoted_string fuel s
      else if c =? 116 then skip_keyword kw_true s
      else if c =? 102 then skip_keyword kw_false s
      else if c =? 110 then skip_keyword kw_null s
      else skip_numeric_loop cf fuel s
  | r => r
  end.

Lemma skip_variant_body : forall cf fuel L s,
  skip_variant cf fuel L s = sv_body cf fuel (deepL L) (svL cf fuel L) s.
Proof. intros cf fuel L s. destruct L; reflexivity. Qed.

(* the part of parse_variant that handles scalars *)
Definition pv_scalar (cf : cfg) (fuel : nat) (f : filter) (c : N) (s : ps) : code * jv * ps :=
  if is_quote c then
    if f_allow_value f then
      match parse_quoted_string cf fuel s with
      | (Ok, str, s) => (Ok, JStr str, s)
      | (e, _, s) => (e, JNull, s)
      end
    else lift (skip_quoted_string fuel s)
  else if c =? 116 then
    let '(e, s) := skip_keyword kw_true s in
    (e, (if f_allow_value f then JBool true else JNull), s)
  else if c =? 102 then
    let '(e, s) := skip_keyword kw_false s in
    (e, (if f_allow_value f then JBool false else JNull), s)
  else if c =? 110 then lift (skip_keyword kw_null s)
  else if f_allow_value f then parse_numeric_value cf s
  else lift (skip_numeric_loop cf fuel s).

Definition pv_body (cf : cfg) (fuel : nat) (deep : bool)
  (pv' : filter -> ps -> code * jv * ps) (sv' : ps -> code * ps) (sk : ps -> code * ps)
  (f : filter) (s : ps) : code * jv * ps :=
  match skip_spaces cf fuel s with
  | (Ok, s) =>
      let '(c, s) := current s in
      if c =? 91 then
        if f_allow_array f then
          if deep then (TooDeep, JArr [], s)
          else
            match skip_spaces cf fuel (move s) with
            | (Ok, s) =>
                let '(b, s) := eat 93 s in
                if b then (Ok, JArr [], s)
                else array_loop cf pv' sv' fuel (f_element f) [] s
            | (e, s) => (e, JArr [], s)
            end
        else lift (sk s)
      else if c =? 123 then
        if f_allow_object f then
          if deep then (TooDeep, JObj [], s)
          else
            match skip_spaces cf fuel (move s) with
            | (Ok, s) =>
                let '(b, s) := eat 125 s in
                if b then (Ok, JObj [], s)
                else object_loop cf pv' sv' fuel f [] s
            | (e, s) => (e, JObj [], s)
            end
        else lift (sk s)
      else pv_scalar cf fuel f c s
  | (e, s) => (e, JNull, s)
  end.

Lemma parse_variant_body : forall cf fuel L f s,
  parse_variant cf fuel L f s =
  pv_body cf fuel (deepL L) (pvL cf fuel L) (svL cf fuel L) (skip_variant cf fuel L) f s.
Proof. intros cf fuel L f s. destruct L; reflexivity. Qed.

(* ------------------------------------------------------------------------------------- *)
(* (1) an Ok document never nests deeper than the limit *)

Section Nest.
  Variable cf : cfg.
  Variable pv : filter -> ps -> code * jv * ps.
  Variable sv : ps -> code * ps.
  Variable n : nat.
  Hypothesis Hpv : forall f s v s', pv f s = (Ok, v, s') -> (nesting v <= n)%nat.

  Lemma arr_step_nesting : forall k fuel' acc s v s',
    (forall acc s v s', (maxn acc <= n)%nat -> k acc s = (Ok, v, s') -> (nesting v <= S n)%nat) ->
    (maxn acc <= n)%nat -> arr_step cf k fuel' acc s = (Ok, v, s') -> (nesting v <= S n)%nat.
  Proof.
    intros k fuel' acc s v s' Hk Ha H. unfold arr_step in H.
    destruct (skip_spaces cf fuel' s) as [e1 s1]. destruct e1; try discriminate H.
    destruct (eat 93 s1) as [b s2]. destruct b.
    - inversion H; subst. rewrite nesting_arr. lia.
    - destruct (eat 44 s2) as [b s3]. destruct b; [|discriminate H].
      eapply Hk; eauto.
  Qed.

  Lemma array_loop_nesting : forall fuel ef acc s v s',
    (maxn acc <= n)%nat -> array_loop cf pv sv fuel ef acc s = (Ok, v, s') ->
    (nesting v <= S n)%nat.
  Proof.
    induction fuel as [|fuel' IH]; intros ef acc s v s' Ha H.
    - discriminate H.
    - rewrite array_loop_S in H. destruct (f_allow ef).
      + destruct (pv ef s) as [[e1 v1] s1] eqn:E1. destruct e1; try discriminate H.
        eapply arr_step_nesting; [| |exact H].
        * intros; eapply IH; eauto.
        * apply maxn_snoc; [exact Ha|]. eapply Hpv; eauto.
      + destruct (sv s) as [e1 s1]. destruct e1; try discriminate H.
        eapply arr_step_nesting; [| |exact H]; [|exact Ha].
        intros; eapply IH; eauto.
  Qed.

  Lemma obj_after_nesting : forall k fuel' acc s v s',
    (forall acc s v s', (maxo acc <= n)%nat -> k acc s = (Ok, v, s') -> (nesting v <= S n)%nat) ->
    (maxo acc <= n)%nat -> obj_after cf k fuel' acc s = (Ok, v, s') -> (nesting v <= S n)%nat.
  Proof.
    intros k fuel' acc s v s' Hk Ha H. unfold obj_after in H.
    destruct (skip_spaces cf fuel' s) as [e1 s1]. destruct e1; try discriminate H.
    destruct (eat 125 s1) as [b s2]. destruct b.
    - inversion H; subst. rewrite nesting_obj. lia.
    - destruct (eat 44 s2) as [b s3]. destruct b; cbn [negb] in H; [|discriminate H].
      destruct (skip_spaces cf fuel' s3) as [e4 s4]. destruct e4; try discriminate H.
      eapply Hk; eauto.
  Qed.

  Lemma object_loop_nesting : forall fuel f acc s v s',
    (maxo acc <= n)%nat -> object_loop cf pv sv fuel f acc s = (Ok, v, s') ->
    (nesting v <= S n)%nat.
  Proof.
    induction fuel as [|fuel' IH]; intros f acc s v s' Ha H.
    - discriminate H.
    - rewrite object_loop_S in H.
      destruct (parse_key cf fuel' s) as [[e1 key] s1]. destruct e1; try discriminate H.
      destruct (skip_spaces cf fuel' s1) as [e2 s2]. destruct e2; try discriminate H.
      destruct (eat 58 s2) as [b s3]. destruct b; cbn [negb] in H; [|discriminate H].
      destruct (f_allow (f_member f key)).
      + destruct (pv (f_member f key) s3) as [[e4 v4] s4] eqn:E4.
        destruct e4; try discriminate H.
        eapply obj_after_nesting; [| |exact H].
        * intros; eapply IH; eauto.
        * apply maxo_set; [exact Ha|]. eapply Hpv; eauto.
      + destruct (sv s3) as [e4 s4]. destruct e4; try discriminate H.
        eapply obj_after_nesting; [| |exact H]; [|exact Ha].
        intros; eapply IH; eauto.
  Qed.
End Nest.

Lemma lift_ok_nesting : forall r v s', lift r = (Ok, v, s') -> nesting v = 0%nat.
Proof. intros [e s] v s' H. unfold lift in H. inversion H; subst. reflexivity. Qed.

Lemma parse_numeric_value_nesting : forall cf s e v s',
  parse_numeric_value cf s = (e, v, s') -> nesting v = 0%nat.
Proof.
  intros cf s e v s' H. unfold parse_numeric_value in H.
  destruct (scan_number cf 63 [] s) as [buf s1].
  destruct (parse_number cf buf) as [ | |z|z|x|x]; cbn [jv_of_number] in H;
    try (inversion H; subst; reflexivity).
  inversion H; subst. unfold jv_of_double.
  destruct (use_double cf); [destruct (FloatModel.f_eq _ _)|]; reflexivity.
Qed.

Lemma pv_scalar_nesting : forall cf fuel f c s e v s',
  pv_scalar cf fuel f c s = (e, v, s') -> nesting v = 0%nat.
Proof.
  intros cf fuel f c s e v s' H. unfold pv_scalar in H.
  destruct (is_quote c).
  { destruct (f_allow_value f).
    - destruct (parse_quoted_string cf fuel s) as [[e1 str] s1].
      destruct e1; inversion H; subst; reflexivity.
    - destruct (skip_quoted_string fuel s) as [e1 s1]. inversion H; subst; reflexivity. }
  destruct (c =? 116).
  { destruct (skip_keyword kw_true s) as [e1 s1]. inversion H; subst.
    destruct (f_allow_value f); reflexivity. }
  destruct (c =? 102).
  { destruct (skip_keyword kw_false s) as [e1 s1]. inversion H; subst.
    destruct (f_allow_value f); reflexivity. }
  destruct (c =? 110).
  { destruct (skip_keyword kw_null s) as [e1 s1]. inversion H; subst; reflexivity. }
  destruct (f_allow_value f).
  - eapply parse_numeric_value_nesting; eauto.
  - destruct (skip_numeric_loop cf fuel s) as [e1 s1]. inversion H; subst; reflexivity.
Qed.

Lemma pv_body_nesting : forall cf fuel deep pv' sv' sk n f s v s',
  (forall f s v s', pv' f s = (Ok, v, s') -> (nesting v <= n)%nat) ->
  pv_body cf fuel deep pv' sv' sk f s = (Ok, v, s') ->
  (nesting v <= (if deep then 0 else S n))%nat.
Proof.
  intros cf fuel deep pv' sv' sk n f s v s' Hpv H. unfold pv_body in H.
  destruct (skip_spaces cf fuel s) as [e1 s1]. destruct e1; try discriminate H.
  destruct (current s1) as [c s2].
  destruct (c =? 91).
  { destruct (f_allow_array f).
    - destruct deep; [discriminate H|].
      destruct (skip_spaces cf fuel (move s2)) as [e3 s3]. destruct e3; try discriminate H.
      destruct (eat 93 s3) as [b s4]. destruct b.
      + inversion H; subst. rewrite nesting_arr. unfold maxn; cbn [fold_right]. lia.
      + eapply array_loop_nesting; [exact Hpv| |exact H]. unfold maxn; cbn [fold_right]. lia.
    - apply lift_ok_nesting in H. rewrite H. lia. }
  destruct (c =? 123).
  { destruct (f_allow_object f).
    - destruct deep; [discriminate H|].
      destruct (skip_spaces cf fuel (move s2)) as [e3 s3]. destruct e3; try discriminate H.
      destruct (eat 125 s3) as [b s4]. destruct b.
      + inversion H; subst. rewrite nesting_obj. unfold maxo; cbn [fold_right]. lia.
      + eapply object_loop_nesting; [exact Hpv| |exact H]. unfold maxo; cbn [fold_right]. lia.
    - apply lift_ok_nesting in H. rewrite H. lia. }
  apply pv_scalar_nesting in H. rewrite H. lia.
Qed.

Theorem ok_nesting_le : forall cf fuel L f s v s',
  parse_variant cf fuel L f s = (Ok, v, s') -> (nesting v <= L)%nat.
Proof.
  intros cf fuel L. induction L as [|L IH]; intros f s v s' H; rewrite parse_variant_body in H.
  - apply (pv_body_nesting _ _ _ _ _ _ 0%nat) in H; [exact H|].
    intros f0 s0 v0 s0' H0. discriminate H0.
  - apply (pv_body_nesting _ _ _ _ _ _ L) in H; [exact H|].
    intros f0 s0 v0 s0' H0. eapply IH; exact H0.
Qed.

(* (4) the same for json_run *)
Theorem json_run_ok_nesting : forall cf f L i,
  j_err (json_run cf f L i) = Ok -> (nesting (j_doc (json_run cf f L i)) <= L)%nat.
Proof.
  intros cf f L i. unfold json_run.
  destruct (parse_variant cf (json_fuel i) L f (ps_init i)) as [[e v] s] eqn:E.
  cbn [j_err j_doc]. intro H.
  destruct e; try discriminate H.
  eapply ok_nesting_le; exact E.
Qed.

(* ------------------------------------------------------------------------------------- *)
(* (2) raising the limit never changes a result that was not TooDeep *)

Section Mono.
  Variable cf : cfg.
  Variables pv pv2 : filter -> ps -> code * jv * ps.
  Variables sv sv2 : ps -> code * ps.
  Hypothesis Hpv : forall f s e v s',
    pv f s = (e, v, s') -> e <> TooDeep -> pv2 f s = (e, v, s').
  Hypothesis Hsv : forall s e s',
    sv s = (e, s') -> e <> TooDeep -> sv2 s = (e, s').

  Lemma arr_step_mono : forall k k2 fuel' acc s e v s',
    (forall acc s e v s', k acc s = (e, v, s') -> e <> TooDeep -> k2 acc s = (e, v, s')) ->
    arr_step cf k fuel' acc s = (e, v, s') -> e <> TooDeep ->
    arr_step cf k2 fuel' acc s = (e, v, s').
  Proof.
    intros k k2 fuel' acc s e v s' Hk H Hne. unfold arr_step in *.
    destruct (skip_spaces cf fuel' s) as [e1 s1]. destruct e1; try exact H.
    destruct (eat 93 s1) as [b s2]. destruct b; [exact H|].
    destruct (eat 44 s2) as [b s3]. destruct b; [|exact H].
    apply Hk; assumption.
  Qed.

  Lemma array_loop_mono : forall fuel ef acc s e v s',
    array_loop cf pv sv fuel ef acc s = (e, v, s') -> e <> TooDeep ->
    array_loop cf pv2 sv2 fuel ef acc s = (e, v, s').
  Proof.
    induction fuel as [|fuel' IH]; intros ef acc s e v s' H Hne.
    - exact H.
    - rewrite array_loop_S in *. destruct (f_allow ef).
      + destruct (pv ef s) as [[e1 v1] s1] eqn:E1.
        destruct e1;
          try (inversion H; subst; rewrite (Hpv _ _ _ _ _ E1 Hne); reflexivity).
        rewrite (Hpv _ _ _ _ _ E1) by discriminate.
        eapply arr_step_mono; [|exact H|exact Hne]. intros; apply IH; assumption.
      + destruct (sv s) as [e1 s1] eqn:E1.
        destruct e1;
          try (inversion H; subst; rewrite (Hsv _ _ _ E1 Hne); reflexivity).
        rewrite (Hsv _ _ _ E1) by discriminate.
        eapply arr_step_mono; [|exact H|exact Hne]. intros; apply IH; assumption.
  Qed.

  Lemma sarr_step_mono : forall k k2 fuel' s e s',
    (forall s e s', k s = (e, s') -> e <> TooDeep -> k2 s = (e, s')) ->
    sarr_step cf k fuel' s = (e, s') -> e <> TooDeep ->
    sarr_step cf k2 fuel' s = (e, s').
  Proof.
    intros k k2 fuel' s e s' Hk H Hne. unfold sarr_step in *.
    destruct (skip_spaces cf fuel' s) as [e1 s1]. destruct e1; try exact H.
    destruct (eat 93 s1) as [b s2]. destruct b; [exact H|].
    destruct (eat 44 s2) as [b s3]. destruct b; [|exact H].
    apply Hk; assumption.
  Qed.

  Lemma skip_array_loop_mono : forall fuel s e s',
    skip_array_loop cf sv fuel s = (e, s') -> e <> TooDeep ->
    skip_array_loop cf sv2 fuel s = (e, s').
  Proof.
    induction fuel as [|fuel' IH]; intros s e s' H Hne.
    - exact H.
    - rewrite skip_array_loop_S in *.
      destruct (sv s) as [e1 s1] eqn:E1.
      destruct e1;
        try (inversion H; subst; rewrite (Hsv _ _ _ E1 Hne); reflexivity).
      rewrite (Hsv _ _ _ E1) by discriminate.
      eapply sarr_step_mono; [|exact H|exact Hne]. intros; apply IH; assumption.
  Qed.

  Lemma obj_after_mono : forall k k2 fuel' acc s e v s',
    (forall acc s e v s', k acc s = (e, v, s') -> e <> TooDeep -> k2 acc s = (e, v, s')) ->
    obj_after cf k fuel' acc s = (e, v, s') -> e <> TooDeep ->
    obj_after cf k2 fuel' acc s = (e, v, s').
  Proof.
    intros k k2 fuel' acc s e v s' Hk H Hne. unfold obj_after in *.
    destruct (skip_spaces cf fuel' s) as [e1 s1]. destruct e1; try exact H.
    destruct (eat 125 s1) as [b s2]. destruct b; [exact H|].
    destruct (eat 44 s2) as [b s3]. destruct b; cbn [negb] in *; [|exact H].
    destruct (skip_spaces cf fuel' s3) as [e4 s4]. destruct e4; try exact H.
    apply Hk; assumption.
  Qed.

  Lemma object_loop_mono : forall fuel f acc s e v s',
    object_loop cf pv sv fuel f acc s = (e, v, s') -> e <> TooDeep ->
    object_loop cf pv2 sv2 fuel f acc s = (e, v, s').
  Proof.
    induction fuel as [|fuel' IH]; intros f acc s e v s' H Hne.
    - exact H.
    - rewrite object_loop_S in *.
      destruct (parse_key cf fuel' s) as [[e1 key] s1]. destruct e1; try exact H.
      destruct (skip_spaces cf fuel' s1) as [e2 s2]. destruct e2; try exact H.
      destruct (eat 58 s2) as [b s3]. destruct b; cbn [negb] in *; [|exact H].
      destruct (f_allow (f_member f key)).
      + destruct (pv (f_member f key) s3) as [[e4 v4] s4] eqn:E4.
        destruct e4;
          try (inversion H; subst; rewrite (Hpv _ _ _ _ _ E4 Hne); reflexivity).
        rewrite (Hpv _ _ _ _ _ E4) by discriminate.
        eapply obj_after_mono; [|exact H|exact Hne]. intros; apply IH; assumption.
      + destruct (sv s3) as [e4 s4] eqn:E4.
        destruct e4;
          try (inversion H; subst; rewrite (Hsv _ _ _ E4 Hne); reflexivity).
        rewrite (Hsv _ _ _ E4) by discriminate.
        eapply obj_after_mono; [|exact H|exact Hne]. intros; apply IH; assumption.
  Qed.

  Lemma sobj_after_mono : forall k k2 fuel' s e s',
    (forall s e s', k s = (e, s') -> e <> TooDeep -> k2 s = (e, s')) ->
    sobj_after cf k fuel' s = (e, s') -> e <> TooDeep ->
    sobj_after cf k2 fuel' s = (e, s').
  Proof.
    intros k k2 fuel' s e s' Hk H Hne. unfold sobj_after in *.
    destruct (skip_spaces cf fuel' s) as [e1 s1]. destruct e1; try exact H.
    destruct (eat 125 s1) as [b s2]. destruct b; [exact H|].
    destruct (eat 44 s2) as [b s3]. destruct b; cbn [negb] in *; [|exact H].
    destruct (skip_spaces cf fuel' s3) as [e4 s4]. destruct e4; try exact H.
    apply Hk; assumption.
  Qed.

  Lemma skip_object_loop_mono : forall fuel s e s',
    skip_object_loop cf sv fuel s = (e, s') -> e <> TooDeep ->
    skip_object_loop cf sv2 fuel s = (e, s').
  Proof.
    induction fuel as [|fuel' IH]; intros s e s' H Hne.
    - exact H.
    - rewrite skip_object_loop_S in *.
      destruct (skip_key fuel' s) as [e1 s1]. destruct e1; try exact H.
      destruct (skip_spaces cf fuel' s1) as [e2 s2]. destruct e2; try exact H.
      destruct (eat 58 s2) as [b s3]. destruct b; cbn [negb] in *; [|exact H].
      destruct (sv s3) as [e4 s4] eqn:E4.
      destruct e4;
        try (inversion H; subst; rewrite (Hsv _ _ _ E4 Hne); reflexivity).
      rewrite (Hsv _ _ _ E4) by discriminate.
      eapply sobj_after_mono; [|exact H|exact Hne]. intros; apply IH; assumption.
  Qed.

  Lemma sv_body_mono : forall fuel deep deep2 s e s',
    (deep = false -> deep2 = false) ->
    sv_body cf fuel deep sv s = (e, s') -> e <> TooDeep ->
    sv_body cf fuel deep2 sv2 s = (e, s').
  Proof.
    intros fuel deep deep2 s e s' Hd H Hne. unfold sv_body in *.
    destruct (skip_spaces cf fuel s) as [e1 s1]. destruct e1; try exact H.
    destruct (current s1) as [c s2].
    destruct (c =? 91).
    { destruct deep.
      - inversion H; subst. exfalso; apply Hne; reflexivity.
      - rewrite (Hd eq_refl). apply skip_array_loop_mono; assumption. }
    destruct (c =? 123).
    { destruct deep.
      - inversion H; subst. exfalso; apply Hne; reflexivity.
      - rewrite (Hd eq_refl).
        destruct (skip_spaces cf fuel (move s2)) as [e3 s3]. destruct e3; try exact H.
        destruct (eat 125 s3) as [b s4]. destruct b; [exact H|].
        apply skip_object_loop_mono; assumption. }
    exact H.
  Qed.

  Lemma lift_mono : forall (sk sk2 : ps -> code * ps) s e v s',
    (forall s e s', sk s = (e, s') -> e <> TooDeep -> sk2 s = (e, s')) ->
    lift (sk s) = (e, v, s') -> e <> TooDeep -> lift (sk2 s) = (e, v, s').
  Proof.
    intros sk sk2 s e v s' Hsk H Hne.
    destruct (sk s) as [e1 s1] eqn:E1. unfold lift in H. inversion H; subst.
    rewrite (Hsk _ _ _ E1 Hne). reflexivity.
  Qed.

  Lemma pv_body_mono : forall fuel deep deep2 sk sk2 f s e v s',
    (deep = false -> deep2 = false) ->
    (forall s e s', sk s = (e, s') -> e <> TooDeep -> sk2 s = (e, s')) ->
    pv_body cf fuel deep pv sv sk f s = (e, v, s') -> e <> TooDeep ->
    pv_body cf fuel deep2 pv2 sv2 sk2 f s = (e, v, s').
  Proof.
    intros fuel deep deep2 sk sk2 f s e v s' Hd Hsk H Hne. unfold pv_body in *.
    destruct (skip_spaces cf fuel s) as [e1 s1]. destruct e1; try exact H.
    destruct (current s1) as [c s2].
    destruct (c =? 91).
    { destruct (f_allow_array f).
      - destruct deep.
        + inversion H; subst. exfalso; apply Hne; reflexivity.
        + rewrite (Hd eq_refl).
          destruct (skip_spaces cf fuel (move s2)) as [e3 s3]. destruct e3; try exact H.
          destruct (eat 93 s3) as [b s4]. destruct b; [exact H|].
          apply array_loop_mono; assumption.
      - eapply lift_mono; eassumption. }
    destruct (c =? 123).
    { destruct (f_allow_object f).
      - destruct deep.
        + inversion H; subst. exfalso; apply Hne; reflexivity.
        + rewrite (Hd eq_refl).
          destruct (skip_spaces cf fuel (move s2)) as [e3 s3]. destruct e3; try exact H.
          destruct (eat 125 s3) as [b s4]. destruct b; [exact H|].
          apply object_loop_mono; assumption.
      - eapply lift_mono; eassumption. }
    exact H.
  Qed.
End Mono.

Lemma deepL_le : forall L L', (L <= L')%nat -> deepL L = false -> deepL L' = false.
Proof. intros L L' Hle H. destruct L; [discriminate H|]. destruct L'; [lia|reflexivity]. Qed.

Theorem limit_monotone_skip : forall cf fuel L s e s',
  skip_variant cf fuel L s = (e, s') -> e <> TooDeep ->
  forall L', (L <= L')%nat -> skip_variant cf fuel L' s = (e, s').
Proof.
  intros cf fuel L. induction L as [|L IH]; intros s e s' H Hne L' Hle;
    rewrite skip_variant_body in *.
  - eapply sv_body_mono; [| |exact H|exact Hne].
    + intros s0 e0 s0' H0 Hne0. inversion H0; subst. exfalso; apply Hne0; reflexivity.
    + apply deepL_le; exact Hle.
  - destruct L' as [|L']; [lia|].
    eapply sv_body_mono; [| |exact H|exact Hne].
    + intros s0 e0 s0' H0 Hne0. cbn [svL] in *. eapply IH; [exact H0|exact Hne0|lia].
    + intros _; reflexivity.
Qed.

Theorem limit_monotone_parse : forall cf fuel L f s e v s',
  parse_variant cf fuel L f s = (e, v, s') -> e <> TooDeep ->
  forall L', (L <= L')%nat -> parse_variant cf fuel L' f s = (e, v, s').
Proof.
  intros cf fuel L. induction L as [|L IH]; intros f s e v s' H Hne L' Hle;
    rewrite parse_variant_body in *.
  - eapply pv_body_mono; [| | | |exact H|exact Hne].
    + intros f0 s0 e0 v0 s0' H0 Hne0. inversion H0; subst. exfalso; apply Hne0; reflexivity.
    + intros s0 e0 s0' H0 Hne0. inversion H0; subst. exfalso; apply Hne0; reflexivity.
    + apply deepL_le; exact Hle.
    + intros s0 e0 s0' H0 Hne0. eapply limit_monotone_skip; eassumption.
  - destruct L' as [|L']; [lia|].
    eapply pv_body_mono; [| | | |exact H|exact Hne].
    + intros f0 s0 e0 v0 s0' H0 Hne0. cbn [pvL] in *. eapply IH; [exact H0|exact Hne0|lia].
    + intros s0 e0 s0' H0 Hne0. cbn [svL] in *.
      eapply limit_monotone_skip; [exact H0|exact Hne0|lia].
    + intros _; reflexivity.
    + intros s0 e0 s0' H0 Hne0. eapply limit_monotone_skip; eassumption.
Qed.

(* ------------------------------------------------------------------------------------- *)
(* (3) a tower of L+1 opening brackets *)

(* 1 when a byte is latched (already counted in [reads] but not consumed) *)
Definition pend (s : ps) : N := match cur s with Some _ => 1 | None => 0 end.

Lemma current_91 : forall s t,
  good s -> stream s = 91 :: t ->
  exists s1, current s = (91, s1) /\ good s1 /\ stream s1 = 91 :: t /\ cur s1 = Some 91 /\
             reads s1 + pend s = reads s + 1.
Proof.
  intros s t G Hs. assert (Q : 91 <> 0) by lia.
  destruct (current_cons s 91 t G Hs Q) as (s1 & E & G1 & S1 & C1 & _).
  exists s1. split; [exact E|]. split; [exact G1|]. split; [exact S1|]. split; [exact C1|].
  unfold current in E. unfold stream in Hs. unfold pend.
  destruct (cur s) as [c|].
  - inversion E; subst. lia.
  - unfold load in E. rewrite Hs in E. inversion E; subst. cbn [reads]. lia.
Qed.

Lemma good_set_found : forall s, good s -> good (set_found s).
Proof. intros s G. exact G. Qed.

Lemma skip_spaces_91 : forall cf fuel s t,
  good s -> stream s = 91 :: t ->
  exists s1, skip_spaces cf (S fuel) s = (Ok, s1) /\ good s1 /\ stream s1 = 91 :: t /\
             cur s1 = Some 91 /\ reads s1 + pend s = reads s + 1.
Proof.
  intros cf fuel s t G Hs.
  destruct (current_91 s t G Hs) as (s1 & E & G1 & S1 & C1 & R1).
  exists (set_found s1). cbn [skip_spaces]. rewrite E.
  change (91 =? 0) with false. change (91 =? 32) with false. change (91 =? 9) with false.
  change (91 =? 13) with false. change (91 =? 10) with false. change (91 =? 47) with false.
  rewrite andb_false_r. cbn [orb].
  split; [reflexivity|]. split; [apply good_set_found; exact G1|].
  split; [exact S1|]. split; [exact C1|]. exact R1.
Qed.

Lemma current_latched : forall s c, cur s = Some c -> current s = (c, s).
Proof. intros s c H. unfold current. rewrite H. reflexivity. Qed.

Lemma tower_skip_gen : forall cf fuel r L s,
  (1 <= fuel)%nat -> good s -> stream s = repeat 91 (S L) ++ r ->
  exists s', skip_variant cf fuel L s = (TooDeep, s') /\
             reads s' + pend s = reads s + N.of_nat (S L).
Proof.
  intros cf fuel r L. induction L as [|L IH]; intros s Hf G Hs;
    destruct fuel as [|fuel0]; try lia;
    cbn [repeat app] in Hs;
    destruct (skip_spaces_91 cf fuel0 s _ G Hs) as (s1 & E1 & G1 & S1 & C1 & R1);
    rewrite skip_variant_body; unfold sv_body; rewrite E1, (current_latched _ _ C1);
    change (91 =? 91) with true; cbv iota; cbn [deepL].
  - exists s1. split; [reflexivity|]. lia.
  - destruct (move_cons s1 91 _ G1 C1 S1) as (G2 & S2 & C2 & _).
    destruct (IH (move s1) Hf G2 S2) as (s' & E' & R').
    rewrite skip_array_loop_S. cbn [svL]. rewrite E'.
    exists s'. split; [reflexivity|].
    unfold pend in R' at 1. rewrite C2 in R'. change (reads (move s1)) with (reads s1) in R'. lia.
Qed.

Lemma tower_parse_gen : forall cf fuel r L s,
  (1 <= fuel)%nat -> good s -> stream s = repeat 91 (S L) ++ r ->
  exists v s', parse_variant cf fuel L None s = (TooDeep, v, s') /\
               reads s' + pend s = reads s + N.of_nat (S L).
Proof.
  intros cf fuel r L. induction L as [|L IH]; intros s Hf G Hs;
    destruct fuel as [|fuel0]; try lia;
    cbn [repeat app] in Hs;
    destruct (skip_spaces_91 cf fuel0 s _ G Hs) as (s1 & E1 & G1 & S1 & C1 & R1);
    rewrite parse_variant_body; unfold pv_body; rewrite E1, (current_latched _ _ C1);
    change (91 =? 91) with true; cbv iota; cbn [deepL f_allow_array].
  - exists (JArr []), s1. split; [reflexivity|]. lia.
  - destruct (move_cons s1 91 _ G1 C1 S1) as (G2 & S2 & C2 & _).
    cbn [repeat app] in S2.
    destruct (skip_spaces_91 cf fuel0 (move s1) _ G2 S2) as (s3 & E3 & G3 & S3 & C3 & R3).
    rewrite E3. unfold eat at 1. rewrite (current_latched _ _ C3).
    change (91 =? 93) with false. cbv iota.
    rewrite array_loop_S. cbn [f_element f_allow pvL].
    destruct (IH s3 Hf G3 S3) as (v & s' & E' & R').
    rewrite E'. exists (JArr ([] ++ [v])), s'. split; [reflexivity|].
    unfold pend in R3 at 1. rewrite C2 in R3. change (reads (move s1)) with (reads s1) in R3.
    unfold pend in R' at 1. rewrite C3 in R'. lia.
Qed.

Theorem tower_too_deep : forall cf L fuel rest,
  (L + 2 < fuel)%nat ->
  let '(e, _, s') := parse_variant cf fuel L None (ps_init (repeat 91 (L + 1) ++ rest)) in
  e = TooDeep /\ reads s' = N.of_nat (L + 1).
Proof.
  intros cf L fuel rest Hf. rewrite Nat.add_1_r.
  assert (F1 : (1 <= fuel)%nat) by lia.
  destruct (tower_parse_gen cf fuel rest L (ps_init (repeat 91 (S L) ++ rest)) F1
              (good_init _) (stream_init _)) as (v & s' & E & R).
  rewrite E. split; [reflexivity|].
  unfold pend in R. cbn [ps_init cur reads] in R. lia.
Qed.

Theorem tower_too_deep_skip : forall cf L fuel rest,
  (L + 2 < fuel)%nat ->
  let '(e, s') := skip_variant cf fuel L (ps_init (repeat 91 (L + 1) ++ rest)) in
  e = TooDeep /\ reads s' = N.of_nat (L + 1).
Proof.
  intros cf L fuel rest Hf. rewrite Nat.add_1_r.
  assert (F1 : (1 <= fuel)%nat) by lia.
  destruct (tower_skip_gen cf fuel rest L (ps_init (repeat 91 (S L) ++ rest)) F1
              (good_init _) (stream_init _)) as (s' & E & R).
  rewrite E. split; [reflexivity|].
  unfold pend in R. cbn [ps_init cur reads] in R. lia.
Qed.

(* Optional generalisation: any filter that keeps the arrays of the tower at every level
   (e.g. [Some (JBool true)], or nested one-element array filters). *)
Fixpoint keeps_tower (f : filter) (n : nat) : Prop :=
  f_allow_array f = true /\
  match n with
  | O => True
  | S n' => f_allow (f_element f) = true /\ keeps_tower (f_element f) n'
  end.

Lemma tower_parse_gen_filter : forall cf fuel r L f s,
  (1 <= fuel)%nat -> keeps_tower f L -> good s -> stream s = repeat 91 (S L) ++ r ->
  exists v s', parse_variant cf fuel L f s = (TooDeep, v, s') /\
               reads s' + pend s = reads s + N.of_nat (S L).
Proof.
  intros cf fuel r L. induction L as [|L IH]; intros f s Hf K G Hs;
    destruct fuel as [|fuel0]; try lia;
    cbn [repeat app] in Hs;
    destruct (skip_spaces_91 cf fuel0 s _ G Hs) as (s1 & E1 & G1 & S1 & C1 & R1);
    rewrite parse_variant_body; unfold pv_body; rewrite E1, (current_latched _ _ C1);
    change (91 =? 91) with true; cbv iota; cbn [deepL];
    destruct K as (KA & K'); rewrite KA.
  - exists (JArr []), s1. split; [reflexivity|]. lia.
  - destruct K' as (KE & K'').
    destruct (move_cons s1 91 _ G1 C1 S1) as (G2 & S2 & C2 & _).
    cbn [repeat app] in S2.
    destruct (skip_spaces_91 cf fuel0 (move s1) _ G2 S2) as (s3 & E3 & G3 & S3 & C3 & R3).
    rewrite E3. unfold eat at 1. rewrite (current_latched _ _ C3).
    change (91 =? 93) with false. cbv iota.
    rewrite array_loop_S. rewrite KE. cbn [pvL].
    destruct (IH (f_element f) s3 Hf K'' G3 S3) as (v & s' & E' & R').
    rewrite E'. exists (JArr ([] ++ [v])), s'. split; [reflexivity|].
    unfold pend in R3 at 1. rewrite C2 in R3. change (reads (move s1)) with (reads s1) in R3.
    unfold pend in R' at 1. rewrite C3 in R'. lia.
Qed.

Theorem tower_too_deep_arrays : forall cf L fuel f rest,
  (L + 1 < fuel)%nat -> keeps_tower f L ->
  let '(e, _, s') := parse_variant cf fuel L f (ps_init (repeat 91 (L + 1) ++ rest)) in
  e = TooDeep /\ reads s' = N.of_nat (L + 1).
Proof.
  intros cf L fuel f rest Hf K. rewrite Nat.add_1_r.
  assert (F1 : (1 <= fuel)%nat) by lia.
  destruct (tower_parse_gen_filter cf fuel rest L f (ps_init (repeat 91 (S L) ++ rest)) F1 K
              (good_init _) (stream_init _)) as (v & s' & E & R).
  rewrite E. split; [reflexivity|].
  unfold pend in R. cbn [ps_init cur reads] in R. lia.
Qed.

(* the allow-all filter and the filter [true] keep every tower *)
Lemma keeps_tower_none : forall n, keeps_tower None n.
Proof.
  induction n as [|n IH]; cbn [keeps_tower f_allow_array f_element f_allow].
  - split; [reflexivity|exact I].
  - split; [reflexivity|]. split; [reflexivity|exact IH].
Qed.

Lemma keeps_tower_true : forall n, keeps_tower (Some (JBool true)) n.
Proof.
  induction n as [|n IH].
  - split; [reflexivity|exact I].
  - split; [reflexivity|]. split; [reflexivity|exact IH].
Qed.
